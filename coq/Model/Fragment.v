(* fileDecorator.fragment (decorator/decorator-fragment.go) on positioned go/ast trees:
   - addNodeFragments: the generic interpreter of the fragment table (Gen/FragTbl.v, translated
     from decorator-fragment-generated.go) with the cursor arithmetic of addDecorationFragment /
     addTokenFragment / addStringFragment / addBadFragment;
   - processFile: comment fragments, the avoid set (lines inside multi-line comments, raw strings
     and bad nodes), newline discovery on the FileSet's line table (with the one-position peek
     that recognises an empty line);
   - the stable sort by position;
   - the indent pass (startIndents / endIndents / comment indents).
   The output is the sorted fragment list Model/Link.v starts from.  Executable definitions only.
   Lines and columns are the physical ones (FileSet.PositionFor(pos, false), fix 8907ee9: //line
   directives play no role).  Not modelled: files of a FileSet other than the one being decorated. *)
From Coq Require Import List String ZArith NArith Bool.
Import ListNotations.
From DV Require Import Model.Tree Model.Tables Model.FragSkel Model.Link.
Local Open Scope string_scope.
Local Open Scope list_scope.
Local Open Scope Z_scope.

Inductive pfrag :=
| PDec (nid : N) (kind name : string)
| PTok (len : Z)
| PStr (len : Z) (nl : nat)           (* nl: the number of line breaks inside a raw string (0 for every other string) *)
| PBad (len : Z)
| PCom (d : dec)
| PNl (empty : bool).

Definition pitem := (Z * pfrag)%type.

Record fres := mkF { f_out : list pitem; f_cur : Z; f_err : bool }.
Definition fragfn := Z -> fres.

Inductive ftree := FT (t : tree) (fn : fragfn) (fkids : list (string * kid ftree)).
Definition ft_tree (f : ftree) := match f with FT t _ _ => t end.
Definition ft_fn (f : ftree) := match f with FT _ fn _ => fn end.
Definition ft_kids (f : ftree) := match f with FT _ _ k => k end.

Fixpoint fsub (fk : list (string * kid ftree)) (p : path) : option (kid ftree) :=
  match p with
  | [] => None
  | [f] => lookup fk f
  | f :: rest => match lookup fk f with
                 | Some (One (Some r)) => fsub (ft_kids r) rest
                 | _ => None
                 end
  end.

Fixpoint fval (t : tree) (fk : list (string * kid ftree)) (p : path) : option val :=
  match p with
  | [] => None
  | [f] => lookup (tvals t) f
  | f :: rest => match lookup fk f with
                 | Some (One (Some r)) => fval (ft_tree r) (ft_kids r) rest
                 | _ => None
                 end
  end.

Definition fkid_nil (k : option (kid ftree)) : bool :=
  match k with
  | Some (One (Some _)) => false
  | Some (Many (_ :: _)) => false
  | _ => true
  end.

Definition feval_cond (t : tree) (fk : list (string * kid ftree)) (c : cond) : option bool :=
  match c with
  | CTrue => Some true
  | CNotNil p => Some (negb (fkid_nil (fsub fk p)))
  | CIsNil p => Some (fkid_nil (fsub fk p))
  | CBool p => match fval t fk p with Some (VBool b) => Some b | _ => None end
  | CNotBool p => match fval t fk p with Some (VBool b) => Some (negb b) | _ => None end
  | CTokEq p s => match fval t fk p with Some (VTok x) => Some (String.eqb x s) | _ => None end
  | CTokNe p s => match fval t fk p with Some (VTok x) => Some (negb (String.eqb x s)) | _ => None end
  | CIntEq p z => match fval t fk p with Some (VInt x) => Some (Z.eqb x z) | _ => None end
  | CPosValid p => match fval t fk p with Some (VPos x) => Some (negb (Z.eqb x 0)) | _ => None end
  | CUnknown _ => None
  end.

Definition fslen (s : string) : Z := Z.of_nat (String.length s).

Fixpoint ftok_len (t : tree) (fk : list (string * kid ftree)) (x : tokx) : option Z :=
  match x with
  | TConst _ s => Some (fslen s)
  | TField p => match fval t fk p with Some (VTok s) => Some (fslen s) | _ => None end
  | TChoice c a b => match feval_cond t fk c with
                     | Some true => ftok_len t fk a
                     | Some false => ftok_len t fk b
                     | None => None
                     end
  | TUnknown _ => None
  end.

(* if pos.IsValid() { f.cursor = int(pos) } *)
Definition at_pos (t : tree) (fk : list (string * kid ftree)) (p : path) (cur : Z) : Z :=
  match p with
  | [] => cur
  | _ => match fval t fk p with Some (VPos x) => if Z.eqb x 0 then cur else x | _ => cur end
  end.

Definition ferr (r : fres) : fres := mkF (f_out r) (f_cur r) true.
Definition femit (r : fres) (pos : Z) (f : pfrag) (cur' : Z) : fres := mkF (f_out r ++ [(pos, f)]) cur' (f_err r).
Definition fthen (r : fres) (fn : fragfn) : fres :=
  let r' := fn (f_cur r) in mkF (f_out r ++ f_out r') (f_cur r') (f_err r || f_err r').

Fixpoint fstmt (t : tree) (fk : list (string * kid ftree)) (r : fres) (s : gstmt) : fres :=
  match s with
  | GDec owner name =>
    match owner with
    | [] => femit r (f_cur r) (PDec (tid t) (tkind t) name) (f_cur r)
    | _ => ferr r
    end
  | GTok x p =>
    match ftok_len t fk x with
    | Some l => let c := at_pos t fk p (f_cur r) in femit r c (PTok l) (c + l)
    | None => ferr r
    end
  | GStr v p =>
    match fval t fk v with
    | Some (VStr l nls _) => let c := at_pos t fk p (f_cur r) in
                             femit r c (PStr l (List.length nls)) (c + l)
    | _ => ferr r
    end
  | GBad from =>
    match fval t fk from, fval t fk ["To"] with
    | Some (VPos a), Some (VPos b) => let c := at_pos t fk from (f_cur r) in femit r c (PBad (b - a)) (c + (b - a))
    | _, _ => ferr r
    end
  | GNode p checked =>
    match fsub fk p with
    | Some (One (Some c)) => fthen r (ft_fn c)
    | Some (Many _) => ferr r                     (* ill-typed tree: a list where the Go field holds one node *)
    | _ => if checked then r else ferr r          (* addNodeFragments(nil): n.Pos() on a nil interface *)
    end
  | GList p =>
    match fsub fk p with
    | Some (Many l) => fold_left (fun r c => fthen r (ft_fn c)) l r
    | Some (One (Some _)) => ferr r               (* ill-typed tree: one node where the Go field holds a slice *)
    | _ => r
    end
  | GIf c body =>
    match feval_cond t fk c with
    | Some true => (fix go (l : list gstmt) (r : fres) : fres :=
                      match l with [] => r | x :: rest => go rest (fstmt t fk r x) end) body r
    | Some false => r
    | None => ferr r
    end
  | GUnknown _ => ferr r
  end.

Definition fnode (tbl : list (string * list gstmt)) (t : tree) (fk : list (string * kid ftree)) : fragfn :=
  fun cur =>
    (* if n.Pos().IsValid() { f.cursor = int(n.Pos()) }  -- n.Pos() is go/ast's: recorded by the dumper as "$Pos" *)
    let cur := match lookup (tvals t) "$Pos" with Some (VPos x) => if Z.eqb x 0 then cur else x | _ => cur end in
    match lookup tbl (tkind t) with
    | Some stmts => fold_left (fstmt t fk) stmts (mkF [] cur false)
    | None => mkF [] cur true
    end.

Fixpoint fbuild (tbl : list (string * list gstmt)) (t : tree) : ftree :=
  match t with
  | Node id k vals kids decs b a =>
    let fk := map (fun p => (fst p, match snd p with
                                    | One (Some c) => One (Some (fbuild tbl c))
                                    | One None => One None
                                    | Many l => Many (map (fbuild tbl) l)
                                    end)) kids in
    FT t (fnode tbl t fk) fk
  end.

Definition node_frags (tbl : list (string * list gstmt)) (t : tree) : fres := ft_fn (fbuild tbl t) 0.

(* ---- the FileSet's view of the file -------------------------------------------------------- *)
Record finfo := mkFI { fi_base : Z; fi_size : Z; fi_lines : list Z (* offsets of line starts, first 0 *) }.

Fixpoint count_le (ls : list Z) (off : Z) : Z :=
  match ls with [] => 0 | l :: r => if Z.leb l off then 1 + count_le r off else 0 end.

Definition in_file (fi : finfo) (pos : Z) : bool := Z.leb (fi_base fi) pos && Z.leb pos (fi_base fi + fi_size fi).

(* Fset.Position(pos).Line, 0 outside the file *)
Definition line_of (fi : finfo) (pos : Z) : Z := if in_file fi pos then count_le (fi_lines fi) (pos - fi_base fi) else 0.

Fixpoint line_start (ls : list Z) (off : Z) (cur : Z) : Z :=
  match ls with [] => cur | l :: r => if Z.leb l off then line_start r off l else cur end.

Definition col_of (fi : finfo) (pos : Z) : Z :=
  if in_file fi pos then (pos - fi_base fi) - line_start (fi_lines fi) (pos - fi_base fi) 0 + 1 else 0.

(* lines i+1 for startLine <= i < endLine *)
Definition span_avoid (fi : finfo) (pos len : Z) : list Z :=
  let s := line_of fi pos in
  let e := line_of fi (pos + len) in
  map (fun i => s + Z.of_nat i + 1) (seq 0 (Z.to_nat (e - s))).

Definition dec_len (d : dec) : Z := match d with DLine l _ | DBlock l _ _ | DOther l _ => l | DNl => 1 end.

Definition avoid_of (fi : finfo) (comments : list (Z * dec)) (nodes : list pitem) : list Z :=
  flat_map (fun c => match snd c with DBlock l _ _ => span_avoid fi (fst c) l | _ => [] end) comments ++
  flat_map (fun it => match snd it with
                      | PStr _ (S n) =>   (* endLine = startLine + strings.Count(s, "\n"): the length is no guide, the scanner strips CRs *)
                        let s := line_of fi (fst it) in map (fun i => s + Z.of_nat i + 1) (seq 0 (S n))
                      | PBad l => span_avoid fi (fst it) l
                      | _ => []
                      end) nodes.

(* the byte-by-byte loop over the file, driven by the line starts after the first *)
Fixpoint newlines (fi : finfo) (avoid : list Z) (rest : list Z) (k : Z) : list pitem :=
  match rest with
  | [] => []
  | o :: r =>
    if negb (Z.ltb o (fi_size fi)) then []
    else if existsb (Z.eqb k) avoid then newlines fi avoid r (k + 1)
    else
      match r with
      | o2 :: r2 =>
        if Z.eqb o2 (o + 1) && Z.ltb o (fi_size fi - 1)
        then (fi_base fi + o - 1, PNl true) :: newlines fi avoid r2 (k + 2)
        else (fi_base fi + o - 1, PNl false) :: newlines fi avoid r (k + 1)
      | [] => [(fi_base fi + o - 1, PNl false)]
      end
  end.

(* sort.SliceStable by position: insertion into a reversed sorted list, equal positions keep
   their order of arrival *)
Fixpoint ins_rev (x : pitem) (rl : list pitem) : list pitem :=
  match rl with
  | [] => [x]
  | y :: r => if Z.leb (fst y) (fst x) then x :: rl else y :: ins_rev x r
  end.

Definition stable_sort (l : list pitem) : list pitem := rev (fold_left (fun acc x => ins_rev x acc) l []).

Definition all_frags (tbl : list (string * list gstmt)) (fi : finfo) (t : tree) (comments : list (Z * dec)) : list pitem * bool :=
  let nf := node_frags tbl t in
  let nodes := f_out nf in
  let cf := map (fun c => (fst c, PCom (snd c))) comments in
  let avoid := avoid_of fi comments nodes in
  let nl := newlines fi avoid (tl (fi_lines fi)) 2 in
  (stable_sort (nodes ++ cf ++ nl), f_err nf).

(* ---- indents and the link model's fragments ------------------------------------------------- *)
Definition ends_line (f : pfrag) : bool := match f with PNl _ => true | PCom (DLine _ _) => true | _ => false end.

Fixpoint nget (m : list (N * Z)) (k : N) : Z := match m with [] => 0 | (k', v) :: r => if N.eqb k k' then v else nget r k end.

(* one pass: current indent, startIndents, endIndents, the fragments with comment indents *)
Fixpoint indent_pass (fi : finfo) (l : list pitem) (first : bool) (prev_nl : bool) (cur : Z)
         (st en : list (N * Z)) (acc : list (Z * pfrag * Z)) : list (N * Z) * list (N * Z) * list (Z * pfrag * Z) :=
  match l with
  | [] => (st, en, rev acc)
  | (pos, f) :: r =>
    let cur := if first || prev_nl then col_of fi pos else cur in
    let st' := match f with PDec nid _ "Start" => (nid, cur) :: st | _ => st end in
    let en' := match f with PDec nid _ "End" => (nid, cur) :: en | _ => en end in
    indent_pass fi r false (ends_line f) cur st' en' ((pos, f, cur) :: acc)
  end.

Definition mem_s (l : list string) (s : string) : bool := existsb (String.eqb s) l.

Definition classify (stmts decls : list string) (kind : string) : nclass :=
  mkNC (mem_s stmts kind) (mem_s decls kind) (String.eqb kind "LabeledStmt")
       (String.eqb kind "CaseClause" || String.eqb kind "CommClause").

Definition to_link (stmts decls : list string) (st en : list (N * Z)) (x : Z * pfrag * Z) : Z * frag :=
  match x with
  | (pos, PDec nid kind name, _) => (pos, FDec nid (classify stmts decls kind) name (nget st nid) (nget en nid))
  | (pos, PTok _, _) | (pos, PStr _ _, _) => (pos, FTok)
  | (pos, PBad _, _) => (pos, FBad)
  | (pos, PCom d, ind) => (pos, FCom d ind None)
  | (pos, PNl e, _) => (pos, FNl e None)
  end.

(* fragment(): the sorted list of positioned fragments link() starts from *)
Definition fragment (tbl : list (string * list gstmt)) (stmts decls : list string) (fi : finfo) (t : tree)
           (comments : list (Z * dec)) : list (Z * frag) * bool :=
  let '(sorted, err) := all_frags tbl fi t comments in
  let '(st, en, withind) := indent_pass fi sorted true false 0 [] [] [] in
  (map (to_link stmts decls st en) withind, err).
