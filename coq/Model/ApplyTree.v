(* dstutil.Apply as a traversal (no cursor edits): the frame of application.apply -- pre, the
   children the table of the node's kind names, post, with "pre returns false: skip children and
   post" and "post returns false: abort the whole traversal" -- interpreted over the child table
   re-extracted from dstutil/rewrite.go (Gen/ApplyTbl.v).  A nil single child still gets both
   callbacks (a.apply(n, "F", nil, n.F) runs the frame with a nil node) unless the table guards it.
   Executable definitions only. *)
From Coq Require Import List String ZArith NArith Bool.
Import ListNotations.
From DV Require Import Model.Tree Model.Tables.
Local Open Scope string_scope.
Local Open Scope list_scope.

(* who is called: a node, or the nil child in field f of parent p *)
Inductive akey := KNode (id : N) | KNil (parent : N) (field : string).

Inductive aev := APre (k : akey) (parent : N) (name : string) (index : Z) | APost (k : akey) | AStuck.

Record acb := mkCB { cb_pre : akey -> bool; cb_post : akey -> bool }.

(* result: the callback log and whether the traversal was aborted *)
Definition ares := (list aev * bool)%type.

(* combine the results of the steps in order until one aborts (the steps are pure: what comes
   after an abort is simply not looked at) *)
Fixpoint seq_until (steps : list ares) : ares :=
  match steps with
  | [] => ([], false)
  | (e, ab) :: r => if ab then (e, true) else let '(e2, ab2) := seq_until r in (e ++ e2, ab2)
  end.

Definition nil_frame (cb : acb) (parent : N) (name : string) : ares :=
  let k := KNil parent name in
  if negb (cb_pre cb k) then ([APre k parent name (-1)], false)
  else if cb_post cb k then ([APre k parent name (-1); APost k], false) else ([APre k parent name (-1); APost k], true).

Definition stuck : ares := ([AStuck], true).

Fixpoint number {A} (i : Z) (l : list (Z -> A)) : list A :=
  match l with [] => [] | f :: r => f i :: number (i + 1)%Z r end.

(* the steps one part of the table contributes, given the results of the children (as functions
   of the name and index the cursor shows for them) *)
Definition part_steps (cb : acb) (id : N) (rs : list (string * kid (string -> Z -> ares))) (a : apart) : list ares :=
  match a with
  | AOne lit field =>
    match lookup rs field with
    | Some (One (Some r)) => [r lit (-1)%Z]
    | Some (One None) => [nil_frame cb id lit]
    | _ => [stuck]
    end
  | AOneG lit field =>
    match lookup rs field with
    | Some (One (Some r)) => [r lit (-1)%Z]
    | Some (One None) => []
    | _ => [stuck]
    end
  | AMany lit =>
    match lookup rs lit with
    | Some (Many l) => number 0%Z (map (fun r => r lit) l)
    | _ => [stuck]
    end
  | APkgFiles =>
    match lookup rs "Files" with
    | Some (Many l) => map (fun r => r "Files" (-1)%Z) l
    | _ => [stuck]
    end
  | AUnknown _ => [stuck]
  end.

Definition frame (cb : acb) (key : akey) (parent : N) (name : string) (index : Z) (body : ares) : ares :=
  let '(evs, ab) := body in
  if ab then (APre key parent name index :: evs, true)
  else if cb_post cb key then (APre key parent name index :: evs ++ [APost key], false)
  else (APre key parent name index :: evs ++ [APost key], true).

Fixpoint apply_tree (tbl : list (string * list apart)) (cb : acb) (t : tree) (parent : N) (name : string) (index : Z) : ares :=
  match t with
  | Node id k _ kids _ _ _ =>
    let key := KNode id in
    if negb (cb_pre cb key) then ([APre key parent name index], false)
    else
      let rs := map (fun p => (fst p, match snd p with
                                      | One (Some c) => One (Some (apply_tree tbl cb c id))
                                      | One None => One None
                                      | Many l => Many (map (fun c => apply_tree tbl cb c id) l)
                                      end)) kids in
      frame cb key parent name index (seq_until (flat_map (part_steps cb id rs) (tbl_parts tbl (AUnknown "no case") k)))
  end.

(* Apply(root, pre, post): the root is applied under the synthetic parent (id 0) in field "Node" *)
Definition apply_root (tbl : list (string * list apart)) (cb : acb) (t : tree) : ares := apply_tree tbl cb t 0 "Node" (-1)%Z.

Definition key_eqb (a b : akey) : bool :=
  match a, b with
  | KNode x, KNode y => N.eqb x y
  | KNil p f, KNil q g => N.eqb p q && String.eqb f g
  | _, _ => false
  end.
