(* Evaluation of recorded files on the fragment model: the positioned go/ast tree, the comments
   and the line table go in; the sorted fragment list of the real fragment() is the expectation.
   Also the composition fragment ; link against the real decorations and spacing. *)
From Coq Require Import List String ZArith NArith Bool.
Import ListNotations.
From DV Require Import Model.Tree Model.Tables Model.FragSkel Model.Link Model.Fragment Model.CloneCases Model.WalkCases Model.LinkCases.
Local Open Scope list_scope.

Record fcase := mkFC {
  fc_tree : tree;
  fc_comments : list (Z * dec);
  fc_base : Z; fc_size : Z; fc_lines : list Z;
  fc_expect : list (Z * frag)
}.

Definition nclass_eqb (a b : nclass) : bool :=
  Bool.eqb (nc_stmt a) (nc_stmt b) && Bool.eqb (nc_decl a) (nc_decl b) &&
  Bool.eqb (nc_labeled a) (nc_labeled b) && Bool.eqb (nc_clause a) (nc_clause b).

Definition frag_eqb (a b : frag) : bool :=
  match a, b with
  | FDec n c m s e, FDec n' c' m' s' e' => N.eqb n n' && nclass_eqb c c' && String.eqb m m' && Z.eqb s s' && Z.eqb e e'
  | FTok, FTok | FBad, FBad => true
  | FCom d i None, FCom d' i' None => dec_eqb d d' && Z.eqb i i'
  | FNl e None, FNl e' None => Bool.eqb e e'
  | _, _ => false
  end.

Definition pfrag_eqb (a b : Z * frag) : bool := Z.eqb (fst a) (fst b) && frag_eqb (snd a) (snd b).

Definition run_fcase tbl stmts decls (c : fcase) : list (Z * frag) * bool :=
  fragment tbl stmts decls (mkFI (fc_base c) (fc_size c) (fc_lines c)) (fc_tree c) (fc_comments c).

Definition check_fcase tbl stmts decls (c : fcase) : bool :=
  let '(out, err) := run_fcase tbl stmts decls c in
  negb err && list_eqb pfrag_eqb out (fc_expect c).

Definition bad_fcases tbl stmts decls (cs : list fcase) : list nat := bad_idx (check_fcase tbl stmts decls) 0 cs.

(* first disagreement, for diagnosis *)
Fixpoint first_diff (n : nat) (a b : list (Z * frag)) : option (nat * option (Z * frag) * option (Z * frag)) :=
  match a, b with
  | [], [] => None
  | x :: a', y :: b' => if pfrag_eqb x y then first_diff (S n) a' b' else Some (n, Some x, Some y)
  | x :: _, [] => Some (n, Some x, None)
  | [], y :: _ => Some (n, None, Some y)
  end.
