(* decorateSelectorExpr / mergeDecorations (decorator/decorator.go): hand model.  A qualified
   identifier's SelectorExpr, X and Sel decorations and spacing are merged into the three
   decoration lists of one dst.Ident; line spacing becomes "\n" decorations.
   Executable definitions only. *)
From Coq Require Import List String ZArith NArith Bool.
Import ListNotations.
From DV Require Import Model.Tree.
Local Open Scope list_scope.

Inductive mitem := MDecs (ds : list dec) | MSpace (s : space).

Definition is_nl_dec (d : dec) : bool := match d with DNl | DLine _ _ => true | _ => false end.

Definition last_is_nl (ds : list dec) : bool :=
  match rev ds with d :: _ => is_nl_dec d | [] => false end.

(* mergeDecorations; [ends] is endsWithNewLine *)
Fixpoint merge (ends : bool) (items : list mitem) : list dec :=
  match items with
  | [] => []
  | MDecs [] :: r => merge ends r
  | MDecs ds :: r => ds ++ merge (last_is_nl ds) r
  | MSpace SNone :: r => merge ends r
  | MSpace SNewLine :: r => (if ends then [] else [DNl]) ++ merge true r
  | MSpace SEmptyLine :: r => (if ends then [DNl] else [DNl; DNl]) ++ merge true r
  end.

(* the thirteen slots of  {1}{2}{3}{4}[X].{5}{6}{7}{8}{9}[Sel]{10}{11}{12}{13} *)
Record slots := mkSlots {
  n_before : space; n_start : list dec; x_before : space; x_start : list dec;
  x_end : list dec; x_after : space; n_x : list dec; s_before : space; s_start : list dec;
  s_end : list dec; s_after : space; n_end : list dec; n_after : space
}.

Record ident_decs := mkID { i_before : space; i_start : list dec; i_x : list dec; i_end : list dec; i_after : space }.

Definition collapse (sl : slots) : ident_decs :=
  mkID (n_before sl)
       (merge false [MDecs (n_start sl); MSpace (x_before sl); MDecs (x_start sl)])
       (merge false [MDecs (x_end sl); MSpace (x_after sl); MDecs (n_x sl); MSpace (s_before sl); MDecs (s_start sl)])
       (merge false [MDecs (s_end sl); MSpace (s_after sl); MDecs (n_end sl)])
       (n_after sl).
