(* fileDecorator.decorateNode (decorator/decorator-node-generated.go) without a resolver: the
   generic interpreter of the decorator table (Gen/DecTbl.v) -- a dst tree is built from a go/ast
   tree and the attachment state link() computed (decorations per (node, point), Before / After
   per node).  Objects and scopes are not built here (C18); identifier paths stay empty (no
   resolver: C09).  Executable definitions only. *)
From Coq Require Import List String ZArith NArith Bool.
Import ListNotations.
From DV Require Import Model.Tree Model.Tables Model.Skeleton Model.FragSkel Model.Link.
Local Open Scope string_scope.
Local Open Scope list_scope.

Inductive dtree := DT (t : tree) (res : tree) (dk : list (string * kid dtree)).
Definition dt_tree (d : dtree) := match d with DT t _ _ => t end.
Definition dt_res (d : dtree) := match d with DT _ r _ => r end.
Definition dt_kids (d : dtree) := match d with DT _ _ k => k end.

Fixpoint dsub (dk : list (string * kid dtree)) (p : path) : option (kid dtree) :=
  match p with
  | [] => None
  | [f] => lookup dk f
  | f :: rest => match lookup dk f with
                 | Some (One (Some r)) => dsub (dt_kids r) rest
                 | _ => None
                 end
  end.

Fixpoint dval (t : tree) (dk : list (string * kid dtree)) (p : path) : option val :=
  match p with
  | [] => None
  | [f] => lookup (tvals t) f
  | f :: rest => match lookup dk f with
                 | Some (One (Some r)) => dval (dt_tree r) (dt_kids r) rest
                 | _ => None
                 end
  end.

(* functional updates of the tree under construction, through children created by NInit *)
Fixpoint upd {A} (l : list (string * A)) (k : string) (v : A) : list (string * A) :=
  match l with
  | [] => [(k, v)]
  | (k', v') :: r => if String.eqb k k' then (k, v) :: r else (k', v') :: upd r k v
  end.

Fixpoint set_val (t : tree) (p : path) (v : val) : tree :=
  match t with
  | Node id k vals kids decs b a =>
    match p with
    | [] => t
    | [f] => Node id k (upd vals f v) kids decs b a
    | f :: rest =>
      match lookup kids f with
      | Some (One (Some c)) => Node id k vals (upd kids f (One (Some (set_val c rest v)))) decs b a
      | _ => t
      end
    end
  end.

Fixpoint set_kid (t : tree) (p : path) (x : kid tree) : tree :=
  match t with
  | Node id k vals kids decs b a =>
    match p with
    | [] => t
    | [f] => Node id k vals (upd kids f x) decs b a
    | f :: rest =>
      match lookup kids f with
      | Some (One (Some c)) => Node id k vals (upd kids f (One (Some (set_kid c rest x)))) decs b a
      | _ => t
      end
    end
  end.

Definition set_space (t : tree) (after : bool) (s : space) : tree :=
  match t with Node id k vals kids decs b a => if after then Node id k vals kids decs b s else Node id k vals kids decs s a end.

Definition set_decs (t : tree) (d : list (string * list dec)) : tree :=
  match t with Node id k vals kids _ b a => Node id k vals kids d b a end.

Definition space_of (m : list (N * space)) (k : N) : space := match sget m k with Some s => s | None => SNone end.

Definition pos_valid (v : option val) : bool := match v with Some (VPos x) => negb (Z.eqb x 0) | _ => false end.

(* a new dst node has every decoration point of its kind, empty *)
Definition new_node (du : list (string * list string)) (id : N) (ty : string) : tree :=
  Node id ty [] [] (match lookup du ty with Some ps => map (fun p => (p, [])) ps | None => [] end) SNone SNone.

Definition upd_decs (t : tree) (p : string) (d : list dec) : tree :=
  match t with Node id k vals kids decs b a => Node id k vals kids (upd decs p d) b a end.

Definition dstmt (du : list (string * list string)) (att : lstate) (t : tree) (dk : list (string * kid dtree)) (acc : tree) (s : nstmt) : tree :=
  match s with
  | NSpace after => set_space acc after (space_of (if after then l_after att else l_before att) (tid t))
  | NInit p ty =>
    let id := match dsub dk p with Some (One (Some c)) => tid (dt_tree c) | _ => 0%N end in
    set_kid acc p (One (Some (new_node du id ty)))
  | NNode p o _ _ _ _ =>
    match dsub dk p with
    | Some (One (Some c)) => set_kid acc o (One (Some (dt_res c)))
    | _ => acc
    end
  | NList p o _ _ _ _ =>
    match dsub dk p with
    | Some (Many l) => set_kid acc o (Many (map dt_res l))
    | _ => acc
    end
  | NSet o v =>
    match v with
    | VCopy p => match dval t dk p with Some x => set_val acc o x | None => acc end
    | VValid p => set_val acc o (VBool (pos_valid (dval t dk p)))
    | VNoPos p => set_val acc o (VBool (negb (pos_valid (dval t dk p))))
    | VConst c => set_val acc o (VBool (String.eqb c "true"))
    | VExpr e =>
      if String.eqb e "int(n.To - n.From)" then
        match dval t dk ["To"], dval t dk ["From"] with
        | Some (VPos b), Some (VPos a) => set_val acc o (VInt (b - a))
        | _, _ => acc
        end
      else acc
    end
  | NDecs points => fold_left (fun acc p => upd_decs acc p (dget (l_decs att) (tid t, p))) points acc
  | _ => acc
  end.

Definition dnode (du : list (string * list string)) (tbl : list (string * list nstmt)) (att : lstate) (t : tree) (dk : list (string * kid dtree)) : tree :=
  match lookup tbl (tkind t) with
  | Some stmts => fold_left (dstmt du att t dk) stmts (new_node du (tid t) (tkind t))
  | None => Node (tid t) "?" [] [] [] SNone SNone
  end.

Fixpoint dbuild (du : list (string * list string)) (tbl : list (string * list nstmt)) (att : lstate) (t : tree) : dtree :=
  match t with
  | Node id k vals kids decs b a =>
    let dk := map (fun p => (fst p, match snd p with
                                    | One (Some c) => One (Some (dbuild du tbl att c))
                                    | One None => One None
                                    | Many l => Many (map (dbuild du tbl att) l)
                                    end)) kids in
    DT t (dnode du tbl att t dk) dk
  end.

Definition decorate (du : list (string * list string)) (tbl : list (string * list nstmt)) (att : lstate) (t : tree) : tree := dt_res (dbuild du tbl att t).

(* ---- table obligations about decorations ------------------------------------------------------ *)
(* every decoration point the fragment emitter offers for a kind is stored by that kind's
   decorateNode case (so a comment attached to (node, point) reaches the dst node), the
   decorations are stored after everything else (nothing overwrites them), and both spacings are
   stored *)
Definition nd_points (l : list nstmt) : list string := flat_map (fun s => match s with NDecs ps => ps | _ => [] end) l.

Definition decs_stored_last (l : list nstmt) : bool :=
  match rev l with
  | NReturn :: NDecs _ :: _ => true
  | _ => false
  end.

Definition stores_spacing (l : list nstmt) : bool :=
  existsb (fun s => match s with NSpace false => true | _ => false end) l &&
  existsb (fun s => match s with NSpace true => true | _ => false end) l.

Definition frag_point_names (l : list gstmt) : list string :=
  flat_map (fun s => match s with SkDec [] n => [n] | _ => [] end) (frag_skeleton l).

Definition decorate_stores_what_link_attaches (ft : list (string * list gstmt)) (dt : list (string * list nstmt)) (u : universe_t) : bool :=
  forallb (fun e =>
    String.eqb (fst e) "Package" ||
    match lookup ft (fst e), lookup dt (fst e) with
    | Some fs, Some ds =>
      forallb (fun n => existsb (String.eqb n) (nd_points ds)) (frag_point_names fs) &&
      decs_stored_last ds && stores_spacing ds
    | _, _ => false
    end) u.
