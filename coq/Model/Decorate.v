(* fileDecorator.decorateNode (decorator/decorator-node-generated.go) without a resolver: the
   generic interpreter of the decorator table (Gen/DecTbl.v) -- a dst tree is built from a go/ast
   tree and the attachment state link() computed (decorations per (node, point), Before / After
   per node).  Objects and scopes are not built here (C18); identifier paths stay empty (no
   resolver: C09).  Executable definitions only. *)
From Coq Require Import List String ZArith NArith Bool.
Import ListNotations.
From DV Require Import Model.Tree Model.Tables Model.Skeleton Model.FragSkel Model.Link.
Local Open Scope string_scope.
Local Open Scope list_scope.

Inductive dtree := DT (t : tree) (res : tree) (dk : list (string * kid dtree)).
Definition dt_tree (d : dtree) := match d with DT t _ _ => t end.
Definition dt_res (d : dtree) := match d with DT _ r _ => r end.
Definition dt_kids (d : dtree) := match d with DT _ _ k => k end.

Fixpoint dsub (dk : list (string * kid dtree)) (p : path) : option (kid dtree) :=
  match p with
  | [] => None
  | [f] => lookup dk f
  | f :: rest => match lookup dk f with
                 | Some (One (Some r)) => dsub (dt_kids r) rest
                 | _ => None
                 end
  end.

Fixpoint dval (t : tree) (dk : list (string * kid dtree)) (p : path) : option val :=
  match p with
  | [] => None
  | [f] => lookup (tvals t) f
  | f :: rest => match lookup dk f with
                 | Some (One (Some r)) => dval (dt_tree r) (dt_kids r) rest
                 | _ => None
                 end
  end.

(* functional updates of the tree under construction, through children created by NInit *)
Fixpoint upd {A} (l : list (string * A)) (k : string) (v : A) : list (string * A) :=
  match l with
  | [] => [(k, v)]
  | (k', v') :: r => if String.eqb k k' then (k, v) :: r else (k', v') :: upd r k v
  end.

Fixpoint set_val (t : tree) (p : path) (v : val) : tree :=
  match t with
  | Node id k vals kids decs b a =>
    match p with
    | [] => t
    | [f] => Node id k (upd vals f v) kids decs b a
    | f :: rest =>
      match lookup kids f with
      | Some (One (Some c)) => Node id k vals (upd kids f (One (Some (set_val c rest v)))) decs b a
      | _ => t
      end
    end
  end.

Fixpoint set_kid (t : tree) (p : path) (x : kid tree) : tree :=
  match t with
  | Node id k vals kids decs b a =>
    match p with
    | [] => t
    | [f] => Node id k vals (upd kids f x) decs b a
    | f :: rest =>
      match lookup kids f with
      | Some (One (Some c)) => Node id k vals (upd kids f (One (Some (set_kid c rest x)))) decs b a
      | _ => t
      end
    end
  end.

Definition set_space (t : tree) (after : bool) (s : space) : tree :=
  match t with Node id k vals kids decs b a => if after then Node id k vals kids decs b s else Node id k vals kids decs s a end.

Definition set_decs (t : tree) (d : list (string * list dec)) : tree :=
  match t with Node id k vals kids _ b a => Node id k vals kids d b a end.

Definition space_of (m : list (N * space)) (k : N) : space := match sget m k with Some s => s | None => SNone end.

Definition pos_valid (v : option val) : bool := match v with Some (VPos x) => negb (Z.eqb x 0) | _ => false end.

(* a new dst node has every decoration point of its kind, empty *)
Definition new_node (du : list (string * list string)) (id : N) (ty : string) : tree :=
  Node id ty [] [] (match lookup du ty with Some ps => map (fun p => (p, [])) ps | None => [] end) SNone SNone.

Definition upd_decs (t : tree) (p : string) (d : list dec) : tree :=
  match t with Node id k vals kids decs b a => Node id k vals kids (upd decs p d) b a end.

Definition dstmt (du : list (string * list string)) (att : lstate) (t : tree) (dk : list (string * kid dtree)) (acc : tree) (s : nstmt) : tree :=
  match s with
  | NSpace after => set_space acc after (space_of (if after then l_after att else l_before att) (tid t))
  | NInit p ty =>
    let id := match dsub dk p with Some (One (Some c)) => tid (dt_tree c) | _ => 0%N end in
    set_kid acc p (One (Some (new_node du id ty)))
  | NNode p o _ _ _ _ =>
    match dsub dk p with
    | Some (One (Some c)) => set_kid acc o (One (Some (dt_res c)))
    | _ => acc
    end
  | NList p o _ _ _ _ =>
    match dsub dk p with
    | Some (Many l) => set_kid acc o (Many (map dt_res l))
    | _ => acc
    end
  | NSet o v =>
    match v with
    | VCopy p => match dval t dk p with Some x => set_val acc o x | None => acc end
    | VValid p => set_val acc o (VBool (pos_valid (dval t dk p)))
    | VNoPos p => set_val acc o (VBool (negb (pos_valid (dval t dk p))))
    | VConst c => set_val acc o (VBool (String.eqb c "true"))
    | VExpr e =>
      if String.eqb e "int(n.To - n.From)" then
        match dval t dk ["To"], dval t dk ["From"] with
        | Some (VPos b), Some (VPos a) => set_val acc o (VInt (b - a))
        | _, _ => acc
        end
      else acc
    end
  | NDecs points => fold_left (fun acc p => upd_decs acc p (dget (l_decs att) (tid t, p))) points acc
  | _ => acc
  end.

Definition dnode (du : list (string * list string)) (tbl : list (string * list nstmt)) (att : lstate) (t : tree) (dk : list (string * kid dtree)) : tree :=
  match lookup tbl (tkind t) with
  | Some stmts => fold_left (dstmt du att t dk) stmts (new_node du (tid t) (tkind t))
  | None => Node (tid t) "?" [] [] [] SNone SNone
  end.

Fixpoint dbuild (du : list (string * list string)) (tbl : list (string * list nstmt)) (att : lstate) (t : tree) : dtree :=
  match t with
  | Node id k vals kids decs b a =>
    let dk := map (fun p => (fst p, match snd p with
                                    | One (Some c) => One (Some (dbuild du tbl att c))
                                    | One None => One None
                                    | Many l => Many (map (dbuild du tbl att) l)
                                    end)) kids in
    DT t (dnode du tbl att t dk) dk
  end.

Definition decorate (du : list (string * list string)) (tbl : list (string * list nstmt)) (att : lstate) (t : tree) : tree := dt_res (dbuild du tbl att t).

(* ---- table obligations about decorations ------------------------------------------------------ *)
(* every decoration point the fragment emitter offers for a kind is stored by that kind's
   decorateNode case (so a comment attached to (node, point) reaches the dst node), the
   decorations are stored after everything else (nothing overwrites them), and both spacings are
   stored *)
Definition nd_points (l : list nstmt) : list string := flat_map (fun s => match s with NDecs ps => ps | _ => [] end) l.

Definition decs_stored_last (l : list nstmt) : bool :=
  match rev l with
  | NReturn :: NDecs _ :: _ => true
  | _ => false
  end.

Definition stores_spacing (l : list nstmt) : bool :=
  existsb (fun s => match s with NSpace false => true | _ => false end) l &&
  existsb (fun s => match s with NSpace true => true | _ => false end) l.

Definition frag_point_names (l : list gstmt) : list string :=
  flat_map (fun s => match s with SkDec [] n => [n] | _ => [] end) (frag_skeleton l).

Definition decorate_stores_what_link_attaches (ft : list (string * list gstmt)) (dt : list (string * list nstmt)) (u : universe_t) : bool :=
  forallb (fun e =>
    String.eqb (fst e) "Package" ||
    match lookup ft (fst e), lookup dt (fst e) with
    | Some fs, Some ds =>
      forallb (fun n => existsb (String.eqb n) (nd_points ds)) (frag_point_names fs) &&
      decs_stored_last ds && stores_spacing ds
    | _, _ => false
    end) u.

(* ---- the same conversion, read declaratively ---------------------------------------------------- *)
(* decorateNode assigns every field of out exactly once (decs last); read as a record expression it
   is: values from the NSet statements, children from NNode / NList / NInit (an NInit child holds the
   values and children assigned through it), every decoration point of the kind with what link
   attached to (node, point), Before / After.  Both readings are corresponded against the real
   Decorator; the theorems about the dst tree use this one. *)
Definition set_value (t : tree) (dk : list (string * kid dtree)) (v : vsrc) : option val :=
  match v with
  | VCopy p => dval t dk p
  | VValid p => Some (VBool (pos_valid (dval t dk p)))
  | VNoPos p => Some (VBool (negb (pos_valid (dval t dk p))))
  | VConst c => Some (VBool (String.eqb c "true"))
  | VExpr e =>
    if String.eqb e "int(n.To - n.From)" then
      match dval t dk ["To"], dval t dk ["From"] with
      | Some (VPos b), Some (VPos a) => Some (VInt (b - a))
      | _, _ => None
      end
    else None
  end.

(* values / children assigned at out.<pre>.F for the given prefix *)
Definition vals_under (t : tree) (dk : list (string * kid dtree)) (pre : path) (stmts : list nstmt) : list (string * val) :=
  flat_map (fun s => match s with
                     | NSet o v => match o with
                                   | [f] => match pre with [] => match set_value t dk v with Some x => [(f, x)] | None => [] end | _ => [] end
                                   | [g; f] => match pre with [g'] => if String.eqb g g' then match set_value t dk v with Some x => [(f, x)] | None => [] end else [] | _ => [] end
                                   | _ => []
                                   end
                     | _ => []
                     end) stmts.

Definition kid_of_stmt (dk : list (string * kid dtree)) (s : nstmt) : option (path * kid tree) :=
  match s with
  | NNode p o _ _ _ _ => match dsub dk p with Some (One (Some c)) => Some (o, One (Some (dt_res c))) | _ => None end
  | NList p o _ _ _ _ => match dsub dk p with Some (Many l) => Some (o, Many (map dt_res l)) | _ => None end
  | NMapNodes [f] _ _ _ => match dsub dk [f] with Some (Many l) => Some ([f], Many (map dt_res l)) | _ => None end   (* Package.Files *)
  | _ => None
  end.

Definition kids_under (dk : list (string * kid dtree)) (pre : path) (stmts : list nstmt) : list (string * kid tree) :=
  flat_map (fun s => match kid_of_stmt dk s with
                     | Some ([f], x) => match pre with [] => [(f, x)] | _ => [] end
                     | Some ([g; f], x) => match pre with [g'] => if String.eqb g g' then [(f, x)] else [] | _ => [] end
                     | _ => []
                     end) stmts.

(* the children of out, in statement order: NInit [f] (a new node holding what is assigned through
   it), NNode / NList with out path [f] *)
Definition top_entry (du : list (string * list string)) (t : tree) (dk : list (string * kid dtree)) (stmts : list nstmt) (s : nstmt) : list (string * kid tree) :=
  match s with
  | NInit [f] ty =>
    let id := match dsub dk [f] with Some (One (Some c)) => tid (dt_tree c) | _ => 0%N end in
    [(f, One (Some (Node id ty (vals_under t dk [f] stmts) (kids_under dk [f] stmts)
                         (match lookup du ty with Some ps => map (fun p => (p, [])) ps | None => [] end) SNone SNone)))]
  | _ => match kid_of_stmt dk s with Some ([f], x) => [(f, x)] | _ => [] end
  end.

Definition kids_top du t dk (stmts : list nstmt) : list (string * kid tree) := flat_map (top_entry du t dk stmts) stmts.

Definition dnodeD (du : list (string * list string)) (tbl : list (string * list nstmt)) (att : lstate) (t : tree) (dk : list (string * kid dtree)) : tree :=
  match lookup tbl (tkind t) with
  | Some stmts =>
    let pts := nd_points stmts in
    Node (tid t) (tkind t) (vals_under t dk [] stmts) (kids_top du t dk stmts)
         (match lookup du (tkind t) with
          | Some ps => map (fun p => (p, if existsb (String.eqb p) pts then dget (l_decs att) (tid t, p) else [])) ps
          | None => []
          end)
         (if existsb (fun s => match s with NSpace false => true | _ => false end) stmts then space_of (l_before att) (tid t) else SNone)
         (if existsb (fun s => match s with NSpace true => true | _ => false end) stmts then space_of (l_after att) (tid t) else SNone)
  | None => Node (tid t) "?" [] [] [] SNone SNone
  end.

Fixpoint dbuildD (du : list (string * list string)) (tbl : list (string * list nstmt)) (att : lstate) (t : tree) : dtree :=
  match t with
  | Node id k vals kids decs b a =>
    let dk := map (fun p => (fst p, match snd p with
                                    | One (Some c) => One (Some (dbuildD du tbl att c))
                                    | One None => One None
                                    | Many l => Many (map (dbuildD du tbl att) l)
                                    end)) kids in
    DT t (dnodeD du tbl att t dk) dk
  end.

Definition decorateD (du : list (string * list string)) (tbl : list (string * list nstmt)) (att : lstate) (t : tree) : tree := dt_res (dbuildD du tbl att t).

(* ---- with an identifier resolver ------------------------------------------------------------------ *)
(* The paths the decorator computed (resolvePath: the resolver's answer filtered by the avoid table
   and vendor stripping, C09) are data here: ast node id -> path.  A SelectorExpr whose Sel resolves
   to a path is collapsed into one Ident (decorateSelectorExpr, with mergeDecorations = Model/Merge.v
   collapse); an Ident with a path carries it. *)
From DV Require Import Model.Merge.

Fixpoint path_of (paths : list (N * (Z * N))) (id : N) : option val :=
  match paths with
  | [] => None
  | (k, (l, u)) :: r => if N.eqb k id then Some (VStr l [] u) else path_of r id
  end.

Definition dnodeM (du : list (string * list string)) (tbl : list (string * list nstmt)) (att : lstate)
           (paths : list (N * (Z * N))) (t : tree) (dk : list (string * kid dtree)) : tree :=
  match path_of paths (tid t) with
  | Some pv =>
    if String.eqb (tkind t) "SelectorExpr" then
      match dsub dk ["X"], dsub dk ["Sel"] with
      | Some (One (Some x)), Some (One (Some sel)) =>
        let xi := tid (dt_tree x) in
        let si := tid (dt_tree sel) in
        let ni := tid t in
        let dd (i : N) (p : string) := dget (l_decs att) (i, p) in
        let c := collapse (mkSlots (space_of (l_before att) ni) (dd ni "Start") (space_of (l_before att) xi) (dd xi "Start")
                                   (dd xi "End") (space_of (l_after att) xi) (dd ni "X") (space_of (l_before att) si) (dd si "Start")
                                   (dd si "End") (space_of (l_after att) si) (dd ni "End") (space_of (l_after att) ni)) in
        Node ni "Ident"
             ((match lookup (tvals (dt_tree sel)) "Name" with Some v => [("Name", v)] | None => [] end) ++ [("Path", pv)])
             [] [("Start", i_start c); ("X", i_x c); ("End", i_end c)] (i_before c) (i_after c)
      | _, _ => dnodeD du tbl att t dk
      end
    else if String.eqb (tkind t) "Ident" then set_val (dnodeD du tbl att t dk) ["Path"] pv
    else dnodeD du tbl att t dk
  | None => dnodeD du tbl att t dk
  end.

Fixpoint dbuildM (du : list (string * list string)) (tbl : list (string * list nstmt)) (att : lstate)
         (paths : list (N * (Z * N))) (t : tree) : dtree :=
  match t with
  | Node id k vals kids decs b a =>
    let dk := map (fun p => (fst p, match snd p with
                                    | One (Some c) => One (Some (dbuildM du tbl att paths c))
                                    | One None => One None
                                    | Many l => Many (map (dbuildM du tbl att paths) l)
                                    end)) kids in
    DT t (dnodeM du tbl att paths t dk) dk
  end.

Definition decorateM du tbl att paths (t : tree) : tree := dt_res (dbuildM du tbl att paths t).
