(* Interpretations of the translated decision programs (Gen/DecisionSrc.v) over the abstract
   states of Model/Resolvers.v, and the finite enumerations of those states.  The obligations
   (Props/C09.v) evaluate: on every abstract state the translated source returns what the hand
   model returns.  Executable definitions only. *)
From Coq Require Import List String Bool.
Import ListNotations.
From DV Require Import Model.Resolvers Model.Decision.
Local Open Scope string_scope.
Local Open Scope list_scope.

Definition str_case {A} (x : string) (table : list (string * A)) (default : A) : A :=
  match find (fun e => String.eqb (fst e) x) table with Some e => snd e | None => default end.

Definition cross {A B} (la : list A) (lb : list B) : list (A * B) := flat_map (fun a => map (fun b => (a, b)) lb) la.

(* ---- gotypes.DecoratorResolver.ResolveIdent ------------------------------------------------------ *)
Record gstate := mkG { g_parent_sel : bool; g_field_sel : bool; g_x : xinfo; g_uses : option tobj }.

Definition g_occ (g : gstate) : occurrence :=
  mkOcc (if g_parent_sel g && g_field_sel g then Some (g_x g) else None) (g_uses g).


Definition gotypes_preds (g : gstate) : list (string * bool) := [
  ("nil(r.Uses)", false);
  ("is(parent,*ast.SelectorExpr)", g_parent_sel g);
  ("eq(parentField,""Sel"")", g_field_sel g);
  ("is(parent.(*ast.SelectorExpr).X,*ast.Ident)", match g_x g with XIdent _ => true | XNotIdent => false end);
  ("has(r.Uses,parent.(*ast.SelectorExpr).X.(*ast.Ident))", match g_x g with XIdent (Some _) => true | _ => false end);
  ("is(r.Uses[parent.(*ast.SelectorExpr).X.(*ast.Ident)],*types.PkgName)", match g_x g with XIdent (Some (TPkgName _ _)) => true | _ => false end);
  ("has(r.Uses,id)", match g_uses g with Some _ => true | None => false end);
  ("is(r.Uses[id],*types.Var)", match g_uses g with Some (TVar _ _) => true | _ => false end);
  ("true(r.Uses[id].(*types.Var).IsField())", match g_uses g with Some (TVar f _) => f | _ => false end);
  ("nil(r.Uses[id].Pkg())", match g_uses g with
                            | Some (TVar _ None) | Some (TOther None) | Some (TPkgName _ None) => true
                            | _ => false end)].

Definition gotypes_syms (g : gstate) : list (string * string) := [
  ("r.Uses[parent.(*ast.SelectorExpr).X.(*ast.Ident)].(*types.PkgName).Imported().Path()", match g_x g with XIdent (Some (TPkgName p _)) => p | _ => "?" end);
  ("r.Uses[id].Pkg().Path()", match g_uses g with
                              | Some (TVar _ (Some p)) | Some (TOther (Some p)) | Some (TPkgName _ (Some p)) => p
                              | _ => "?" end)].

Definition tobjs : list tobj :=
  [TPkgName "IMP" (Some "LOC"); TPkgName "IMP" None; TVar true (Some "PKG"); TVar true None; TVar false (Some "PKG"); TVar false None;
   TOther (Some "PKG"); TOther None].
Definition opt_tobjs : list (option tobj) := None :: map Some tobjs.
Definition xinfos : list xinfo := XNotIdent :: map XIdent opt_tobjs.
Definition gstates : list gstate :=
  flat_map (fun ps => flat_map (fun fs => flat_map (fun x => map (fun u => mkG ps fs x u) opt_tobjs) xinfos) [true; false]) [true; false].

Definition out_string (syms : list (string * string)) (o : dout) : string :=
  match o with
  | OReturn DEmpty => ""
  | OReturn (DVal s) => str_case s syms "<unknown value>"
  | OReturn DErr => "<error>"
  | OReturn DPanic => "<panic>"
  | OFall => "<falls through>"
  | OStuck => "<unknown statement>"
  end.

Definition gotypes_src_agrees (src : list dstmt) : bool :=
  vocabulary_ok (map fst (gotypes_preds (mkG true true XNotIdent None))) (map fst (gotypes_syms (mkG true true XNotIdent None))) src
  && forallb (fun g => String.eqb (out_string (gotypes_syms g) (run (fun p => str_case p (gotypes_preds g) false) src))
                                  (gotypes_resolve (g_occ g))) gstates.

(* ---- goast.DecoratorResolver.ResolveIdent -------------------------------------------------------- *)
(* abstract state: does the import scan fail; the shape of the site; the table *)
Record astate := mkA { a_scan_fails : bool; a_parent_sel : bool; a_field_sel : bool; a_x : option string; a_x_obj : bool; a_table : list (string * string) }.


Definition goast_preds (a : astate) : list (string * bool) := [
  ("fails(r.imports(file))", a_scan_fails a);
  ("is(parent,*ast.SelectorExpr)", a_parent_sel a);
  ("eq(parentField,""Sel"")", a_field_sel a);
  ("is(parent.(*ast.SelectorExpr).X,*ast.Ident)", match a_x a with Some _ => true | None => false end);
  ("nil(parent.(*ast.SelectorExpr).X.(*ast.Ident).Obj)", negb (a_x_obj a));
  ("has(r.imports(file),parent.(*ast.SelectorExpr).X.(*ast.Ident).Name)",
   match a_x a with Some n => existsb (fun e => String.eqb (fst e) n) (a_table a) | None => false end)].

Definition goast_syms (a : astate) : list (string * string) := [
  ("r.imports(file)[parent.(*ast.SelectorExpr).X.(*ast.Ident).Name]",
   match a_x a with Some n => match find (fun e => String.eqb (fst e) n) (a_table a) with Some e => snd e | None => "?" end | None => "?" end)].

Definition astates : list astate :=
  flat_map (fun sf => flat_map (fun ps => flat_map (fun fs => flat_map (fun x => flat_map (fun xo =>
    map (fun t => mkA sf ps fs x xo t) [[]; [("a", "P/a")]; [("b", "P/b"); ("a", "P/a")]])
    [true; false]) [None; Some "a"; Some "zz"]) [true; false]) [true; false]) [true; false].

Definition goast_model (a : astate) : string :=
  if a_scan_fails a then "<error>" else goast_resolve (a_table a) (a_parent_sel a && a_field_sel a) (a_x a) (a_x_obj a).

Definition goast_src_agrees (src : list dstmt) : bool :=
  vocabulary_ok (map fst (goast_preds (mkA false true true None false []))) (map fst (goast_syms (mkA false true true None false []))) src
  && forallb (fun a => String.eqb (out_string (goast_syms a) (run (fun p => str_case p (goast_preds a) false) src)) (goast_model a)) astates.

(* ---- fileDecorator.resolvePath -------------------------------------------------------------------- *)
Record pstate := mkP { p_force : bool; p_pf : string; p_type_expr : bool; p_resolver_fails : bool; p_raw : string; p_local : string; p_resolve_local : bool }.


Definition resolvepath_preds (p : pstate) : list (string * bool) := [
  ("nil(f.Resolver)", false);
  ("force", p_force p);
  ("true(avoid[parentName+"".""+parentField])", in_avoid (p_pf p));
  ("eq(parentFieldType,""Expr"")", p_type_expr p);
  ("fails(f.Resolver.ResolveIdent(file-of(id),parent,parentField,id))", p_resolver_fails p);
  ("true(f.ResolveLocalPath)", p_resolve_local p);
  ("eq(stripVendor(f.Resolver.ResolveIdent(file-of(id),parent,parentField,id)),stripVendor(f.Path))", String.eqb (strip_vendor (p_raw p)) (strip_vendor (p_local p)))].

Definition resolvepath_syms (p : pstate) : list (string * string) := [
  ("stripVendor(f.Resolver.ResolveIdent(file-of(id),parent,parentField,id))", strip_vendor (p_raw p))].

Definition pstates : list pstate :=
  flat_map (fun f => flat_map (fun pf => flat_map (fun te => flat_map (fun rf => flat_map (fun raw => flat_map (fun loc =>
    map (fun rl => mkP f pf te rf raw loc rl) [true; false])
    ["root/main"; "root/vendor/ext/v"; "ext/v"]) [""; "root/main"; "ext/v"; "root/vendor/ext/v"; "other/p"]) [true; false]) [true; false])
    ["SelectorExpr.Sel"; "Field.Names"; "CallExpr.Fun"; "BinaryExpr.X"]) [true; false].

(* the model has no error or panic: they are the harness's business (C15, C17); on the states where
   the source neither fails nor panics it must return the model's path *)
Definition resolvepath_model (p : pstate) : string :=
  if negb (p_force p) && negb (in_avoid (p_pf p)) && negb (p_type_expr p) then "<panic>"
  else if negb (negb (p_force p) && in_avoid (p_pf p)) && p_resolver_fails p then "<error>"
  else resolve_path (p_force p) (p_local p) (p_resolve_local p) (p_pf p) (p_raw p).

Definition resolvepath_src_agrees (src : list dstmt) : bool :=
  vocabulary_ok (map fst (resolvepath_preds (mkP false "" false false "" "" false))) (map fst (resolvepath_syms (mkP false "" false false "" "" false))) src
  && forallb (fun p => String.eqb (out_string (resolvepath_syms p) (run (fun q => str_case q (resolvepath_preds p) false) src)) (resolvepath_model p)) pstates.

(* ---- guess / simple ResolvePackage ------------------------------------------------------------------ *)
Definition pkgres_preds (m : list (string * string)) (p : string) : list (string * bool) := [
  ("has(r,importPath)", match map_get m p with Some _ => true | None => false end);
  ("true(strings.Contains(importPath,""/""))", contains_slash p)].

Definition pkgres_syms (m : list (string * string)) (p : string) : list (string * string) := [
  ("r[importPath]", match map_get m p with Some n => n | None => "?" end);
  ("importPath", p);
  ("importPath[strings.LastIndex(importPath, ""/"")+1:]", after_last_slash p)].

Definition pkgres_vocabulary_ok (src : list dstmt) : bool :=
  vocabulary_ok (map fst (pkgres_preds [] "")) (map fst (pkgres_syms [] "")) src.
