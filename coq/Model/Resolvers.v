(* Decorator resolvers (C09): hand models of gotypes.DecoratorResolver.ResolveIdent,
   goast.DecoratorResolver (imports + ResolveIdent) and fileDecorator.resolvePath /
   stripVendor (decorator/decorator.go).  Their source text is pinned by the translator
   (Gen/ResolverSrc.v).  Executable definitions only. *)
From Coq Require Import List String ZArith NArith Bool Ascii.
Import ListNotations.
Local Open Scope string_scope.
Local Open Scope list_scope.

(* what go/types' Info.Uses says about an identifier *)
Inductive tobj :=
| TPkgName (imported : string) (pkg : option string)  (* *types.PkgName; pkg = obj.Pkg().Path(): the importing package *)
| TVar (isfield : bool) (pkg : option string)     (* *types.Var; pkg = obj.Pkg().Path(), None for universe *)
| TOther (pkg : option string).                   (* func, type name, const, builtin, nil ... *)

Inductive xinfo := XNotIdent | XIdent (uses : option tobj).   (* the X of a SelectorExpr *)

Record occurrence := mkOcc {
  oc_sel_of : option xinfo;        (* Some x: the identifier is the Sel of a SelectorExpr with that X *)
  oc_uses : option tobj            (* Uses[id] *)
}.

(* gotypes.DecoratorResolver.ResolveIdent (Uses non-nil) *)
Definition gotypes_resolve (o : occurrence) : string :=
  match oc_sel_of o with
  | Some x =>
    match x with
    | XNotIdent => ""
    | XIdent None => ""
    | XIdent (Some (TPkgName p _)) => p
    | XIdent (Some _) => ""
    end
  | None =>
    match oc_uses o with
    | None => ""
    | Some (TVar true _) => ""
    | Some (TVar false (Some p)) | Some (TOther (Some p)) => p
    | Some (TPkgName _ (Some p)) => p  (* obj.Pkg() of a PkgName is the importing package: resolvePath suppresses it as local *)
    | Some _ => ""
    end
  end.

(* stripVendor *)
Fixpoint prefixb (p s : string) : bool :=
  match p, s with
  | EmptyString, _ => true
  | String a p', String b s' => Ascii.eqb a b && prefixb p' s'
  | _, _ => false
  end.

Fixpoint drop (n : nat) (s : string) : string :=
  match n, s with O, _ => s | S n', String _ r => drop n' r | _, EmptyString => EmptyString end.

(* index just after the LAST "/vendor/" *)
Fixpoint after_last_vendor (s : string) : option string :=
  match s with
  | EmptyString => None
  | String c r =>
    match after_last_vendor r with
    | Some t => Some t
    | None => if prefixb "/vendor/" s then Some (drop 8 s) else None
    end
  end.

Definition strip_vendor (path : string) : string :=
  match after_last_vendor path with
  | Some t => t
  | None => if prefixb "vendor/" path then drop 7 path else path
  end.

(* fileDecorator.resolvePath (force = false unless stated): avoid-listed fields never resolve *)
Definition avoid_list : list string :=
  ["Field.Names"; "LabeledStmt.Label"; "BranchStmt.Label"; "ImportSpec.Name"; "ValueSpec.Names"; "TypeSpec.Name";
   "FuncDecl.Name"; "File.Name"; "SelectorExpr.Sel"].

Definition in_avoid (parent_dot_field : string) : bool := existsb (String.eqb parent_dot_field) avoid_list.

Definition resolve_path (force : bool) (local : string) (resolve_local : bool) (parent_dot_field : string) (raw : string) : string :=
  if negb force && in_avoid parent_dot_field then ""
  else let p := strip_vendor raw in
       if negb resolve_local && String.eqb p (strip_vendor local) then "" else p.

(* ---- the semantic roles an identifier can play (what go/types tells about each is the
        assumption tied by the harness against the real type checker) ------------------------ *)
Inductive role :=
| Qualified (p : string)            (* Sel of pkg.Name, pkg a package name for import path p *)
| DotImported (p : string)          (* bare use of a package-level object of dot-imported p *)
| LocalPackageLevel                 (* package-level object of the package being decorated *)
| LocalVariable                     (* parameter, local variable, local type ... *)
| Universe                          (* int, len, nil ... *)
| FieldKey (p : option string)      (* key of a composite literal naming a (possibly embedded, possibly remote) field *)
| FieldOrMethodSel                  (* Sel of x.f / x.M() where x is not a package *)
| Label | Declaring.                (* not in Uses *)

Definition occurrence_of (local : string) (r : role) : occurrence :=
  match r with
  | Qualified p => mkOcc (Some (XIdent (Some (TPkgName p (Some local))))) (Some (TOther (Some p)))
  | DotImported p => mkOcc None (Some (TOther (Some p)))
  | LocalPackageLevel => mkOcc None (Some (TOther (Some local)))
  | LocalVariable => mkOcc None (Some (TVar false None))
  | Universe => mkOcc None (Some (TOther None))
  | FieldKey p => mkOcc None (Some (TVar true p))
  | FieldOrMethodSel => mkOcc (Some (XIdent (Some (TVar false None)))) (Some (TVar true None))
  | Label | Declaring => mkOcc None None
  end.

Definition expected_path (local : string) (r : role) : string :=
  match r with
  | Qualified p | DotImported p => if String.eqb (strip_vendor p) (strip_vendor local) then "" else strip_vendor p
  | _ => ""
  end.

(* ---- goast: imports table and ResolveIdent -------------------------------------------------- *)
Record ispec := mkISpec { is_path : string; is_name : string (* "" none, "_", ".", alias *) }.

Inductive goast_imports := GIError (why : string) | GIOk (m : list (string * string)).  (* name -> path *)

Fixpoint goast_scan (name_of : string -> option string) (specs : list ispec) (acc : list (string * string)) : goast_imports :=
  match specs with
  | [] => GIOk acc
  | s :: r =>
    if String.eqb (is_path s) "C" then goast_scan name_of r acc
    else if String.eqb (is_name s) "." then GIError "dot-import"
    else if String.eqb (is_name s) "_" then goast_scan name_of r acc
    else
      match (if String.eqb (is_name s) "" then name_of (is_path s) else Some (is_name s)) with
      | None => GIError "cannot resolve package name"
      | Some n =>
        if existsb (fun e => String.eqb (fst e) n) acc then GIError "multiple packages using one name"
        else goast_scan name_of r (acc ++ [(n, is_path s)])
      end
  end.

(* ResolveIdent: only the Sel of a selector whose X is an identifier the parser did not resolve
   to a local object *)
Definition goast_resolve (imports : list (string * string)) (is_sel : bool) (x_name : option string) (x_has_obj : bool) : string :=
  if negb is_sel then ""
  else match x_name with
       | None => ""
       | Some n => if x_has_obj then ""
                   else match find (fun e => String.eqb (fst e) n) imports with Some e => snd e | None => "" end
       end.

(* ---- the package-name resolvers of the library: guess and simple (maps path -> name) ----------- *)
Fixpoint contains_slash (s : string) : bool :=
  match s with EmptyString => false | String c r => Ascii.eqb c "/"%char || contains_slash r end.

(* importPath[strings.LastIndex(importPath, "/")+1:] *)
Fixpoint after_last_slash (s : string) : string :=
  match s with
  | EmptyString => EmptyString
  | String c r => if contains_slash r then after_last_slash r else if Ascii.eqb c "/"%char then r else s
  end.

Definition map_get (m : list (string * string)) (k : string) : option string :=
  match find (fun e => String.eqb (fst e) k) m with Some e => Some (snd e) | None => None end.

(* simple.RestorerResolver.ResolvePackage: the map entry, or ErrPackageNotFound *)
Definition simple_resolve (m : list (string * string)) (p : string) : option string := map_get m p.

(* guess.RestorerResolver.ResolvePackage: the map entry, else the last element of the path *)
Definition guess_resolve (m : list (string * string)) (p : string) : string :=
  match map_get m p with
  | Some n => n
  | None => if contains_slash p then after_last_slash p else p
  end.
