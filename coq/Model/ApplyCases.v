(* Evaluation of recorded dstutil.Apply callback logs on the traversal model. *)
From Coq Require Import List String ZArith NArith Bool.
Import ListNotations.
From DV Require Import Model.Tree Model.Tables Model.ApplyTree Model.WalkCases Proofs.ApplyWalk.
Local Open Scope string_scope.
Local Open Scope list_scope.

(* one run: the keys for which pre returns false, those for which post returns false, the log
   the real Apply produced, and whether it returned through the abort path *)
Record apply_run := mkAR { ar_pre_false : list akey; ar_post_false : list akey; ar_log : list aev; ar_aborted : bool }.

Definition apply_case := (tree * list apply_run)%type.

Definition mem_key (k : akey) (l : list akey) : bool := existsb (key_eqb k) l.

Definition aev_eqb (a b : aev) : bool :=
  match a, b with
  | APre k p n i, APre k' p' n' i' => key_eqb k k' && N.eqb p p' && String.eqb n n' && Z.eqb i i'
  | APost k, APost k' => key_eqb k k'
  | AStuck, AStuck => true
  | _, _ => false
  end.

Fixpoint aevs_eqb (a b : list aev) : bool :=
  match a, b with
  | [], [] => true
  | x :: a', y :: b' => aev_eqb x y && aevs_eqb a' b'
  | _, _ => false
  end.

(* (aligned_tree: the hypothesis of C14_pre_calls_follow_walk_order, evaluated on every tree of the run) *)
Definition check_apply_case (wt : wtable) (tbl : list (string * list apart)) (c : apply_case) : bool :=
  let '(t, runs) := c in
  aligned_tree wt tbl t &&
  forallb (fun r =>
    let cb := mkCB (fun k => negb (mem_key k (ar_pre_false r))) (fun k => negb (mem_key k (ar_post_false r))) in
    let '(evs, ab) := apply_root tbl cb t in
    aevs_eqb evs (ar_log r) && Bool.eqb ab (ar_aborted r)) runs.

Definition bad_apply_cases wt tbl (cs : list apply_case) : list nat := bad_idx (check_apply_case wt tbl) 0 cs.
