(* Evaluation of recorded runs of the real restorer on the restorer model. *)
From Coq Require Import List String ZArith NArith Bool.
Import ListNotations.
From DV Require Import Model.Tree Model.Tables Model.Restore Model.WalkCases.
Local Open Scope list_scope.

Record rcase := mkRC {
  rc_tree : tree;
  rc_base : Z;
  rc_managed : bool;
  rc_pkg : list (N * Z);                       (* path uid -> length of the chosen package name *)
  rc_panic : bool;                             (* the real restorer panicked *)
  rc_lines : list Z;
  rc_size : Z;
  rc_comments : list (N * list (Z * Z * N));   (* owner id (0: free), [(slash, len, uid)] *)
  rc_pos : list (list (path * Z))              (* by node id - 1: position fields of the restored ast node *)
}.

Fixpoint path_eqb (a b : path) : bool :=
  match a, b with
  | [], [] => true
  | x :: a', y :: b' => String.eqb x y && path_eqb a' b'
  | _, _ => false
  end.

Fixpoint lookup_path (l : list (path * Z)) (p : path) : option Z :=
  match l with
  | [] => None
  | (q, z) :: r => if path_eqb p q then Some z else lookup_path r p
  end.

Definition check_pos (real : list (list (path * Z))) (e : N * path * Z) : bool :=
  let '(id, p, z) := e in
  match nth_error real (N.to_nat id - 1) with
  | Some l => match lookup_path l p with Some z' => Z.eqb z z' | None => Z.eqb z 0 end
  | None => false
  end.

Definition nonzero (z : Z) : bool := negb (Z.eqb z 0).

Fixpoint zlist_eqb (a b : list Z) : bool :=
  match a, b with
  | [], [] => true
  | x :: a', y :: b' => Z.eqb x y && zlist_eqb a' b'
  | _, _ => false
  end.

Definition centry_eqb (a b : Z * Z * N) : bool :=
  match a, b with (p, l, u), (p', l', u') => Z.eqb p p' && Z.eqb l l' && N.eqb u u' end.

Fixpoint clist_eqb (a b : list (Z * Z * N)) : bool :=
  match a, b with
  | [], [] => true
  | x :: a', y :: b' => centry_eqb x y && clist_eqb a' b'
  | _, _ => false
  end.

Fixpoint groups_eqb (a : list cgroup) (b : list (N * list (Z * Z * N))) : bool :=
  match a, b with
  | [], [] => true
  | g :: a', (o, l) :: b' => N.eqb (g_owner g) o && clist_eqb (g_list g) l && groups_eqb a' b'
  | _, _ => false
  end.

Fixpoint lookupN (l : list (N * Z)) (k : N) : option Z :=
  match l with [] => None | (k', v) :: r => if N.eqb k k' then Some v else lookupN r k end.

Definition check_rcase (tbl : list (string * list rstmt)) (c : rcase) : bool :=
  match restore tbl (rc_managed c) (lookupN (rc_pkg c)) (rc_base c) (rc_tree c) with
  | Panic _ => rc_panic c
  | Ok r =>
    negb (rc_panic c)
    && zlist_eqb (r_lines r) (rc_lines c)
    && Z.eqb (r_size r) (rc_size c)
    && groups_eqb (r_comments r) (rc_comments c)
    && (let acts := flatten tbl (rc_managed c) (lookupN (rc_pkg c)) (rc_tree c) in
        safeb 0 acts && forallb act_okb acts)
    && forallb (check_pos (rc_pos c)) (r_poss r)
    && Nat.eqb (List.length (filter (fun e => nonzero (snd e)) (r_poss r)))
               (fold_right (fun l n => (List.length (filter (fun e => nonzero (snd e)) l) + n)%nat) 0%nat (rc_pos c))
  end.

Definition bad_rcases tbl (cs : list rcase) : list nat := bad_idx (check_rcase tbl) 0 cs.
