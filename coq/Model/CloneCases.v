(* Evaluation of recorded dst.Clone results on the clone interpreter. *)
From Coq Require Import List String ZArith NArith Bool.
Import ListNotations.
From DV Require Import Model.Tree Model.Tables Model.Skeleton Model.Clone Model.WalkCases Model.RestoreCases.
Local Open Scope list_scope.

Definition dec_eqb (a b : dec) : bool :=
  match a, b with
  | DNl, DNl => true
  | DLine l u, DLine l' u' => Z.eqb l l' && N.eqb u u'
  | DBlock l n u, DBlock l' n' u' => Z.eqb l l' && zlist_eqb n n' && N.eqb u u'
  | DOther l u, DOther l' u' => Z.eqb l l' && N.eqb u u'
  | _, _ => false
  end.

Definition val_eqb (a b : val) : bool :=
  match a, b with
  | VBool x, VBool y => Bool.eqb x y
  | VTok x, VTok y => String.eqb x y
  | VStr l n u, VStr l' n' u' => Z.eqb l l' && zlist_eqb n n' && N.eqb u u'
  | VInt x, VInt y => Z.eqb x y
  | VPos x, VPos y => Z.eqb x y
  | VRef x, VRef y => N.eqb x y
  | _, _ => false
  end.

Fixpoint list_eqb {A} (f : A -> A -> bool) (a b : list A) : bool :=
  match a, b with
  | [], [] => true
  | x :: a', y :: b' => f x y && list_eqb f a' b'
  | _, _ => false
  end.

Fixpoint tree_eqb (a b : tree) : bool :=
  match a, b with
  | Node i k v ks d sb sa, Node i' k' v' ks' d' sb' sa' =>
    N.eqb i i' && String.eqb k k'
    && list_eqb (fun x y => String.eqb (fst x) (fst y) && val_eqb (snd x) (snd y)) v v'
    && list_eqb (fun x y => String.eqb (fst x) (fst y) && list_eqb dec_eqb (snd x) (snd y)) d d'
    && space_eqb sb sb' && space_eqb sa sa'
    && (fix kids_eqb (l l' : list (string * kid tree)) : bool :=
          match l, l' with
          | [], [] => true
          | (f, k1) :: r, (f', k2) :: r' =>
            String.eqb f f'
            && match k1, k2 with
               | One (Some c), One (Some c') => tree_eqb c c'
               | One None, One None => true
               | Many cs, Many cs' =>
                 (fix l_eqb (x y : list tree) : bool :=
                    match x, y with
                    | [], [] => true
                    | c :: x', c' :: y' => tree_eqb c c' && l_eqb x' y'
                    | _, _ => false
                    end) cs cs'
               | _, _ => false
               end
            && kids_eqb r r'
          | _, _ => false
          end) ks ks'
  end.

(* (original, what the real Clone returned) *)
Definition clone_case := (tree * tree)%type.

Definition check_clone_case u du tbl (c : clone_case) : bool :=
  conforms_full u du (fst c) && spacing_conforms u (fst c) && tree_eqb (clone tbl (fst c)) (snd c).

Definition bad_clone_cases u du tbl (cs : list clone_case) : list nat := bad_idx (check_clone_case u du tbl) 0 cs.
