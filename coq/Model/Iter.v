(* dstutil.Apply: the slice-operation IR of the Cursor edit methods, the applyList loop
   (hand transcription of dstutil/rewrite.go; its exact source text is pinned by the translator:
   Gen/ApplyTbl.v apply_list_shape_ok / apply_frame_ok), and table checks.
   Executable definitions only. *)
From Coq Require Import List String ZArith NArith Bool.
Import ListNotations.
From DV Require Import Model.Tree Model.Tables.
Local Open Scope list_scope.

(* ---- slice operations --------------------------------------------------------------- *)
(* elements are node ids; 0 is the zero value (nil) *)
Record istate := mkI { lst : list N; idx : nat; stp : Z }.

Definition set_at (i : nat) (x : N) (l : list N) : list N := firstn i l ++ x :: skipn (S i) l.
Definition insert_at (i : nat) (x : N) (l : list N) : list N := firstn i l ++ x :: skipn i l.
Definition delete_at (i : nat) (l : list N) : list N := firstn i l ++ skipn (S i) l.

(* reflect.Copy(v[d:l], v[s:l]): copies min(l-d, l-s) elements, overlap-safe *)
Definition copy_range (d s l : nat) (v : list N) : list N :=
  let n := Nat.min (l - d) (l - s) in
  firstn d v ++ firstn n (skipn s v) ++ skipn (d + n) v.

Definition zoff (i : nat) (o : Z) : nat := Z.to_nat (Z.of_nat i + o).

(* one IR operation; [lv] is the local variable l, [x] the argument n *)
Definition iop_step (x : N) (st : istate * nat) (o : iop) : option (istate * nat) :=
  let '(s, lv) := st in
  match o with
  | IFileCase | IGetIndex | IPanicIfNoSlice | IField | IAtIndex => Some st
  | ILen => Some (s, List.length (lst s))
  | IAppendZero => Some (mkI (lst s ++ [0%N]) (idx s) (stp s), lv)
  | ICopy d sr => Some (mkI (copy_range (zoff (idx s) d) (zoff (idx s) sr) lv (lst s)) (idx s) (stp s), lv)
  | IZeroLast => Some (mkI (set_at (lv - 1) 0%N (lst s)) (idx s) (stp s), lv)
  | ITrunc => Some (mkI (firstn (lv - 1) (lst s)) (idx s) (stp s), lv)
  | ISet o => Some (mkI (set_at (zoff (idx s) o) x (lst s)) (idx s) (stp s), lv)
  | ISetV => Some (mkI (set_at (idx s) x (lst s)) (idx s) (stp s), lv)
  | IStep z => Some (mkI (lst s) (idx s) (stp s + z)%Z, lv)
  | IIndex z => Some (mkI (lst s) (zoff (idx s) z) (stp s), lv)
  | IUnknown _ => None
  end.

Fixpoint run_ir (x : N) (ops : list iop) (st : istate * nat) : option (istate * nat) :=
  match ops with
  | [] => Some st
  | o :: r => match iop_step x st o with Some st' => run_ir x r st' | None => None end
  end.

Definition run_method (ops : list iop) (x : N) (s : istate) : option istate :=
  option_map fst (run_ir x ops (s, 0)).

(* what the four methods are expected to be (the pinned astutil bodies) *)
Definition expected_Replace : list iop := [IFileCase; IField; IAtIndex; ISetV].
Definition expected_Delete : list iop := [IFileCase; IGetIndex; IPanicIfNoSlice; IField; ILen; ICopy 0 1; IZeroLast; ITrunc; IStep (-1)].
Definition expected_InsertAfter : list iop := [IGetIndex; IPanicIfNoSlice; IField; IAppendZero; ILen; ICopy 2 1; ISet 1; IStep 1].
Definition expected_InsertBefore : list iop := [IGetIndex; IPanicIfNoSlice; IField; IAppendZero; ILen; ICopy 1 0; ISet 0; IIndex 1].

Definition iop_eqb (a b : iop) : bool :=
  match a, b with
  | IFileCase, IFileCase | IGetIndex, IGetIndex | IPanicIfNoSlice, IPanicIfNoSlice | IField, IField | ILen, ILen
  | IAppendZero, IAppendZero | IZeroLast, IZeroLast | ITrunc, ITrunc | IAtIndex, IAtIndex | ISetV, ISetV => true
  | ICopy d s, ICopy d' s' => Z.eqb d d' && Z.eqb s s'
  | ISet o, ISet o' => Z.eqb o o'
  | IStep z, IStep z' => Z.eqb z z'
  | IIndex z, IIndex z' => Z.eqb z z'
  | _, _ => false
  end.

Fixpoint iops_eqb (a b : list iop) : bool :=
  match a, b with
  | [], [] => true
  | x :: a', y :: b' => iop_eqb x y && iops_eqb a' b'
  | _, _ => false
  end.

(* ---- cursor operations and the applyList loop ---------------------------------------- *)
Inductive cop := CReplace (x : N) | CDelete | CInsertAfter (x : N) | CInsertBefore (x : N).

(* the abstract effect of one cursor operation *)
Definition cop_abs (s : istate) (c : cop) : istate :=
  match c with
  | CReplace x => mkI (set_at (idx s) x (lst s)) (idx s) (stp s)
  | CDelete => mkI (delete_at (idx s) (lst s)) (idx s) (stp s - 1)
  | CInsertAfter x => mkI (insert_at (S (idx s)) x (lst s)) (idx s) (stp s + 1)
  | CInsertBefore x => mkI (insert_at (idx s) x (lst s)) (S (idx s)) (stp s)
  end.

(* applyList: for { if index >= len {break}; x := v[index]; step = 1; apply(x); index += step }.
   [script x k] are the cursor operations the callbacks issue while visiting element x (k-th
   visit of the loop).  Returns the visit log and the final list; None = a negative index. *)
Fixpoint apply_list (fuel : nat) (script : N -> nat -> list cop) (l : list N) (i : nat) (k : nat)
  : option (list N * list N) :=
  match fuel with
  | O => None
  | S fuel' =>
    if Nat.leb (List.length l) i then Some ([], l)
    else
      let x := nth i l 0%N in
      let s := fold_left cop_abs (script x k) (mkI l i 1) in
      let nxt := (Z.of_nat (idx s) + stp s)%Z in
      if Z.ltb nxt 0 then None
      else match apply_list fuel' script (lst s) (Z.to_nat nxt) (S k) with
           | Some (vis, l') => Some (x :: vis, l')
           | None => None
           end
  end.

(* scripts in which a Delete, if any, is the last operation of its visit *)
Fixpoint delete_last (cs : list cop) : bool :=
  match cs with
  | [] => true
  | [CDelete] => true
  | CDelete :: _ => false
  | _ :: r => delete_last r
  end.

(* ---- the child table ------------------------------------------------------------------ *)
Definition apart_matches (a : apart) (f : string * ftype) : bool :=
  match a, snd f with
  | AOne lit fld, FNode _ | AOneG lit fld, FNode _ => String.eqb lit (fst f) && String.eqb fld (fst f)
  | AMany lit, FList _ => String.eqb lit (fst f)
  | APkgFiles, FMapFiles => true
  | _, _ => false
  end.

Definition apply_kind_ok (u : universe_t) (tbl : list (string * list apart)) (k : string) : bool :=
  match lookup tbl k with
  | Some ps => all2 apart_matches ps (child_fields_t u k)
  | None => false
  end.

Definition apply_tbl_ok (u : universe_t) (tbl : list (string * list apart)) : bool :=
  forallb (fun e => apply_kind_ok u tbl (fst e)) u.

Definition apart_name (a : apart) : string :=
  match a with AOne l _ | AOneG l _ => l | AMany l => l | APkgFiles => "Files" | AUnknown _ => "?" end.

Definition apart_same (a b : apart) : bool :=
  match a, b with
  | AOne l f, AOne l' f' | AOneG l f, AOneG l' f' => String.eqb l l' && String.eqb f f'
  | AMany l, AMany l' => String.eqb l l'
  | APkgFiles, APkgFiles => true
  | _, _ => false
  end.

Definition apply_tbls_agree (ignore : list string) (kinds : list string) (ref tbl : list (string * list apart)) : bool :=
  forallb (fun k =>
    match lookup ref k, lookup tbl k with
    | Some pa, Some pb => all2 apart_same (filter (fun w => negb (mem_string (apart_name w) ignore)) pa) pb
    | _, _ => false
    end) kinds.

(* same children as Walk, in the same order *)
Definition apply_matches_walk (wt : wtable) (at_ : list (string * list apart)) (kinds : list string) : bool :=
  forallb (fun k =>
    match lookup wt k, lookup at_ k with
    | Some ws, Some asx => all2 (fun w a => String.eqb (wfield w) (apart_name a)) ws asx
    | _, _ => false
    end) kinds.
