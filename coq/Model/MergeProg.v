(* Merge programs: the language into which the translator renders mergeDecorations
   (decorator/decorator.go -> Gen/MergeSrc.v) -- one statement list per kind of argument (untyped nil,
   a decoration list, a line spacing per value) over the function's two variables (endsWithNewLine,
   out) -- and its evaluator over the items of Model/Merge.v.  Executable definitions only. *)
From Coq Require Import List String Bool.
Import ListNotations.
From DV Require Import Model.Tree Model.Merge.
Local Open Scope string_scope.
Local Open Scope list_scope.

Inductive mexp := MTrue | MFalse | MLastNlOrLine.   (* v[len(v)-1] == "\n" || strings.HasPrefix(v[len(v)-1], "//") *)

Inductive mstmt :=
| MAppendAll                      (* out = append(out, v...) *)
| MAppendNl (n : nat)             (* out = append(out, "\n", ..., "\n") *)
| MSetEnds (e : mexp)             (* endsWithNewLine = e *)
| MIfEnds (t e : list mstmt)      (* if endsWithNewLine { t } else { e } *)
| MIfEmpty (t : list mstmt)       (* if len(v) == 0 { t } *)
| MContinue
| MUnknownS (text : string).

Record mprog := mkMProg {
  m_shape : bool;                 (* two variables, one loop over the arguments, one type switch, return out *)
  m_nil : list mstmt;
  m_strings : list mstmt;
  m_space : list (string * list mstmt);   (* cases of the inner switch on the spacing value *)
  m_default_panics : bool
}.

Record mstate := mkMS { ms_ends : bool; ms_out : list dec; ms_cont : bool; ms_stuck : bool }.

Fixpoint mexec (v : list dec) (s : mstmt) (st : mstate) {struct s} : mstate :=
  let fix mexec_list (l : list mstmt) (st : mstate) {struct l} : mstate :=
    match l with [] => st | s :: r => mexec_list r (mexec v s st) end in
  if ms_cont st then st else
  match s with
  | MAppendAll => mkMS (ms_ends st) (ms_out st ++ v) false (ms_stuck st)
  | MAppendNl n => mkMS (ms_ends st) (ms_out st ++ repeat DNl n) false (ms_stuck st)
  | MSetEnds MTrue => mkMS true (ms_out st) false (ms_stuck st)
  | MSetEnds MFalse => mkMS false (ms_out st) false (ms_stuck st)
  | MSetEnds MLastNlOrLine => mkMS (last_is_nl v) (ms_out st) false (ms_stuck st)
  | MIfEnds t e => if ms_ends st then mexec_list t st else mexec_list e st
  | MIfEmpty t => match v with [] => mexec_list t st | _ => st end
  | MContinue => mkMS (ms_ends st) (ms_out st) true (ms_stuck st)
  | MUnknownS _ => mkMS (ms_ends st) (ms_out st) true true
  end.

Fixpoint mexec_list (v : list dec) (l : list mstmt) (st : mstate) : mstate :=
  match l with [] => st | s :: r => mexec_list v r (mexec v s st) end.

Fixpoint space_case (name : string) (l : list (string * list mstmt)) : list mstmt :=
  match l with
  | [] => []                       (* a value without a case: the switch does nothing *)
  | (k, b) :: r => if String.eqb k name then b else space_case name r
  end.

Definition space_go_name (s : space) : string :=
  match s with SNone => "None" | SNewLine => "NewLine" | SEmptyLine => "EmptyLine" end.

(* one iteration of the loop; the continue flag is local to the iteration *)
Definition mitem_step (p : mprog) (st : mstate) (it : mitem) : mstate :=
  let st' := match it with
             | MDecs ds => mexec_list ds (m_strings p) st
             | MSpace s => mexec_list [] (space_case (space_go_name s) (m_space p)) st
             end in
  mkMS (ms_ends st') (ms_out st') false (ms_stuck st').

Definition mrun (p : mprog) (items : list mitem) : mstate :=
  fold_left (mitem_step p) items (mkMS false [] false (negb (m_shape p))).

Fixpoint mstmt_known (s : mstmt) : bool :=
  let fix all (l : list mstmt) : bool := match l with [] => true | s :: r => mstmt_known s && all r end in
  match s with
  | MUnknownS _ => false
  | MIfEnds t e => all t && all e
  | MIfEmpty t => all t
  | _ => true
  end.

Definition mprog_known (p : mprog) : bool :=
  m_shape p && m_default_panics p && forallb mstmt_known (m_nil p) && forallb mstmt_known (m_strings p)
  && forallb (fun c => forallb mstmt_known (snd c)) (m_space p).
