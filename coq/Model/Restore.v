(* The restorer: (1) the generic interpreter of the translated restorer table
   (Gen/RestTbl.v) flattening a dst tree into primitive actions, and (2) the hand-written
   state machine of restorer.go (applySpace, applyDecorations, applyLiteral, fileSize,
   SetLines, duplicate detection, restoreIdent).  Executable definitions only. *)
From Coq Require Import List String ZArith NArith Bool.
Import ListNotations.
From DV Require Import Model.Tree Model.Tables.
Local Open Scope string_scope.
Local Open Scope list_scope.

Inductive action :=
| AEnter (id : N)                                   (* restoreNode entered for node id: duplicate check *)
| AMapAt (id : N)                                   (* r.Ast.Nodes[n.P] = ... for an Init child (no check) *)
| ASpace (isbad after : bool) (s : space)           (* applySpace *)
| ADecs (id : N) (kind name : string) (isend : bool) (ds : list dec)   (* applyDecorations(out, name, ds, end) *)
| AAdv (len : Z)                                    (* r.cursor += len *)
| ASetPos (id : N) (f : path)                       (* out.F = r.cursor *)
| ASetNoPos (id : N) (f : path)
| ALit (len : Z) (nls : list Z)                     (* applyLiteral *)
| APanic (why : string).

(* result tree: every node with its own actions and its children's results *)
Inductive rtree := RT (t : tree) (acts : list action) (rkids : list (string * kid rtree)).

Definition rt_tree (r : rtree) := match r with RT t _ _ => t end.
Definition rt_acts (r : rtree) := match r with RT _ a _ => a end.
Definition rt_kids (r : rtree) := match r with RT _ _ k => k end.

(* n.A.B as a child *)
Fixpoint sub (rk : list (string * kid rtree)) (p : path) : option (kid rtree) :=
  match p with
  | [] => None
  | [f] => lookup rk f
  | f :: rest => match lookup rk f with
                 | Some (One (Some r)) => sub (rt_kids r) rest
                 | _ => None
                 end
  end.

(* the node that owns the last component of a path: n for [F], n.A for [A;F] *)
Fixpoint owner (t : tree) (rk : list (string * kid rtree)) (p : path) : option tree :=
  match p with
  | [] => Some t
  | f :: rest => match lookup rk f with
                 | Some (One (Some r)) => owner (rt_tree r) (rt_kids r) rest
                 | _ => None
                 end
  end.

Fixpoint val_at (t : tree) (rk : list (string * kid rtree)) (p : path) : option val :=
  match p with
  | [] => None
  | [f] => lookup (tvals t) f
  | f :: rest => match lookup rk f with
                 | Some (One (Some r)) => val_at (rt_tree r) (rt_kids r) rest
                 | _ => None
                 end
  end.

Definition kid_nil {T} (k : option (kid T)) : bool :=
  match k with
  | Some (One (Some _)) => false
  | Some (Many (_ :: _)) => false
  | _ => true
  end.

Definition eval_cond (t : tree) (rk : list (string * kid rtree)) (c : cond) : option bool :=
  match c with
  | CTrue => Some true
  | CNotNil p => Some (negb (kid_nil (sub rk p)))
  | CIsNil p => Some (kid_nil (sub rk p))
  | CBool p => match val_at t rk p with Some (VBool b) => Some b | _ => None end
  | CNotBool p => match val_at t rk p with Some (VBool b) => Some (negb b) | _ => None end
  | CTokEq p s => match val_at t rk p with Some (VTok x) => Some (String.eqb x s) | _ => None end
  | CTokNe p s => match val_at t rk p with Some (VTok x) => Some (negb (String.eqb x s)) | _ => None end
  | CIntEq p z => match val_at t rk p with Some (VInt x) => Some (Z.eqb x z) | _ => None end
  | CPosValid p => match val_at t rk p with Some (VPos x) => Some (negb (Z.eqb x 0)) | _ => None end
  | CUnknown _ => None
  end.

Definition slen (s : string) : Z := Z.of_nat (String.length s).

Fixpoint tok_len (t : tree) (rk : list (string * kid rtree)) (x : tokx) : option Z :=
  match x with
  | TConst _ s => Some (slen s)
  | TField p => match val_at t rk p with Some (VTok s) => Some (slen s) | _ => None end
  | TChoice c a b => match eval_cond t rk c with
                     | Some true => tok_len t rk a
                     | Some false => tok_len t rk b
                     | None => None
                     end
  | TUnknown _ => None
  end.

Definition is_bad_kind (k : string) : bool :=
  String.eqb k "BadDecl" || String.eqb k "BadExpr" || String.eqb k "BadStmt".

Definition kid_acts (k : kid rtree) : list action :=
  match k with
  | One (Some r) => rt_acts r
  | One None => []
  | Many l => flat_map rt_acts l
  end.

Fixpoint stmt_acts (t : tree) (rk : list (string * kid rtree)) (s : rstmt) : list action :=
  let id := tid t in
  match s with
  | RMapAst | RMapDst => []
  | RMapAstAt p => match sub rk p with Some (One (Some r)) => [AMapAt (tid (rt_tree r))] | _ => [] end
  | RMapDstAt _ => []
  | RSpace after => [ASpace (is_bad_kind (tkind t)) after (if after then tafter t else tbefore t)]
  | RDec name own point isend =>
    match owner t rk own with
    | Some o => match lookup (tdecs o) point with
                | Some ds => [ADecs id (tkind t) name isend ds]
                | None => [APanic "no such decoration point"]
                end
    | None => [APanic "nil dereference"]
    end
  | RSetPos o => [ASetPos id o]
  | RSetNoPos o => [ASetNoPos id o]
  | RAdvTok x => match tok_len t rk x with Some l => [AAdv l] | None => [APanic "bad token expression"] end
  | RAdvStr p => match val_at t rk p with Some (VStr l _ _) => [AAdv l] | _ => [APanic "bad string field"] end
  | RAdvLen p => match val_at t rk p with Some (VInt l) => [AAdv l] | _ => [APanic "bad length field"] end
  | RLiteral p => match val_at t rk p with Some (VStr l nls _) => [ALit l nls] | _ => [APanic "bad string field"] end
  | RCopy _ _ | RInit _ _ | RMakeMap _ | RScope _ _ | RObject _ _ | RMapObjs _ _ => []
  | RNode p _ _ _ _ => match sub rk p with Some k => kid_acts k | None => [] end
  | RList p _ _ _ _ => match sub rk p with Some k => kid_acts k | None => [] end
  | RMapNodes p _ _ _ _ => match sub rk p with Some k => kid_acts k | None => [] end
  | RIf c th el =>
    match eval_cond t rk c with
    | Some b =>
      (fix go (l : list rstmt) : list action :=
         match l with [] => [] | x :: r => stmt_acts t rk x ++ go r end) (if b then th else el)
    | None => [APanic "bad condition"]
    end
  | RIdentHook => []
  | RUnknown _ => [APanic "unrecognised statement"]
  end.

Definition stmts_acts t rk (l : list rstmt) : list action := flat_map (stmt_acts t rk) l.

(* restoreIdent: [pkg] gives, for an identifier carrying a path, the length of the name the
   import manager chose (None: local path or dot-import, restore as a bare identifier);
   [managed] = a Resolver is set. *)
Definition ident_path_uid (t : tree) : N :=
  match lookup (tvals t) "Path" with Some (VStr l _ u) => if Z.eqb l 0 then 0%N else u | _ => 0%N end.

Definition ident_name_len (t : tree) : Z :=
  match lookup (tvals t) "Name" with Some (VStr l _ _) => l | _ => 0%Z end.

Definition dec_of (t : tree) (p : string) : list dec :=
  match lookup (tdecs t) p with Some ds => ds | None => [] end.

Definition selector_acts (t : tree) (namelen : Z) : list action :=
  let id := tid t in
  [ASpace false false (tbefore t);
   ADecs id "SelectorExpr" "Start" false (dec_of t "Start");
   (* X: restoreNode(dst.NewIdent(name)): an Ident with no decorations *)
   ASpace false false SNone; ADecs 0 "Ident" "Start" false []; ADecs 0 "Ident" "X" false [];
   ASetPos id ["X"; "NamePos"]; AAdv namelen; ADecs 0 "Ident" "End" true []; ASpace false true SNone;
   AAdv 1;
   ADecs id "SelectorExpr" "X" false (dec_of t "X");
   ASpace false false SNone; ADecs 0 "Ident" "Start" false []; ADecs 0 "Ident" "X" false [];
   ASetPos id ["Sel"; "NamePos"]; AAdv (ident_name_len t); ADecs 0 "Ident" "End" true []; ASpace false true SNone;
   ADecs id "SelectorExpr" "End" true (dec_of t "End");
   ASpace false true (tafter t)].

Definition node_acts (tbl : list (string * list rstmt)) (managed : bool) (pkg : N -> option Z)
           (t : tree) (rk : list (string * kid rtree)) : list action :=
  AEnter (tid t) ::
  match tbl_parts tbl (RUnknown "no case") (tkind t) with
  | RIdentHook :: rest =>
    let pu := ident_path_uid t in
    if N.eqb pu 0 then stmts_acts t rk rest
    else if managed then
      match pkg pu with
      | Some nl => selector_acts t nl
      | None => stmts_acts t rk rest
      end
    else [APanic "path without resolver"]
  | stmts => stmts_acts t rk stmts
  end.

Fixpoint build (tbl : list (string * list rstmt)) (managed : bool) (pkg : N -> option Z) (t : tree) : rtree :=
  match t with
  | Node id k vals kids decs b a =>
    let rk := map (fun p => (fst p, match snd p with
                                    | One (Some c) => One (Some (build tbl managed pkg c))
                                    | One None => One None
                                    | Many l => Many (map (build tbl managed pkg) l)
                                    end)) kids in
    RT t (node_acts tbl managed pkg t rk) rk
  end.

Definition flatten tbl managed pkg (t : tree) : list action := rt_acts (build tbl managed pkg t).

(* ===================================================================================
   L1: the state machine of restorer.go *)

Local Open Scope Z_scope.

Record cgroup := mkGroup { g_owner : N (* node whose Comment field holds the group; 0 = free-standing *);
                           g_list : list (Z * Z * N) (* slash position, length, text uid *) }.

Record rstate := mkR {
  base : Z; cursor : Z; atnl : Z;
  lines : list Z;                     (* reversed: newest first *)
  comments : list cgroup;             (* reversed *)
  poss : list (N * path * Z);         (* reversed *)
  seen : list N;
  panic : option string
}.

Definition init_r (b : Z) : rstate := mkR b b 0 [0] [] [] [] None.

Definition add_line (s : rstate) (off : Z) : rstate :=
  mkR (base s) (cursor s) (atnl s) (off :: lines s) (comments s) (poss s) (seen s) (panic s).
Definition set_cursor (s : rstate) (c : Z) : rstate :=
  mkR (base s) c (atnl s) (lines s) (comments s) (poss s) (seen s) (panic s).
Definition set_atnl (s : rstate) (c : Z) : rstate :=
  mkR (base s) (cursor s) c (lines s) (comments s) (poss s) (seen s) (panic s).
Definition set_panic (s : rstate) (w : string) : rstate :=
  mkR (base s) (cursor s) (atnl s) (lines s) (comments s) (poss s) (seen s)
      (match panic s with None => Some w | p => p end).

(* one newline of applySpace *)
Definition space_nl (s : rstate) : rstate :=
  let s1 := set_cursor s (cursor s + 1) in
  let s2 := add_line s1 (cursor s1 - base s1) in
  let s3 := set_cursor s2 (cursor s2 + 1) in
  set_atnl s3 (cursor s3).

Definition newlines_of (sp : space) : Z :=
  match sp with SNone => 0 | SNewLine => 1 | SEmptyLine => 2 end.

Definition apply_space (s : rstate) (isbad after : bool) (sp : space) : rstate :=
  let sp' := if isbad && after then SEmptyLine else sp in
  let n := newlines_of sp' - (if Z.eqb (cursor s) (atnl s) then 1 else 0) in
  if Z.leb n 0 then s
  else if Z.eqb n 1 then space_nl s
  else space_nl (space_nl s).

Definition has_comment_field (kind : string) : bool :=
  String.eqb kind "Field" || String.eqb kind "ValueSpec" || String.eqb kind "TypeSpec" || String.eqb kind "ImportSpec".

Definition add_comment (s : rstate) (g : list cgroup) : rstate :=
  mkR (base s) (cursor s) (atnl s) (lines s) g (poss s) (seen s) (panic s).

(* addCommentField: append to the node's Comment group, creating it (at the end of
   r.comments) on first use *)
Fixpoint add_to_group (gs : list cgroup) (id : N) (c : Z * Z * N) : option (list cgroup) :=
  match gs with
  | [] => None
  | g :: r =>
    if N.eqb (g_owner g) id && negb (N.eqb id 0) then Some (mkGroup id (g_list g ++ [c]) :: r)
    else match add_to_group r id c with Some r' => Some (g :: r') | None => None end
  end.

Definition add_field_comment (s : rstate) (id : N) (c : Z * Z * N) : rstate :=
  match add_to_group (comments s) id c with
  | Some gs => add_comment s gs
  | None => add_comment s (mkGroup id [c] :: comments s)
  end.

Definition dec_step (id : N) (kind : string) (isend : bool) (st : rstate * bool) (d : dec) : rstate * bool :=
  let '(s, firstLine) := st in
  let s := if isend && Z.eqb (atnl s) (cursor s) then set_cursor s (cursor s + 1) else s in
  let s := match d with
           | DBlock _ nls _ => fold_left (fun s off => add_line s (cursor s - base s + off)) nls s
           | _ => s
           end in
  let s := match d with
           | DLine l u | DBlock l _ u =>
             let s' := if firstLine && isend && has_comment_field kind
                       then add_field_comment s id (cursor s, l, u)
                       else add_comment s (mkGroup 0 [(cursor s, l, u)] :: comments s) in
             set_cursor s' (cursor s' + l)
           | _ => s
           end in
  match d with
  | DLine _ _ | DNl =>
    (* a "\n" decoration: the line break is a byte of its own after what precedes it *)
    let s := match d with DNl => set_cursor s (cursor s + 1) | _ => s end in
    let s1 := add_line s (cursor s - base s) in
    let s2 := set_cursor s1 (cursor s1 + 1) in
    (set_atnl s2 (cursor s2), false)
  | _ => (s, firstLine)
  end.

Definition apply_decs (s : rstate) (id : N) (kind name : string) (isend : bool) (ds : list dec) : rstate :=
  let s' := fst (fold_left (dec_step id kind isend) ds (s, true)) in
  if String.eqb kind "File" && String.eqb name "Start" then set_cursor s' (cursor s' + 1) else s'.

Definition rstep (s : rstate) (a : action) : rstate :=
  match panic s with
  | Some _ => s
  | None =>
    match a with
    | AEnter id =>
      if existsb (N.eqb id) (seen s) then set_panic s "duplicate node"
      else mkR (base s) (cursor s) (atnl s) (lines s) (comments s) (poss s) (id :: seen s) (panic s)
    | AMapAt id => mkR (base s) (cursor s) (atnl s) (lines s) (comments s) (poss s) (id :: seen s) (panic s)
    | ASpace isbad after sp => apply_space s isbad after sp
    | ADecs id kind name isend ds => apply_decs s id kind name isend ds
    | AAdv l => set_cursor s (cursor s + l)
    | ASetPos id f => mkR (base s) (cursor s) (atnl s) (lines s) (comments s) ((id, f, cursor s) :: poss s) (seen s) (panic s)
    | ASetNoPos id f => mkR (base s) (cursor s) (atnl s) (lines s) (comments s) ((id, f, 0%Z) :: poss s) (seen s) (panic s)
    | ALit l nls =>
      match nls with
      | [] => s
      | _ => fold_left (fun s off => add_line s (cursor s - base s + off)) nls s
      end
    | APanic w => set_panic s w
    end
  end.

Definition run_acts (b : Z) (acts : list action) : rstate := fold_left rstep acts (init_r b).

(* fileSize and SetLines *)
Definition group_end (g : cgroup) : Z :=
  match last (g_list g) (0, 0, 0%N)%Z with (p, l, _) => p + l end.

Definition file_end (s : rstate) : Z :=
  let e := cursor s in
  let e := fold_right (fun g e => if Z.leb e (group_end g) then group_end g + 1 else e) e (comments s) in
  fold_right (fun off e => if Z.leb e (off + base s) then off + base s + 1 else e) e (lines s).

Fixpoint strictly_increasing (l : list Z) : bool :=
  match l with
  | a :: ((b :: _) as r) => Z.ltb a b && strictly_increasing r
  | _ => true
  end.

Record restored := mkRestored {
  r_lines : list Z; r_size : Z; r_comments : list cgroup; r_poss : list (N * path * Z)
}.

Inductive outcome := Ok (r : restored) | Panic (why : string).

Definition finish (s : rstate) : outcome :=
  match panic s with
  | Some w => Panic w
  | None =>
    let ls := rev (lines s) in
    let size := file_end s - base s in
    if strictly_increasing ls && forallb (fun o => Z.ltb o size) ls
    then Ok (mkRestored ls size (rev (comments s)) (rev (poss s)))
    else Panic "ff.SetLines failed"
  end.

Definition restore tbl managed pkg (b : Z) (t : tree) : outcome :=
  finish (run_acts b (flatten tbl managed pkg t)).

(* boolean hypotheses of the C12 theorems, evaluated on every tree of the correspondence *)
Fixpoint offs_okb (lo hi : Z) (l : list Z) : bool :=
  match l with
  | [] => true
  | o :: r => Z.leb lo o && Z.ltb o hi && offs_okb (o + 1) hi r
  end.

Definition dec_okb (d : dec) : bool :=
  match d with
  | DNl => true
  | DLine l _ => Z.leb 2 l
  | DBlock l nls _ => Z.leb 4 l && offs_okb 2 l nls
  | DOther l _ => Z.leb 0 l
  end.

Definition act_okb (a : action) : bool :=
  match a with
  | AAdv l => Z.leb 0 l
  | ADecs _ _ _ _ ds => forallb dec_okb ds
  | ALit l nls => Z.leb 0 l && offs_okb 1 l nls
  | _ => true
  end.

Fixpoint safeb (k : Z) (acts : list action) : bool :=
  match acts with
  | [] => Z.eqb k 0
  | a :: r =>
    match a with
    | AEnter _ | AMapAt _ | ASetPos _ _ | ASetNoPos _ _ => safeb k r
    | AAdv l => Z.leb k l && safeb 0 r
    | ALit l nls => Z.eqb k 0 && safeb (match nls with [] => 0 | _ => l end) r
    | ASpace _ _ _ | ADecs _ _ _ _ _ => Z.eqb k 0 && safeb 0 r
    | APanic _ => true
    end
  end.
