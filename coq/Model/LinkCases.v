(* Evaluation of recorded fragment lists on the link model. *)
From Coq Require Import List String ZArith NArith Bool.
Import ListNotations.
From DV Require Import Model.Tree Model.Link Model.CloneCases Model.WalkCases.
Local Open Scope list_scope.

Record lcase := mkLC {
  lc_frags : list frag;
  lc_panic : bool;
  lc_decs : list (dkey * list dec);
  lc_before : list (N * space);
  lc_after : list (N * space)
}.

Definition nonempty_decs (m : list (dkey * list dec)) : list (dkey * list dec) :=
  filter (fun e => match snd e with [] => false | _ => true end) m.

Definition check_lcase (c : lcase) : bool :=
  let s := link (lc_frags c) in
  if l_panic s then lc_panic c
  else negb (lc_panic c)
    && forallb (fun e => list_eqb dec_eqb (dget (l_decs s) (fst e)) (snd e)) (lc_decs c)
    && Nat.eqb (List.length (nonempty_decs (l_decs s))) (List.length (nonempty_decs (lc_decs c)))
    && forallb (fun e => match sget (l_before s) (fst e) with Some sp => space_eqb sp (snd e) | None => false end) (lc_before c)
    && Nat.eqb (List.length (l_before s)) (List.length (lc_before c))
    && forallb (fun e => match sget (l_after s) (fst e) with Some sp => space_eqb sp (snd e) | None => false end) (lc_after c)
    && Nat.eqb (List.length (l_after s)) (List.length (lc_after c)).

Definition bad_lcases (cs : list lcase) : list nat := bad_idx check_lcase 0 cs.

(* the hypothesis of link_no_panic, evaluated on every fragment list the real fragment() produced *)
Definition bad_seg (cs : list lcase) : list nat := bad_idx (fun c => seg_ok (lc_frags c)) 0 cs.
