(* Evaluation of recorded fragment lists on the link model. *)
From Coq Require Import List String ZArith NArith Bool.
Import ListNotations.
From DV Require Import Model.Tree Model.Link Model.CloneCases Model.WalkCases.
Local Open Scope list_scope.

Record lcase := mkLC {
  lc_frags : list frag;
  lc_panic : bool;
  lc_decs : list (dkey * list dec);
  lc_before : list (N * space);
  lc_after : list (N * space)
}.

Definition nonempty_decs (m : list (dkey * list dec)) : list (dkey * list dec) :=
  filter (fun e => match snd e with [] => false | _ => true end) m.

Definition check_lcase (c : lcase) : bool :=
  let s := link (lc_frags c) in
  if l_panic s then lc_panic c
  else negb (lc_panic c)
    && forallb (fun e => list_eqb dec_eqb (dget (l_decs s) (fst e)) (snd e)) (lc_decs c)
    && Nat.eqb (List.length (nonempty_decs (l_decs s))) (List.length (nonempty_decs (lc_decs c)))
    && forallb (fun e => match sget (l_before s) (fst e) with Some sp => space_eqb sp (snd e) | None => false end) (lc_before c)
    && Nat.eqb (List.length (l_before s)) (List.length (lc_before c))
    && forallb (fun e => match sget (l_after s) (fst e) with Some sp => space_eqb sp (snd e) | None => false end) (lc_after c)
    && Nat.eqb (List.length (l_after s)) (List.length (lc_after c)).

Definition bad_lcases (cs : list lcase) : list nat := bad_idx check_lcase 0 cs.

(* the hypothesis of link_no_panic, evaluated on every fragment list the real fragment() produced *)
Definition bad_seg (cs : list lcase) : list nat := bad_idx (fun c => seg_ok (lc_frags c)) 0 cs.

(* ---- per-run validation of order and exactly-once ------------------------------------------- *)
(* the comments of the fragment list, in fragment order *)
Definition frag_comments (fs : list frag) : list dec :=
  flat_map (fun f => match f with FCom d _ _ => [d] | _ => [] end) fs.

Definition is_comment_dec (d : dec) : bool := match d with DLine _ _ | DBlock _ _ _ => true | _ => false end.

(* the comments in rendering order: decoration fragments in list order (the restorer walks the
   points in the order the decorator emitted them: C03_restorer_mirrors_decorator), each
   (node, point) once *)
Fixpoint rendered_comments (fs : list frag) (decs : list (dkey * list dec)) (seen : list dkey) : list dec :=
  match fs with
  | [] => []
  | FDec nid _ name _ _ :: r =>
    if existsb (dkey_eqb (nid, name)) seen then rendered_comments r decs seen
    else filter is_comment_dec (dget decs (nid, name)) ++ rendered_comments r decs ((nid, name) :: seen)
  | _ :: r => rendered_comments r decs seen
  end.

(* every comment exactly once, in source order *)
Definition order_ok (fs : list frag) : bool :=
  let s := link fs in
  l_panic s || list_eqb dec_eqb (rendered_comments (l_frags s) (l_decs s) []) (frag_comments fs).

Definition bad_order (cs : list lcase) : list nat := bad_idx (fun c => order_ok (lc_frags c)) 0 cs.
