(* Decision programs: the language of guarded returns into which the translator renders
   gotypes.ResolveIdent, goast.ResolveIdent and fileDecorator.resolvePath (Gen/DecisionSrc.v),
   and its evaluator.  Predicates and returned values are canonical strings over the function's
   parameters (bindings inlined); an interpretation gives them meaning over an abstract state.
   Executable definitions only. *)
From Coq Require Import List String Bool.
Import ListNotations.
Local Open Scope string_scope.
Local Open Scope list_scope.

Inductive dret := DEmpty | DErr | DPanic | DVal (sym : string).

Inductive dstmt :=
| DGuard (p : string) (neg : bool) (r : dret)        (* if [!]p { return r } *)
| DIf (p : string) (neg : bool) (body : list dstmt)  (* if [!]p { body }  -- falls through when no statement of body returns *)
| DRet (r : dret)
| DUnknown (src : string).

(* the outcome of running a program: a return, a fall-through, or an unknown statement reached *)
Inductive dout := OReturn (r : dret) | OFall | OStuck.

Fixpoint run_stmt (v : string -> bool) (s : dstmt) : dout :=
  match s with
  | DGuard p neg r => if xorb (v p) neg then OReturn r else OFall
  | DIf p neg body =>
    if xorb (v p) neg
    then (fix run_list (l : list dstmt) : dout :=
            match l with
            | [] => OFall
            | s :: r => match run_stmt v s with OFall => run_list r | o => o end
            end) body
    else OFall
  | DRet r => OReturn r
  | DUnknown _ => OStuck
  end.

Fixpoint run (v : string -> bool) (l : list dstmt) : dout :=
  match l with
  | [] => OFall
  | s :: r => match run_stmt v s with OFall => run v r | o => o end
  end.

(* the predicates and value symbols a program mentions *)
Fixpoint preds_of (s : dstmt) : list string :=
  match s with
  | DGuard p _ _ => [p]
  | DIf p _ body => p :: flat_map preds_of body
  | _ => []
  end.

Definition ret_syms (r : dret) : list string := match r with DVal s => [s] | _ => [] end.

Fixpoint syms_of (s : dstmt) : list string :=
  match s with
  | DGuard _ _ r | DRet r => ret_syms r
  | DIf _ _ body => flat_map syms_of body
  | DUnknown _ => []
  end.

Fixpoint no_unknown (s : dstmt) : bool :=
  match s with
  | DUnknown _ => false
  | DIf _ _ body => forallb no_unknown body
  | _ => true
  end.

Definition mem_str (x : string) (l : list string) : bool := existsb (String.eqb x) l.

(* a program is within an interpretation's vocabulary *)
Definition vocabulary_ok (known_preds known_syms : list string) (l : list dstmt) : bool :=
  forallb no_unknown l
  && forallb (fun p => mem_str p known_preds) (flat_map preds_of l)
  && forallb (fun s => mem_str s known_syms) (flat_map syms_of l).
