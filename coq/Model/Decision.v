(* Decision programs: the language of guarded returns into which the translator renders
   gotypes.ResolveIdent, goast.ResolveIdent and fileDecorator.resolvePath (Gen/DecisionSrc.v),
   and its evaluator.  Predicates and returned values are canonical strings over the function's
   parameters (bindings inlined); an interpretation gives them meaning over an abstract state.
   Executable definitions only. *)
From Coq Require Import List String Bool.
Import ListNotations.
Local Open Scope string_scope.
Local Open Scope list_scope.

Inductive dret := DEmpty | DErr | DPanic | DVal (sym : string).

Inductive dstmt :=
| DGuard (p : string) (neg : bool) (r : dret)        (* if [!]p { return r } *)
| DIf (p : string) (neg : bool) (body : list dstmt)  (* if [!]p { body }  -- falls through when no statement of body returns *)
| DRet (r : dret)
| DUnknown (src : string).

(* the outcome of running a program: a return, a fall-through, or an unknown statement reached *)
Inductive dout := OReturn (r : dret) | OFall | OStuck.

Fixpoint run_stmt (v : string -> bool) (s : dstmt) : dout :=
  match s with
  | DGuard p neg r => if xorb (v p) neg then OReturn r else OFall
  | DIf p neg body =>
    if xorb (v p) neg
    then (fix run_list (l : list dstmt) : dout :=
            match l with
            | [] => OFall
            | s :: r => match run_stmt v s with OFall => run_list r | o => o end
            end) body
    else OFall
  | DRet r => OReturn r
  | DUnknown _ => OStuck
  end.

Fixpoint run (v : string -> bool) (l : list dstmt) : dout :=
  match l with
  | [] => OFall
  | s :: r => match run_stmt v s with OFall => run v r | o => o end
  end.

(* the predicates and value symbols a program mentions *)
Fixpoint preds_of (s : dstmt) : list string :=
  match s with
  | DGuard p _ _ => [p]
  | DIf p _ body => p :: flat_map preds_of body
  | _ => []
  end.

Definition ret_syms (r : dret) : list string := match r with DVal s => [s] | _ => [] end.

Fixpoint syms_of (s : dstmt) : list string :=
  match s with
  | DGuard _ _ r | DRet r => ret_syms r
  | DIf _ _ body => flat_map syms_of body
  | DUnknown _ => []
  end.

Fixpoint no_unknown (s : dstmt) : bool :=
  match s with
  | DUnknown _ => false
  | DIf _ _ body => forallb no_unknown body
  | _ => true
  end.

Definition mem_str (x : string) (l : list string) : bool := existsb (String.eqb x) l.

(* a program is within an interpretation's vocabulary *)
Definition vocabulary_ok (known_preds known_syms : list string) (l : list dstmt) : bool :=
  forallb no_unknown l
  && forallb (fun p => mem_str p known_preds) (flat_map preds_of l)
  && forallb (fun s => mem_str s known_syms) (flat_map syms_of l).

(* ---- effectful loops: functions that return only an error -------------------------------------- *)
(* if err := CALL; err != nil { return err } is LCall: the call is made, its failure ends the function.
   for _, x := range COLL { body } runs the body once per element. *)
Inductive lstmt :=
| LCall (call : string)
| LFor (coll : string) (body : list lstmt)
| LBind (text : string)
| LRetNil
| LUnknown (src : string).

(* a run: the calls that were made and succeeded, in order, tagged with the element of the
   enclosing loop (None outside a loop); and how it ended *)
Inductive lend := LDone | LFailed (at_call : string) | LStuck | LFell.

Section LRun.
  Variable E : Type.
  Variable fails : string -> option E -> nat -> bool.   (* call, element, number of calls made so far *)

  Fixpoint lrun_body (body : list lstmt) (x : option E) (n : nat) (acc : list (string * option E)) : list (string * option E) * nat * lend :=
    match body with
    | [] => (acc, n, LFell)
    | LCall c :: r => if fails c x n then (acc, S n, LFailed c) else lrun_body r x (S n) (acc ++ [(c, x)])
    | LBind _ :: r => lrun_body r x n acc
    | LRetNil :: _ => (acc, n, LDone)
    | (LFor _ _ | LUnknown _) :: _ => (acc, n, LStuck)    (* no nested loops in this language *)
    end.

  Fixpoint lrun_for (body : list lstmt) (elems : list E) (n : nat) (acc : list (string * option E)) : list (string * option E) * nat * lend :=
    match elems with
    | [] => (acc, n, LFell)
    | e :: r => match lrun_body body (Some e) n acc with
                | (acc', n', LFell) => lrun_for body r n' acc'
                | res => res
                end
    end.

  Fixpoint lrun (prog : list lstmt) (elems : list E) (n : nat) (acc : list (string * option E)) : list (string * option E) * nat * lend :=
    match prog with
    | [] => (acc, n, LFell)
    | LFor _ body :: r => match lrun_for body elems n acc with
                          | (acc', n', LFell) => lrun r elems n' acc'
                          | res => res
                          end
    | LCall c :: r => if fails c None n then (acc, S n, LFailed c) else lrun r elems (S n) (acc ++ [(c, None)])
    | LBind _ :: r => lrun r elems n acc
    | LRetNil :: _ => (acc, n, LDone)
    | LUnknown _ :: _ => (acc, n, LStuck)
    end.
End LRun.
