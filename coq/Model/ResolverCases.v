(* Evaluation of recorded resolver runs on the model (C09 / C10 correspondence).
   Executable definitions only. *)
From Coq Require Import List String ZArith NArith Bool.
Import ListNotations.
From DV Require Import Model.Resolvers.
Local Open Scope string_scope.
Local Open Scope list_scope.

Fixpoint bad_idx_r {A} (f : A -> bool) (i : nat) (l : list A) : list nat :=
  match l with [] => [] | x :: r => (if f x then [] else [i]) ++ bad_idx_r f (S i) r end.

(* one identifier of a file decorated with the gotypes resolver *)
Record rcase := mkRC {
  rc_local : string;             (* the decorator's Path *)
  rc_pf : string;                (* "<ParentKind>.<Field>" of the identifier in the go/ast tree *)
  rc_occ : occurrence;           (* what types.Info says (abstraction computed by the harness) *)
  rc_called : option string;     (* Some raw: the decorator called ResolveIdent for it and this came back *)
  rc_path : string;              (* Path of the dst identifier it became *)
  rc_collapsed : bool            (* the identifier is the Sel of a selector that became one dst identifier *)
}.

Definition is_sel_pf (pf : string) : bool := String.eqb pf "SelectorExpr.Sel".

(* the path the composed model gives the identifier *)
Definition model_path (c : rcase) : string :=
  resolve_path (is_sel_pf (rc_pf c)) (rc_local c) false (rc_pf c) (gotypes_resolve (rc_occ c)).

Definition check_rcase (c : rcase) : bool :=
  String.eqb (model_path c) (rc_path c)
  && Bool.eqb (rc_collapsed c) (is_sel_pf (rc_pf c) && negb (String.eqb (model_path c) ""))
  && match rc_called c with
     | Some raw => String.eqb (gotypes_resolve (rc_occ c)) raw
                   (* the resolver is asked only where the model consults it *)
                   && (is_sel_pf (rc_pf c) || negb (in_avoid (rc_pf c)))
     | None => negb (is_sel_pf (rc_pf c)) && in_avoid (rc_pf c)
     end.

Definition bad_rcases (cs : list rcase) : list nat := bad_idx_r check_rcase 0 cs.

(* one file decorated with the goast resolver *)
Record gident := mkGI { gi_is_sel : bool; gi_x : option string; gi_x_obj : bool; gi_raw : string }.

Inductive goutcome := GORefused (why : string) | GOAnswered (ids : list gident).

Record gcase := mkGC {
  gc_specs : list ispec;
  gc_names : list (string * string);      (* package-name resolver: path -> name *)
  gc_out : goutcome
}.

Definition assoc_find (m : list (string * string)) (k : string) : option string :=
  match find (fun e => String.eqb (fst e) k) m with Some e => Some (snd e) | None => None end.

Definition check_gcase (c : gcase) : bool :=
  match goast_scan (assoc_find (gc_names c)) (gc_specs c) [], gc_out c with
  | GIError why, GORefused why' => String.eqb why why'
  | GIOk m, GOAnswered ids =>
    forallb (fun g => String.eqb (goast_resolve m (gi_is_sel g) (gi_x g) (gi_x_obj g)) (gi_raw g)) ids
  | _, _ => false
  end.

Definition bad_gcases (cs : list gcase) : list nat := bad_idx_r check_gcase 0 cs.

(* stripVendor on its own *)
Definition bad_vendor (cs : list (string * string)) : list nat :=
  bad_idx_r (fun c => String.eqb (strip_vendor (fst c)) (snd c)) 0 cs.
