(* Table languages emitted by the translator and their generic interpreters.
   Executable definitions only. *)
From Coq Require Import List String ZArith NArith Bool.
Import ListNotations.
From DV Require Import Model.Tree.
Local Open Scope string_scope.
Local Open Scope list_scope.

(* ===== Walk ========================================================================= *)

Inductive wpart :=
| WOne (f : string) (checked : bool)     (* [if n.F != nil] Walk(v, n.F) *)
| WMany (f : string)                     (* walkXList(v, n.F) / for _, x := range n.F { Walk(v, x) } *)
| WUnknown (src : string).
Definition wtable := list (string * list wpart).

Definition wfield (w : wpart) : string :=
  match w with WOne f _ => f | WMany f => f | WUnknown _ => "?" end.

Inductive ev := EVisit (id : N) | ENil | EBad.

Definition wpart_events (w : wpart) (r : option (kid (list ev))) : list ev :=
  match w, r with
  | WOne _ _, Some (One (Some evs)) => evs
  | WOne _ checked, Some (One None) => if checked then [] else [EBad]   (* Walk(v, nil) *)
  | WMany _, Some (Many ls) => List.concat ls
  | _, _ => [EBad]
  end.

Definition tbl_parts {P} (tbl : list (string * list P)) (unknown : P) (k : string) : list P :=
  match lookup tbl k with Some ps => ps | None => [unknown] end.

Fixpoint walk (tbl : wtable) (prune : N -> bool) (t : tree) : list ev :=
  match t with
  | Node id k _ kids _ _ _ =>
    let rs := map (fun p => (fst p, match snd p with
                                    | One (Some c) => One (Some (walk tbl prune c))
                                    | One None => One None
                                    | Many l => Many (map (walk tbl prune) l)
                                    end)) kids in
    if prune id then [EVisit id]
    else EVisit id :: flat_map (fun w => wpart_events w (lookup rs (wfield w)))
                               (tbl_parts tbl (WUnknown "no case") k) ++ [ENil]
  end.

(* the table-free specification: node, children in stored (struct) order, nil *)
Fixpoint spec_walk (prune : N -> bool) (t : tree) : list ev :=
  match t with
  | Node id _ _ kids _ _ _ =>
    if prune id then [EVisit id]
    else EVisit id :: flat_map (fun p => match snd p with
                                         | One (Some c) => spec_walk prune c
                                         | One None => []
                                         | Many l => flat_map (spec_walk prune) l
                                         end) kids ++ [ENil]
  end.

(* table obligation for one kind: the parts name exactly the child fields of the
   universe, in order, with the right shape *)
Definition wpart_matches (w : wpart) (f : string * ftype) : bool :=
  match w, snd f with
  | WOne n _, FNode _ => String.eqb n (fst f)
  | WMany n, FList _ => String.eqb n (fst f)
  | WMany n, FMapFiles => String.eqb n (fst f)
  | _, _ => false
  end.

Fixpoint all2 {A B} (p : A -> B -> bool) (a : list A) (b : list B) : bool :=
  match a, b with
  | [], [] => true
  | x :: a', y :: b' => p x y && all2 p a' b'
  | _, _ => false
  end.

Definition child_fields_t (u : universe_t) (k : string) : list (string * ftype) :=
  match lookup u k with
  | Some fs => filter (fun p => is_child (snd p)) fs
  | None => []
  end.

Definition walk_kind_ok (u : universe_t) (tbl : wtable) (k : string) : bool :=
  match lookup tbl k with
  | Some ps => all2 wpart_matches ps (child_fields_t u k) && nodup_string (map wfield ps)
  | None => false
  end.

Definition walk_tbl_ok (u : universe_t) (tbl : wtable) : bool :=
  forallb (fun e => walk_kind_ok u tbl (fst e)) u.

(* conformance of a tree to the universe: kids are exactly the child fields, in order,
   with the right shape (what the harness dumper produces) *)
Definition kid_shape_ok {T} (ft : ftype) (k : kid T) : bool :=
  match ft, k with
  | FNode _, One _ => true
  | FList _, Many _ => true
  | FMapFiles, Many _ => true
  | _, _ => false
  end.

Fixpoint conformsb (u : universe_t) (t : tree) : bool :=
  match t with
  | Node _ k _ kids _ _ _ =>
    (match lookup u k with Some _ => true | None => false end)
    && all2 (fun (p : string * kid tree) (f : string * ftype) => String.eqb (fst p) (fst f) && kid_shape_ok (snd f) (snd p))
         kids (child_fields_t u k)
    && forallb (fun p => match snd p with
                         | One (Some c) => conformsb u c
                         | One None => true
                         | Many l => forallb (conformsb u) l
                         end) kids
  end.

(* every child walked without a nil check is present *)
Fixpoint mandatory_okb (tbl : wtable) (t : tree) : bool :=
  match t with
  | Node _ k _ kids _ _ _ =>
    forallb (fun w => match w with
                      | WOne f false => match lookup kids f with Some (One None) => false | _ => true end
                      | _ => true
                      end) (tbl_parts tbl (WUnknown "no case") k)
    && forallb (fun p => match snd p with
                         | One (Some c) => mandatory_okb tbl c
                         | One None => true
                         | Many l => forallb (mandatory_okb tbl) l
                         end) kids
  end.

(* comparison of the reference walk table (a) with dst's (b) modulo a set of ignored fields: the
   same fields in the same order, and where the reference walks a child under a nil check (an
   optional child) dst does too *)
Definition wpart_same (a b : wpart) : bool :=
  match a, b with
  | WOne f ga, WOne g gb => String.eqb f g && implb ga gb
  | WMany f, WMany g => String.eqb f g
  | _, _ => false
  end.

Definition walk_tbls_agree (ignore : list string) (kinds : list string) (a b : wtable) : bool :=
  forallb (fun k =>
    match lookup a k, lookup b k with
    | Some pa, Some pb => all2 wpart_same (filter (fun w => negb (mem_string (wfield w) ignore)) pa) pb
    | _, _ => false
    end) kinds.

(* ===== shared expression language of the generated code =============================== *)

Definition path := list string.

Inductive cond :=
| CTrue
| CNotNil (p : path) | CIsNil (p : path)
| CBool (p : path) | CNotBool (p : path)
| CTokEq (p : path) (s : string) | CTokNe (p : path) (s : string)
| CIntEq (p : path) (z : Z)
| CPosValid (p : path)
| CUnknown (src : string).

Inductive tokx :=
| TConst (name str : string)               (* token.NAME, with its String() *)
| TField (p : path)                        (* n.Tok *)
| TChoice (c : cond) (a b : tokx)          (* func() token.Token { if c { return a }; return b }() *)
| TUnknown (src : string).

(* ===== Restorer (restorer-generated.go), statement by statement ====================== *)

Inductive rstmt :=
| RMapAst | RMapDst                        (* r.Ast.Nodes[n] = out ; r.Dst.Nodes[out] = n *)
| RMapAstAt (p : path) | RMapDstAt (p : path)
| RSpace (after : bool)                    (* r.applySpace(n, "Before"/"After", ...) *)
| RDec (name : string) (owner : path) (point : string) (isend : bool)
                                           (* r.applyDecorations(out, name, n.owner.Decs.point, isend) *)
| RSetPos (o : path) | RSetNoPos (o : path)
| RAdvTok (t : tokx) | RAdvStr (p : path) | RAdvLen (p : path)
| RLiteral (p : path)
| RCopy (o p : path)
| RInit (o : path) (ty : string)
| RNode (p o : path) (pn pf pt : string)   (* if n.P != nil { out.O = r.restoreNode(n.P, pn, pf, pt, ..) } *)
| RList (p o : path) (pn pf pt : string)
| RMapNodes (p o : path) (pn pf pt : string)
| RMapObjs (p o : path)
| RMakeMap (o : path)
| RScope (p o : path) | RObject (p o : path)
| RIf (c : cond) (th el : list rstmt)
| RIdentHook
| RUnknown (src : string).

(* ===== dstutil.Decorations listing (dstutil/decorations-generated.go) ================= *)
Inductive ppart := PBefore | PAfter | PPoint (name field : string) | PUnknown (src : string).

(* ===== Clone (clone-generated.go), statement by statement ============================= *)
Inductive cstmt :=
| KNew (ty : string) | KReturn
| KSpace (owner : path) (after : bool)          (* out.O.Decs.Before/After = n.O.Decs.Before/After *)
| KDec (owner : path) (point : string)          (* out.O.Decs.P = append(out.O.Decs.P, n.O.Decs.P...) *)
| KAliasDec (owner : path) (point : string)     (* out.O.Decs.P = n.O.Decs.P : shares the backing array *)
| KCopy (p : path)                              (* out.P = n.P *)
| KNode (p : path) (ty : string)                (* if n.P != nil { out.P = Clone(n.P).(T) } *)
| KList (p : path) (ty : string)                (* for _, v := range n.P { out.P = append(out.P, Clone(v).(T)) } *)
| KInit (p : path) (ty : string)                (* out.P = &T{} *)
| KObj (p : path) | KScope (p : path)           (* out.P = CloneObject(n.P) / CloneScope(n.P) *)
| KMapNodes (p : path) | KMapObjs (p : path)
| KUnknown (src : string).

(* ===== gendst/data/data.go: the part list every generator reads ======================= *)
Inductive dpart :=
| DDec (name : string) (disabled : bool)
| DSpecialDec (name : string) (decs : path) (isend : bool)
| DPathDec (name : string)
| DTok (name : string) (posfield : path)
| DStr (name : string) (valfield posfield : path) (literal : bool)
| DNode (name : string) (field : path)
| DList (name : string) (field : path) (norestore : bool)
| DMap (name : string) (field : path)
| DBad (lenfield fromfield tofield : path)
| DInit (name : string) (field : path)
| DValue (name : string) (field : path)
| DScope | DObject
| DUnknown (src : string).

(* ===== dstutil.Apply (dstutil/rewrite.go) ============================================== *)
Inductive apart :=
| AOne (lit field : string)            (* a.apply(n, "lit", nil, n.field) *)
| AOneG (lit field : string)           (* if n.field != nil { a.apply(n, "lit", nil, n.field) }: no callback for nil *)
| AMany (lit : string)                 (* a.applyList(n, "lit") *)
| APkgFiles                            (* files of a package in sorted name order *)
| AUnknown (src : string).

(* the Cursor edit methods as slice operations *)
Inductive iop :=
| IFileCase | IGetIndex | IPanicIfNoSlice | IField | ILen
| IAppendZero
| ICopy (d s : Z)                      (* reflect.Copy(v.Slice(i+d, l), v.Slice(i+s, l)) *)
| IZeroLast | ITrunc
| ISet (o : Z)                         (* v.Index(i+o).Set(n) *)
| IStep (z : Z) | IIndex (z : Z)
| IAtIndex | ISetV
| IUnknown (src : string).

(* ===== Decorator (decorator-node-generated.go), statement by statement ================= *)
(* where a value assigned by the decorator comes from *)
Inductive vsrc :=
| VCopy (p : path)            (* n.P, or a type conversion T(n.P) *)
| VValid (p : path)           (* n.P.IsValid() *)
| VNoPos (p : path)           (* if n.P == token.NoPos { out.O = true } *)
| VConst (s : string)         (* true / false *)
| VExpr (s : string).         (* anything else *)

Inductive nstmt :=
| NNew (ty : string) | NReturn
| NMapDst (p : path) | NMapAst (p : path)         (* f.Dst.Nodes[n.P] = out.P ; f.Ast.Nodes[out.P] = n.P *)
| NSpace (after : bool)
| NInit (p : path) (ty : string)
| NNode (p o : path) (k f t asserted : string)    (* if n.P != nil { child, err := f.decorateNode(n, k, f, t, n.P); ...; out.O = child.(asserted) } *)
| NList (p o : path) (k f t asserted : string)
| NMapNodes (p : path) (k f t : string)
| NSet (o : path) (v : vsrc)                      (* out.O = <value expression not involving the maps> *)
| NDecs (points : list string)
| NErrCheck
| NSelectorHook
| NOther (src : string)
| NWritesInput (src : string)
| NUnknown (src : string).
