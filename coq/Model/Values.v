(* Token-carrying values survive the conversion in both directions (C03): every field of a dst
   node that holds identifier text, literal text or a token (string, token.Token, ChanDir) is
   assigned by the decorator as a plain copy of the go/ast field of the same name, and copied back
   by the restorer.  The one exception is Ident.Path, which the decorator computes (resolver) and
   the restorer consumes in restoreIdent (C08-C10).  Executable definitions only. *)
From Coq Require Import List String ZArith NArith Bool.
Import ListNotations.
From DV Require Import Model.Tree Model.Tables.
Local Open Scope string_scope.
Local Open Scope list_scope.

Definition token_field_type (ty : string) : bool :=
  String.eqb ty "string" || String.eqb ty "token.Token" || String.eqb ty "ChanDir".

Definition value_exception (k f : string) : bool := String.eqb k "Ident" && String.eqb f "Path".

Definition dec_copies (l : list nstmt) (f : string) : bool :=
  existsb (fun s => match s with
                    | NSet [o] (VCopy [p]) => String.eqb o f && String.eqb p f
                    | _ => false
                    end) l.

Fixpoint rest_copies_stmt (f : string) (s : rstmt) : bool :=
  match s with
  | RCopy [o] [p] => String.eqb o f && String.eqb p f
  | RIf _ th el =>
    (fix go (l : list rstmt) : bool := match l with [] => false | x :: r => rest_copies_stmt f x || go r end) th ||
    (fix go (l : list rstmt) : bool := match l with [] => false | x :: r => rest_copies_stmt f x || go r end) el
  | _ => false
  end.

Definition rest_copies (l : list rstmt) (f : string) : bool := existsb (rest_copies_stmt f) l.

(* assigned exactly once by the decorator (no second assignment overwrites the copy) *)
Definition dec_sets_once (l : list nstmt) (f : string) : bool :=
  Nat.eqb (List.length (filter (fun s => match s with NSet [o] _ => String.eqb o f | _ => false end) l)) 1.

Definition values_roundtrip (u : universe_t) (dt : list (string * list nstmt)) (rt : list (string * list rstmt)) : bool :=
  forallb (fun e =>
    let k := fst e in
    forallb (fun fld =>
      match snd fld with
      | FVal ty =>
        if token_field_type ty && negb (value_exception k (fst fld)) then
          match lookup dt k, lookup rt k with
          | Some ds, Some rs => dec_copies ds (fst fld) && dec_sets_once ds (fst fld) && rest_copies rs (fst fld)
          | _, _ => false
          end
        else true
      | _ => true
      end) (snd e)) u.

(* the bool fields: copied, or derived from the validity of the position of the same name, or a
   constant -- never from anything else *)
Definition bools_derived (u : universe_t) (dt : list (string * list nstmt)) : bool :=
  forallb (fun e =>
    let k := fst e in
    forallb (fun fld =>
      match snd fld with
      | FVal "bool" =>
        match lookup dt k with
        | Some ds => forallb (fun s => match s with
                                       | NSet [o] v => if String.eqb o (fst fld)
                                                       then match v with
                                                            | VCopy [p] | VValid [p] => String.eqb p o
                                                            | VNoPos _ => true
                                                            | VConst _ => true
                                                            | _ => false
                                                            end
                                                       else true
                                       | _ => true
                                       end) ds
        | None => false
        end
      | _ => true
      end) (snd e)) u.
