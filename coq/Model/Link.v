(* fileDecorator.link (decorator/decorator-fragment.go): hand model of the attachment algorithm
   over the sorted fragment list -- pass 1 (hanging-indent special case, the five-try search for
   every comment), pass 2 (newlines to Before/After spacing or to decorations), findDecoration,
   findNode, findIndentedComments, attachToDecoration, appendNewLine.  The input (the sorted
   fragment list with indents) is produced by the real fragment() and handed over by the verif
   hook; the output (decorations, Before/After) is compared with the real link().
   Executable definitions only. *)
From Coq Require Import List String ZArith NArith Bool.
Import ListNotations.
From DV Require Import Model.Tree.
Local Open Scope list_scope.

Record nclass := mkNC { nc_stmt : bool; nc_decl : bool; nc_labeled : bool; nc_clause : bool }.

Inductive frag :=
| FDec (nid : N) (cls : nclass) (name : string) (start_ind end_ind : Z)
| FTok                                       (* token or string: every search stops here *)
| FBad                                       (* bad node: no search sees it *)
| FCom (d : dec) (indent : Z) (att : option nat)
| FNl (empty : bool) (att : option nat).

Definition dkey := (N * string)%type.
Definition dkey_eqb (a b : dkey) : bool := N.eqb (fst a) (fst b) && String.eqb (snd a) (snd b).

Record lstate := mkL {
  l_frags : list frag;
  l_decs : list (dkey * list dec);          (* f.decorations *)
  l_before : list (N * space);
  l_after : list (N * space);
  l_panic : bool
}.

Fixpoint set_nth {A} (l : list A) (i : nat) (x : A) : list A :=
  match l, i with
  | [], _ => []
  | _ :: r, O => x :: r
  | y :: r, S i' => y :: set_nth r i' x
  end.

Fixpoint dget (m : list (dkey * list dec)) (k : dkey) : list dec :=
  match m with [] => [] | (k', v) :: r => if dkey_eqb k k' then v else dget r k end.

Fixpoint dset (m : list (dkey * list dec)) (k : dkey) (v : list dec) : list (dkey * list dec) :=
  match m with
  | [] => [(k, v)]
  | (k', v') :: r => if dkey_eqb k k' then (k, v) :: r else (k', v') :: dset r k v
  end.

Fixpoint sget (m : list (N * space)) (k : N) : option space :=
  match m with [] => None | (k', v) :: r => if N.eqb k k' then Some v else sget r k end.

Fixpoint sset (m : list (N * space)) (k : N) (v : space) : list (N * space) :=
  match m with
  | [] => [(k, v)]
  | (k', v') :: r => if N.eqb k k' then (k, v) :: r else (k', v') :: sset r k v
  end.

Definition is_line (d : dec) : bool := match d with DLine _ _ => true | _ => false end.

(* appendNewLine: one "\n" (two for an empty line), one less after a line comment *)
Definition append_newline (ds : list dec) (empty : bool) : list dec :=
  let num := (if empty then 2 else 1) - (match rev ds with d :: _ => if is_line d then 1 else 0 | [] => 0 end) in
  ds ++ repeat DNl num.

Definition dec_key (fs : list frag) (j : nat) : option dkey :=
  match nth_error fs j with Some (FDec nid _ name _ _) => Some (nid, name) | _ => None end.

(* attachToDecoration *)
Definition attach_one (j : nat) (s : lstate) (i : nat) : lstate :=
  match dec_key (l_frags s) j, nth_error (l_frags s) i with
  | Some k, Some (FCom d ind _) =>
    mkL (set_nth (l_frags s) i (FCom d ind (Some j))) (dset (l_decs s) k (dget (l_decs s) k ++ [d])) (l_before s) (l_after s) (l_panic s)
  | Some k, Some (FNl e _) =>
    mkL (set_nth (l_frags s) i (FNl e (Some j))) (dset (l_decs s) k (append_newline (dget (l_decs s) k) e)) (l_before s) (l_after s) (l_panic s)
  | _, _ => s
  end.

Definition attach (s : lstate) (swept : list nat) (j : nat) : lstate := fold_left (attach_one j) swept s.

(* findDecoration: the indices swept (in fragment order) and the decoration found *)
Inductive sres := RFound | RStop | RCont (sweep : bool).

Definition scan_step (stop_nl stop_empty : bool) (fr : option frag) : sres :=
  match fr with
  | None => RStop
  | Some (FDec _ _ _ _ _) => RFound
  | Some FTok => RStop
  | Some FBad => RCont false
  | Some (FNl e a) => if stop_nl then RStop else if stop_empty && e then RStop
                      else RCont (match a with Some _ => false | None => true end)
  | Some (FCom _ _ a) => RCont (match a with Some _ => false | None => true end)
  end.

Fixpoint find_dec_fwd (stop_nl stop_empty : bool) (fs : list frag) (i : nat) (fuel : nat) (acc : list nat) : option (list nat * nat) :=
  match fuel with
  | O => None
  | S f =>
    match scan_step stop_nl stop_empty (nth_error fs i) with
    | RFound => Some (acc, i)
    | RStop => None
    | RCont sw => find_dec_fwd stop_nl stop_empty fs (S i) f (if sw then acc ++ [i] else acc)
    end
  end.

Fixpoint find_dec_bwd (stop_nl stop_empty : bool) (fs : list frag) (i : nat) (acc : list nat) : option (list nat * nat) :=
  match scan_step stop_nl stop_empty (nth_error fs i) with
  | RFound => Some (acc, i)
  | RStop => None
  | RCont sw => match i with
                | O => None
                | S i' => find_dec_bwd stop_nl stop_empty fs i' (if sw then i :: acc else acc)
                end
  end.

Definition find_decoration (stop_nl stop_empty : bool) (fs : list frag) (from : nat) (forward : bool) : option (list nat * nat) :=
  if forward then find_dec_fwd stop_nl stop_empty fs from (S (List.length fs)) [] else find_dec_bwd stop_nl stop_empty fs from [].

(* findNode: the node whose Start (forward) / End (backward) decoration is reached first, also
   through a comment or newline already attached to such a decoration *)
Definition node_step (want : string) (fs : list frag) (fr : option frag) : option (option N) :=   (* Some r: stop with r; None: continue *)
  match fr with
  | None => Some None
  | Some (FDec nid _ name _ _) => Some (if String.eqb name want then Some nid else None)
  | Some FTok => Some None
  | Some FBad => None
  | Some (FCom _ _ (Some j)) | Some (FNl _ (Some j)) =>
    match nth_error fs j with
    | Some (FDec nid _ name _ _) => if String.eqb name want then Some (Some nid) else None
    | _ => None
    end
  | Some _ => None
  end.

Fixpoint find_node_fwd (fs : list frag) (i : nat) (fuel : nat) : option N :=
  match fuel with
  | O => None
  | S f => match node_step "Start" fs (nth_error fs i) with Some r => r | None => find_node_fwd fs (S i) f end
  end.

Fixpoint find_node_bwd (fs : list frag) (i : nat) : option N :=
  match node_step "End" fs (nth_error fs i) with
  | Some r => r
  | None => match i with O => None | S i' => find_node_bwd fs i' end
  end.

(* findIndentedComments: stage 0 (indent of the End), stage 1 (indent of the Start), the next
   decoration fragment *)
Fixpoint find_indented (fs : list frag) (i : nat) (fuel : nat) (ind0 ind1 : Z) (stage : bool) (past_nl : bool)
         (f0 f1 : list nat) : list nat * list nat * option nat :=
  match fuel with
  | O => (f0, f1, None)
  | S f =>
    match nth_error fs i with
    | None => (f0, f1, None)
    | Some (FDec _ _ _ _ _) => (f0, f1, Some i)
    | Some FTok => (f0, f1, None)
    | Some FBad => find_indented fs (S i) f ind0 ind1 stage past_nl f0 f1
    | Some (FNl _ _) =>
      if stage then find_indented fs (S i) f ind0 ind1 stage true f0 (f1 ++ [i])
      else find_indented fs (S i) f ind0 ind1 stage true (f0 ++ [i]) f1
    | Some (FCom _ ind _) =>
      if negb past_nl then
        (if stage then find_indented fs (S i) f ind0 ind1 stage past_nl f0 (f1 ++ [i])
         else find_indented fs (S i) f ind0 ind1 stage past_nl (f0 ++ [i]) f1)
      else if negb stage then
        (if Z.eqb ind ind0 then find_indented fs (S i) f ind0 ind1 false past_nl (f0 ++ [i]) f1
         else if Z.eqb ind ind1 then find_indented fs (S i) f ind0 ind1 true past_nl f0 (f1 ++ [i])
         else (f0, f1, None))
      else
        (if Z.eqb ind ind1 then find_indented fs (S i) f ind0 ind1 true past_nl f0 (f1 ++ [i])
         else (f0, f1, None))
    end
  end.

Definition is_nl_frag (fs : list frag) (i : nat) : bool :=
  match nth_error fs i with Some (FNl _ _) => true | _ => false end.

(* ---- pass 1 ------------------------------------------------------------------------------- *)
Definition set_panic_l (s : lstate) : lstate := mkL (l_frags s) (l_decs s) (l_before s) (l_after s) true.

Definition pass1_step (s : lstate) (i : nat) : lstate :=
  if l_panic s then s else
  let fs := l_frags s in
  match nth_error fs i with
  | Some (FDec nid cls name st en) =>
    if negb (String.eqb name "End") then s
    else if negb (nc_stmt cls || nc_decl cls) then s
    else if nc_labeled cls then s
    else
      let en' := if Z.eqb st en && nc_clause cls then (en + 1)%Z else en in
      if negb (Z.eqb en' (st + 1)) then s
      else
        let '(f0, f1, next) := find_indented fs (S i) (S (List.length fs)) en' st false false [] [] in
        let s1 := match rev f0 with
                  | [] => s
                  | l :: _ => if is_nl_frag fs l then attach s (removelast f0) i else attach s f0 i
                  end in
        match f1, next with
        | _ :: _, Some j =>
          match nth_error fs j with
          | Some (FDec _ cls' _ st' _) =>
            if (nc_stmt cls' || nc_decl cls') && Z.eqb st' st then attach s1 f1 j else s1
          | _ => s1
          end
        | _, _ => s1
        end
  | Some (FCom _ _ None) =>
    let try (r : option (list nat * nat)) (k : unit -> lstate) : lstate :=
      match r with Some (sw, j) => attach s sw j | None => k tt end in
    try (find_decoration true true fs i false) (fun _ =>
    try (find_decoration false true fs i true) (fun _ =>
    try (find_decoration false true fs i false) (fun _ =>
    try (find_decoration false false fs i true) (fun _ =>
    try (find_decoration false false fs i false) (fun _ => set_panic_l s)))))
  | _ => s
  end.

Definition pass1 (s : lstate) : lstate := fold_left pass1_step (seq 0 (List.length (l_frags s))) s.

(* ---- pass 2 ------------------------------------------------------------------------------- *)
Definition pass2_step (s : lstate) (i : nat) : lstate :=
  if l_panic s then s else
  let fs := l_frags s in
  match nth_error fs i with
  | Some (FNl e None) =>
    let nb := find_node_fwd fs i (S (List.length fs)) in
    let na := find_node_bwd fs i in
    let sp := if e then SEmptyLine else SNewLine in
    match nb, na with
    | None, None =>
      let put (j : nat) : lstate :=
        match dec_key fs j with
        | Some k => mkL fs (dset (l_decs s) k (append_newline (dget (l_decs s) k) e)) (l_before s) (l_after s) (l_panic s)
        | None => s
        end in
      match find_decoration false false fs i false with
      | Some (_, j) => put j
      | None => match find_decoration false false fs i true with
                | Some (_, j) => put j
                | None => set_panic_l s
                end
      end
    | _, _ =>
      mkL fs (l_decs s)
          (* an EmptyLine already recorded is not downgraded *)
          (match nb with
           | Some n => match sget (l_before s) n with Some SEmptyLine => l_before s | _ => sset (l_before s) n sp end
           | None => l_before s end)
          (match na with
           | Some n => match sget (l_after s) n with Some SEmptyLine => l_after s | _ => sset (l_after s) n sp end
           | None => l_after s end)
          (l_panic s)
    end
  | _ => s
  end.

Definition pass2 (s : lstate) : lstate := fold_left pass2_step (seq 0 (List.length (l_frags s))) s.

Definition link (fs : list frag) : lstate := pass2 (pass1 (mkL fs [] [] [] false)).

(* ---- the no-panic condition ----------------------------------------------------------------- *)
(* From index i a decoration fragment is reached, forwards or backwards, before a token fragment
   or an end of the list (attachments play no role). *)
Definition kind_step (fr : option frag) : sres :=
  match fr with
  | None => RStop
  | Some (FDec _ _ _ _ _) => RFound
  | Some FTok => RStop
  | Some _ => RCont false
  end.

Fixpoint dec_fwd (fs : list frag) (i : nat) (fuel : nat) : bool :=
  match fuel with
  | O => false
  | S f => match kind_step (nth_error fs i) with RFound => true | RStop => false | RCont _ => dec_fwd fs (S i) f end
  end.

Fixpoint dec_bwd (fs : list frag) (i : nat) : bool :=
  match kind_step (nth_error fs i) with
  | RFound => true
  | RStop => false
  | RCont _ => match i with O => false | S i' => dec_bwd fs i' end
  end.

Definition seg_has_dec (fs : list frag) (i : nat) : bool := dec_fwd fs i (S (List.length fs)) || dec_bwd fs i.

Definition seg_ok (fs : list frag) : bool :=
  forallb (fun i => match nth_error fs i with
                    | Some (FCom _ _ _) | Some (FNl _ _) => seg_has_dec fs i
                    | _ => true
                    end) (seq 0 (List.length fs)).
