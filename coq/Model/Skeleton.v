(* The render skeleton of a node kind: the order in which decoration points, tokens,
   strings, children and lists are emitted.  Computed (1) from the restorer table
   (restorer-generated.go) and (2) from gendst/data/data.go, the description that also
   produces the documentation of every decoration point.  Executable definitions only. *)
From Coq Require Import List String ZArith NArith Bool.
Import ListNotations.
From DV Require Import Model.Tree Model.Tables.
Local Open Scope string_scope.
Local Open Scope list_scope.

Inductive sk :=
| SkDec (owner : path) (point : string)
| SkPos (p : path)
| SkTok
| SkStr (p : path)
| SkBad (p : path)
| SkNode (p : path)
| SkList (p : path).

Fixpoint path_eqb (a b : path) : bool :=
  match a, b with
  | [], [] => true
  | x :: a', y :: b' => String.eqb x y && path_eqb a' b'
  | _, _ => false
  end.

Definition sk_eqb (a b : sk) : bool :=
  match a, b with
  | SkDec o p, SkDec o' p' => path_eqb o o' && String.eqb p p'
  | SkPos p, SkPos p' => path_eqb p p'
  | SkTok, SkTok => true
  | SkStr p, SkStr p' => path_eqb p p'
  | SkBad p, SkBad p' => path_eqb p p'
  | SkNode p, SkNode p' => path_eqb p p'
  | SkList p, SkList p' => path_eqb p p'
  | _, _ => false
  end.

Fixpoint sks_eqb (a b : list sk) : bool :=
  match a, b with
  | [], [] => true
  | x :: a', y :: b' => sk_eqb x y && sks_eqb a' b'
  | _, _ => false
  end.

Fixpoint rest_sk (s : rstmt) : list sk :=
  match s with
  | RDec _ own point _ => [SkDec own point]
  | RSetPos o => [SkPos o]
  | RAdvTok _ => [SkTok]
  | RAdvStr p => [SkStr p]
  | RAdvLen p => [SkBad p]
  | RNode p _ _ _ _ => [SkNode p]
  | RList p _ _ _ _ => [SkList p]
  | RMapNodes p _ _ _ _ => [SkList p]
  | RIf _ th el =>
    (fix go (l : list rstmt) : list sk := match l with [] => [] | x :: r => rest_sk x ++ go r end) th ++
    (fix go (l : list rstmt) : list sk := match l with [] => [] | x :: r => rest_sk x ++ go r end) el
  | RUnknown _ => [SkDec ["?"] "?"]
  | _ => []
  end.

Definition rest_skeleton (l : list rstmt) : list sk := flat_map rest_sk l.

Fixpoint drop_last {A} (l : list A) : list A :=
  match l with [] => [] | [_] => [] | x :: r => x :: drop_last r end.

Definition opt_pos (p : path) : list sk := match p with [] => [] | _ => [SkPos p] end.

(* what the restorer is expected to emit for one part of data.go *)
Definition data_sk_rest (d : dpart) : list sk :=
  match d with
  | DDec name _ => [SkDec [] name]
  | DSpecialDec name decs _ => [SkDec (drop_last decs) name]
  | DTok _ pos => opt_pos pos ++ [SkTok]
  | DStr _ v pos _ => opt_pos pos ++ [SkStr v]
  | DBad len from to => opt_pos from ++ [SkBad len] ++ opt_pos to
  | DNode _ f => [SkNode f]
  | DList _ f norestore => if norestore then [] else [SkList f]
  | DMap _ f => [SkList f]
  | DUnknown _ => [SkDec ["??"] "??"]
  | _ => []
  end.

Definition data_skeleton_rest (l : list dpart) : list sk := flat_map data_sk_rest l.

Definition rest_matches_data (dt : list (string * list dpart)) (rt : list (string * list rstmt)) (u : universe_t) : bool :=
  forallb (fun e =>
    String.eqb (fst e) "Package" ||     (* Package has no rendering *)
    match lookup dt (fst e), lookup rt (fst e) with
    | Some ds, Some rs => sks_eqb (rest_skeleton rs) (data_skeleton_rest ds)
    | _, _ => false
    end) u.

