(* Evaluation of harness-recorded traces of the real Decorations methods on the model. *)
From Coq Require Import List Arith Bool.
Import ListNotations.
From DV Require Import Model.SliceHeap.

Record tstep := mkT {
  t_op : op;
  t_cap : nat;                   (* capacity observed after the step: the grow oracle *)
  t_contents : list cell;        (* observed contents of the list after the step *)
  t_moved : bool                 (* the list's data pointer changed (both caps > 0) *)
}.
Definition trace_case := (heap * list tstep * heap)%type.   (* caller arrays, steps, caller arrays at the end *)

Fixpoint list_eqb (a b : list nat) : bool :=
  match a, b with
  | [], [] => true
  | x :: a', y :: b' => Nat.eqb x y && list_eqb a' b'
  | _, _ => false
  end.
Fixpoint heap_eqb (a b : heap) : bool :=
  match a, b with
  | [], [] => true
  | x :: a', y :: b' => list_eqb x y && heap_eqb a' b'
  | _, _ => false
  end.

Definition moved (d d' : option slice) : bool :=
  match d, d' with
  | Some a, Some b => (0 <? cap a) && (0 <? cap b) && negb (Nat.eqb (arr a) (arr b))
  | _, _ => false
  end.

Fixpoint run_trace (ir : meth -> method_ir) (s : st) (steps : list tstep) : option st :=
  match steps with
  | [] => Some s
  | t :: rest =>
    match step (fun _ _ => t_cap t) ir s (t_op t) with
    | None => None
    | Some s' =>
      if list_eqb (contents (sheap s') (sd s')) (t_contents t)
         && Nat.eqb (scap (sd s')) (t_cap t)
         && Bool.eqb (moved (sd s) (sd s')) (t_moved t)
      then run_trace ir s' rest else None
    end
  end.

Definition check_case (ir : meth -> method_ir) (c : trace_case) : bool :=
  let '(h0, steps, hfin) := c in
  match run_trace ir (mkSt h0 None []) steps with
  | Some s => heap_eqb (firstn (length h0) (sheap s)) hfin
  | None => false
  end.

Fixpoint bad_from (ir : meth -> method_ir) (i : nat) (cs : list trace_case) : list nat :=
  match cs with
  | [] => []
  | c :: rest => if check_case ir c then bad_from ir (S i) rest else i :: bad_from ir (S i) rest
  end.
Definition bad_cases ir cs := bad_from ir 0 cs.
