(* Evaluation of recorded updateImports runs on the model. *)
From Coq Require Import List String ZArith NArith Bool.
Import ListNotations.
From DV Require Import Model.Tree Model.Imports Model.WalkCases.
Local Open Scope string_scope.
Local Open Scope list_scope.

Record icase := mkIC {
  ic_local : string;
  ic_alias : amap;
  ic_resolver : amap;
  ic_blocks : list block;
  ic_used : list string;
  ic_failed : option string;                               (* Some p: "could not resolve package p" *)
  ic_out_blocks : list (list (string * string * space * space) * bool);   (* specs (path, alias, before, after), parenthesised *)
  ic_out_names : list (string * string)                    (* used path -> qualifier in the output ("" = bare) *)
}.

Definition spec_obs (s : spec) := (s_path s, s_name s, s_before s, s_after s).

Definition obs_eqb (a b : string * string * space * space) : bool :=
  match a, b with (p, n, sb, sa), (p', n', sb', sa') => String.eqb p p' && String.eqb n n' && space_eqb sb sb' && space_eqb sa sa' end.

Fixpoint lall2 {A B} (f : A -> B -> bool) (a : list A) (b : list B) : bool :=
  match a, b with [], [] => true | x :: a', y :: b' => f x y && lall2 f a' b' | _, _ => false end.

Definition check_icase (c : icase) : bool :=
  match update_imports (aget (ic_resolver c)) (ic_local c) (ic_alias c) (ic_blocks c) (ic_used c), ic_failed c with
  | Failed p, Some q => String.eqb p q
  | Done blocks _ names _ _, None =>
    lall2 (fun b o => lall2 obs_eqb (map spec_obs (b_specs b)) (fst o) && Bool.eqb (b_paren b) (snd o))
          (* cgo-only blocks are left alone by updateImports and are not part of [blocks]: the
             harness reports only the blocks updateImports manages *)
          blocks (ic_out_blocks c)
    && forallb (fun pn => String.eqb (match rendered_qualifier (ic_local c) names (fst pn) with Some n => n | None => "" end) (snd pn))
               (ic_out_names c)
  | _, _ => false
  end.

Definition bad_icases (cs : list icase) : list nat := bad_idx check_icase 0 cs.
