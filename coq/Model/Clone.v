(* Clone: the generic interpreter of the translated clone table (Gen/CloneTbl.v, one cstmt per
   statement of clone-generated.go), the table obligation, and the specification.
   Executable definitions only.

   Semantics.  Every statement of a Clone case reads only n and assigns one field of the
   freshly allocated out, so the resulting struct is described field by field: a field of out
   holds what the (first) statement targeting it assigns, and its zero value when no statement
   targets it.  Node identities are kept in the model (a cloned node carries the id of the
   node it was cloned from); the freshness of the clone's storage is the separate notion
   [origin] below. *)
From Coq Require Import List String ZArith NArith Bool.
Import ListNotations.
From DV Require Import Model.Tree Model.Tables Model.Skeleton.
Local Open Scope string_scope.
Local Open Scope list_scope.

Inductive ctree := CT (orig : tree) (res : tree) (ck : list (string * kid ctree)).
Definition ct_orig (c : ctree) := match c with CT o _ _ => o end.
Definition ct_res (c : ctree) := match c with CT _ r _ => r end.
Definition ct_kids (c : ctree) := match c with CT _ _ k => k end.

Definition zero_val (v : val) : val :=
  match v with
  | VBool _ => VBool false
  | VTok _ => VTok "ILLEGAL"
  | VStr _ _ _ => VStr 0 [] 0
  | VInt _ => VInt 0
  | VPos _ => VPos 0
  | VRef _ => VRef 0
  end.

Definition empty_kid {T} (k : kid T) : kid tree :=
  match k with One _ => One None | Many _ => Many [] end.

Fixpoint find_stmt (sel : cstmt -> bool) (l : list cstmt) : option cstmt :=
  match l with [] => None | s :: r => if sel s then Some s else find_stmt sel r end.

Definition targets_val (p : path) (s : cstmt) : bool :=
  match s with KCopy q | KObj q | KScope q | KMapObjs q => path_eqb p q | _ => false end.
Definition targets_kid (p : path) (s : cstmt) : bool :=
  match s with KNode q _ | KList q _ | KMapNodes q | KCopy q | KInit q _ => path_eqb p q | _ => false end.
Definition targets_dec (o : path) (pt : string) (s : cstmt) : bool :=
  match s with KDec q x | KAliasDec q x => path_eqb o q && String.eqb pt x | _ => false end.
Definition targets_space (o : path) (after : bool) (s : cstmt) : bool :=
  match s with KSpace q a => path_eqb o q && Bool.eqb after a | _ => false end.

Definition orig_kid (r : kid ctree) : kid tree :=
  match r with
  | One (Some c) => One (Some (ct_orig c))
  | One None => One None
  | Many l => Many (map ct_orig l)
  end.

(* one struct level: [rk] are the children of n with their clones; [nested f r] is what an
   Init statement (out.F = &T{}) leaves in field f *)
Definition clone_level (stmts : list cstmt) (prefix : path) (n : tree) (rk : list (string * kid ctree))
           (nested : string -> kid ctree -> kid tree) : tree :=
  Node (tid n) (tkind n)
    (map (fun fv => (fst fv,
            match find_stmt (targets_val (prefix ++ [fst fv])) stmts with
            | Some (KCopy _) => snd fv
            | _ => zero_val (snd fv)
            end)) (tvals n))
    (map (fun fr => (fst fr,
            match find_stmt (targets_kid (prefix ++ [fst fr])) stmts, snd fr with
            | Some (KNode _ _), One (Some r) => One (Some (ct_res r))
            | Some (KList _ _), Many l => Many (map ct_res l)
            | Some (KMapNodes _), Many l => Many (map ct_res l)
            | Some (KCopy _), r => orig_kid r                    (* out.F = n.F on a node or slice: shared *)
            | Some (KInit _ _), r => nested (fst fr) r
            | _, r => empty_kid r
            end)) rk)
    (map (fun pd => (fst pd,
            match find_stmt (targets_dec prefix (fst pd)) stmts with
            | Some _ => snd pd
            | None => []
            end)) (tdecs n))
    (match find_stmt (targets_space prefix false) stmts with Some _ => tbefore n | None => SNone end)
    (match find_stmt (targets_space prefix true) stmts with Some _ => tafter n | None => SNone end).

Definition clone_node (tbl : list (string * list cstmt)) (n : tree) (rk : list (string * kid ctree)) : tree :=
  let stmts := tbl_parts tbl (KUnknown "no case") (tkind n) in
  clone_level stmts [] n rk
    (fun f r => match r with
                | One (Some c) => One (Some (clone_level stmts [f] (ct_orig c) (ct_kids c) (fun _ k => empty_kid k)))
                | One None => One None     (* Go: n.F.X on a nil n.F panics *)
                | Many _ => Many []
                end).

Fixpoint cbuild (tbl : list (string * list cstmt)) (t : tree) : ctree :=
  match t with
  | Node id k vals kids decs b a =>
    let rk := map (fun p => (fst p, match snd p with
                                    | One (Some c) => One (Some (cbuild tbl c))
                                    | One None => One None
                                    | Many l => Many (map (cbuild tbl) l)
                                    end)) kids in
    CT t (clone_node tbl t rk) rk
  end.

Definition clone (tbl : list (string * list cstmt)) (t : tree) : tree := ct_res (cbuild tbl t).

(* ---- where the storage of the clone comes from -------------------------------------- *)
Inductive origin := Fresh | SharedWithOriginal.

Definition dec_origin (stmts : list cstmt) (o : path) (pt : string) : origin :=
  match find_stmt (targets_dec o pt) stmts with
  | Some (KAliasDec _ _) => SharedWithOriginal
  | _ => Fresh          (* append(out.Decs.P (nil), n.Decs.P...): a new array, or nil when empty *)
  end.

Definition kid_origin (stmts : list cstmt) (p : path) : origin :=
  match find_stmt (targets_kid p) stmts with
  | Some (KCopy _) => SharedWithOriginal
  | _ => Fresh
  end.

(* ---- the specification: what a complete copy is -------------------------------------- *)
(* fields of a kind that an Init statement allocates instead of cloning: their own spacing is
   not copied (the restorer never renders it, see C06_init_spacing_never_rendered) *)
Definition init_fields : list (string * string) := [("FuncDecl", "Type")].

Definition is_init_field (k f : string) : bool :=
  existsb (fun e => String.eqb (fst e) k && String.eqb (snd e) f) init_fields.

Definition drop_ref (v : val) : val := match v with VRef _ => VRef 0 | _ => v end.

Definition strip_space (t : tree) : tree :=
  match t with Node id k v ks d _ _ => Node id k v ks d SNone SNone end.

Fixpoint normalize (t : tree) : tree :=
  match t with
  | Node id k vals kids decs b a =>
    Node id k (map (fun fv => (fst fv, drop_ref (snd fv))) vals)
      (map (fun fk => (fst fk,
              match snd fk with
              | One (Some c) => One (Some (if is_init_field k (fst fk) then strip_space (normalize c) else normalize c))
              | One None => One None
              | Many l => Many (map normalize l)
              end)) kids)
      decs b a
  end.

(* ---- conformance of a tree to the universe (values and decoration points included) ---- *)
Definition is_val_field (ft : ftype) : bool :=
  match ft with FVal _ | FObj | FScope | FMapObj | FOther _ => true | _ => false end.

Definition val_fields_t (u : universe_t) (k : string) : list (string * ftype) :=
  match lookup u k with Some fs => filter (fun p => is_val_field (snd p)) fs | None => [] end.

Definition val_shape_ok (ft : ftype) (v : val) : bool :=
  match ft, v with
  | FVal _, VRef _ => false
  | FVal _, _ => true
  | (FObj | FScope | FMapObj | FOther _), VRef _ => true
  | _, _ => false
  end.

Definition kid_full_ok (k : string) (p : string * kid tree) (f : string * ftype) : bool :=
  String.eqb (fst p) (fst f) && kid_shape_ok (snd f) (snd p)
  && match snd f, snd p with
     | FNode ty, One (Some c) => negb (is_init_field k (fst p)) || String.eqb (tkind c) ty
     | FNode _, One None => negb (is_init_field k (fst p))       (* n.Type is dereferenced by Clone *)
     | _, _ => true
     end.

Fixpoint conforms_full (u : universe_t) (du : list (string * list string)) (t : tree) : bool :=
  match t with
  | Node _ k vals kids decs _ _ =>
    (match lookup u k with Some _ => true | None => false end)
    && all2 (fun (p : string * val) (f : string * ftype) => String.eqb (fst p) (fst f) && val_shape_ok (snd f) (snd p))
         vals (val_fields_t u k)
    && all2 (kid_full_ok k) kids (child_fields_t u k)
    && list_string_eqb (map fst decs) (match lookup du k with Some ps => ps | None => [] end)
    && forallb (fun p => match snd p with
                         | One (Some c) => conforms_full u du c
                         | One None => true
                         | Many l => forallb (conforms_full u du) l
                         end) kids
  end.

(* ---- the table obligation ------------------------------------------------------------ *)
Definition val_field_ok (stmts : list cstmt) (prefix : path) (f : string * ftype) : bool :=
  match snd f, find_stmt (targets_val (prefix ++ [fst f])) stmts with
  | FVal _, Some (KCopy _) => true
  | FObj, Some (KObj _) => true
  | FScope, Some (KScope _) => true
  | FMapObj, Some (KMapObjs _) => true
  | _, _ => false
  end.

Definition decs_ok (stmts : list cstmt) (prefix : path) (points : list string) : bool :=
  forallb (fun pt => match find_stmt (targets_dec prefix pt) stmts with Some (KDec _ _) => true | _ => false end) points.

Definition kid_field_ok (u : universe_t) (du : list (string * list string)) (k : string) (stmts : list cstmt) (f : string * ftype) : bool :=
  match snd f, find_stmt (targets_kid [fst f]) stmts with
  | FNode _, Some (KNode _ _) => negb (is_init_field k (fst f))
  | FList _, Some (KList _ _) => true
  | FMapFiles, Some (KMapNodes _) => true
  | FNode ty, Some (KInit _ ty') =>
    is_init_field k (fst f) && String.eqb ty ty'
    && forallb (val_field_ok stmts [fst f]) (val_fields_t u ty)
    && forallb (fun g => match snd g, find_stmt (targets_kid [fst f; fst g]) stmts with
                         | FNode _, Some (KNode _ _) => true
                         | FList _, Some (KList _ _) => true
                         | _, _ => false
                         end) (child_fields_t u ty)
    && forallb (fun g => negb (is_init_field ty (fst g))) (child_fields_t u ty)
    && decs_ok stmts [fst f] (match lookup du ty with Some ps => ps | None => [] end)
    && (match find_stmt (targets_space [fst f] false) stmts with None => true | Some _ => false end)
    && (match find_stmt (targets_space [fst f] true) stmts with None => true | Some _ => false end)
  | _, _ => false
  end.

Fixpoint no_unknown (l : list cstmt) : bool :=
  match l with
  | [] => true
  | KUnknown _ :: _ => false
  | KAliasDec _ _ :: _ => false
  | _ :: r => no_unknown r
  end.

(* an Init statement precedes every statement that goes through the field it allocates *)
Fixpoint init_before_use (inits : list string) (l : list cstmt) : bool :=
  let through (p : path) := match p with f :: _ :: _ => mem_string f inits | _ => true end in
  match l with
  | [] => true
  | KInit [f] _ :: r => init_before_use (f :: inits) r
  | KInit _ _ :: _ => false
  | (KCopy p | KNode p _ | KList p _ | KObj p | KScope p | KMapNodes p | KMapObjs p) :: r => through p && init_before_use inits r
  | (KDec o _ | KAliasDec o _ | KSpace o _) :: r => (match o with [] => true | [f] => mem_string f inits | _ => false end) && init_before_use inits r
  | _ :: r => init_before_use inits r
  end.

Definition frame_ok (k : string) (l : list cstmt) : bool :=
  match l with
  | KNew ty :: r => String.eqb ty k && match last r (KUnknown "") with KReturn => true | _ => false end
  | _ => false
  end.

Definition has_decs (u : universe_t) (k : string) : bool :=
  match lookup u k with Some fs => existsb (fun p => match snd p with FDecs _ => true | _ => false end) fs | None => false end.

Definition clone_kind_ok (u : universe_t) (du : list (string * list string)) (tbl : list (string * list cstmt)) (k : string) : bool :=
  match lookup tbl k with
  | Some stmts =>
    frame_ok k stmts && no_unknown stmts && init_before_use [] stmts
    && forallb (val_field_ok stmts []) (val_fields_t u k)
    && forallb (kid_field_ok u du k stmts) (child_fields_t u k)
    && decs_ok stmts [] (match lookup du k with Some ps => ps | None => [] end)
    && (negb (has_decs u k) ||
        (match find_stmt (targets_space [] false) stmts with Some _ => true | None => false end)
        && (match find_stmt (targets_space [] true) stmts with Some _ => true | None => false end))
  | None => false
  end.

Definition clone_tbl_ok (u : universe_t) (du : list (string * list string)) (tbl : list (string * list cstmt)) : bool :=
  forallb (fun e => clone_kind_ok u du tbl (fst e)) u.

(* Package has no Decs: spacing of a Package tree is SNone in every dump *)
Fixpoint spacing_conforms (u : universe_t) (t : tree) : bool :=
  match t with
  | Node _ k _ kids _ b a =>
    (has_decs u k || (space_eqb b SNone && space_eqb a SNone))
    && forallb (fun p => match snd p with
                         | One (Some c) => spacing_conforms u c
                         | One None => true
                         | Many l => forallb (spacing_conforms u) l
                         end) kids
  end.

(* every decoration list the restorer renders is copied by Clone into fresh storage *)
Fixpoint rest_dec_reads (s : rstmt) : list (path * string) :=
  match s with
  | RDec _ own point _ => [(own, point)]
  | RIf _ th el =>
    (fix go (l : list rstmt) := match l with [] => [] | x :: r => rest_dec_reads x ++ go r end) th ++
    (fix go (l : list rstmt) := match l with [] => [] | x :: r => rest_dec_reads x ++ go r end) el
  | _ => []
  end.

Definition clone_covers_restorer (rt : list (string * list rstmt)) (ct : list (string * list cstmt)) (u : universe_t) : bool :=
  forallb (fun e =>
    match lookup rt (fst e), lookup ct (fst e) with
    | Some rs, Some cs =>
      forallb (fun od => match find_stmt (targets_dec (fst od) (snd od)) cs with Some (KDec _ _) => true | _ => false end)
              (flat_map rest_dec_reads rs)
    | _, _ => false
    end) u.

(* the restorer never descends into an Init field as a node of its own (so its Before/After
   spacing, which Clone does not copy, is never rendered) *)
Fixpoint rest_node_paths (s : rstmt) : list path :=
  match s with
  | RNode p _ _ _ _ | RList p _ _ _ _ | RMapNodes p _ _ _ _ => [p]
  | RIf _ th el =>
    (fix go (l : list rstmt) := match l with [] => [] | x :: r => rest_node_paths x ++ go r end) th ++
    (fix go (l : list rstmt) := match l with [] => [] | x :: r => rest_node_paths x ++ go r end) el
  | _ => []
  end.

Definition init_spacing_never_rendered (rt : list (string * list rstmt)) : bool :=
  forallb (fun kf =>
    match lookup rt (fst kf) with
    | Some rs => forallb (fun p => negb (path_eqb p [snd kf])) (flat_map rest_node_paths rs)
    | None => false
    end) init_fields.
