(* Generic syntax trees (used for both go/ast and dst trees), the universe of node kinds
   and the table language the translator emits.  Executable definitions only. *)
From Coq Require Import List String ZArith NArith Bool.
Import ListNotations.
Local Open Scope string_scope.
Local Open Scope list_scope.

Inductive space := SNone | SNewLine | SEmptyLine.

(* A decoration string, abstracted to what the Go code inspects. *)
Inductive dec :=
| DNl                                          (* "\n" *)
| DLine (len : Z) (uid : N)                    (* "//..." *)
| DBlock (len : Z) (nls : list Z) (uid : N)    (* "/*...*/", offsets of embedded newlines *)
| DOther (len : Z) (uid : N).                  (* any other string: silently not rendered *)

Inductive val :=
| VBool (b : bool)
| VTok (t : string)                            (* token.Token by name *)
| VStr (len : Z) (nls : list Z) (uid : N)      (* a string: byte length, newline offsets when it is a raw (back-quoted) literal *)
| VInt (z : Z)
| VPos (p : Z)                                 (* token.Pos; 0 = NoPos *)
| VRef (uid : N).                              (* object / scope / other pointer, 0 = nil *)

Inductive kid (T : Type) := One (o : option T) | Many (l : list T).
Arguments One {T}. Arguments Many {T}.

Inductive tree :=
  Node (id : N) (k : string)
       (vals : list (string * val))
       (kids : list (string * kid tree))
       (decs : list (string * list dec))
       (before after : space).

Definition tid (t : tree) : N := match t with Node id _ _ _ _ _ _ => id end.
Definition tkind (t : tree) : string := match t with Node _ k _ _ _ _ _ => k end.
Definition tvals (t : tree) := match t with Node _ _ v _ _ _ _ => v end.
Definition tkids (t : tree) := match t with Node _ _ _ ks _ _ _ => ks end.
Definition tdecs (t : tree) := match t with Node _ _ _ _ d _ _ => d end.
Definition tbefore (t : tree) := match t with Node _ _ _ _ _ b _ => b end.
Definition tafter (t : tree) := match t with Node _ _ _ _ _ _ a => a end.

Fixpoint lookup {A : Type} (l : list (string * A)) (k : string) : option A :=
  match l with
  | [] => None
  | (k', v) :: rest => if String.eqb k k' then Some v else lookup rest k
  end.

Definition kid_list {T} (k : kid T) : list T :=
  match k with One (Some t) => [t] | One None => [] | Many l => l end.

(* children of a node in the order of its kids list *)
Definition children (t : tree) : list tree := flat_map (fun p => kid_list (snd p)) (tkids t).

(* all node ids, preorder, kids in stored order *)
Fixpoint ids (t : tree) : list N :=
  match t with
  | Node id _ _ kids _ _ _ =>
    id :: flat_map (fun p => match snd p with
                             | One (Some c) => ids c
                             | One None => []
                             | Many l => flat_map ids l
                             end) kids
  end.

Fixpoint size (t : tree) : nat :=
  match t with
  | Node _ _ _ kids _ _ _ =>
    S (fold_right (fun p acc => match snd p with
                                | One (Some c) => size c + acc
                                | One None => acc
                                | Many l => fold_right (fun c a => size c + a) 0%nat l + acc
                                end) 0%nat kids)
  end.

(* ---------------------------------------------------------------------------------
   Universe: the struct fields of every node kind, from dst.go (and go/ast for the
   reference tables). *)
Inductive ftype :=
| FNode (ty : string)          (* a single node: interface (Expr, Stmt, Decl, Spec, Node) or *Struct *)
| FList (ty : string)          (* a slice of nodes *)
| FVal (ty : string)           (* bool, string, int, token.Token, token.Pos, ChanDir, ... *)
| FObj                         (* *Object *)
| FScope                       (* *Scope *)
| FMapFiles                    (* map[string]*File *)
| FMapObj                      (* map[string]*Object (Package.Imports) *)
| FIdentList                   (* File.Unresolved *)
| FImportList                  (* File.Imports: aliases of ImportSpecs already in Decls *)
| FDecs (ty : string)          (* the Decs field *)
| FOther (ty : string).

Definition universe_t := list (string * list (string * ftype)).

(* syntactic child fields of a kind, in struct order *)
Definition is_child (ft : ftype) : bool :=
  match ft with FNode _ | FList _ | FMapFiles => true | _ => false end.

Definition child_fields (u : universe_t) (k : string) : list string :=
  match lookup u k with
  | Some fs => map fst (filter (fun p => is_child (snd p)) fs)
  | None => []
  end.

Fixpoint list_string_eqb (a b : list string) : bool :=
  match a, b with
  | [], [] => true
  | x :: a', y :: b' => String.eqb x y && list_string_eqb a' b'
  | _, _ => false
  end.

Fixpoint mem_string (x : string) (l : list string) : bool :=
  match l with [] => false | y :: r => String.eqb x y || mem_string x r end.

Fixpoint nodup_string (l : list string) : bool :=
  match l with [] => true | x :: r => negb (mem_string x r) && nodup_string r end.

Definition space_eqb (a b : space) : bool :=
  match a, b with SNone, SNone | SNewLine, SNewLine | SEmptyLine, SEmptyLine => true | _, _ => false end.
