(* The fragment table of the decorator (decorator-fragment-generated.go) and its skeleton:
   the order in which decoration points, tokens, strings and children are emitted per kind.
   Executable definitions only. *)
From Coq Require Import List String ZArith NArith Bool.
Import ListNotations.
From DV Require Import Model.Tree Model.Tables Model.Skeleton.
Local Open Scope string_scope.
Local Open Scope list_scope.

Inductive gstmt :=
| GDec (owner : path) (name : string)          (* f.addDecorationFragment(n.owner, name, ..) *)
| GTok (tok : tokx) (pos : path)               (* f.addTokenFragment(n, tok, n.pos | NoPos) *)
| GStr (v pos : path)
| GBad (from : path)
| GNode (p : path) (checked : bool)
| GList (p : path)
| GIf (c : cond) (body : list gstmt)
| GUnknown (src : string).

Fixpoint frag_sk (s : gstmt) : list sk :=
  match s with
  | GDec o n => [SkDec o n]
  | GTok _ p => opt_pos p ++ [SkTok]
  | GStr v p => opt_pos p ++ [SkStr v]
  | GBad f => opt_pos f ++ [SkBad ["Length"]]
  | GNode p _ => [SkNode p]
  | GList p => [SkList p]
  | GIf _ body => (fix go (l : list gstmt) : list sk := match l with [] => [] | x :: r => frag_sk x ++ go r end) body
  | GUnknown _ => [SkDec ["?"] "?"]
  end.

Definition frag_skeleton (l : list gstmt) : list sk := flat_map frag_sk l.

(* what the decorator is expected to emit for one part of data.go: disabled decorations are
   not emitted; lists the restorer does not restore (File.Imports) are still scanned *)
Definition data_sk_frag (d : dpart) : list sk :=
  match d with
  | DDec name disabled => if disabled then [] else [SkDec [] name]
  | DSpecialDec _ _ _ => []          (* the FuncDecl signature points exist for hand-built trees only: the decorator never fills them *)
  | DTok _ pos => opt_pos pos ++ [SkTok]
  | DStr _ v pos _ => opt_pos pos ++ [SkStr v]
  | DBad len from _ => opt_pos from ++ [SkBad len]
  | DNode _ f => [SkNode f]
  | DList _ f _ => [SkList f]
  | DMap _ f => [SkList f]
  | DUnknown _ => [SkDec ["??"] "??"]
  | _ => []
  end.

Definition frag_matches_data (dt : list (string * list dpart)) (ft : list (string * list gstmt)) (u : universe_t) : bool :=
  forallb (fun e =>
    String.eqb (fst e) "Package" ||
    match lookup dt (fst e), lookup ft (fst e) with
    | Some ds, Some fs => sks_eqb (frag_skeleton fs) (flat_map data_sk_frag ds)
    | _, _ => false
    end) u.

(* the decorator and the restorer agree: same points, tokens, strings and children in the same
   order, up to (a) position fields the restorer assigns but the decorator reads from elsewhere,
   (b) the File End point, which the decorator does not use, (c) File.Imports, (d) the FuncDecl
   signature points, which only the restorer (and Clone) know *)
Definition strip_pos (l : list sk) : list sk :=
  filter (fun s => match s with SkPos _ => false | SkDec (_ :: _) _ => false | _ => true end) l.

Definition frag_rest_coherent (ft : list (string * list gstmt)) (rt : list (string * list rstmt)) (u : universe_t) : bool :=
  forallb (fun e =>
    String.eqb (fst e) "Package" ||
    match lookup ft (fst e), lookup rt (fst e) with
    | Some fs, Some rs =>
      let fsk := strip_pos (frag_skeleton fs) in
      let rsk := strip_pos (rest_skeleton rs) in
      if String.eqb (fst e) "File"
      then sks_eqb (filter (fun s => negb (sk_eqb s (SkList ["Imports"]))) fsk)
                   (filter (fun s => negb (sk_eqb s (SkDec [] "End"))) rsk)
      else sks_eqb fsk rsk
    | _, _ => false
    end) u.

(* no panic for lack of a decoration point: in every case a decoration point is emitted after
   every token / string / child, and the case starts and ends with a decoration point *)
Fixpoint ends_with_dec (l : list sk) : bool :=
  match l with
  | [] => false
  | [SkDec _ _] => true
  | _ :: r => ends_with_dec r
  end.

Definition starts_with_dec (l : list sk) : bool := match l with SkDec _ _ :: _ => true | _ => false end.

(* ---- guards of the cursor-advancing parts ------------------------------------------------------- *)
Definition cond_eqb (a b : cond) : bool :=
  match a, b with
  | CTrue, CTrue => true
  | CNotNil p, CNotNil q | CIsNil p, CIsNil q | CBool p, CBool q | CNotBool p, CNotBool q | CPosValid p, CPosValid q => list_string_eqb p q
  | CTokEq p s, CTokEq q t | CTokNe p s, CTokNe q t => list_string_eqb p q && String.eqb s t
  | CIntEq p z, CIntEq q w => list_string_eqb p q && Z.eqb z w
  (* the decorator reads an optional token from the ast as a valid position, the restorer from the dst as a flag *)
  | CPosValid p, CBool q | CBool p, CPosValid q => list_string_eqb p q
  | _, _ => false
  end.

Definition cond_neg (c : cond) : cond :=
  match c with
  | CNotNil p => CIsNil p | CIsNil p => CNotNil p
  | CBool p => CNotBool p | CNotBool p => CBool p
  | CTokEq p s => CTokNe p s | CTokNe p s => CTokEq p s
  | other => CUnknown "negation"
  end.

Definition gsk := (list cond * nat)%type.   (* guard stack, kind of advance: 0 token, 1 string, 2 bad *)

Fixpoint frag_gsk (g : list cond) (s : gstmt) : list gsk :=
  match s with
  | GTok _ _ => [(g, 0)]
  | GStr _ _ => [(g, 1)]
  | GBad _ => [(g, 2)]
  | GIf c body => (fix go (l : list gstmt) : list gsk := match l with [] => [] | x :: r => frag_gsk (g ++ [c]) x ++ go r end) body
  | _ => []
  end.

Fixpoint rest_gsk (g : list cond) (s : rstmt) : list gsk :=
  match s with
  | RAdvTok _ => [(g, 0)]
  | RAdvStr _ => [(g, 1)]
  | RAdvLen _ => [(g, 2)]
  | RIf c th el =>
    (fix go (l : list rstmt) : list gsk := match l with [] => [] | x :: r => rest_gsk (g ++ [c]) x ++ go r end) th ++
    (fix go (l : list rstmt) : list gsk := match l with [] => [] | x :: r => rest_gsk (g ++ [cond_neg c]) x ++ go r end) el
  | _ => []
  end.

Fixpoint conds_eqb (a b : list cond) : bool :=
  match a, b with [], [] => true | x :: a', y :: b' => cond_eqb x y && conds_eqb a' b' | _, _ => false end.

Fixpoint gsks_eqb (a b : list gsk) : bool :=
  match a, b with
  | [], [] => true
  | (g, k) :: a', (h, m) :: b' => conds_eqb g h && Nat.eqb k m && gsks_eqb a' b'
  | _, _ => false
  end.

(* the restorer advances its cursor over a token, string or bad span under exactly the conditions
   under which the decorator emits the fragment for it *)
Definition token_guards_agree (ft : list (string * list gstmt)) (rt : list (string * list rstmt)) (u : universe_t) : bool :=
  forallb (fun e =>
    String.eqb (fst e) "Package" ||
    match lookup ft (fst e), lookup rt (fst e) with
    | Some fs, Some rs => gsks_eqb (flat_map (frag_gsk []) fs) (flat_map (rest_gsk []) rs)
    | _, _ => false
    end) u.

Definition guards_differ (ft : list (string * list gstmt)) (rt : list (string * list rstmt)) (u : universe_t) : list string :=
  flat_map (fun e =>
    match lookup ft (fst e), lookup rt (fst e) with
    | Some fs, Some rs => if gsks_eqb (flat_map (frag_gsk []) fs) (flat_map (rest_gsk []) rs) then [] else [fst e]
    | _, _ => if String.eqb (fst e) "Package" then [] else [fst e]
    end) u.

