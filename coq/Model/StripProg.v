(* stripVendor as the source writes it: a closure findVendor that is a tagless switch over
   strings.Contains / strings.HasPrefix cases returning an index, and a final slice expression.
   The translator (translator/stripvendorsrc.go) renders the function in this vocabulary on every
   run (Gen/StripVendorSrc.v); Proofs/StripVendorSrcProofs.v proves that the rendered program
   computes Model.Resolvers.strip_vendor for EVERY path, and never slices out of range.
   strings.Contains, strings.LastIndex, strings.HasPrefix and the slice expression s[i:] are
   modelled here by their documented meaning (trusted: package strings, the slice bounds rule). *)
From Coq Require Import List String Bool Ascii ZArith.
Import ListNotations.
From DV Require Import Model.Resolvers.
Local Open Scope string_scope.

(* index of the LAST occurrence of sep in s (sep non-empty in every use) *)
Fixpoint last_index (sep s : string) : option nat :=
  match s with
  | EmptyString => None
  | String _ r =>
    match last_index sep r with
    | Some i => Some (S i)
    | None => if prefixb sep s then Some 0 else None
    end
  end.

Definition go_last_index (sep s : string) : Z :=
  match last_index sep s with Some i => Z.of_nat i | None => (-1)%Z end.
Definition go_contains (s sep : string) : bool :=
  match last_index sep s with Some _ => true | None => false end.
Definition go_has_prefix (s p : string) : bool := prefixb p s.

(* s[z:] : a run-time panic (None) when z is out of range *)
Definition go_slice_from (s : string) (z : Z) : option string :=
  if (z <? 0)%Z || (Z.of_nat (String.length s) <? z)%Z then None else Some (drop (Z.to_nat z) s).

Inductive sv_case :=
| SVContainsLast (needle sep : string) (plus : Z)   (* case strings.Contains(path, needle): return strings.LastIndex(path, sep) + plus, true *)
| SVPrefix (pfx : string) (idx : Z).                (* case strings.HasPrefix(path, pfx): return idx, true *)

Inductive sv_prog :=
| SVProg (cases : list sv_case) (skip : string)     (* ...; return 0, false  /  if !ok { return path }; return path[i+len(skip):] *)
| SVUnknown (what : string).

Fixpoint find_vendor (cs : list sv_case) (path : string) : option Z :=
  match cs with
  | [] => None
  | SVContainsLast needle sep plus :: r =>
    if go_contains path needle then Some (go_last_index sep path + plus)%Z else find_vendor r path
  | SVPrefix pfx idx :: r =>
    if go_has_prefix path pfx then Some idx else find_vendor r path
  end.

(* None: panic (or a shape the translator did not recognise) *)
Definition run_sv (p : sv_prog) (path : string) : option string :=
  match p with
  | SVUnknown _ => None
  | SVProg cs skip =>
    match find_vendor cs path with
    | None => Some path
    | Some i => go_slice_from path (i + Z.of_nat (String.length skip))%Z
    end
  end.
