(* Evaluation of recorded files on the composed model  fragment ; link ; decorate : the dst tree
   the real Decorator produced (values, children, decorations at every point, Before / After) is
   the expectation.  Node identities are not compared (the dst dump numbers nodes on its own). *)
From Coq Require Import List String ZArith NArith Bool.
Import ListNotations.
From DV Require Import Model.Tree Model.Tables Model.FragSkel Model.Link Model.Fragment Model.Decorate
     Model.CloneCases Model.WalkCases Model.LinkCases Model.FragCases.
Local Open Scope string_scope.
Local Open Scope list_scope.

Definition val_is_zero (v : val) : bool :=
  match v with
  | VBool b => negb b
  | VStr l _ _ => Z.eqb l 0
  | VInt z => Z.eqb z 0
  | VTok s => String.eqb s "ILLEGAL"
  | VPos p => Z.eqb p 0
  | VRef _ => true
  end.

Definition decs_at (t : tree) (p : string) : list dec := match lookup (tdecs t) p with Some d => d | None => [] end.

(* m: the model's tree, r: the real one *)
Fixpoint tree_sim (m r : tree) {struct r} : bool :=
  match r with
  | Node _ k vals kids decs b a =>
    String.eqb (tkind m) k &&
    forallb (fun fv => match snd fv with
                       | VRef _ => true
                       | v => match lookup (tvals m) (fst fv) with Some v' => val_eqb v v' | None => val_is_zero v end
                       end) vals &&
    forallb (fun pd => list_eqb dec_eqb (decs_at m (fst pd)) (snd pd)) decs &&
    space_eqb (tbefore m) b && space_eqb (tafter m) a &&
    (fix go (ks : list (string * kid tree)) : bool :=
       match ks with
       | [] => true
       | (f, x) :: rest =>
         (match x, lookup (tkids m) f with
          | One (Some c), Some (One (Some mc)) => tree_sim mc c
          | One None, None | One None, Some (One None) => true
          | Many l, Some (Many ml) =>
            (fix gol (l ml : list tree) : bool :=
               match l, ml with
               | [], [] => true
               | c :: l', mc :: ml' => tree_sim mc c && gol l' ml'
               | _, _ => false
               end) l ml
          | Many [], None => true
          | _, _ => false
          end) && go rest
       end) kids
  end.

Record dcase := mkDC { dc_f : fcase; dc_expect : tree }.

Definition run_dcase ftbl stmts decls du dtbl (c : dcase) : tree * bool :=
  let '(frs, err) := run_fcase ftbl stmts decls (dc_f c) in
  let att := link (map snd frs) in
  (decorate du dtbl att (fc_tree (dc_f c)), err || l_panic att).

(* the declarative reading of the decorator table (Model/Decorate.v decorateD) *)
Definition run_dcaseD ftbl stmts decls du dtbl (c : dcase) : tree * bool :=
  let '(frs, err) := run_fcase ftbl stmts decls (dc_f c) in
  let att := link (map snd frs) in
  (decorateD du dtbl att (fc_tree (dc_f c)), err || l_panic att).

Definition check_dcase ftbl stmts decls du dtbl (c : dcase) : bool :=
  let '(d, bad) := run_dcase ftbl stmts decls du dtbl c in
  let '(d2, _) := run_dcaseD ftbl stmts decls du dtbl c in
  negb bad && tree_sim d (dc_expect c) && tree_sim d2 (dc_expect c).

Definition bad_dcases ftbl stmts decls du dtbl (cs : list dcase) : list nat := bad_idx (check_dcase ftbl stmts decls du dtbl) 0 cs.

(* ---- tokens through the composed model --------------------------------------------------------- *)
(* the byte lengths of the tokens, strings and bad spans the decorator emits for the go/ast tree,
   in emission order, and those the restorer advances over for the decorated dst tree *)
(* File.Imports aliases the ImportSpecs of the import declarations: the decorator emits their
   fragments a second time, the restorer does not restore that list *)
Definition without_imports (t : tree) : tree :=
  match t with
  | Node id k vals kids decs b a =>
    if String.eqb k "File" then Node id k vals (filter (fun p => negb (String.eqb (fst p) "Imports")) kids) decs b a else t
  end.

Definition frag_token_lengths ftbl (t0 : tree) : list Z :=
  let t := without_imports t0 in
  flat_map (fun it => match snd it with PTok l | PStr l _ | PBad l => [l] | _ => [] end) (f_out (node_frags ftbl t)).

From DV Require Import Model.Restore.

Definition restore_token_lengths rtbl (d : tree) : list Z :=
  flat_map (fun a => match a with AAdv l => [l] | _ => [] end) (flatten rtbl false (fun _ => None) d).

Definition tokens_ok ftbl stmts decls du dtbl rtbl (c : dcase) : bool :=
  let '(d, bad) := run_dcaseD ftbl stmts decls du dtbl c in
  bad || list_eqb Z.eqb (restore_token_lengths rtbl d) (frag_token_lengths ftbl (fc_tree (dc_f c))).

Definition bad_tokens ftbl stmts decls du dtbl rtbl (cs : list dcase) : list nat := bad_idx (tokens_ok ftbl stmts decls du dtbl rtbl) 0 cs.

(* ---- the whole pipeline against Decorator + Restorer ------------------------------------------- *)
From DV Require Import Model.RestoreCases.

Record pcase := mkPC {
  pc_f : fcase;
  pc_base : Z; pc_lines : list Z; pc_size : Z;
  pc_comments : list (N * list (Z * Z * N));
  pc_pos : list (list (path * Z))              (* by go/ast node id - 1 *)
}.

Definition check_pcase ftbl stmts decls du dtbl rtbl (c : pcase) : bool :=
  let '(d, bad) := run_dcaseD ftbl stmts decls du dtbl (mkDC (pc_f c) (Node 0 "" [] [] [] SNone SNone)) in
  negb bad &&
  check_rcase rtbl (mkRC d (pc_base c) false [] false (pc_lines c) (pc_size c) (pc_comments c) (pc_pos c)).

Definition bad_pcases ftbl stmts decls du dtbl rtbl (cs : list pcase) : list nat := bad_idx (check_pcase ftbl stmts decls du dtbl rtbl) 0 cs.

(* ---- the alias-list hypothesis of the end-to-end theorem, evaluated ------------------------------ *)
(* every element of File.Imports is a spec of one of the file's declarations (File nodes occur only
   at the root of the trees of the correspondence) *)
Definition imports_aliasedb (f : tree) : bool :=
  match lookup (tkids f) "Imports" with
  | Some (Many imps) =>
    forallb (fun c =>
      existsb (fun g => String.eqb (tkind g) "GenDecl" &&
                        match lookup (tkids g) "Specs" with
                        | Some (Many specs) => existsb (tree_eqb c) specs
                        | _ => false
                        end)
              (match lookup (tkids f) "Decls" with Some (Many ds) => ds | _ => [] end)) imps
  | _ => true
  end.

Definition bad_alias (cs : list dcase) : list nat := bad_idx (fun c => imports_aliasedb (fc_tree (dc_f c))) 0 cs.

(* ---- the import-managed pipeline: decorate with a resolver, restore with a resolver -------------- *)
Record mcase := mkMC {
  mc_f : fcase;
  mc_paths : list (N * (Z * N));                (* ast node id -> (length, uid) of the path the decorator assigned *)
  mc_pkg : list (N * Z);                        (* path uid -> length of the package name the restorer chose *)
  mc_expect : tree;                             (* the real dst tree *)
  mc_base : Z; mc_lines : list Z; mc_size : Z;
  mc_comments : list (N * list (Z * Z * N));
  mc_pos : list (list (path * Z))
}.

Definition run_mcase ftbl stmts decls du dtbl (c : mcase) : tree * bool :=
  let '(frs, err) := run_fcase ftbl stmts decls (mc_f c) in
  let att := link (map snd frs) in
  (decorateM du dtbl att (mc_paths c) (fc_tree (mc_f c)), err || l_panic att).

Definition check_mcase ftbl stmts decls du dtbl rtbl (c : mcase) : bool :=
  let '(d, bad) := run_mcase ftbl stmts decls du dtbl c in
  negb bad && tree_sim d (mc_expect c) &&
  check_rcase rtbl (mkRC d (mc_base c) true (mc_pkg c) false (mc_lines c) (mc_size c) (mc_comments c) (mc_pos c)).

Definition bad_mcases ftbl stmts decls du dtbl rtbl (cs : list mcase) : list nat := bad_idx (check_mcase ftbl stmts decls du dtbl rtbl) 0 cs.

(* which half disagrees, for diagnosis *)
Definition mcase_halves ftbl stmts decls du dtbl rtbl (c : mcase) : bool * bool * bool :=
  let '(d, bad) := run_mcase ftbl stmts decls du dtbl c in
  (negb bad, tree_sim d (mc_expect c),
   check_rcase rtbl (mkRC d (mc_base c) true (mc_pkg c) false (mc_lines c) (mc_size c) (mc_comments c) (mc_pos c))).
