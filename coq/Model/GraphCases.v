(* Evaluation of recorded object/scope graph copies (decorator and restorer). *)
From Coq Require Import List String ZArith NArith Bool.
Import ListNotations.
From DV Require Import Model.ObjGraph Model.WalkCases.
Local Open Scope list_scope.

Record gcase := mkGC {
  gc_src : graph; gc_dst : graph;
  gc_mo : list (N * N); gc_ms : list (N * N); gc_mn : list (N * N);
  gc_roots : list what
}.

Definition mn_of (l : list (N * N)) (n : N) : N := match nget l n with Some d => d | None => 0%N end.

Definition same_keys (a b : list (N * N)) : bool :=
  Nat.eqb (List.length a) (List.length b) && forallb (fun e => existsb (fun e' => N.eqb (fst e) (fst e')) b) a.

Definition check_gcase (c : gcase) : bool :=
  (* the real copy is an isomorphism *)
  iso_check (gc_src c) (gc_dst c) (gc_mo c) (gc_ms c) (mn_of (gc_mn c))
  (* the model's copy of the same graph from the same roots is one too, over the same objects and scopes *)
  && (let st := copy_all (gc_src c) (mn_of (gc_mn c)) (S (List.length (g_objs (gc_src c)) + List.length (g_scopes (gc_src c)))) (gc_roots c) in
      iso_check (gc_src c) (c_out st) (c_mo st) (c_ms st) (mn_of (gc_mn c))
      && same_keys (c_mo st) (gc_mo c) && same_keys (c_ms st) (gc_ms c)).

Definition bad_gcases (cs : list gcase) : list nat := bad_idx check_gcase 0 cs.

(* the real source graphs meet the hypothesis of CopyProofs.memoised_copy_accepted *)
Definition bad_wf (cs : list gcase) : list nat := bad_idx (fun c => wf_srcb (gc_src c)) 0 cs.
