(* Threads, one mutex, shared-field accesses: traces and their validity; the memoising cache
   of the goast resolver as atomic get-or-compute steps.  Executable definitions only. *)
From Coq Require Import List Arith Bool.
Import ListNotations.
Local Open Scope list_scope.

Inductive cev := ELock | EUnlock | ERead (f : nat) | EWrite (f : nat).
Definition trace := list (nat * cev).        (* (thread, event) in execution order *)

(* the mutex: who holds it after a trace, None = the trace is impossible (Lock while held,
   Unlock by a non-holder) *)
Fixpoint run_lock (h : option nat) (t : trace) : option (option nat) :=
  match t with
  | [] => Some h
  | (tid, ELock) :: r => match h with None => run_lock (Some tid) r | Some _ => None end
  | (tid, EUnlock) :: r => match h with
                           | Some t' => if Nat.eqb t' tid then run_lock None r else None
                           | None => None
                           end
  | (_, _) :: r => run_lock h r
  end.

Definition is_access (e : cev) : bool := match e with ERead _ | EWrite _ => true | _ => false end.

(* the memoising cache: each call is atomic (the whole body runs under the mutex) *)
Section Cache.
  Variables (key val : Type) (key_eqb : key -> key -> bool) (compute : key -> val).
  Fixpoint cget (c : list (key * val)) (k : key) : option val :=
    match c with [] => None | (k', v) :: r => if key_eqb k k' then Some v else cget r k end.
  Definition call (c : list (key * val)) (k : key) : list (key * val) * val :=
    match cget c k with Some v => (c, v) | None => ((k, compute k) :: c, compute k) end.
  Fixpoint calls (c : list (key * val)) (ks : list key) : list val :=
    match ks with [] => [] | k :: r => let '(c', v) := call c k in v :: calls c' r end.
End Cache.
