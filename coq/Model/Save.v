(* Package.save (decorator/load.go): hand model.  The source text of save / Save /
   SaveWithResolver and of the statement of DecorateNode that records a file's name is pinned
   by the translator (Gen/SaveSrc.v).  Executable definitions only. *)
From Coq Require Import List String ZArith NArith Bool.
Import ListNotations.
Local Open Scope list_scope.

Section Save.
  Variables (file bytes name err : Type).
  Variable print : file -> bytes + err.                (* r.Fprint(buf, file) with the package's restorer *)
  Variable filename : file -> name.                    (* p.Decorator.Filenames[file] *)
  Variable write : nat -> name -> bytes -> option err. (* writeFile; may fail at the k-th call *)

  (* for _, file := range p.Syntax { print; if err return; write; if err return } *)
  Fixpoint save (k : nat) (files : list file) (log : list (name * bytes)) : list (name * bytes) * option err :=
    match files with
    | [] => (log, None)
    | f :: r =>
      match print f with
      | inr e => (log, Some e)
      | inl b =>
        match write k (filename f) b with
        | Some e => (log, Some e)          (* the failing write is not counted as written *)
        | None => save (S k) r (log ++ [(filename f, b)])
        end
      end
    end.

  (* the files whose print and write both succeed, up to the first failure *)
  Fixpoint ok_prefix (k : nat) (files : list file) : list file :=
    match files with
    | [] => []
    | f :: r =>
      match print f with
      | inr _ => []
      | inl b => match write k (filename f) b with Some _ => [] | None => f :: ok_prefix (S k) r end
      end
    end.

  Definition entry (f : file) : list (name * bytes) :=
    match print f with inl b => [(filename f, b)] | inr _ => [] end.
End Save.

Arguments save {file bytes name err}.
Arguments ok_prefix {file bytes name err}.
Arguments entry {file bytes name err}.
