(* Evaluation of recorded decorations on the mergeDecorations model. *)
From Coq Require Import List String ZArith NArith Bool.
Import ListNotations.
From DV Require Import Model.Tree Model.Merge Model.CloneCases Model.WalkCases.
Local Open Scope list_scope.

Definition ident_decs_eqb (a b : ident_decs) : bool :=
  space_eqb (i_before a) (i_before b) && list_eqb dec_eqb (i_start a) (i_start b)
  && list_eqb dec_eqb (i_x a) (i_x b) && list_eqb dec_eqb (i_end a) (i_end b) && space_eqb (i_after a) (i_after b).

Definition bad_merge_cases (cs : list (slots * ident_decs)) : list nat :=
  bad_idx (fun c => ident_decs_eqb (collapse (fst c)) (snd c)) 0 cs.
