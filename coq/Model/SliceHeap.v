(* Go slices over a heap of arrays, Go's append, and the slice-expression IR that
   decorations.go is translated to (Gen/DecsIR.v).  Executable definitions only. *)
From Coq Require Import List Arith Bool.
From Coq Require String.
Import ListNotations.

Definition cell := nat.                       (* a string, abstracted to an id *)
Record slice := mkSlice { arr : nat; off : nat; len : nat; cap : nat }.
  (* cap is counted from off, as in Go: off + cap <= length of the array *)
Definition heap := list (list cell).          (* array id -> cells *)

Definition read_arr (h : heap) (a : nat) : list cell := nth a h [].

Definition contents (h : heap) (s : option slice) : list cell :=
  match s with
  | None => []
  | Some s => firstn (len s) (skipn (off s) (read_arr h (arr s)))
  end.

Definition write_at (l : list cell) (i : nat) (xs : list cell) : list cell :=
  firstn i l ++ xs ++ skipn (i + length xs) l.

Fixpoint upd (h : heap) (a : nat) (l : list cell) : heap :=
  match h, a with
  | [], _ => []
  | _ :: t, 0 => l :: t
  | x :: t, S a' => x :: upd t a' l
  end.

Definition slen (s : option slice) := match s with None => 0 | Some s => len s end.
Definition scap (s : option slice) := match s with None => 0 | Some s => cap s end.

(* Go's append(s, xs...).  [grow l n] is the capacity the runtime picks when it has to
   reallocate; the theorems quantify over every grow with l + n <= grow l n. *)
Definition go_append (grow : nat -> nat -> nat) (h : heap) (s : option slice) (xs : list cell)
  : heap * option slice :=
  match xs with
  | [] => (h, s)
  | _ :: _ =>
    let l := slen s in
    let n := length xs in
    match s with
    | Some s0 =>
      if l + n <=? cap s0 then
        (upd h (arr s0) (write_at (read_arr h (arr s0)) (off s0 + l) xs),
         Some (mkSlice (arr s0) (off s0) (l + n) (cap s0)))
      else
        let g := grow l n in
        (h ++ [contents h s ++ xs ++ repeat 0 (g - (l + n))], Some (mkSlice (length h) 0 (l + n) g))
    | None =>
        let g := grow 0 n in
        (h ++ [xs ++ repeat 0 (g - n)], Some (mkSlice (length h) 0 n g))
    end
  end.

(* The expression language of decorations.go *)
Inductive sexpr :=
| Deref                      (* *d *)
| Args                       (* decs *)
| Nil                        (* nil *)
| EmptyLit                   (* []string{} *)
| Append (a b : sexpr)       (* append(a, b...) *)
| SUnknown (src : String.string).   (* anything the translator does not recognise *)

Record method_ir := mkIR { m_assign : option sexpr; m_return : option sexpr }.

Fixpoint eval (grow : nat -> nat -> nat) (h : heap) (d args : option slice) (e : sexpr)
  : option (heap * option slice) :=
  match e with
  | Deref => Some (h, d)
  | Args => Some (h, args)
  | Nil => Some (h, None)
  | EmptyLit => Some (h ++ [[]], Some (mkSlice (length h) 0 0 0))
  | Append a b =>
    match eval grow h d args a with
    | Some (h1, sa) =>
      match eval grow h1 d args b with
      | Some (h2, sb) => Some (go_append grow h2 sa (contents h2 sb))
      | None => None
      end
    | None => None
    end
  | SUnknown _ => None
  end.

(* One method call: returns the new heap, the new *d and what the method returns. *)
Definition call (grow : nat -> nat -> nat) (m : method_ir) (h : heap) (d args : option slice)
  : option (heap * option slice * option slice) :=
  match m_assign m with
  | Some e =>
    match eval grow h d args e with
    | Some (h1, d1) =>
      match m_return m with
      | Some r => match eval grow h1 d1 args r with Some (h2, rv) => Some (h2, d1, rv) | None => None end
      | None => Some (h1, d1, None)
      end
    | None => None
    end
  | None =>
    match m_return m with
    | Some r => match eval grow h d args r with Some (h2, rv) => Some (h2, d, rv) | None => None end
    | None => Some (h, d, None)
    end
  end.

(* Static shape analysis of the IR ------------------------------------------------- *)

Inductive atom := AD | AA.       (* contents of *d / of the argument *)

Fixpoint atoms (e : sexpr) : list atom :=
  match e with
  | Deref => [AD] | Args => [AA] | Nil => [] | EmptyLit => [] | SUnknown _ => []
  | Append a b => atoms a ++ atoms b
  end.

Definition is_leaf (e : sexpr) : bool :=
  match e with Deref | Args | Nil | EmptyLit => true | _ => false end.

Definition is_args (e : sexpr) : bool := match e with Args => true | _ => false end.

(* A chain is  leaf0 ++ leaf1 ++ ... ++ leafk  (left-nested appends of leaves) whose
   first leaf is not the argument: the only in-place writes then go past the length of
   *d in *d's own array or into arrays allocated by the expression itself. *)
Fixpoint chain (e : sexpr) : bool :=
  match e with
  | Append a b => chain a && is_leaf b && negb (is_args a)
  | SUnknown _ => false
  | _ => true
  end.

(* safe as the value stored into *d: a chain that is not the argument itself *)
Definition safe_store (e : sexpr) : bool := chain e && negb (is_args e).

Definition denote (e : sexpr) (dv av : list cell) : list cell :=
  flat_map (fun a => match a with AD => dv | AA => av end) (atoms e).

(* The five methods and their list specification *)
Inductive meth := MAppend | MPrepend | MReplace | MClear | MAll.

Definition spec_store (m : meth) (dv av : list cell) : list cell :=
  match m with
  | MAppend => dv ++ av
  | MPrepend => av ++ dv
  | MReplace => av
  | MClear => []
  | MAll => dv
  end.

Definition expected_atoms (m : meth) : list atom :=
  match m with
  | MAppend => [AD; AA] | MPrepend => [AA; AD] | MReplace => [AA] | MClear => [] | MAll => [AD]
  end.

Definition atom_eqb (a b : atom) : bool :=
  match a, b with AD, AD | AA, AA => true | _, _ => false end.
Fixpoint atoms_eqb (x y : list atom) : bool :=
  match x, y with
  | [], [] => true
  | a :: x', b :: y' => atom_eqb a b && atoms_eqb x' y'
  | _, _ => false
  end.

(* the table obligation on one translated method *)
Definition method_ok (m : meth) (ir : method_ir) : bool :=
  match m with
  | MAll =>
    match m_assign ir, m_return ir with
    | None, Some r => chain r && atoms_eqb (atoms r) [AD]
    | _, _ => false
    end
  | _ =>
    match m_assign ir, m_return ir with
    | Some e, None => safe_store e && atoms_eqb (atoms e) (expected_atoms m)
    | _, _ => false
    end
  end.

(* Histories -------------------------------------------------------------------------- *)

Inductive op :=
| Call (m : meth) (arg : option slice)          (* the caller passes one of its own slices *)
| CallerAlloc (cells : list cell)               (* the caller makes a new array *)
| CallerWrite (a i : nat) (v : cell).           (* the caller writes into one of its arrays *)

Record st := mkSt { sheap : heap; sd : option slice; owned : list nat (* arrays allocated by the list *) }.

Definition set_nth (l : list cell) (i : nat) (v : cell) : list cell :=
  if i <? length l then firstn i l ++ v :: skipn (S i) l else l.

Definition new_arrays (h h' : heap) : list nat := seq (length h) (length h' - length h).

Definition step (grow : nat -> nat -> nat) (ir : meth -> method_ir) (s : st) (o : op) : option st :=
  match o with
  | Call m arg =>
    match call grow (ir m) (sheap s) (sd s) arg with
    | Some (h', d', _) => Some (mkSt h' d' (owned s ++ new_arrays (sheap s) h'))
    | None => None
    end
  | CallerAlloc cells => Some (mkSt (sheap s ++ [cells]) (sd s) (owned s))
  | CallerWrite a i v =>
    Some (mkSt (upd (sheap s) a (set_nth (read_arr (sheap s) a) i v)) (sd s) (owned s))
  end.

Fixpoint run (grow : nat -> nat -> nat) (ir : meth -> method_ir) (s : st) (ops : list op) : option st :=
  match ops with
  | [] => Some s
  | o :: rest => match step grow ir s o with Some s' => run grow ir s' rest | None => None end
  end.

(* what the caller is allowed to do: pass and write only its own arrays *)
Definition slice_wf (h : heap) (s : slice) : bool :=
  (arr s <? length h) && (off s + cap s <=? length (read_arr h (arr s))) && (len s <=? cap s).

Definition op_ok (s : st) (o : op) : bool :=
  match o with
  | Call _ None => true
  | Call _ (Some a) => slice_wf (sheap s) a && negb (existsb (Nat.eqb (arr a)) (owned s))
  | CallerAlloc _ => true
  | CallerWrite a _ _ => (a <? length (sheap s)) && negb (existsb (Nat.eqb a) (owned s))
  end.

Fixpoint ops_ok (grow : nat -> nat -> nat) (ir : meth -> method_ir) (s : st) (ops : list op) : bool :=
  match ops with
  | [] => true
  | o :: rest => op_ok s o &&
      match step grow ir s o with Some s' => ops_ok grow ir s' rest | None => true end
  end.

(* the abstract list machine *)
Definition spec_step (h : heap) (dv : list cell) (o : op) : list cell :=
  match o with
  | Call m arg => spec_store m dv (contents h arg)
  | _ => dv
  end.
