(* Cursor programs: the small imperative language into which the translator renders the
   position-assigning functions of decorator/restorer.go -- applySpace, applyDecorations,
   applyLiteral, fileSize (Gen/CursorSrc.v) -- and its evaluator over the state of the
   restorer model (Model/Restore.v: rstate).  Integer and boolean locals live in block-scoped
   frames (a declaration shadows, an assignment updates the innermost declaration, a block's
   locals vanish at its end -- Go's rules); strings are known by the facts the code asks about
   them (length, prefixes, embedded newlines); the node parameter by the answers to the type
   tests the code makes and by its identity.  Executable definitions only. *)
From Coq Require Import List String ZArith NArith Bool.
Import ListNotations.
From DV Require Import Model.Tree Model.Tables Model.Restore.
Local Open Scope string_scope.
Local Open Scope list_scope.
Local Open Scope Z_scope.

Inductive cexp :=
| EConst (z : Z)
| EVar (x : string)                 (* integer local (also int(g.End()) of the group a loop binds) *)
| ECursor | EAtNl | EBase           (* r.cursor, r.cursorAtNewLine, r.base; conversions dropped *)
| EAdd (a b : cexp) | ESub (a b : cexp)
| ELen (x : string).                (* len(x) of a string variable *)

Inductive bexp :=
| BLit (b : bool)
| BVar (x : string)
| BEq (a b : cexp) | BLt (a b : cexp) | BGe (a b : cexp)
| BAnd (a b : bexp) | BOr (a b : bexp) | BNot (a : bexp)
| BStrIs (x lit : string)           (* x == "lit" *)
| BPrefix (x lit : string)          (* strings.HasPrefix(x, "lit") *)
| BContains (x lit : string)        (* strings.Contains(x, "lit") *)
| BKindIn (x : string) (ks : list string)   (* x.(type) is one of *)
| BSpaceIs (lit : string)           (* space == dst.lit *)
| BHasCommentField (x : string).    (* r.hasCommentField(x) *)

Inductive cstmt :=
| SDeclInt (x : string) (e : cexp)  (* x := e, var x int *)
| SSetInt (x : string) (e : cexp)   (* x = e, x++, x--, x += e *)
| SDeclBool (x : string) (b : bexp)
| SSetBool (x : string) (b : bexp)
| SCursor (e : cexp)                (* r.cursor = e   (r.cursor++ is SCursor (EAdd ECursor (EConst 1))) *)
| SAtNl (e : cexp)
| SLine (e : cexp)                  (* r.lines = append(r.lines, e) *)
| SComment (slash : cexp) (text : string)               (* a free-standing group of one comment *)
| SFieldComment (node : string) (slash : cexp) (text : string)   (* r.addCommentField(node, slash, text) *)
| SSpace (lit : string)             (* space = dst.lit *)
| SIf (c : bexp) (t e : list cstmt)
| SCount (n : string) (body : list cstmt)               (* for i := 0; i < n; i++ -- n not assigned, i not used in body *)
| SEachNl (s idx : string) (body : list cstmt)          (* for idx, char := range s { if char == '\n' { body } } *)
| SEachDec (d : string) (body : list cstmt)             (* for _, d := range decorations *)
| SEachGroup (g : string) (body : list cstmt)           (* for _, g := range r.comments;  EVar g is int(g.End()) *)
| SEachLine (x : string) (body : list cstmt)            (* for _, x := range r.lines *)
| SReturn
| SReturnInt (e : cexp)
| SPush | SPop                      (* block entry / exit; never emitted by the translator *)
| SUnknown (text : string).

(* what the code can ask about a string *)
Record sfacts := mkF { f_len : Z; f_nls : list Z; f_isnl : bool; f_line : bool; f_block : bool; f_raw : bool;
                       f_uid : N }.

Definition facts_of_dec (d : dec) : sfacts :=
  match d with
  | DNl => mkF 1 [0] true false false false 0
  | DLine l u => mkF l [] false true false false u
  | DBlock l nls u => mkF l nls false false true false u
  | DOther l u => mkF l [] false false false false u
  end.

Record cenv := mkE {
  e_rs : rstate;
  e_ints : list (list (string * Z));    (* frames, innermost first *)
  e_bools : list (list (string * bool));
  e_strs : list (string * sfacts);
  e_streq : list ((string * string) * bool);   (* what x == "lit" answers for the string parameters (position, name) *)
  e_space : space;
  e_kindin : list (list string * bool); (* what node.(type) in {kinds} answers *)
  e_hcf : bool;                         (* what r.hasCommentField(node) answers *)
  e_id : N;                             (* identity of the node parameter *)
  e_decs : list dec;                    (* the decorations parameter *)
  e_ret : option Z;
  e_done : bool;                        (* a return was executed *)
  e_stuck : bool                        (* a statement or expression outside the language was met *)
}.

(* equality of the program's own names and literals (always closed terms in a proof) *)
Fixpoint keq (a b : string) : bool :=
  match a, b with
  | EmptyString, EmptyString => true
  | String x a', String y b' => Ascii.eqb x y && keq a' b'
  | _, _ => false
  end.

Fixpoint lkeq (a b : list string) : bool :=
  match a, b with
  | [], [] => true
  | x :: a', y :: b' => keq x y && lkeq a' b'
  | _, _ => false
  end.

Fixpoint find1 {A} (x : string) (l : list (string * A)) : option A :=
  match l with
  | [] => None
  | (k, v) :: r => if keq x k then Some v else find1 x r
  end.

Fixpoint lookup {A} (d : A) (x : string) (l : list (string * A)) : A :=
  match l with
  | [] => d
  | (k, v) :: r => if keq x k then v else lookup d x r
  end.

(* frames *)
Fixpoint flookup {A} (x : string) (fs : list (list (string * A))) : option A :=
  match fs with
  | [] => None
  | f :: r => match find1 x f with Some v => Some v | None => flookup x r end
  end.

Fixpoint update1 {A} (x : string) (v : A) (l : list (string * A)) : list (string * A) :=
  match l with
  | [] => []
  | (k, w) :: r => if keq x k then (k, v) :: r else (k, w) :: update1 x v r
  end.

Fixpoint fassign {A} (x : string) (v : A) (fs : list (list (string * A))) : option (list (list (string * A))) :=
  match fs with
  | [] => None
  | f :: r => match find1 x f with
              | Some _ => Some (update1 x v f :: r)
              | None => match fassign x v r with Some r' => Some (f :: r') | None => None end
              end
  end.

Definition fdeclare {A} (x : string) (v : A) (fs : list (list (string * A))) : list (list (string * A)) :=
  match fs with
  | [] => [[(x, v)]]
  | f :: r => ((x, v) :: f) :: r
  end.

Fixpoint streq_answer (x lit : string) (l : list ((string * string) * bool)) : option bool :=
  match l with
  | [] => None
  | ((k, v), a) :: r => if keq x k && keq lit v then Some a else streq_answer x lit r
  end.

Fixpoint kindin_answer (ks : list string) (l : list (list string * bool)) : option bool :=
  match l with
  | [] => None
  | (k, a) :: r => if lkeq ks k then Some a else kindin_answer ks r
  end.

Definition nl_string : string := String (Ascii.ascii_of_nat 10) "".

Definition nofacts := mkF 0 [] false false false false 0.

Definition space_name (s : space) : string :=
  match s with SNone => "None" | SNewLine => "NewLine" | SEmptyLine => "EmptyLine" end.

Definition int_of (env : cenv) (x : string) : Z :=
  match flookup x (e_ints env) with Some v => v | None => 0 end.

Fixpoint ceval (env : cenv) (e : cexp) : Z :=
  match e with
  | EConst z => z
  | EVar x => int_of env x
  | ECursor => cursor (e_rs env)
  | EAtNl => atnl (e_rs env)
  | EBase => base (e_rs env)
  | EAdd a b => ceval env a + ceval env b
  | ESub a b => ceval env a - ceval env b
  | ELen x => f_len (lookup nofacts x (e_strs env))
  end.

Fixpoint cexp_ok (env : cenv) (e : cexp) : bool :=
  match e with
  | EVar x => match flookup x (e_ints env) with Some _ => true | None => false end
  | EAdd a b | ESub a b => cexp_ok env a && cexp_ok env b
  | ELen x => match find1 x (e_strs env) with Some _ => true | None => false end
  | _ => true
  end.

Definition str_is (env : cenv) (x lit : string) : bool :=
  if keq lit nl_string then f_isnl (lookup nofacts x (e_strs env))
  else match streq_answer x lit (e_streq env) with Some a => a | None => false end.

Definition str_prefix (env : cenv) (x lit : string) : bool :=
  let f := lookup nofacts x (e_strs env) in
  if keq lit "//" then f_line f
  else if keq lit "/*" then f_block f
  else if keq lit "`" then f_raw f
  else false.

Fixpoint beval (env : cenv) (b : bexp) : bool :=
  match b with
  | BLit v => v
  | BVar x => match flookup x (e_bools env) with Some v => v | None => false end
  | BEq a c => Z.eqb (ceval env a) (ceval env c)
  | BLt a c => Z.ltb (ceval env a) (ceval env c)
  | BGe a c => Z.leb (ceval env c) (ceval env a)
  | BAnd a c => beval env a && beval env c
  | BOr a c => beval env a || beval env c
  | BNot a => negb (beval env a)
  | BStrIs x lit => str_is env x lit
  | BPrefix x lit => str_prefix env x lit
  | BContains x lit => match f_nls (lookup nofacts x (e_strs env)) with [] => false | _ => true end
  | BKindIn x ks => match kindin_answer ks (e_kindin env) with Some a => a | None => false end
  | BSpaceIs lit => keq (space_name (e_space env)) lit
  | BHasCommentField x => e_hcf env
  end.

(* the vocabulary: which variables are declared, which predicates on which literals have a meaning *)
Fixpoint bexp_ok (env : cenv) (b : bexp) : bool :=
  match b with
  | BLit _ => true
  | BVar x => match flookup x (e_bools env) with Some _ => true | None => false end
  | BEq a c | BLt a c | BGe a c => cexp_ok env a && cexp_ok env c
  | BAnd a c | BOr a c => bexp_ok env a && bexp_ok env c
  | BNot a => bexp_ok env a
  | BStrIs x lit =>
    if keq lit nl_string then match find1 x (e_strs env) with Some _ => true | None => false end
    else match streq_answer x lit (e_streq env) with Some _ => true | None => false end
  | BPrefix x lit => (keq lit "//" || keq lit "/*" || keq lit "`") && match find1 x (e_strs env) with Some _ => true | None => false end
  | BContains x lit => keq lit nl_string && match find1 x (e_strs env) with Some _ => true | None => false end
  | BKindIn x ks => keq x "node" && match kindin_answer ks (e_kindin env) with Some _ => true | None => false end
  | BHasCommentField x => keq x "node"
  | BSpaceIs lit => keq lit "NewLine" || keq lit "EmptyLine" || keq lit "None"
  end.

Definition with_rs (env : cenv) (s : rstate) : cenv :=
  mkE s (e_ints env) (e_bools env) (e_strs env) (e_streq env) (e_space env) (e_kindin env) (e_hcf env) (e_id env) (e_decs env) (e_ret env) (e_done env) (e_stuck env).
Definition with_ints (env : cenv) (v : list (list (string * Z))) : cenv :=
  mkE (e_rs env) v (e_bools env) (e_strs env) (e_streq env) (e_space env) (e_kindin env) (e_hcf env) (e_id env) (e_decs env) (e_ret env) (e_done env) (e_stuck env).
Definition with_bools (env : cenv) (v : list (list (string * bool))) : cenv :=
  mkE (e_rs env) (e_ints env) v (e_strs env) (e_streq env) (e_space env) (e_kindin env) (e_hcf env) (e_id env) (e_decs env) (e_ret env) (e_done env) (e_stuck env).
Definition with_strs (env : cenv) (v : list (string * sfacts)) : cenv :=
  mkE (e_rs env) (e_ints env) (e_bools env) v (e_streq env) (e_space env) (e_kindin env) (e_hcf env) (e_id env) (e_decs env) (e_ret env) (e_done env) (e_stuck env).
Definition set_space (v : space) (env : cenv) : cenv :=
  mkE (e_rs env) (e_ints env) (e_bools env) (e_strs env) (e_streq env) v (e_kindin env) (e_hcf env) (e_id env) (e_decs env) (e_ret env) (e_done env) (e_stuck env).
Definition set_done (r : option Z) (env : cenv) : cenv :=
  mkE (e_rs env) (e_ints env) (e_bools env) (e_strs env) (e_streq env) (e_space env) (e_kindin env) (e_hcf env) (e_id env) (e_decs env) r true (e_stuck env).
Definition set_stuck (env : cenv) : cenv :=
  mkE (e_rs env) (e_ints env) (e_bools env) (e_strs env) (e_streq env) (e_space env) (e_kindin env) (e_hcf env) (e_id env) (e_decs env) (e_ret env) true true.

Definition push (env : cenv) : cenv := with_bools (with_ints env ([] :: e_ints env)) ([] :: e_bools env).
Definition pop (env : cenv) : cenv :=
  if e_done env then env else with_bools (with_ints env (tl (e_ints env))) (tl (e_bools env)).

Definition space_of_name (lit : string) : option space :=
  if keq lit "None" then Some SNone
  else if keq lit "NewLine" then Some SNewLine
  else if keq lit "EmptyLine" then Some SEmptyLine
  else None.

Definition comment_of (env : cenv) (slash : cexp) (text : string) : Z * Z * N :=
  let f := lookup nofacts text (e_strs env) in (ceval env slash, f_len f, f_uid f).

Fixpoint iter {A} (n : nat) (f : A -> A) (a : A) : A :=
  match n with O => a | S k => iter k f (f a) end.

Definition decl_int (x : string) (v : Z) (env : cenv) : cenv := with_ints env (fdeclare x v (e_ints env)).
Definition decl_str (x : string) (v : sfacts) (env : cenv) : cenv := with_strs env ((x, v) :: e_strs env).

Fixpoint exec (s : cstmt) (env : cenv) {struct s} : cenv :=
  let fix exec_list (l : list cstmt) (env : cenv) {struct l} : cenv :=
    match l with
    | [] => env
    | s :: r => exec_list r (exec s env)
    end in
  let scoped (pre : cenv -> cenv) (l : list cstmt) (env : cenv) : cenv :=
    if e_done env then env else pop (exec_list l (pre (push env))) in
  let block := scoped (fun env => env) in
  if e_done env then env else
  match s with
  | SDeclInt x e => if cexp_ok env e then decl_int x (ceval env e) env else set_stuck env
  | SSetInt x e =>
    if cexp_ok env e then match fassign x (ceval env e) (e_ints env) with Some fs => with_ints env fs | None => set_stuck env end
    else set_stuck env
  | SDeclBool x b => if bexp_ok env b then with_bools env (fdeclare x (beval env b) (e_bools env)) else set_stuck env
  | SSetBool x b =>
    if bexp_ok env b then match fassign x (beval env b) (e_bools env) with Some fs => with_bools env fs | None => set_stuck env end
    else set_stuck env
  | SCursor e => if cexp_ok env e then with_rs env (set_cursor (e_rs env) (ceval env e)) else set_stuck env
  | SAtNl e => if cexp_ok env e then with_rs env (set_atnl (e_rs env) (ceval env e)) else set_stuck env
  | SLine e => if cexp_ok env e then with_rs env (add_line (e_rs env) (ceval env e)) else set_stuck env
  | SComment slash text =>
    if cexp_ok env slash && cexp_ok env (ELen text)
    then with_rs env (add_comment (e_rs env) (mkGroup 0 [comment_of env slash text] :: comments (e_rs env)))
    else set_stuck env
  | SFieldComment node slash text =>
    if keq node "node" && cexp_ok env slash && cexp_ok env (ELen text)
    then with_rs env (add_field_comment (e_rs env) (e_id env) (comment_of env slash text))
    else set_stuck env
  | SSpace lit => match space_of_name lit with Some v => set_space v env | None => set_stuck env end
  | SIf c t e => if bexp_ok env c then (if beval env c then block t env else block e env) else set_stuck env
  | SCount n body =>
    if cexp_ok env (EVar n) then iter (Z.to_nat (int_of env n)) (block body) env else set_stuck env
  | SEachNl sv idx body =>
    if cexp_ok env (ELen sv)
    then fold_left (fun env off => scoped (decl_int idx off) body env) (f_nls (lookup nofacts sv (e_strs env))) env
    else set_stuck env
  | SEachDec d body =>
    fold_left (fun env x => with_strs (scoped (decl_str d (facts_of_dec x)) body env) (e_strs env)) (e_decs env) env
  | SEachGroup g body =>
    fold_left (fun env x => scoped (decl_int g (group_end x)) body env) (rev (comments (e_rs env))) env
  | SEachLine x body =>
    fold_left (fun env off => scoped (decl_int x off) body env) (rev (lines (e_rs env))) env
  | SReturn => set_done None env
  | SReturnInt e => if cexp_ok env e then set_done (Some (ceval env e)) env else set_stuck env
  | SPush => push env
  | SPop => pop env
  | SUnknown _ => set_stuck env
  end.

Fixpoint exec_list (l : list cstmt) (env : cenv) : cenv :=
  match l with
  | [] => env
  | s :: r => exec_list r (exec s env)
  end.

Definition scoped (pre : cenv -> cenv) (l : list cstmt) (env : cenv) : cenv :=
  if e_done env then env else pop (exec_list l (pre (push env))).
Definition block := scoped (fun env => env).

Fixpoint stmt_known (s : cstmt) : bool :=
  let fix all (l : list cstmt) : bool := match l with [] => true | s :: r => stmt_known s && all r end in
  match s with
  | SUnknown _ | SPush | SPop => false
  | SIf c t e => all t && all e
  | SCount _ b | SEachNl _ _ b | SEachDec _ b | SEachGroup _ b | SEachLine _ b => all b
  | SSpace lit => match space_of_name lit with Some _ => true | None => false end
  | SFieldComment node _ _ => keq node "node"
  | _ => true
  end.

Definition program_known (l : list cstmt) : bool := forallb stmt_known l.

Definition start_env (s : rstate) (id : N) (sp : space) (streq : list ((string * string) * bool))
           (kindin : list (list string * bool)) (hcf : bool)
           (bools : list (string * bool)) (strs : list (string * sfacts)) (ds : list dec) : cenv :=
  mkE s [[]] [bools] strs streq sp kindin hcf id ds None false false.
