(* Evaluation of recorded dst.Walk logs on the walk interpreter. *)
From Coq Require Import List String ZArith NArith Bool.
Import ListNotations.
From DV Require Import Model.Tree Model.Tables.
Local Open Scope list_scope.

Definition walk_case := (tree * list (list N * list ev))%type.

Definition ev_eqb (a b : ev) : bool :=
  match a, b with
  | EVisit x, EVisit y => N.eqb x y
  | ENil, ENil => true
  | EBad, EBad => true
  | _, _ => false
  end.

Fixpoint evs_eqb (a b : list ev) : bool :=
  match a, b with
  | [], [] => true
  | x :: a', y :: b' => ev_eqb x y && evs_eqb a' b'
  | _, _ => false
  end.

Definition memN (x : N) (l : list N) : bool := existsb (N.eqb x) l.

Definition check_walk_case (u : universe_t) (tbl : wtable) (c : walk_case) : bool :=
  let '(t, runs) := c in
  conformsb u t && mandatory_okb tbl t &&
  forallb (fun r => evs_eqb (walk tbl (fun id => memN id (fst r)) t) (snd r)) runs.

Fixpoint bad_idx {A} (f : A -> bool) (i : nat) (l : list A) : list nat :=
  match l with
  | [] => []
  | x :: r => if f x then bad_idx f (S i) r else i :: bad_idx f (S i) r
  end.

Definition bad_walk_cases u tbl (cs : list walk_case) : list nat := bad_idx (check_walk_case u tbl) 0 cs.
