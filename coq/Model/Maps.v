(* Node maps (C11): checks on the decorator table (Gen/DecTbl.v) and the restorer table
   (Gen/RestTbl.v), the derived child tables, and the abstract map pair lists.
   Executable definitions only. *)
From Coq Require Import List String ZArith NArith Bool.
Import ListNotations.
From DV Require Import Model.Tree Model.Tables Model.Skeleton.
Local Open Scope string_scope.
Local Open Scope list_scope.

Definition last_of (p : path) : string := last p "".

(* ---- decorator ------------------------------------------------------------------------ *)
Fixpoint dec_no_bad (l : list nstmt) : bool :=
  match l with
  | [] => true
  | (NUnknown _ | NWritesInput _) :: _ => false
  | _ :: r => dec_no_bad r
  end.

(* the case records both directions for (n, out) before anything else *)
Definition dec_head_ok (k : string) (l : list nstmt) : bool :=
  match l with
  | NNew ty :: NMapDst [] :: NMapAst [] :: _ => String.eqb ty k
  | NSelectorHook :: NNew ty :: NMapDst [] :: NMapAst [] :: _ => String.eqb ty k && String.eqb k "SelectorExpr"
  | _ => false
  end.

(* an Init is immediately followed by both map entries for the node it allocates *)
Fixpoint dec_inits_mapped (l : list nstmt) : bool :=
  match l with
  | [] => true
  | NInit p _ :: ((NMapDst q :: NMapAst q' :: _) as r) => path_eqb p q && path_eqb p q' && dec_inits_mapped r
  | NInit _ _ :: _ => false
  | _ :: r => dec_inits_mapped r
  end.

(* no map entry is written anywhere else *)
Fixpoint dec_map_count (l : list nstmt) : nat :=
  match l with
  | [] => 0
  | (NMapDst _ | NMapAst _) :: r => S (dec_map_count r)
  | _ :: r => dec_map_count r
  end.
Fixpoint dec_init_count (l : list nstmt) : nat :=
  match l with [] => 0 | NInit _ _ :: r => S (dec_init_count r) | _ :: r => dec_init_count r end.

(* children: decorated from the same-named field into the same-named field, announced with
   the right parent kind / field name, asserted to the field's type *)
Definition ftype_name (ft : ftype) : string :=
  match ft with FNode t | FList t => t | FMapFiles => "File" | _ => "?" end.

Definition field_type (u : universe_t) (k : string) (p : path) : option ftype :=
  match p with
  | [f] => match lookup u k with Some fs => lookup fs f | None => None end
  | [g; f] => match lookup u k with
              | Some fs => match lookup fs g with
                           | Some (FNode ty) => match lookup u ty with Some fs' => lookup fs' f | None => None end
                           | _ => None
                           end
              | None => None
              end
  | _ => None
  end.

Definition dec_child_ok (u : universe_t) (k : string) (s : nstmt) : bool :=
  match s with
  | NNode p o kk f t asserted =>
    path_eqb p o && String.eqb kk k && String.eqb f (last_of p)
    && match field_type u k p with Some (FNode ty) => String.eqb ty asserted && String.eqb t asserted | _ => false end
  | NList p o kk f t asserted =>
    path_eqb p o && String.eqb kk k && String.eqb f (last_of p)
    && match field_type u k p with
       | Some (FList ty) => String.eqb ty asserted && String.eqb t asserted
       | Some FImportList => String.eqb asserted "ImportSpec"
       | _ => false
       end
  | NMapNodes p kk f t => String.eqb kk k && String.eqb f (last_of p)
  | _ => true
  end.

(* the child fields a case decorates, top level and below an Init *)
Fixpoint dec_children (l : list nstmt) : list (path * bool) :=   (* path, is a list *)
  match l with
  | [] => []
  | NNode p _ _ _ _ _ :: r => (p, false) :: dec_children r
  | NList p _ _ _ _ _ :: r => (p, true) :: dec_children r
  | NMapNodes p _ _ _ :: r => (p, true) :: dec_children r
  | NInit p _ :: r => (p, false) :: dec_children r
  | _ :: r => dec_children r
  end.

Definition has_child (cs : list (path * bool)) (p : path) : bool := existsb (fun c => path_eqb (fst c) p) cs.

Definition path_count (cs : list (path * bool)) (p : path) : nat :=
  List.length (filter (fun c => path_eqb (fst c) p) cs).

(* every universe child exactly once; below an Init exactly the children of the Init's kind;
   nothing else except File.Imports (aliases of specs already reached through Decls) *)
Definition dec_children_ok (u : universe_t) (k : string) (l : list nstmt) : bool :=
  let cs := dec_children l in
  forallb (fun f => Nat.eqb (path_count cs [fst f]) 1) (child_fields_t u k)
  && forallb (fun c =>
       match fst c with
       | [f] => match field_type u k [f] with
                | Some (FNode _) | Some (FList _) | Some FMapFiles => true
                | Some FImportList => true
                | _ => false
                end
       | [g; f] => match field_type u k [g; f] with Some (FNode _) | Some (FList _) => true | _ => false end
       | _ => false
       end) cs
  && forallb (fun s => match s with
                       | NInit [g] ty =>
                         match field_type u k [g] with
                         | Some (FNode ty') => String.eqb ty ty'
                           && forallb (fun f => Nat.eqb (path_count cs [g; fst f]) 1) (child_fields_t u ty)
                         | _ => false
                         end
                       | NInit _ _ => false
                       | _ => true
                       end) l.

Definition dec_kind_ok (u : universe_t) (tbl : list (string * list nstmt)) (k : string) : bool :=
  match lookup tbl k with
  | Some l => dec_no_bad l && dec_head_ok k l && dec_inits_mapped l
              && Nat.eqb (dec_map_count l) (2 + 2 * dec_init_count l)
              && forallb (dec_child_ok u k) l && dec_children_ok u k l
  | None => false
  end.

Definition dec_tbl_ok (u : universe_t) (tbl : list (string * list nstmt)) : bool :=
  forallb (fun e => dec_kind_ok u tbl (fst e)) u.

(* the child table in struct order: which nodes decorateNode is called on *)
Definition dec_wtable (u : universe_t) (tbl : list (string * list nstmt)) : wtable :=
  map (fun e =>
    (fst e,
     match lookup tbl (fst e) with
     | Some l =>
       let cs := dec_children l in
       flat_map (fun f => match snd f with
                          | FNode _ => if has_child cs [fst f] then [WOne (fst f) (negb (existsb (fun s => match s with NInit [g] _ => String.eqb g (fst f) | _ => false end) l))] else []
                          | FList _ | FMapFiles => if has_child cs [fst f] then [WMany (fst f)] else []
                          | _ => []
                          end) (child_fields_t u (fst e))
     | None => [WUnknown "no case"]
     end)) u.

(* ---- restorer ------------------------------------------------------------------------- *)
Definition rest_head_ok (l : list rstmt) : bool :=
  match l with
  | RMapAst :: RMapDst :: _ => true
  | RIdentHook :: RMapAst :: RMapDst :: _ => true
  | _ => false
  end.

Fixpoint rest_inits_mapped (l : list rstmt) : bool :=
  match l with
  | [] => true
  | RInit p _ :: ((RMapAstAt q :: RMapDstAt q' :: _) as r) => path_eqb p q && path_eqb p q' && rest_inits_mapped r
  | RInit _ _ :: _ => false
  | _ :: r => rest_inits_mapped r
  end.

Fixpoint rest_child_ok (k : string) (s : rstmt) : bool :=
  match s with
  | RNode p o pn pf _ | RList p o pn pf _ | RMapNodes p o pn pf _ =>
    path_eqb p o && String.eqb pn k && String.eqb pf (last_of p)
  | RIf _ th el =>
    (fix go (l : list rstmt) : bool := match l with [] => true | x :: r => rest_child_ok k x && go r end) th
    && (fix go (l : list rstmt) : bool := match l with [] => true | x :: r => rest_child_ok k x && go r end) el
  | RUnknown _ => false
  | _ => true
  end.

Fixpoint rest_children (s : rstmt) : list (path * bool) :=
  match s with
  | RNode p _ _ _ _ => [(p, false)]
  | RList p _ _ _ _ | RMapNodes p _ _ _ _ => [(p, true)]
  | RInit p _ => [(p, false)]
  | RIf _ th el =>
    (fix go (l : list rstmt) := match l with [] => [] | x :: r => rest_children x ++ go r end) th ++
    (fix go (l : list rstmt) := match l with [] => [] | x :: r => rest_children x ++ go r end) el
  | _ => []
  end.

Definition rest_kind_maps_ok (u : universe_t) (tbl : list (string * list rstmt)) (k : string) : bool :=
  match lookup tbl k with
  | Some l =>
    let cs := flat_map rest_children l in
    rest_head_ok l && rest_inits_mapped l && forallb (rest_child_ok k) l
    && forallb (fun f => Nat.eqb (path_count cs [fst f]) 1) (child_fields_t u k)
    && forallb (fun s => match s with
                         | RInit [g] ty =>
                           match field_type u k [g] with
                           | Some (FNode ty') => String.eqb ty ty'
                             && forallb (fun f => Nat.eqb (path_count cs [g; fst f]) 1) (child_fields_t u ty)
                           | _ => false
                           end
                         | _ => true
                         end) l
  | None => false
  end.

Definition rest_maps_ok (u : universe_t) (tbl : list (string * list rstmt)) : bool :=
  forallb (fun e => rest_kind_maps_ok u tbl (fst e)) u.

Definition rest_wtable (u : universe_t) (tbl : list (string * list rstmt)) : wtable :=
  map (fun e =>
    (fst e,
     match lookup tbl (fst e) with
     | Some l =>
       let cs := flat_map rest_children l in
       flat_map (fun f => match snd f with
                          | FNode _ => if has_child cs [fst f] then [WOne (fst f) (negb (existsb (fun s => match s with RInit [g] _ => String.eqb g (fst f) | _ => false end) l))] else []
                          | FList _ | FMapFiles => if has_child cs [fst f] then [WMany (fst f)] else []
                          | _ => []
                          end) (child_fields_t u (fst e))
     | None => [WUnknown "no case"]
     end)) u.

(* ---- the two maps as pair lists --------------------------------------------------------- *)
Fixpoint lookupNN (l : list (N * N)) (k : N) : option N :=
  match l with [] => None | (a, b) :: r => if N.eqb k a then Some b else lookupNN r k end.

Definition swap_pairs (l : list (N * N)) : list (N * N) := map (fun p => (snd p, fst p)) l.
