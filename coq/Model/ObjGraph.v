(* Object / scope graphs (C18): the memoised copy of decorateObject / decorateScope
   (decorator/decorator.go; restoreObject / restoreScope in restorer.go have the same shape),
   and the isomorphism check.  Executable definitions only. *)
From Coq Require Import List String ZArith NArith Bool.
Import ListNotations.
Local Open Scope list_scope.

Inductive ref := RNil | RNode (n : N) | RScope (s : N) | RInt (z : Z).

Record obj := mkObj { o_kind : N; o_name : string; o_decl : ref; o_data : ref }.
Record scope := mkScope { s_outer : option N; s_objs : list (string * N) }.
Record graph := mkGraph { g_objs : list (N * obj); g_scopes : list (N * scope) }.

Fixpoint nget {A} (l : list (N * A)) (k : N) : option A :=
  match l with [] => None | (k', v) :: r => if N.eqb k k' then Some v else nget r k end.

Fixpoint nset {A} (l : list (N * A)) (k : N) (v : A) : list (N * A) :=
  match l with
  | [] => [(k, v)]
  | (k', v') :: r => if N.eqb k k' then (k, v) :: r else (k', v') :: nset r k v
  end.

(* ---- the memoised copy -------------------------------------------------------------------- *)
Record cstate := mkC {
  c_mo : list (N * N);          (* f.Dst.Objects: source object -> copy *)
  c_ms : list (N * N);          (* f.Dst.Scopes *)
  c_out : graph;                (* the copies built so far *)
  c_next : N                    (* allocation counter *)
}.

Inductive what := WObj (o : N) | WScope (s : N).

Definition placeholder_obj : obj := mkObj 0 EmptyString RNil RNil.
Definition placeholder_scope : scope := mkScope None [].

Section Copy.
  Variable src : graph.
  Variable node_map : N -> N.        (* decorateNode on a Decl / Data node: the node correspondence *)

  (* returns the new state and the id of the copy (0 = nil) *)
  Fixpoint copy (fuel : nat) (w : what) (st : cstate) : cstate * N :=
    match fuel with
    | O => (st, 0%N)
    | S f =>
      match w with
      | WObj o =>
        if N.eqb o 0 then (st, 0%N) else
        match nget (c_mo st) o with
        | Some d => (st, d)
        | None =>
          match nget (g_objs src) o with
          | None => (st, 0%N)
          | Some ob =>
            let d := c_next st in
            (* out := &dst.Object{}; f.Dst.Objects[o] = out; kind and name *)
            let st1 := mkC (nset (c_mo st) o d) (c_ms st)
                           (mkGraph (nset (g_objs (c_out st)) d (mkObj (o_kind ob) (o_name ob) RNil RNil)) (g_scopes (c_out st)))
                           (d + 1) in
            let copy_ref (r : ref) (st : cstate) : cstate * ref :=
              match r with
              | RScope s => let '(st', s') := copy f (WScope s) st in (st', if N.eqb s' 0 then RNil else RScope s')
              | RNode n => (st, RNode (node_map n))
              | RInt z => (st, RInt z)
              | RNil => (st, RNil)
              end in
            let '(st2, decl) := copy_ref (o_decl ob) st1 in
            let '(st3, data) := copy_ref (o_data ob) st2 in
            (mkC (c_mo st3) (c_ms st3)
                 (mkGraph (nset (g_objs (c_out st3)) d (mkObj (o_kind ob) (o_name ob) decl data)) (g_scopes (c_out st3)))
                 (c_next st3), d)
          end
        end
      | WScope s =>
        if N.eqb s 0 then (st, 0%N) else
        match nget (c_ms st) s with
        | Some d => (st, d)
        | None =>
          match nget (g_scopes src) s with
          | None => (st, 0%N)
          | Some sc =>
            let d := c_next st in
            let st1 := mkC (c_mo st) (nset (c_ms st) s d)
                           (mkGraph (g_objs (c_out st)) (nset (g_scopes (c_out st)) d placeholder_scope))
                           (d + 1) in
            let '(st2, outer) := match s_outer sc with
                                 | Some u => let '(st', u') := copy f (WScope u) st1 in (st', if N.eqb u' 0 then None else Some u')
                                 | None => (st1, None)
                                 end in
            let '(st3, objs) := fold_left (fun (acc : cstate * list (string * N)) (e : string * N) =>
                                             let '(st, l) := acc in
                                             let '(st', d') := copy f (WObj (snd e)) st in
                                             (st', l ++ [(fst e, d')]))
                                          (s_objs sc) (st2, []) in
            (mkC (c_mo st3) (c_ms st3)
                 (mkGraph (g_objs (c_out st3)) (nset (g_scopes (c_out st3)) d (mkScope outer objs)))
                 (c_next st3), d)
          end
        end
      end
    end.

  Definition copy_all (fuel : nat) (roots : list what) : cstate :=
    fold_left (fun st w => fst (copy fuel w st)) roots (mkC [] [] (mkGraph [] []) 1).
End Copy.

(* ---- the isomorphism check ------------------------------------------------------------------ *)
Definition map_ref (mo ms : list (N * N)) (mn : N -> N) (r : ref) : option ref :=
  match r with
  | RNil => Some RNil
  | RInt z => Some (RInt z)
  | RNode n => Some (RNode (mn n))
  | RScope s => match nget ms s with Some s' => Some (RScope s') | None => None end
  end.

Definition ref_eqb (a b : ref) : bool :=
  match a, b with
  | RNil, RNil => true
  | RNode x, RNode y => N.eqb x y
  | RScope x, RScope y => N.eqb x y
  | RInt x, RInt y => Z.eqb x y
  | _, _ => false
  end.

Definition oref_eqb (a : option ref) (b : ref) : bool := match a with Some r => ref_eqb r b | None => false end.

Fixpoint nodupN (l : list N) : bool :=
  match l with [] => true | x :: r => negb (existsb (N.eqb x) r) && nodupN r end.

Definition obj_ok (g g' : graph) (mo ms : list (N * N)) (mn : N -> N) (e : N * N) : bool :=
  match nget (g_objs g) (fst e), nget (g_objs g') (snd e) with
  | Some a, Some d =>
    N.eqb (o_kind a) (o_kind d) && String.eqb (o_name a) (o_name d)
    && oref_eqb (map_ref mo ms mn (o_decl a)) (o_decl d)
    && oref_eqb (map_ref mo ms mn (o_data a)) (o_data d)
  | _, _ => false
  end.

Fixpoint members_ok (mo : list (N * N)) (a d : list (string * N)) : bool :=
  match a, d with
  | [], [] => true
  | (n, o) :: a', (n', o') :: d' =>
    String.eqb n n' && (match nget mo o with Some x => N.eqb x o' | None => false end) && members_ok mo a' d'
  | _, _ => false
  end.

Definition scope_ok (g g' : graph) (mo ms : list (N * N)) (e : N * N) : bool :=
  match nget (g_scopes g) (fst e), nget (g_scopes g') (snd e) with
  | Some a, Some d =>
    (match s_outer a, s_outer d with
     | None, None => true
     | Some u, Some u' => match nget ms u with Some x => N.eqb x u' | None => false end
     | _, _ => false
     end)
    && members_ok mo (s_objs a) (s_objs d)
  | _, _ => false
  end.

(* (g, mo, ms, g') : the maps are injective, defined on the objects/scopes they mention, and
   every mapped object / scope is copied field by field through the maps *)
Definition iso_check (g g' : graph) (mo ms : list (N * N)) (mn : N -> N) : bool :=
  nodupN (map fst mo) && nodupN (map snd mo) && nodupN (map fst ms) && nodupN (map snd ms)
  && forallb (obj_ok g g' mo ms mn) mo && forallb (scope_ok g g' mo ms) ms.

(* ---- well-formed source graphs: every reference is to an object / scope of the graph ---------- *)
Definition is_some {A} (o : option A) : bool := match o with Some _ => true | None => false end.

Definition ref_closedb (g : graph) (r : ref) : bool :=
  match r with RScope s => negb (N.eqb s 0) && is_some (nget (g_scopes g) s) | _ => true end.

Definition wf_srcb (g : graph) : bool :=
  forallb (fun e : N * obj => ref_closedb g (o_decl (snd e)) && ref_closedb g (o_data (snd e))) (g_objs g)
  && forallb (fun e : N * scope =>
                (match s_outer (snd e) with Some u => negb (N.eqb u 0) && is_some (nget (g_scopes g) u) | None => true end)
                && forallb (fun m : string * N => negb (N.eqb (snd m) 0) && is_some (nget (g_objs g) (snd m))) (s_objs (snd e)))
             (g_scopes g).
