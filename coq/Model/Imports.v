(* updateImports (decorator/restorer.go): hand model, corresponded against the real
   FileRestorer on generated import configurations (harness c07).  Every Go map is an
   association list with set-semantics ([aset]); every `range` over a map is a fold whose
   result is proved independent of the order where the code's result is.
   Executable definitions only. *)
From Coq Require Import List String ZArith NArith Bool Ascii.
From Coq Require DecimalString.
Import ListNotations.
From DV Require Import Model.Tree.
Local Open Scope string_scope.
Local Open Scope list_scope.

Record spec := mkSpec { s_path : string; s_name : string (* "" = no alias; "_" ; "." ; alias *);
                        s_id : N; s_before : space; s_after : space }.
Record block := mkBlock { b_specs : list spec; b_paren : bool; b_id : N }.

Definition amap := list (string * string).

Fixpoint aget (m : amap) (k : string) : option string :=
  match m with [] => None | (k', v) :: r => if String.eqb k k' then Some v else aget r k end.

Fixpoint aset (m : amap) (k v : string) : amap :=
  match m with
  | [] => [(k, v)]
  | (k', v') :: r => if String.eqb k k' then (k, v) :: r else (k', v') :: aset r k v
  end.

Definition ahas (m : amap) (k : string) : bool := match aget m k with Some _ => true | None => false end.

Fixpoint mem (x : string) (l : list string) : bool :=
  match l with [] => false | y :: r => String.eqb x y || mem x r end.

Fixpoint dedup (l : list string) : list string :=
  match l with [] => [] | x :: r => if mem x r then dedup r else x :: dedup r end.

Definition has_dot (s : string) : bool :=
  (fix go (s : string) : bool := match s with EmptyString => false | String c r => Ascii.eqb c "."%char || go r end) s.

(* packagePathOrderLess *)
Definition path_less (a b : string) : bool :=
  if Bool.eqb (has_dot a) (has_dot b) then String.ltb a b else has_dot b.

Fixpoint insert_sorted {A} (key : A -> string) (x : A) (l : list A) : list A :=
  match l with
  | [] => [x]
  | y :: r => if path_less (key x) (key y) then x :: y :: r else y :: insert_sorted key x r
  end.

Definition sort_by {A} (key : A -> string) (l : list A) : list A := fold_right (insert_sorted key) [] l.

Definition nat_str (n : nat) : string := DecimalString.NilEmpty.string_of_uint (Nat.to_uint n).

(* ---- step 1: the scan ------------------------------------------------------------------- *)
Definition is_cgo_only (b : block) : bool :=
  match b_specs b with [s] => String.eqb (s_path s) "C" | _ => false end.

Definition all_specs (bs : list block) : list spec := flat_map b_specs bs.

Definition imports_found (bs : list block) : amap :=
  fold_left (fun m s => aset m (s_path s) (s_name s)) (all_specs bs) [].

Definition in_use (local : string) (used : list string) : list string :=
  dedup (filter (fun p => negb (String.eqb p "") && negb (String.eqb p local)) used).

(* ---- step 3: the effective alias --------------------------------------------------------- *)
Definition effective_alias (found alias : amap) (inuse : list string) : amap :=
  let m1 := fold_left (fun m pa =>
              let '(p, a) := pa in
              if String.eqb a "" then m
              else if (match aget alias p with Some "" => true | _ => false end) then m
              else if String.eqb a "_" && mem p inuse then m
              else aset m p a) found [] in
  fold_left (fun m pa =>
              let '(p, a) := pa in
              if String.eqb a "" then m
              else if String.eqb a "_" && mem p inuse then m
              else aset m p a) alias m1.

(* ---- step 5: resolution ------------------------------------------------------------------ *)
Fixpoint resolve_all (resolve : string -> option string) (eff : amap) (ps : list string) (acc : amap)
  : string + amap :=
  match ps with
  | [] => inr acc
  | p :: r =>
    if ahas eff p then resolve_all resolve eff r acc
    else match resolve p with
         | Some n => resolve_all resolve eff r (aset acc p n)
         | None => inl p
         end
  end.

(* ---- step 7: unique names ---------------------------------------------------------------- *)
Definition values (m : amap) : list string := map snd m.

(* for conflict(current) { current = preferred + modifier; modifier++ } *)
Fixpoint find_free (fuel : nat) (names : list string) (preferred : string) (current : string) (modifier : nat) : string :=
  match fuel with
  | O => current
  | S f => if negb (String.eqb current "") && mem current names   (* conflict(""): dot / anonymous imports and "C" bind no name *)
           then find_free f names preferred (preferred ++ nat_str modifier) (S modifier) else current
  end.

Definition find_alias (resolved : amap) (names : amap) (path preferred : string) : string * string :=
  let aliased := negb (String.eqb preferred "") in
  let res := match aget resolved path with Some n => n | None => "" end in
  let pref := if aliased then preferred else res in
  let current := find_free (S (List.length names)) (values names) pref pref 1 in
  if negb aliased && String.eqb current res then (current, "") else (current, current).

Definition assign_names (resolved eff : amap) (ordered : list string) : amap * amap :=
  fold_left (fun (st : amap * amap) path =>
               let '(names, aliases) := st in
               let alias := match aget eff path with Some a => a | None => "" end in
               if String.eqb alias "." || String.eqb alias "_" then (aset names path "", aset aliases path alias)
               else let '(n, a) := find_alias resolved names path alias in (aset names path n, aset aliases path a))
            ordered ([], []).

(* ---- steps 8-12: the import blocks -------------------------------------------------------- *)
Definition alias_of (aliases : amap) (p : string) : string := match aget aliases p with Some a => a | None => "" end.

Definition fix_spec (aliases : amap) (s : spec) : spec :=
  mkSpec (s_path s) (alias_of aliases (s_path s)) (s_id s) (s_before s) (s_after s).

Definition update_block (required : list string) (aliases : amap) (b : block) : block * bool (* deleted *) :=
  let specs := map (fix_spec aliases) (filter (fun s => mem (s_path s) required) (b_specs b)) in
  let count := List.length specs in
  if Nat.eqb count (List.length (b_specs b)) then (mkBlock specs (b_paren b) (b_id b), false)
  else if Nat.eqb count 0 then (mkBlock specs (b_paren b) (b_id b), true)
  else (mkBlock specs (negb (Nat.eqb count 1)) (b_id b), false).

Fixpoint respace (found_domain : bool) (l : list spec) : list spec :=
  match l with
  | [] => []
  | s :: r =>
    if has_dot (s_path s) && negb found_domain
    then mkSpec (s_path s) (s_name s) (s_id s) SEmptyLine SNewLine :: respace true r
    else mkSpec (s_path s) (s_name s) (s_id s) SNewLine SNewLine :: respace found_domain r
  end.

Inductive outcome :=
| Failed (path : string)                           (* "could not resolve package <path>" *)
| Done (blocks : list block) (deleted : list N) (names : amap) (new_block : bool) (added : bool).

Definition eff_of (local : string) (alias : amap) (all_blocks : list block) (used : list string) : amap :=
  effective_alias (imports_found all_blocks) alias (in_use local used).

(* importsRequired: referenced paths, "C" if imported, blank imports *)
Definition required_paths (local : string) (alias : amap) (all_blocks : list block) (used : list string) : list string :=
  dedup (in_use local used ++ (if ahas (imports_found all_blocks) "C" then ["C"] else [])
           ++ map fst (filter (fun pa => String.eqb (snd pa) "_") (eff_of local alias all_blocks used))).

(* steps 8-12 *)
Definition add_missing (aliases : amap) (missing : list string) (added : bool) (blocks1 : list block) : list block :=
  match blocks1 with
  | [] => []
  | b0 :: rest =>
    let specs := b_specs b0 ++ map (fun p => mkSpec p (alias_of aliases p) 0 SNone SNone) missing in
    mkBlock (if added then sort_by s_path specs else specs) (b_paren b0) (b_id b0) :: rest
  end.

Definition respace_head (blocks3 : list block) : list block :=
  match blocks3 with
  | [] => []
  | b0 :: rest => mkBlock (respace false (b_specs b0)) (negb (Nat.eqb (List.length (b_specs b0)) 1)) (b_id b0) :: rest
  end.

(* steps 10-12 on the blocks after additions *)
Definition finish_blocks (required : list string) (aliases : amap) (added : bool) (blocks2 : list block) : list block * list N :=
  let upd := map (update_block required aliases) blocks2 in
  let blocks3 := map fst upd in
  let deleted := map (fun bd => b_id (fst bd)) (filter (fun bd => snd bd) upd) in
  let blocks4 := if added then respace_head blocks3 else blocks3 in
  (filter (fun b => negb (existsb (N.eqb (b_id b)) deleted)) blocks4, deleted).

Definition rebuild_blocks (required : list string) (aliases found : amap) (ordered : list string) (blocks : list block)
  : list block * list N * bool * bool :=
  let missing := filter (fun p => negb (ahas found p)) ordered in
  let added := negb (match missing with [] => true | _ => false end) in
  let new_block := added && (match blocks with [] => true | _ => false end) in
  let blocks1 := if new_block then [mkBlock [] false 0] else blocks in
  let blocks2 := add_missing aliases missing added blocks1 in
  let '(bs, deleted) := finish_blocks required aliases added blocks2 in
  (bs, deleted, new_block, added).

Definition names_aliases (resolve : string -> option string) (local : string) (alias : amap)
           (all_blocks : list block) (used : list string) : option (amap * amap) :=
  match resolve_all resolve (eff_of local alias all_blocks used) (in_use local used) [] with
  | inl _ => None
  | inr resolved => Some (assign_names resolved (eff_of local alias all_blocks used) (sort_by (fun p => p) (required_paths local alias all_blocks used)))
  end.

Definition update_imports (resolve : string -> option string) (local : string) (alias : amap)
           (all_blocks : list block) (used : list string) : outcome :=
  let blocks := filter (fun b => negb (is_cgo_only b)) all_blocks in
  let found := imports_found all_blocks in
  let eff := eff_of local alias all_blocks used in
  let required := required_paths local alias all_blocks used in
  match resolve_all resolve eff (in_use local used) [] with
  | inl p => Failed p
  | inr resolved =>
    let ordered := sort_by (fun p => p) required in
    let '(names, aliases) := assign_names resolved eff ordered in
    let '(bs, deleted, new_block, added) := rebuild_blocks required aliases found ordered blocks in
    Done bs deleted names new_block added
  end.

(* how an identifier with path p is rendered: None = bare *)
Definition rendered_qualifier (local : string) (names : amap) (p : string) : option string :=
  if String.eqb p "" || String.eqb p local then None
  else match aget names p with
       | Some "" => None          (* dot import *)
       | Some n => Some n
       | None => None
       end.
