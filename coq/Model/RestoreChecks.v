(* Decidable obligations on the translated restorer table and the decoration listing. *)
From Coq Require Import List String ZArith NArith Bool.
Import ListNotations.
From DV Require Import Model.Tree Model.Tables.
Local Open Scope string_scope.
Local Open Scope list_scope.

(* RDec statements at the top level of a case, in order *)
Fixpoint top_decs (l : list rstmt) : list (string * path * string * bool) :=
  match l with
  | [] => []
  | RDec name own point e :: r => (name, own, point, e) :: top_decs r
  | _ :: r => top_decs r
  end.

(* statements that emit or traverse, nested inside a condition *)
Fixpoint emits (s : rstmt) : bool :=
  match s with
  | RDec _ _ _ _ | RSpace _ | RNode _ _ _ _ _ | RList _ _ _ _ _ | RMapNodes _ _ _ _ _ | RLiteral _ | RUnknown _ | RIdentHook => true
  | RIf _ th el => existsb emits th || existsb emits el
  | _ => false
  end.

Definition nested_emits (l : list rstmt) : bool :=
  existsb (fun s => match s with RIf _ th el => existsb emits th || existsb emits el | _ => false end) l.

Fixpoint has_unknown (s : rstmt) : bool :=
  match s with
  | RUnknown _ => true
  | RAdvTok (TUnknown _) => true
  | RIf (CUnknown _) _ _ => true
  | RIf _ th el => existsb has_unknown th || existsb has_unknown el
  | _ => false
  end.

Definition is_nil_path (p : path) : bool := match p with [] => true | _ => false end.

Definition expected_own (points : list string) : list (string * path * string * bool) :=
  map (fun p => (p, @nil string, p, String.eqb p "End")) points.

Definition dec_entry_eqb (a b : string * path * string * bool) : bool :=
  match a, b with
  | (n1, o1, p1, e1), (n2, o2, p2, e2) =>
    String.eqb n1 n2 && list_string_eqb o1 o2 && String.eqb p1 p2 && Bool.eqb e1 e2
  end.

Definition funcdecl_special : list (string * path * string * bool) :=
  [("Start", ["Type"], "Start", false); ("Func", ["Type"], "Func", false);
   ("TypeParams", ["Type"], "TypeParams", false); ("Params", ["Type"], "Params", false);
   ("End", ["Type"], "End", false)].

(* per kind: the node's own points are rendered exactly once each, unconditionally, in the
   order of the Decorations struct, Start first and End (the only end=true call) last; the
   only decorations rendered from another node are FuncDecl's signature decorations *)
Definition points_ok (du : list (string * list string)) (tbl : list (string * list rstmt)) (k : string) : bool :=
  match lookup tbl k, lookup du k with
  | Some stmts, Some pts =>
    let ds := top_decs stmts in
    let own := filter (fun d => match d with (_, o, _, _) => is_nil_path o end) ds in
    let special := filter (fun d => match d with (_, o, _, _) => negb (is_nil_path o) end) ds in
    all2 dec_entry_eqb own (expected_own pts)
    && (if String.eqb k "FuncDecl" then all2 dec_entry_eqb special funcdecl_special
        else match special with [] => true | _ => false end)
    && negb (nested_emits stmts) && negb (existsb has_unknown stmts)
  | Some stmts, None => String.eqb k "Package" && match top_decs stmts with [] => true | _ => false end
                        && negb (existsb has_unknown stmts)
  | None, _ => false
  end.

Definition rest_points_ok du (u : universe_t) tbl : bool := forallb (fun e => points_ok du tbl (fst e)) u.

(* FuncDecl renders exactly the points of FuncTypeDecorations through n.Type.Decs *)
Definition funcdecl_special_covers (du : list (string * list string)) : bool :=
  match lookup du "FuncType" with
  | Some pts => list_string_eqb (map (fun d => match d with (_, _, p, _) => p end) funcdecl_special) pts
  | None => false
  end.

(* spacing brackets the node: Before is applied before anything is emitted, After after
   everything *)
Definition strip_maps (l : list rstmt) : list rstmt :=
  filter (fun s => match s with
                   | RMapAst | RMapDst | RMapAstAt _ | RMapDstAt _ | RInit _ _ | RIdentHook
                   | RCopy _ _ | RScope _ _ | RObject _ _ | RMakeMap _ | RMapObjs _ _ => false
                   | _ => true end) l.

Definition space_brackets (tbl : list (string * list rstmt)) (k : string) : bool :=
  match lookup tbl k with
  | Some stmts =>
    if String.eqb k "Package" then negb (existsb (fun s => match s with RSpace _ => true | _ => false end) stmts)
    else
      match strip_maps stmts with
      | RSpace false :: rest =>
        match rev rest with
        | RSpace true :: mid => negb (existsb (fun s => match s with RSpace _ => true | _ => false end) mid)
        | _ => false
        end
      | _ => false
      end
  | None => false
  end.

Definition rest_space_ok (u : universe_t) tbl : bool := forallb (fun e => space_brackets tbl (fst e)) u.

(* dstutil.Decorations lists Before, After and then exactly the points, in render order *)
Definition ppart_eqb (a b : ppart) : bool :=
  match a, b with
  | PBefore, PBefore | PAfter, PAfter => true
  | PPoint n f, PPoint n' f' => String.eqb n n' && String.eqb f f'
  | _, _ => false
  end.

Definition listing_ok (du : list (string * list string)) (ptbl : list (string * list ppart)) (k : string) : bool :=
  match lookup ptbl k, lookup du k with
  | Some ps, Some pts => all2 ppart_eqb ps (PBefore :: PAfter :: map (fun p => PPoint p p) pts)
  | Some [], None => String.eqb k "Package"
  | None, None => String.eqb k "Package"
  | _, _ => false
  end.

Definition listing_all_ok du (u : universe_t) ptbl (acc : list (string * bool)) : bool :=
  forallb (fun e => listing_ok du ptbl (fst e)) u
  && forallb (fun e => match lookup acc (fst e) with Some true => true | _ => false end) u.
