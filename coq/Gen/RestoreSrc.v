(* GENERATED from /repo/decorator/restorer.go and decorator.go -- do not edit *)
Definition restorefile_starts_from_init_state : bool := true.
Definition package_files_decorated_one_at_a_time : bool := true.
Definition restorefile_finishes_as_the_model : bool := true.
