(* GENERATED from /repo/decorator/restorer.go -- do not edit *)
Definition restorefile_starts_from_init_state : bool := true.
