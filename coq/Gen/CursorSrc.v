(* GENERATED from /repo/decorator/restorer.go -- do not edit *)
From Coq Require Import List String ZArith.
Import ListNotations.
From DV Require Import Model.Cursor.
Local Open Scope string_scope.
Local Open Scope Z_scope.

Definition applySpace_src : list cstmt :=
  [SIf (BKindIn "node" ["BadDecl"; "BadExpr"; "BadStmt"]) [SIf (BStrIs "position" "After") [SSpace "EmptyLine"] []] [];
   SDeclInt "newlines" (EConst 0);
   SIf (BSpaceIs "NewLine") [SSetInt "newlines" (EConst 1)] [SIf (BSpaceIs "EmptyLine") [SSetInt "newlines" (EConst 2)] []];
   SIf (BEq ECursor EAtNl) [SSetInt "newlines" (ESub (EVar "newlines") (EConst 1))] [];
   SCount "newlines" [SCursor (EAdd ECursor (EConst 1)); SDeclInt "lineOffset" (ESub ECursor EBase); SLine (EVar "lineOffset"); SCursor (EAdd ECursor (EConst 1)); SAtNl ECursor]].

Definition applyDecorations_src : list cstmt :=
  [SDeclBool "firstLine" (BLit true);
   SDeclBool "isNodeFile" (BKindIn "node" ["File"]);
   SDeclBool "isPackageComment" (BAnd (BVar "isNodeFile") (BStrIs "name" "Start"));
   SEachDec "d" [SDeclBool "isNewline" (BStrIs "d" "
"); SDeclBool "isLineComment" (BPrefix "d" "//"); SDeclBool "isInlineComment" (BPrefix "d" "/*"); SDeclBool "isComment" (BOr (BVar "isLineComment") (BVar "isInlineComment")); SDeclBool "isMultiLineComment" (BAnd (BVar "isInlineComment") (BContains "d" "
")); SIf (BAnd (BVar "end") (BEq EAtNl ECursor)) [SCursor (EAdd ECursor (EConst 1))] []; SIf (BVar "isMultiLineComment") [SEachNl "d" "charIndex" [SDeclInt "lineOffset" (EAdd (ESub ECursor EBase) (EVar "charIndex")); SLine (EVar "lineOffset")]] []; SIf (BVar "isComment") [SIf (BAnd (BAnd (BVar "firstLine") (BVar "end")) (BHasCommentField "node")) [SFieldComment "node" ECursor "d"] [SComment ECursor "d"]; SCursor (EAdd ECursor (ELen "d"))] []; SIf (BOr (BVar "isLineComment") (BVar "isNewline")) [SIf (BVar "isNewline") [SCursor (EAdd ECursor (EConst 1))] []; SDeclInt "lineOffset" (ESub ECursor EBase); SLine (EVar "lineOffset"); SCursor (EAdd ECursor (EConst 1)); SAtNl ECursor] []; SIf (BOr (BVar "isNewline") (BVar "isLineComment")) [SSetBool "firstLine" (BLit false)] []];
   SIf (BVar "isPackageComment") [SCursor (EAdd ECursor (EConst 1))] []].

Definition applyLiteral_src : list cstmt :=
  [SDeclBool "isMultiLine" (BAnd (BPrefix "text" "`") (BContains "text" "
"));
   SIf (BNot (BVar "isMultiLine")) [SReturn] [];
   SEachNl "text" "charIndex" [SDeclInt "lineOffset" (EAdd (ESub ECursor EBase) (EVar "charIndex")); SLine (EVar "lineOffset")]].

Definition fileSize_src : list cstmt :=
  [SDeclInt "end" ECursor;
   SEachGroup "cg" [SIf (BGe (EVar "cg") (EVar "end")) [SSetInt "end" (EAdd (EVar "cg") (EConst 1))] []];
   SEachLine "lineOffset" [SDeclInt "pos" (EAdd (EVar "lineOffset") EBase); SIf (BGe (EVar "pos") (EVar "end")) [SSetInt "end" (EAdd (EVar "pos") (EConst 1))] []];
   SReturnInt (ESub (EVar "end") EBase)].

Definition has_comment_field_kinds : list string := ["Field"; "ValueSpec"; "TypeSpec"; "ImportSpec"].

Definition add_comment_field_cases : list (string * string) :=
  [("Field", "if n.Comment == nil { n.Comment = &ast.CommentGroup{} r.comments = append(r.comments, n.Comment) }; n.Comment.List = append(n.Comment.List, c)");
   ("ImportSpec", "if n.Comment == nil { n.Comment = &ast.CommentGroup{} r.comments = append(r.comments, n.Comment) }; n.Comment.List = append(n.Comment.List, c)");
   ("ValueSpec", "if n.Comment == nil { n.Comment = &ast.CommentGroup{} r.comments = append(r.comments, n.Comment) }; n.Comment.List = append(n.Comment.List, c)");
   ("TypeSpec", "if n.Comment == nil { n.Comment = &ast.CommentGroup{} r.comments = append(r.comments, n.Comment) }; n.Comment.List = append(n.Comment.List, c)")].
