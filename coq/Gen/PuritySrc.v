(* GENERATED from /repo/decorator/resolver/{guess,simple,gobuild}/resolver.go -- do not edit *)
From Coq Require Import List String Bool.
Import ListNotations.
Local Open Scope string_scope.

Definition name_resolvers_write_only_locals : list (string * bool) := [("gobuild.ResolvePackage", true); ("guess.ResolvePackage", true); ("simple.ResolvePackage", true)].
