(* GENERATED from /repo/decorator/decorator.go, restorer.go, load.go -- do not edit *)
From Coq Require Import List String Bool.
Import ListNotations.
Local Open Scope string_scope.

Definition err_propagation : list (string * bool) := [
  ("Decorator.ParseDir", true);
  ("Decorator.DecorateFile", true);
  ("Decorator.DecorateNode", true);
  ("fileDecorator.decorateSelectorExpr", true);
  ("fileDecorator.resolvePath", true);
  ("fileDecorator.decorateObject", true);
  ("fileDecorator.decorateScope", true);
  ("Restorer.Fprint", true);
  ("Restorer.RestoreFile", true);
  ("FileRestorer.Fprint", true);
  ("FileRestorer.RestoreFile", true);
  ("FileRestorer.updateImports", true);
  ("Package.save", true)].
