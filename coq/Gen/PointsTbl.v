(* GENERATED from /repo/dstutil/decorations-generated.go and /repo/decorations-node-generated.go -- do not edit *)
From Coq Require Import List String ZArith NArith Bool.
Import ListNotations.
From DV Require Import Model.Tree Model.Tables.
Local Open Scope string_scope.
Local Open Scope list_scope.

Definition points_tbl : list (string * list ppart) := [
  ("ArrayType", [PBefore; PAfter; PPoint "Start" "Start"; PPoint "Lbrack" "Lbrack"; PPoint "Len" "Len"; PPoint "End" "End"]);
  ("AssignStmt", [PBefore; PAfter; PPoint "Start" "Start"; PPoint "Tok" "Tok"; PPoint "End" "End"]);
  ("BadDecl", [PBefore; PAfter; PPoint "Start" "Start"; PPoint "End" "End"]);
  ("BadExpr", [PBefore; PAfter; PPoint "Start" "Start"; PPoint "End" "End"]);
  ("BadStmt", [PBefore; PAfter; PPoint "Start" "Start"; PPoint "End" "End"]);
  ("BasicLit", [PBefore; PAfter; PPoint "Start" "Start"; PPoint "End" "End"]);
  ("BinaryExpr", [PBefore; PAfter; PPoint "Start" "Start"; PPoint "X" "X"; PPoint "Op" "Op"; PPoint "End" "End"]);
  ("BlockStmt", [PBefore; PAfter; PPoint "Start" "Start"; PPoint "Lbrace" "Lbrace"; PPoint "End" "End"]);
  ("BranchStmt", [PBefore; PAfter; PPoint "Start" "Start"; PPoint "Tok" "Tok"; PPoint "End" "End"]);
  ("CallExpr", [PBefore; PAfter; PPoint "Start" "Start"; PPoint "Fun" "Fun"; PPoint "Lparen" "Lparen"; PPoint "Ellipsis" "Ellipsis"; PPoint "End" "End"]);
  ("CaseClause", [PBefore; PAfter; PPoint "Start" "Start"; PPoint "Case" "Case"; PPoint "Colon" "Colon"; PPoint "End" "End"]);
  ("ChanType", [PBefore; PAfter; PPoint "Start" "Start"; PPoint "Begin" "Begin"; PPoint "Arrow" "Arrow"; PPoint "End" "End"]);
  ("CommClause", [PBefore; PAfter; PPoint "Start" "Start"; PPoint "Case" "Case"; PPoint "Comm" "Comm"; PPoint "Colon" "Colon"; PPoint "End" "End"]);
  ("CompositeLit", [PBefore; PAfter; PPoint "Start" "Start"; PPoint "Type" "Type"; PPoint "Lbrace" "Lbrace"; PPoint "End" "End"]);
  ("DeclStmt", [PBefore; PAfter; PPoint "Start" "Start"; PPoint "End" "End"]);
  ("DeferStmt", [PBefore; PAfter; PPoint "Start" "Start"; PPoint "Defer" "Defer"; PPoint "End" "End"]);
  ("Ellipsis", [PBefore; PAfter; PPoint "Start" "Start"; PPoint "Ellipsis" "Ellipsis"; PPoint "End" "End"]);
  ("EmptyStmt", [PBefore; PAfter; PPoint "Start" "Start"; PPoint "End" "End"]);
  ("ExprStmt", [PBefore; PAfter; PPoint "Start" "Start"; PPoint "End" "End"]);
  ("Field", [PBefore; PAfter; PPoint "Start" "Start"; PPoint "Type" "Type"; PPoint "End" "End"]);
  ("FieldList", [PBefore; PAfter; PPoint "Start" "Start"; PPoint "Opening" "Opening"; PPoint "End" "End"]);
  ("File", [PBefore; PAfter; PPoint "Start" "Start"; PPoint "Package" "Package"; PPoint "Name" "Name"; PPoint "End" "End"]);
  ("ForStmt", [PBefore; PAfter; PPoint "Start" "Start"; PPoint "For" "For"; PPoint "Init" "Init"; PPoint "Cond" "Cond"; PPoint "Post" "Post"; PPoint "End" "End"]);
  ("FuncDecl", [PBefore; PAfter; PPoint "Start" "Start"; PPoint "Func" "Func"; PPoint "Recv" "Recv"; PPoint "Name" "Name"; PPoint "TypeParams" "TypeParams"; PPoint "Params" "Params"; PPoint "Results" "Results"; PPoint "End" "End"]);
  ("FuncLit", [PBefore; PAfter; PPoint "Start" "Start"; PPoint "Type" "Type"; PPoint "End" "End"]);
  ("FuncType", [PBefore; PAfter; PPoint "Start" "Start"; PPoint "Func" "Func"; PPoint "TypeParams" "TypeParams"; PPoint "Params" "Params"; PPoint "End" "End"]);
  ("GenDecl", [PBefore; PAfter; PPoint "Start" "Start"; PPoint "Tok" "Tok"; PPoint "Lparen" "Lparen"; PPoint "End" "End"]);
  ("GoStmt", [PBefore; PAfter; PPoint "Start" "Start"; PPoint "Go" "Go"; PPoint "End" "End"]);
  ("Ident", [PBefore; PAfter; PPoint "Start" "Start"; PPoint "X" "X"; PPoint "End" "End"]);
  ("IfStmt", [PBefore; PAfter; PPoint "Start" "Start"; PPoint "If" "If"; PPoint "Init" "Init"; PPoint "Cond" "Cond"; PPoint "Else" "Else"; PPoint "End" "End"]);
  ("ImportSpec", [PBefore; PAfter; PPoint "Start" "Start"; PPoint "Name" "Name"; PPoint "End" "End"]);
  ("IncDecStmt", [PBefore; PAfter; PPoint "Start" "Start"; PPoint "X" "X"; PPoint "End" "End"]);
  ("IndexExpr", [PBefore; PAfter; PPoint "Start" "Start"; PPoint "X" "X"; PPoint "Lbrack" "Lbrack"; PPoint "Index" "Index"; PPoint "End" "End"]);
  ("IndexListExpr", [PBefore; PAfter; PPoint "Start" "Start"; PPoint "X" "X"; PPoint "Lbrack" "Lbrack"; PPoint "Indices" "Indices"; PPoint "End" "End"]);
  ("InterfaceType", [PBefore; PAfter; PPoint "Start" "Start"; PPoint "Interface" "Interface"; PPoint "End" "End"]);
  ("KeyValueExpr", [PBefore; PAfter; PPoint "Start" "Start"; PPoint "Key" "Key"; PPoint "Colon" "Colon"; PPoint "End" "End"]);
  ("LabeledStmt", [PBefore; PAfter; PPoint "Start" "Start"; PPoint "Label" "Label"; PPoint "Colon" "Colon"; PPoint "End" "End"]);
  ("MapType", [PBefore; PAfter; PPoint "Start" "Start"; PPoint "Map" "Map"; PPoint "Key" "Key"; PPoint "End" "End"]);
  ("Package", []);
  ("ParenExpr", [PBefore; PAfter; PPoint "Start" "Start"; PPoint "Lparen" "Lparen"; PPoint "X" "X"; PPoint "End" "End"]);
  ("RangeStmt", [PBefore; PAfter; PPoint "Start" "Start"; PPoint "For" "For"; PPoint "Key" "Key"; PPoint "Value" "Value"; PPoint "Range" "Range"; PPoint "X" "X"; PPoint "End" "End"]);
  ("ReturnStmt", [PBefore; PAfter; PPoint "Start" "Start"; PPoint "Return" "Return"; PPoint "End" "End"]);
  ("SelectStmt", [PBefore; PAfter; PPoint "Start" "Start"; PPoint "Select" "Select"; PPoint "End" "End"]);
  ("SelectorExpr", [PBefore; PAfter; PPoint "Start" "Start"; PPoint "X" "X"; PPoint "End" "End"]);
  ("SendStmt", [PBefore; PAfter; PPoint "Start" "Start"; PPoint "Chan" "Chan"; PPoint "Arrow" "Arrow"; PPoint "End" "End"]);
  ("SliceExpr", [PBefore; PAfter; PPoint "Start" "Start"; PPoint "X" "X"; PPoint "Lbrack" "Lbrack"; PPoint "Low" "Low"; PPoint "High" "High"; PPoint "Max" "Max"; PPoint "End" "End"]);
  ("StarExpr", [PBefore; PAfter; PPoint "Start" "Start"; PPoint "Star" "Star"; PPoint "End" "End"]);
  ("StructType", [PBefore; PAfter; PPoint "Start" "Start"; PPoint "Struct" "Struct"; PPoint "End" "End"]);
  ("SwitchStmt", [PBefore; PAfter; PPoint "Start" "Start"; PPoint "Switch" "Switch"; PPoint "Init" "Init"; PPoint "Tag" "Tag"; PPoint "End" "End"]);
  ("TypeAssertExpr", [PBefore; PAfter; PPoint "Start" "Start"; PPoint "X" "X"; PPoint "Lparen" "Lparen"; PPoint "Type" "Type"; PPoint "End" "End"]);
  ("TypeSpec", [PBefore; PAfter; PPoint "Start" "Start"; PPoint "Name" "Name"; PPoint "TypeParams" "TypeParams"; PPoint "End" "End"]);
  ("TypeSwitchStmt", [PBefore; PAfter; PPoint "Start" "Start"; PPoint "Switch" "Switch"; PPoint "Init" "Init"; PPoint "Assign" "Assign"; PPoint "End" "End"]);
  ("UnaryExpr", [PBefore; PAfter; PPoint "Start" "Start"; PPoint "Op" "Op"; PPoint "End" "End"]);
  ("ValueSpec", [PBefore; PAfter; PPoint "Start" "Start"; PPoint "Assign" "Assign"; PPoint "End" "End"])].

Definition accessor_tbl : list (string * bool) := [
  ("ArrayType", true);
  ("AssignStmt", true);
  ("BadDecl", true);
  ("BadExpr", true);
  ("BadStmt", true);
  ("BasicLit", true);
  ("BinaryExpr", true);
  ("BlockStmt", true);
  ("BranchStmt", true);
  ("CallExpr", true);
  ("CaseClause", true);
  ("ChanType", true);
  ("CommClause", true);
  ("CompositeLit", true);
  ("DeclStmt", true);
  ("DeferStmt", true);
  ("Ellipsis", true);
  ("EmptyStmt", true);
  ("ExprStmt", true);
  ("Field", true);
  ("FieldList", true);
  ("File", true);
  ("ForStmt", true);
  ("FuncDecl", true);
  ("FuncLit", true);
  ("FuncType", true);
  ("GenDecl", true);
  ("GoStmt", true);
  ("Ident", true);
  ("IfStmt", true);
  ("ImportSpec", true);
  ("IncDecStmt", true);
  ("IndexExpr", true);
  ("IndexListExpr", true);
  ("InterfaceType", true);
  ("KeyValueExpr", true);
  ("LabeledStmt", true);
  ("MapType", true);
  ("Package", true);
  ("ParenExpr", true);
  ("RangeStmt", true);
  ("ReturnStmt", true);
  ("SelectStmt", true);
  ("SelectorExpr", true);
  ("SendStmt", true);
  ("SliceExpr", true);
  ("StarExpr", true);
  ("StructType", true);
  ("SwitchStmt", true);
  ("TypeAssertExpr", true);
  ("TypeSpec", true);
  ("TypeSwitchStmt", true);
  ("UnaryExpr", true);
  ("ValueSpec", true)].
