(* GENERATED from /repo/decorator/load.go and decorator.go -- do not edit *)
From Coq Require Import Bool.

Definition save_shape_ok : bool := true.
Definition save_entry_points_ok : bool := true.
Definition filenames_recorded_ok : bool := true.
