(* GENERATED from /repo/decorator/load.go and decorator.go -- do not edit *)
From Coq Require Import Bool List String.
Import ListNotations.
From DV Require Import Model.Decision.
Local Open Scope string_scope.

Definition save_shape_ok : bool := true.
Definition save_entry_points_ok : bool := true.
Definition filenames_recorded_ok : bool := true.

Definition save_src : list lstmt :=
  [LBind "r := NewRestorerWithImports(p.PkgPath, resolver)";
   LFor "p.Syntax" [LBind "buf := &bytes.Buffer{}"; LCall "NewRestorerWithImports(p.PkgPath,resolver).Fprint(&bytes.Buffer{},file)"; LCall "writeFile(p.Decorator.Filenames[file],&bytes.Buffer{}.Bytes(),0666)"];
   LRetNil].
