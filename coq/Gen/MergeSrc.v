(* GENERATED from /repo/decorator/decorator.go -- do not edit *)
From Coq Require Import List String.
Import ListNotations.
From DV Require Import Model.MergeProg.
Local Open Scope string_scope.

Definition mergeDecorations_src : mprog :=
  mkMProg true
    []
    [MIfEmpty [MContinue]; MAppendAll; MSetEnds MLastNlOrLine]
    [("NewLine", [MIfEnds [] [MAppendNl 1]; MSetEnds MTrue]);
     ("EmptyLine", [MIfEnds [MAppendNl 1] [MAppendNl 2]; MSetEnds MTrue])]
    true.

Definition merge_calls : list (string * list string) :=
  [("Start", ["nStart"; "xBefore"; "xStart"]);
   ("X", ["xEnd"; "xAfter"; "nX"; "sBefore"; "sStart"]);
   ("End", ["sEnd"; "sAfter"; "nEnd"])].
