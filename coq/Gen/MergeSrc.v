(* GENERATED from /repo/decorator/decorator.go -- do not edit *)
From Coq Require Import List String.
Import ListNotations.
From DV Require Import Model.MergeProg.
Local Open Scope string_scope.

Definition mergeDecorations_src : mprog :=
  mkMProg true
    []
    [MIfEmpty [MContinue]; MAppendAll; MSetEnds MLastNlOrLine]
    [("NewLine", [MIfEnds [] [MAppendNl 1]; MSetEnds MTrue]);
     ("EmptyLine", [MIfEnds [MAppendNl 1] [MAppendNl 2]; MSetEnds MTrue])]
    true.

Definition merge_calls : list (string * list string) :=
  [("Start", ["nStart"; "xBefore"; "xStart"]);
   ("X", ["xEnd"; "xAfter"; "nX"; "sBefore"; "sStart"]);
   ("End", ["sEnd"; "sAfter"; "nEnd"])].

Definition merge_slots : list (string * string * string * string) :=
  [("out.Decs.Before", "before", "n", "");
   ("out.Decs.After", "after", "n", "");
   ("xBefore", "before", "n.X", "");
   ("xAfter", "after", "n.X", "");
   ("sBefore", "before", "n.Sel", "");
   ("sAfter", "after", "n.Sel", "");
   ("nStart", "decorations", "n", "Start");
   ("nX", "decorations", "n", "X");
   ("nEnd", "decorations", "n", "End");
   ("xStart", "decorations", "n.X", "Start");
   ("xEnd", "decorations", "n.X", "End");
   ("sStart", "decorations", "n.Sel", "Start");
   ("sEnd", "decorations", "n.Sel", "End")].
