(* GENERATED from /repo/decorator/*.go -- do not edit *)
From Coq Require Import List String Bool.
Import ListNotations.
Local Open Scope string_scope.

Definition panic_sites : list (string * string * string) := [
  ("decorator.go", "Decorator.DecorateNode", """Decorator Path should be empty when Res");
  ("decorator.go", "Decorator.DecorateNode", """Decorator Path should be set when Resol");
  ("decorator.go", "fileDecorator.resolvePath", """resolvePath needs a Resolver""");
  ("decorator.go", "fileDecorator.resolvePath", "fmt.Sprintf(""decorateIdent: unsupported ");
  ("decorator.go", "fileDecorator.decorateObject", "fmt.Sprintf(""o.Decl is %T"", o.Data)");
  ("decorator.go", "fileDecorator.decorateObject", "fmt.Sprintf(""o.Data is %T"", o.Data)");
  ("decorator.go", "mergeDecorations", "fmt.Sprintf(""%T"", v)");
  ("decorator-fragment.go", "fileDecorator.link", """no decoration found for "" + frag.Text");
  ("decorator-fragment.go", "fileDecorator.link", """no decoration found for newline""");
  ("restorer.go", "FileRestorer.RestoreFile", """Restorer Path should be empty when Reso");
  ("restorer.go", "FileRestorer.RestoreFile", """Restorer Path should be set when Resolv");
  ("restorer.go", "FileRestorer.RestoreFile", """ff.SetLines failed""");
  ("restorer.go", "FileRestorer.restoreIdent", """This syntax has been decorated with imp");
  ("restorer.go", "FileRestorer.restoreIdent", "fmt.Sprintf(""Path %s set on illegal Iden");
  ("restorer.go", "FileRestorer.restoreObject", "fmt.Sprintf(""o.Decl is %T"", o.Decl)");
  ("restorer.go", "FileRestorer.restoreObject", "fmt.Sprintf(""o.Data is %T"", o.Data)");
  ("restorer.go", "mustUnquote", "err");
  ("restorer-generated.go", "FileRestorer.restoreNode", "fmt.Sprintf(""duplicate node: %#v"", n)");
  ("restorer-generated.go", "FileRestorer.restoreNode", "fmt.Sprintf(""%T"", n)")].

Definition parsefile_returns_parser_error : bool := true.
