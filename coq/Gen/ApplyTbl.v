(* GENERATED from /repo/dstutil/rewrite.go and golang.org/x/tools@v0.1.12 go/ast/astutil/rewrite.go -- do not edit *)
From Coq Require Import List String ZArith NArith Bool.
Import ListNotations.
From DV Require Import Model.Tree Model.Tables.
Local Open Scope string_scope.
Local Open Scope list_scope.

Definition apply_tbl : list (string * list apart) := [
  ("Field", [AMany "Names"; AOne "Type" "Type"; AOne "Tag" "Tag"]);
  ("FieldList", [AMany "List"]);
  ("BadExpr", []);
  ("Ident", []);
  ("BasicLit", []);
  ("Ellipsis", [AOne "Elt" "Elt"]);
  ("FuncLit", [AOne "Type" "Type"; AOne "Body" "Body"]);
  ("CompositeLit", [AOne "Type" "Type"; AMany "Elts"]);
  ("ParenExpr", [AOne "X" "X"]);
  ("SelectorExpr", [AOne "X" "X"; AOne "Sel" "Sel"]);
  ("IndexExpr", [AOne "X" "X"; AOne "Index" "Index"]);
  ("IndexListExpr", [AOne "X" "X"; AMany "Indices"]);
  ("SliceExpr", [AOne "X" "X"; AOne "Low" "Low"; AOne "High" "High"; AOne "Max" "Max"]);
  ("TypeAssertExpr", [AOne "X" "X"; AOne "Type" "Type"]);
  ("CallExpr", [AOne "Fun" "Fun"; AMany "Args"]);
  ("StarExpr", [AOne "X" "X"]);
  ("UnaryExpr", [AOne "X" "X"]);
  ("BinaryExpr", [AOne "X" "X"; AOne "Y" "Y"]);
  ("KeyValueExpr", [AOne "Key" "Key"; AOne "Value" "Value"]);
  ("ArrayType", [AOne "Len" "Len"; AOne "Elt" "Elt"]);
  ("StructType", [AOne "Fields" "Fields"]);
  ("FuncType", [AOneG "TypeParams" "TypeParams"; AOne "Params" "Params"; AOne "Results" "Results"]);
  ("InterfaceType", [AOne "Methods" "Methods"]);
  ("MapType", [AOne "Key" "Key"; AOne "Value" "Value"]);
  ("ChanType", [AOne "Value" "Value"]);
  ("BadStmt", []);
  ("DeclStmt", [AOne "Decl" "Decl"]);
  ("EmptyStmt", []);
  ("LabeledStmt", [AOne "Label" "Label"; AOne "Stmt" "Stmt"]);
  ("ExprStmt", [AOne "X" "X"]);
  ("SendStmt", [AOne "Chan" "Chan"; AOne "Value" "Value"]);
  ("IncDecStmt", [AOne "X" "X"]);
  ("AssignStmt", [AMany "Lhs"; AMany "Rhs"]);
  ("GoStmt", [AOne "Call" "Call"]);
  ("DeferStmt", [AOne "Call" "Call"]);
  ("ReturnStmt", [AMany "Results"]);
  ("BranchStmt", [AOne "Label" "Label"]);
  ("BlockStmt", [AMany "List"]);
  ("IfStmt", [AOne "Init" "Init"; AOne "Cond" "Cond"; AOne "Body" "Body"; AOne "Else" "Else"]);
  ("CaseClause", [AMany "List"; AMany "Body"]);
  ("SwitchStmt", [AOne "Init" "Init"; AOne "Tag" "Tag"; AOne "Body" "Body"]);
  ("TypeSwitchStmt", [AOne "Init" "Init"; AOne "Assign" "Assign"; AOne "Body" "Body"]);
  ("CommClause", [AOne "Comm" "Comm"; AMany "Body"]);
  ("SelectStmt", [AOne "Body" "Body"]);
  ("ForStmt", [AOne "Init" "Init"; AOne "Cond" "Cond"; AOne "Post" "Post"; AOne "Body" "Body"]);
  ("RangeStmt", [AOne "Key" "Key"; AOne "Value" "Value"; AOne "X" "X"; AOne "Body" "Body"]);
  ("ImportSpec", [AOne "Name" "Name"; AOne "Path" "Path"]);
  ("ValueSpec", [AMany "Names"; AOne "Type" "Type"; AMany "Values"]);
  ("TypeSpec", [AOne "Name" "Name"; AOneG "TypeParams" "TypeParams"; AOne "Type" "Type"]);
  ("BadDecl", []);
  ("GenDecl", [AMany "Specs"]);
  ("FuncDecl", [AOne "Recv" "Recv"; AOne "Name" "Name"; AOne "Type" "Type"; AOne "Body" "Body"]);
  ("File", [AOne "Name" "Name"; AMany "Decls"]);
  ("Package", [APkgFiles])].

Definition astutil_tbl : list (string * list apart) := [
  ("Field", [AOne "Doc" "Doc"; AMany "Names"; AOne "Type" "Type"; AOne "Tag" "Tag"; AOne "Comment" "Comment"]);
  ("FieldList", [AMany "List"]);
  ("BadExpr", []);
  ("Ident", []);
  ("BasicLit", []);
  ("Ellipsis", [AOne "Elt" "Elt"]);
  ("FuncLit", [AOne "Type" "Type"; AOne "Body" "Body"]);
  ("CompositeLit", [AOne "Type" "Type"; AMany "Elts"]);
  ("ParenExpr", [AOne "X" "X"]);
  ("SelectorExpr", [AOne "X" "X"; AOne "Sel" "Sel"]);
  ("IndexExpr", [AOne "X" "X"; AOne "Index" "Index"]);
  ("IndexListExpr", [AOne "X" "X"; AMany "Indices"]);
  ("SliceExpr", [AOne "X" "X"; AOne "Low" "Low"; AOne "High" "High"; AOne "Max" "Max"]);
  ("TypeAssertExpr", [AOne "X" "X"; AOne "Type" "Type"]);
  ("CallExpr", [AOne "Fun" "Fun"; AMany "Args"]);
  ("StarExpr", [AOne "X" "X"]);
  ("UnaryExpr", [AOne "X" "X"]);
  ("BinaryExpr", [AOne "X" "X"; AOne "Y" "Y"]);
  ("KeyValueExpr", [AOne "Key" "Key"; AOne "Value" "Value"]);
  ("ArrayType", [AOne "Len" "Len"; AOne "Elt" "Elt"]);
  ("StructType", [AOne "Fields" "Fields"]);
  ("FuncType", [AOneG "TypeParams" "TypeParams"; AOne "Params" "Params"; AOne "Results" "Results"]);
  ("InterfaceType", [AOne "Methods" "Methods"]);
  ("MapType", [AOne "Key" "Key"; AOne "Value" "Value"]);
  ("ChanType", [AOne "Value" "Value"]);
  ("BadStmt", []);
  ("DeclStmt", [AOne "Decl" "Decl"]);
  ("EmptyStmt", []);
  ("LabeledStmt", [AOne "Label" "Label"; AOne "Stmt" "Stmt"]);
  ("ExprStmt", [AOne "X" "X"]);
  ("SendStmt", [AOne "Chan" "Chan"; AOne "Value" "Value"]);
  ("IncDecStmt", [AOne "X" "X"]);
  ("AssignStmt", [AMany "Lhs"; AMany "Rhs"]);
  ("GoStmt", [AOne "Call" "Call"]);
  ("DeferStmt", [AOne "Call" "Call"]);
  ("ReturnStmt", [AMany "Results"]);
  ("BranchStmt", [AOne "Label" "Label"]);
  ("BlockStmt", [AMany "List"]);
  ("IfStmt", [AOne "Init" "Init"; AOne "Cond" "Cond"; AOne "Body" "Body"; AOne "Else" "Else"]);
  ("CaseClause", [AMany "List"; AMany "Body"]);
  ("SwitchStmt", [AOne "Init" "Init"; AOne "Tag" "Tag"; AOne "Body" "Body"]);
  ("TypeSwitchStmt", [AOne "Init" "Init"; AOne "Assign" "Assign"; AOne "Body" "Body"]);
  ("CommClause", [AOne "Comm" "Comm"; AMany "Body"]);
  ("SelectStmt", [AOne "Body" "Body"]);
  ("ForStmt", [AOne "Init" "Init"; AOne "Cond" "Cond"; AOne "Post" "Post"; AOne "Body" "Body"]);
  ("RangeStmt", [AOne "Key" "Key"; AOne "Value" "Value"; AOne "X" "X"; AOne "Body" "Body"]);
  ("ImportSpec", [AOne "Doc" "Doc"; AOne "Name" "Name"; AOne "Path" "Path"; AOne "Comment" "Comment"]);
  ("ValueSpec", [AOne "Doc" "Doc"; AMany "Names"; AOne "Type" "Type"; AMany "Values"; AOne "Comment" "Comment"]);
  ("TypeSpec", [AOne "Doc" "Doc"; AOne "Name" "Name"; AOneG "TypeParams" "TypeParams"; AOne "Type" "Type"; AOne "Comment" "Comment"]);
  ("BadDecl", []);
  ("GenDecl", [AOne "Doc" "Doc"; AMany "Specs"]);
  ("FuncDecl", [AOne "Doc" "Doc"; AOne "Recv" "Recv"; AOne "Name" "Name"; AOne "Type" "Type"; AOne "Body" "Body"]);
  ("File", [AOne "Doc" "Doc"; AOne "Name" "Name"; AMany "Decls"]);
  ("Package", [APkgFiles])].

Definition same_as_astutil : list (string * bool) := [
  ("Apply", true);
  ("var abort", true);
  ("type Cursor", true);
  ("Cursor.Node", true);
  ("Cursor.Parent", true);
  ("Cursor.Name", true);
  ("Cursor.Index", true);
  ("Cursor.field", true);
  ("Cursor.Replace", true);
  ("Cursor.Delete", true);
  ("Cursor.InsertAfter", true);
  ("Cursor.InsertBefore", true);
  ("type application", true);
  ("type iterator", true);
  ("application.applyList", true)].
Definition apply_frame_same_as_astutil : bool := true.
Definition apply_frame_ok : bool := true.
Definition apply_list_shape_ok : bool := true.
Definition apply_entry_ok : bool := true.

Definition ir_Replace : list iop := [IFileCase; IField; IAtIndex; ISetV].
Definition ir_Delete : list iop := [IFileCase; IGetIndex; IPanicIfNoSlice; IField; ILen; ICopy 0 1; IZeroLast; ITrunc; IStep (-1)].
Definition ir_InsertAfter : list iop := [IGetIndex; IPanicIfNoSlice; IField; IAppendZero; ILen; ICopy 2 1; ISet 1; IStep 1].
Definition ir_InsertBefore : list iop := [IGetIndex; IPanicIfNoSlice; IField; IAppendZero; ILen; ICopy 1 0; ISet 0; IIndex 1].
