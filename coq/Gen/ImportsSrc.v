(* GENERATED from /repo/decorator/restorer.go -- do not edit *)
From Coq Require Import List String Bool.
Import ListNotations.
Local Open Scope string_scope.

Definition imports_resolve_before_mutation : bool := true.
Definition imports_error_wrapped : bool := true.
Definition imports_sorted_before_names : bool := true.
Definition restorefile_updates_imports_first : bool := true.
