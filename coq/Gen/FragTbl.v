(* GENERATED from /repo/decorator/decorator-fragment-generated.go -- do not edit *)
From Coq Require Import List String ZArith NArith Bool.
Import ListNotations.
From DV Require Import Model.Tree Model.Tables.
Local Open Scope string_scope.
Local Open Scope list_scope.

From DV Require Import Model.FragSkel.

Definition frag_tbl : list (string * list gstmt) := [
  ("ArrayType", [GDec [] "Start"; GTok ["Lbrack"]; GDec [] "Lbrack"; GNode ["Len"] true; GTok []; GDec [] "Len"; GNode ["Elt"] true; GDec [] "End"]);
  ("AssignStmt", [GDec [] "Start"; GList ["Lhs"]; GTok ["TokPos"]; GDec [] "Tok"; GList ["Rhs"]; GDec [] "End"]);
  ("BadDecl", [GDec [] "Start"; GBad ["From"]; GDec [] "End"]);
  ("BadExpr", [GDec [] "Start"; GBad ["From"]; GDec [] "End"]);
  ("BadStmt", [GDec [] "Start"; GBad ["From"]; GDec [] "End"]);
  ("BasicLit", [GDec [] "Start"; GStr ["Value"] ["ValuePos"]; GDec [] "End"]);
  ("BinaryExpr", [GDec [] "Start"; GNode ["X"] true; GDec [] "X"; GTok ["OpPos"]; GDec [] "Op"; GNode ["Y"] true; GDec [] "End"]);
  ("BlockStmt", [GDec [] "Start"; GTok ["Lbrace"]; GDec [] "Lbrace"; GList ["List"]; GTok ["Rbrace"]; GDec [] "End"]);
  ("BranchStmt", [GDec [] "Start"; GTok ["TokPos"]; GIf "n.Label != nil" [GDec [] "Tok"]; GNode ["Label"] true; GDec [] "End"]);
  ("CallExpr", [GDec [] "Start"; GNode ["Fun"] true; GDec [] "Fun"; GTok ["Lparen"]; GDec [] "Lparen"; GList ["Args"]; GIf "n.Ellipsis.IsValid()" [GTok ["Ellipsis"]]; GIf "n.Ellipsis.IsValid()" [GDec [] "Ellipsis"]; GTok ["Rparen"]; GDec [] "End"]);
  ("CaseClause", [GDec [] "Start"; GTok ["Case"]; GDec [] "Case"; GList ["List"]; GTok ["Colon"]; GDec [] "Colon"; GList ["Body"]; GDec [] "End"]);
  ("ChanType", [GDec [] "Start"; GTok ["Begin"]; GIf "n.Dir == ast.RECV" [GTok []]; GDec [] "Begin"; GIf "n.Dir == ast.SEND" [GTok ["Arrow"]]; GIf "n.Dir == ast.SEND" [GDec [] "Arrow"]; GNode ["Value"] true; GDec [] "End"]);
  ("CommClause", [GDec [] "Start"; GTok ["Case"]; GDec [] "Case"; GNode ["Comm"] true; GIf "n.Comm != nil" [GDec [] "Comm"]; GTok ["Colon"]; GDec [] "Colon"; GList ["Body"]; GDec [] "End"]);
  ("CompositeLit", [GDec [] "Start"; GNode ["Type"] true; GIf "n.Type != nil" [GDec [] "Type"]; GTok ["Lbrace"]; GDec [] "Lbrace"; GList ["Elts"]; GTok ["Rbrace"]; GDec [] "End"]);
  ("DeclStmt", [GDec [] "Start"; GNode ["Decl"] true; GDec [] "End"]);
  ("DeferStmt", [GDec [] "Start"; GTok ["Defer"]; GDec [] "Defer"; GNode ["Call"] true; GDec [] "End"]);
  ("Ellipsis", [GDec [] "Start"; GTok ["Ellipsis"]; GIf "n.Elt != nil" [GDec [] "Ellipsis"]; GNode ["Elt"] true; GDec [] "End"]);
  ("EmptyStmt", [GDec [] "Start"; GIf "!n.Implicit" [GTok ["Semicolon"]]; GDec [] "End"]);
  ("ExprStmt", [GDec [] "Start"; GNode ["X"] true; GDec [] "End"]);
  ("Field", [GDec [] "Start"; GList ["Names"]; GNode ["Type"] true; GIf "n.Tag != nil" [GDec [] "Type"]; GNode ["Tag"] true; GDec [] "End"]);
  ("FieldList", [GDec [] "Start"; GIf "n.Opening.IsValid()" [GTok ["Opening"]]; GDec [] "Opening"; GList ["List"]; GIf "n.Closing.IsValid()" [GTok ["Closing"]]; GDec [] "End"]);
  ("File", [GDec [] "Start"; GTok ["Package"]; GDec [] "Package"; GNode ["Name"] true; GDec [] "Name"; GList ["Decls"]; GList ["Imports"]]);
  ("ForStmt", [GDec [] "Start"; GTok ["For"]; GDec [] "For"; GNode ["Init"] true; GIf "n.Init != nil" [GTok []]; GIf "n.Init != nil" [GDec [] "Init"]; GNode ["Cond"] true; GIf "n.Post != nil" [GTok []]; GIf "n.Cond != nil" [GDec [] "Cond"]; GNode ["Post"] true; GIf "n.Post != nil" [GDec [] "Post"]; GNode ["Body"] true; GDec [] "End"]);
  ("FuncDecl", [GDec [] "Start"; GIf "true" [GTok ["Type"; "Func"]]; GDec [] "Func"; GNode ["Recv"] true; GIf "n.Recv != nil" [GDec [] "Recv"]; GNode ["Name"] true; GDec [] "Name"; GNode ["Type"; "TypeParams"] true; GIf "n.Type.TypeParams != nil" [GDec [] "TypeParams"]; GNode ["Type"; "Params"] true; GDec [] "Params"; GNode ["Type"; "Results"] true; GIf "n.Type.Results != nil" [GDec [] "Results"]; GNode ["Body"] true; GDec [] "End"]);
  ("FuncLit", [GDec [] "Start"; GNode ["Type"] true; GDec [] "Type"; GNode ["Body"] true; GDec [] "End"]);
  ("FuncType", [GDec [] "Start"; GIf "n.Func.IsValid()" [GTok ["Func"]]; GIf "n.Func.IsValid()" [GDec [] "Func"]; GNode ["TypeParams"] true; GIf "n.TypeParams != nil" [GDec [] "TypeParams"]; GNode ["Params"] true; GIf "n.Results != nil" [GDec [] "Params"]; GNode ["Results"] true; GDec [] "End"]);
  ("GenDecl", [GDec [] "Start"; GTok ["TokPos"]; GDec [] "Tok"; GIf "n.Lparen.IsValid()" [GTok ["Lparen"]]; GIf "n.Lparen.IsValid()" [GDec [] "Lparen"]; GList ["Specs"]; GIf "n.Rparen.IsValid()" [GTok ["Rparen"]]; GDec [] "End"]);
  ("GoStmt", [GDec [] "Start"; GTok ["Go"]; GDec [] "Go"; GNode ["Call"] true; GDec [] "End"]);
  ("Ident", [GDec [] "Start"; GDec [] "X"; GStr ["Name"] ["NamePos"]; GDec [] "End"]);
  ("IfStmt", [GDec [] "Start"; GTok ["If"]; GDec [] "If"; GNode ["Init"] true; GIf "n.Init != nil" [GDec [] "Init"]; GNode ["Cond"] true; GDec [] "Cond"; GNode ["Body"] true; GIf "n.Else != nil" [GTok []]; GIf "n.Else != nil" [GDec [] "Else"]; GNode ["Else"] true; GDec [] "End"]);
  ("ImportSpec", [GDec [] "Start"; GNode ["Name"] true; GIf "n.Name != nil" [GDec [] "Name"]; GNode ["Path"] true; GDec [] "End"]);
  ("IncDecStmt", [GDec [] "Start"; GNode ["X"] true; GDec [] "X"; GTok ["TokPos"]; GDec [] "End"]);
  ("IndexExpr", [GDec [] "Start"; GNode ["X"] true; GDec [] "X"; GTok ["Lbrack"]; GDec [] "Lbrack"; GNode ["Index"] true; GDec [] "Index"; GTok ["Rbrack"]; GDec [] "End"]);
  ("IndexListExpr", [GDec [] "Start"; GNode ["X"] true; GDec [] "X"; GTok ["Lbrack"]; GDec [] "Lbrack"; GList ["Indices"]; GDec [] "Indices"; GTok ["Rbrack"]; GDec [] "End"]);
  ("InterfaceType", [GDec [] "Start"; GTok ["Interface"]; GDec [] "Interface"; GNode ["Methods"] true; GDec [] "End"]);
  ("KeyValueExpr", [GDec [] "Start"; GNode ["Key"] true; GDec [] "Key"; GTok ["Colon"]; GDec [] "Colon"; GNode ["Value"] true; GDec [] "End"]);
  ("LabeledStmt", [GDec [] "Start"; GNode ["Label"] true; GDec [] "Label"; GTok ["Colon"]; GDec [] "Colon"; GNode ["Stmt"] true; GDec [] "End"]);
  ("MapType", [GDec [] "Start"; GTok ["Map"]; GTok []; GDec [] "Map"; GNode ["Key"] true; GTok []; GDec [] "Key"; GNode ["Value"] true; GDec [] "End"]);
  ("Package", [GList ["Files"]]);
  ("ParenExpr", [GDec [] "Start"; GTok ["Lparen"]; GDec [] "Lparen"; GNode ["X"] true; GDec [] "X"; GTok ["Rparen"]; GDec [] "End"]);
  ("RangeStmt", [GDec [] "Start"; GTok ["For"]; GIf "n.Key != nil" [GDec [] "For"]; GNode ["Key"] true; GIf "n.Value != nil" [GTok []]; GIf "n.Key != nil" [GDec [] "Key"]; GNode ["Value"] true; GIf "n.Value != nil" [GDec [] "Value"]; GIf "n.Tok != token.ILLEGAL" [GTok ["TokPos"]]; GTok []; GDec [] "Range"; GNode ["X"] true; GDec [] "X"; GNode ["Body"] true; GDec [] "End"]);
  ("ReturnStmt", [GDec [] "Start"; GTok ["Return"]; GDec [] "Return"; GList ["Results"]; GDec [] "End"]);
  ("SelectStmt", [GDec [] "Start"; GTok ["Select"]; GDec [] "Select"; GNode ["Body"] true; GDec [] "End"]);
  ("SelectorExpr", [GDec [] "Start"; GNode ["X"] true; GTok []; GDec [] "X"; GNode ["Sel"] true; GDec [] "End"]);
  ("SendStmt", [GDec [] "Start"; GNode ["Chan"] true; GDec [] "Chan"; GTok ["Arrow"]; GDec [] "Arrow"; GNode ["Value"] true; GDec [] "End"]);
  ("SliceExpr", [GDec [] "Start"; GNode ["X"] true; GDec [] "X"; GTok ["Lbrack"]; GIf "n.Low != nil" [GDec [] "Lbrack"]; GNode ["Low"] true; GTok []; GDec [] "Low"; GNode ["High"] true; GIf "n.Slice3" [GTok []]; GIf "n.High != nil" [GDec [] "High"]; GNode ["Max"] true; GIf "n.Max != nil" [GDec [] "Max"]; GTok ["Rbrack"]; GDec [] "End"]);
  ("StarExpr", [GDec [] "Start"; GTok ["Star"]; GDec [] "Star"; GNode ["X"] true; GDec [] "End"]);
  ("StructType", [GDec [] "Start"; GTok ["Struct"]; GDec [] "Struct"; GNode ["Fields"] true; GDec [] "End"]);
  ("SwitchStmt", [GDec [] "Start"; GTok ["Switch"]; GDec [] "Switch"; GNode ["Init"] true; GIf "n.Init != nil" [GDec [] "Init"]; GNode ["Tag"] true; GIf "n.Tag != nil" [GDec [] "Tag"]; GNode ["Body"] true; GDec [] "End"]);
  ("TypeAssertExpr", [GDec [] "Start"; GNode ["X"] true; GTok []; GDec [] "X"; GTok ["Lparen"]; GDec [] "Lparen"; GNode ["Type"] true; GIf "n.Type == nil" [GTok []]; GDec [] "Type"; GTok ["Rparen"]; GDec [] "End"]);
  ("TypeSpec", [GDec [] "Start"; GNode ["Name"] true; GIf "n.Assign.IsValid()" [GTok ["Assign"]]; GDec [] "Name"; GNode ["TypeParams"] true; GIf "n.TypeParams != nil" [GDec [] "TypeParams"]; GNode ["Type"] true; GDec [] "End"]);
  ("TypeSwitchStmt", [GDec [] "Start"; GTok ["Switch"]; GDec [] "Switch"; GNode ["Init"] true; GIf "n.Init != nil" [GDec [] "Init"]; GNode ["Assign"] true; GDec [] "Assign"; GNode ["Body"] true; GDec [] "End"]);
  ("UnaryExpr", [GDec [] "Start"; GTok ["OpPos"]; GDec [] "Op"; GNode ["X"] true; GDec [] "End"]);
  ("ValueSpec", [GDec [] "Start"; GList ["Names"]; GNode ["Type"] true; GIf "n.Values != nil" [GTok []]; GIf "n.Values != nil" [GDec [] "Assign"]; GList ["Values"]; GDec [] "End"])].

Definition frag_frame_ok : bool := true.
