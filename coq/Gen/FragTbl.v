(* GENERATED from /repo/decorator/decorator-fragment-generated.go -- do not edit *)
From Coq Require Import List String ZArith NArith Bool.
Import ListNotations.
From DV Require Import Model.Tree Model.Tables.
Local Open Scope string_scope.
Local Open Scope list_scope.

From DV Require Import Model.FragSkel.

Definition frag_tbl : list (string * list gstmt) := [
  ("ArrayType", [GDec [] "Start"; GTok (TConst "LBRACK" "[") ["Lbrack"]; GDec [] "Lbrack"; GNode ["Len"] true; GTok (TConst "RBRACK" "]") []; GDec [] "Len"; GNode ["Elt"] true; GDec [] "End"]);
  ("AssignStmt", [GDec [] "Start"; GList ["Lhs"]; GTok (TField ["Tok"]) ["TokPos"]; GDec [] "Tok"; GList ["Rhs"]; GDec [] "End"]);
  ("BadDecl", [GDec [] "Start"; GBad ["From"]; GDec [] "End"]);
  ("BadExpr", [GDec [] "Start"; GBad ["From"]; GDec [] "End"]);
  ("BadStmt", [GDec [] "Start"; GBad ["From"]; GDec [] "End"]);
  ("BasicLit", [GDec [] "Start"; GStr ["Value"] ["ValuePos"]; GDec [] "End"]);
  ("BinaryExpr", [GDec [] "Start"; GNode ["X"] true; GDec [] "X"; GTok (TField ["Op"]) ["OpPos"]; GDec [] "Op"; GNode ["Y"] true; GDec [] "End"]);
  ("BlockStmt", [GDec [] "Start"; GTok (TConst "LBRACE" "{") ["Lbrace"]; GDec [] "Lbrace"; GList ["List"]; GTok (TConst "RBRACE" "}") ["Rbrace"]; GDec [] "End"]);
  ("BranchStmt", [GDec [] "Start"; GTok (TField ["Tok"]) ["TokPos"]; GIf (CNotNil ["Label"]) [GDec [] "Tok"]; GNode ["Label"] true; GDec [] "End"]);
  ("CallExpr", [GDec [] "Start"; GNode ["Fun"] true; GDec [] "Fun"; GTok (TConst "LPAREN" "(") ["Lparen"]; GDec [] "Lparen"; GList ["Args"]; GIf (CPosValid ["Ellipsis"]) [GTok (TConst "ELLIPSIS" "...") ["Ellipsis"]]; GIf (CPosValid ["Ellipsis"]) [GDec [] "Ellipsis"]; GTok (TConst "RPAREN" ")") ["Rparen"]; GDec [] "End"]);
  ("CaseClause", [GDec [] "Start"; GTok (TChoice (CIsNil ["List"]) (TConst "DEFAULT" "default") (TConst "CASE" "case")) ["Case"]; GDec [] "Case"; GList ["List"]; GTok (TConst "COLON" ":") ["Colon"]; GDec [] "Colon"; GList ["Body"]; GDec [] "End"]);
  ("ChanType", [GDec [] "Start"; GTok (TChoice (CIntEq ["Dir"] 2) (TConst "ARROW" "<-") (TConst "CHAN" "chan")) ["Begin"]; GIf (CIntEq ["Dir"] 2) [GTok (TConst "CHAN" "chan") []]; GDec [] "Begin"; GIf (CIntEq ["Dir"] 1) [GTok (TConst "ARROW" "<-") ["Arrow"]]; GIf (CIntEq ["Dir"] 1) [GDec [] "Arrow"]; GNode ["Value"] true; GDec [] "End"]);
  ("CommClause", [GDec [] "Start"; GTok (TChoice (CIsNil ["Comm"]) (TConst "DEFAULT" "default") (TConst "CASE" "case")) ["Case"]; GDec [] "Case"; GNode ["Comm"] true; GIf (CNotNil ["Comm"]) [GDec [] "Comm"]; GTok (TConst "COLON" ":") ["Colon"]; GDec [] "Colon"; GList ["Body"]; GDec [] "End"]);
  ("CompositeLit", [GDec [] "Start"; GNode ["Type"] true; GIf (CNotNil ["Type"]) [GDec [] "Type"]; GTok (TConst "LBRACE" "{") ["Lbrace"]; GDec [] "Lbrace"; GList ["Elts"]; GTok (TConst "RBRACE" "}") ["Rbrace"]; GDec [] "End"]);
  ("DeclStmt", [GDec [] "Start"; GNode ["Decl"] true; GDec [] "End"]);
  ("DeferStmt", [GDec [] "Start"; GTok (TConst "DEFER" "defer") ["Defer"]; GDec [] "Defer"; GNode ["Call"] true; GDec [] "End"]);
  ("Ellipsis", [GDec [] "Start"; GTok (TConst "ELLIPSIS" "...") ["Ellipsis"]; GIf (CNotNil ["Elt"]) [GDec [] "Ellipsis"]; GNode ["Elt"] true; GDec [] "End"]);
  ("EmptyStmt", [GDec [] "Start"; GIf (CNotBool ["Implicit"]) [GTok (TConst "ARROW" "<-") ["Semicolon"]]; GDec [] "End"]);
  ("ExprStmt", [GDec [] "Start"; GNode ["X"] true; GDec [] "End"]);
  ("Field", [GDec [] "Start"; GList ["Names"]; GNode ["Type"] true; GIf (CNotNil ["Tag"]) [GDec [] "Type"]; GNode ["Tag"] true; GDec [] "End"]);
  ("FieldList", [GDec [] "Start"; GIf (CPosValid ["Opening"]) [GTok (TConst "LPAREN" "(") ["Opening"]]; GDec [] "Opening"; GList ["List"]; GIf (CPosValid ["Closing"]) [GTok (TConst "RPAREN" ")") ["Closing"]]; GDec [] "End"]);
  ("File", [GDec [] "Start"; GTok (TConst "PACKAGE" "package") ["Package"]; GDec [] "Package"; GNode ["Name"] true; GDec [] "Name"; GList ["Decls"]; GList ["Imports"]]);
  ("ForStmt", [GDec [] "Start"; GTok (TConst "FOR" "for") ["For"]; GDec [] "For"; GNode ["Init"] true; GIf (CNotNil ["Init"]) [GTok (TConst "SEMICOLON" ";") []]; GIf (CNotNil ["Init"]) [GDec [] "Init"]; GNode ["Cond"] true; GIf (CNotNil ["Post"]) [GTok (TConst "SEMICOLON" ";") []]; GIf (CNotNil ["Cond"]) [GDec [] "Cond"]; GNode ["Post"] true; GIf (CNotNil ["Post"]) [GDec [] "Post"]; GNode ["Body"] true; GDec [] "End"]);
  ("FuncDecl", [GDec [] "Start"; GIf (CTrue) [GTok (TConst "FUNC" "func") ["Type"; "Func"]]; GDec [] "Func"; GNode ["Recv"] true; GIf (CNotNil ["Recv"]) [GDec [] "Recv"]; GNode ["Name"] true; GDec [] "Name"; GNode ["Type"; "TypeParams"] true; GIf (CNotNil ["Type"; "TypeParams"]) [GDec [] "TypeParams"]; GNode ["Type"; "Params"] true; GDec [] "Params"; GNode ["Type"; "Results"] true; GIf (CNotNil ["Type"; "Results"]) [GDec [] "Results"]; GNode ["Body"] true; GDec [] "End"]);
  ("FuncLit", [GDec [] "Start"; GNode ["Type"] true; GDec [] "Type"; GNode ["Body"] true; GDec [] "End"]);
  ("FuncType", [GDec [] "Start"; GIf (CPosValid ["Func"]) [GTok (TConst "FUNC" "func") ["Func"]]; GIf (CPosValid ["Func"]) [GDec [] "Func"]; GNode ["TypeParams"] true; GIf (CNotNil ["TypeParams"]) [GDec [] "TypeParams"]; GNode ["Params"] true; GIf (CNotNil ["Results"]) [GDec [] "Params"]; GNode ["Results"] true; GDec [] "End"]);
  ("GenDecl", [GDec [] "Start"; GTok (TField ["Tok"]) ["TokPos"]; GDec [] "Tok"; GIf (CPosValid ["Lparen"]) [GTok (TConst "LPAREN" "(") ["Lparen"]]; GIf (CPosValid ["Lparen"]) [GDec [] "Lparen"]; GList ["Specs"]; GIf (CPosValid ["Rparen"]) [GTok (TConst "RPAREN" ")") ["Rparen"]]; GDec [] "End"]);
  ("GoStmt", [GDec [] "Start"; GTok (TConst "GO" "go") ["Go"]; GDec [] "Go"; GNode ["Call"] true; GDec [] "End"]);
  ("Ident", [GDec [] "Start"; GDec [] "X"; GStr ["Name"] ["NamePos"]; GDec [] "End"]);
  ("IfStmt", [GDec [] "Start"; GTok (TConst "IF" "if") ["If"]; GDec [] "If"; GNode ["Init"] true; GIf (CNotNil ["Init"]) [GDec [] "Init"]; GNode ["Cond"] true; GDec [] "Cond"; GNode ["Body"] true; GIf (CNotNil ["Else"]) [GTok (TConst "ELSE" "else") []]; GIf (CNotNil ["Else"]) [GDec [] "Else"]; GNode ["Else"] true; GDec [] "End"]);
  ("ImportSpec", [GDec [] "Start"; GNode ["Name"] true; GIf (CNotNil ["Name"]) [GDec [] "Name"]; GNode ["Path"] true; GDec [] "End"]);
  ("IncDecStmt", [GDec [] "Start"; GNode ["X"] true; GDec [] "X"; GTok (TField ["Tok"]) ["TokPos"]; GDec [] "End"]);
  ("IndexExpr", [GDec [] "Start"; GNode ["X"] true; GDec [] "X"; GTok (TConst "LBRACK" "[") ["Lbrack"]; GDec [] "Lbrack"; GNode ["Index"] true; GDec [] "Index"; GTok (TConst "RBRACK" "]") ["Rbrack"]; GDec [] "End"]);
  ("IndexListExpr", [GDec [] "Start"; GNode ["X"] true; GDec [] "X"; GTok (TConst "LBRACK" "[") ["Lbrack"]; GDec [] "Lbrack"; GList ["Indices"]; GDec [] "Indices"; GTok (TConst "RBRACK" "]") ["Rbrack"]; GDec [] "End"]);
  ("InterfaceType", [GDec [] "Start"; GTok (TConst "INTERFACE" "interface") ["Interface"]; GDec [] "Interface"; GNode ["Methods"] true; GDec [] "End"]);
  ("KeyValueExpr", [GDec [] "Start"; GNode ["Key"] true; GDec [] "Key"; GTok (TConst "COLON" ":") ["Colon"]; GDec [] "Colon"; GNode ["Value"] true; GDec [] "End"]);
  ("LabeledStmt", [GDec [] "Start"; GNode ["Label"] true; GDec [] "Label"; GTok (TConst "COLON" ":") ["Colon"]; GDec [] "Colon"; GNode ["Stmt"] true; GDec [] "End"]);
  ("MapType", [GDec [] "Start"; GTok (TConst "MAP" "map") ["Map"]; GTok (TConst "LBRACK" "[") []; GDec [] "Map"; GNode ["Key"] true; GTok (TConst "RBRACK" "]") []; GDec [] "Key"; GNode ["Value"] true; GDec [] "End"]);
  ("Package", [GList ["Files"]]);
  ("ParenExpr", [GDec [] "Start"; GTok (TConst "LPAREN" "(") ["Lparen"]; GDec [] "Lparen"; GNode ["X"] true; GDec [] "X"; GTok (TConst "RPAREN" ")") ["Rparen"]; GDec [] "End"]);
  ("RangeStmt", [GDec [] "Start"; GTok (TConst "FOR" "for") ["For"]; GIf (CNotNil ["Key"]) [GDec [] "For"]; GNode ["Key"] true; GIf (CNotNil ["Value"]) [GTok (TConst "COMMA" ",") []]; GIf (CNotNil ["Key"]) [GDec [] "Key"]; GNode ["Value"] true; GIf (CNotNil ["Value"]) [GDec [] "Value"]; GIf (CTokNe ["Tok"] "ILLEGAL") [GTok (TField ["Tok"]) ["TokPos"]]; GTok (TConst "RANGE" "range") []; GDec [] "Range"; GNode ["X"] true; GDec [] "X"; GNode ["Body"] true; GDec [] "End"]);
  ("ReturnStmt", [GDec [] "Start"; GTok (TConst "RETURN" "return") ["Return"]; GDec [] "Return"; GList ["Results"]; GDec [] "End"]);
  ("SelectStmt", [GDec [] "Start"; GTok (TConst "SELECT" "select") ["Select"]; GDec [] "Select"; GNode ["Body"] true; GDec [] "End"]);
  ("SelectorExpr", [GDec [] "Start"; GNode ["X"] true; GTok (TConst "PERIOD" ".") []; GDec [] "X"; GNode ["Sel"] true; GDec [] "End"]);
  ("SendStmt", [GDec [] "Start"; GNode ["Chan"] true; GDec [] "Chan"; GTok (TConst "ARROW" "<-") ["Arrow"]; GDec [] "Arrow"; GNode ["Value"] true; GDec [] "End"]);
  ("SliceExpr", [GDec [] "Start"; GNode ["X"] true; GDec [] "X"; GTok (TConst "LBRACK" "[") ["Lbrack"]; GIf (CNotNil ["Low"]) [GDec [] "Lbrack"]; GNode ["Low"] true; GTok (TConst "COLON" ":") []; GDec [] "Low"; GNode ["High"] true; GIf (CBool ["Slice3"]) [GTok (TConst "COLON" ":") []]; GIf (CNotNil ["High"]) [GDec [] "High"]; GNode ["Max"] true; GIf (CNotNil ["Max"]) [GDec [] "Max"]; GTok (TConst "RBRACK" "]") ["Rbrack"]; GDec [] "End"]);
  ("StarExpr", [GDec [] "Start"; GTok (TConst "MUL" "*") ["Star"]; GDec [] "Star"; GNode ["X"] true; GDec [] "End"]);
  ("StructType", [GDec [] "Start"; GTok (TConst "STRUCT" "struct") ["Struct"]; GDec [] "Struct"; GNode ["Fields"] true; GDec [] "End"]);
  ("SwitchStmt", [GDec [] "Start"; GTok (TConst "SWITCH" "switch") ["Switch"]; GDec [] "Switch"; GNode ["Init"] true; GIf (CNotNil ["Init"]) [GDec [] "Init"]; GNode ["Tag"] true; GIf (CNotNil ["Tag"]) [GDec [] "Tag"]; GNode ["Body"] true; GDec [] "End"]);
  ("TypeAssertExpr", [GDec [] "Start"; GNode ["X"] true; GTok (TConst "PERIOD" ".") []; GDec [] "X"; GTok (TConst "LPAREN" "(") ["Lparen"]; GDec [] "Lparen"; GNode ["Type"] true; GIf (CIsNil ["Type"]) [GTok (TConst "TYPE" "type") []]; GDec [] "Type"; GTok (TConst "RPAREN" ")") ["Rparen"]; GDec [] "End"]);
  ("TypeSpec", [GDec [] "Start"; GNode ["Name"] true; GIf (CPosValid ["Assign"]) [GTok (TConst "ASSIGN" "=") ["Assign"]]; GDec [] "Name"; GNode ["TypeParams"] true; GIf (CNotNil ["TypeParams"]) [GDec [] "TypeParams"]; GNode ["Type"] true; GDec [] "End"]);
  ("TypeSwitchStmt", [GDec [] "Start"; GTok (TConst "SWITCH" "switch") ["Switch"]; GDec [] "Switch"; GNode ["Init"] true; GIf (CNotNil ["Init"]) [GDec [] "Init"]; GNode ["Assign"] true; GDec [] "Assign"; GNode ["Body"] true; GDec [] "End"]);
  ("UnaryExpr", [GDec [] "Start"; GTok (TField ["Op"]) ["OpPos"]; GDec [] "Op"; GNode ["X"] true; GDec [] "End"]);
  ("ValueSpec", [GDec [] "Start"; GList ["Names"]; GNode ["Type"] true; GIf (CNotNil ["Values"]) [GTok (TConst "ASSIGN" "=") []]; GIf (CNotNil ["Values"]) [GDec [] "Assign"]; GList ["Values"]; GDec [] "End"])].

Definition frag_frame_ok : bool := true.

Definition ast_stmt_kinds : list string := ["BadStmt"; "DeclStmt"; "EmptyStmt"; "LabeledStmt"; "ExprStmt"; "SendStmt"; "IncDecStmt"; "AssignStmt"; "GoStmt"; "DeferStmt"; "ReturnStmt"; "BranchStmt"; "BlockStmt"; "IfStmt"; "CaseClause"; "SwitchStmt"; "TypeSwitchStmt"; "CommClause"; "SelectStmt"; "ForStmt"; "RangeStmt"].
Definition ast_decl_kinds : list string := ["BadDecl"; "GenDecl"; "FuncDecl"].
