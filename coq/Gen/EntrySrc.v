(* GENERATED from /repo/decorator/helpers.go and restorer.go -- do not edit *)
From Coq Require Import List String Bool.
Import ListNotations.
From DV Require Import Model.Decision.
Local Open Scope string_scope.

Definition entry_points_src : list (string * list dstmt) :=
  [("Parse", [DRet (DVal "NewDecorator(token.NewFileSet()).Parse(src)")]);
   ("ParseFile", [DRet (DVal "NewDecorator(fset).ParseFile(filename,src,mode)")]);
   ("ParseDir", [DRet (DVal "NewDecorator(fset).ParseDir(dir,filter,mode)")]);
   ("Decorate", [DRet (DVal "NewDecorator(fset).DecorateNode(n)")]);
   ("DecorateFile", [DRet (DVal "NewDecorator(fset).DecorateFile(f)")]);
   ("Print", [DRet (DVal "Fprint(os.Stdout,f)")]);
   ("Fprint", [DGuard "fails(RestoreFile(f))" false DErr; DRet (DVal "format.Node(w,RestoreFile(f).0,RestoreFile(f).1)")]);
   ("RestoreFile", [DGuard "fails(NewRestorer().RestoreFile(file))" false DErr; DRet (DVal "NewRestorer().Fset , NewRestorer().RestoreFile(file) , nil")]);
   ("Restorer.Print", [DRet (DVal "pr.Fprint(os.Stdout,f)")]);
   ("Restorer.Fprint", [DGuard "fails(pr.RestoreFile(f))" false DErr; DRet (DVal "format.Node(w,pr.Fset,pr.RestoreFile(f))")]);
   ("Restorer.RestoreFile", [DRet (DVal "pr.FileRestorer().RestoreFile(file)")]);
   ("FileRestorer.Print", [DRet (DVal "r.Fprint(os.Stdout,f)")]);
   ("FileRestorer.Fprint", [DGuard "fails(r.RestoreFile(f))" false DErr; DRet (DVal "format.Node(w,r.Fset,r.RestoreFile(f))")])].
