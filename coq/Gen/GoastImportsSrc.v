(* GENERATED from /repo/decorator/resolver/goast/resolver.go -- do not edit *)
From Coq Require Import List String Bool.
Import ListNotations.
From DV Require Import Model.Decision.
Local Open Scope string_scope.

Definition goast_spec_step_src : list dstmt :=
  [DGuard "invalid(path)" false (DVal "err:invalid");
   DGuard "eq(path,C)" false (DVal "skip");
   DGuard "eq(name,.)" false (DVal "err:dot");
   DGuard "eq(name,_)" false (DVal "skip");
   DIf "eq(name,)" false [DGuard "fails(resolve(path))" false (DVal "err:resolve"); DGuard "has(imports,resolved(path))" false (DVal "err:multiple"); DRet (DVal "add:resolved(path)")];
   DGuard "has(imports,name)" false (DVal "err:multiple");
   DRet (DVal "add:name")].

Definition goast_imports_frame_ok : bool := true.
