(* GENERATED from /repo/resolve.go, /repo/scope.go and $GOROOT/src/go/ast/{resolve,scope}.go -- do not edit *)
From Coq Require Import List String Bool.
Import ListNotations.
Local Open Scope string_scope.

Definition resolve_same_as_goast : list (string * bool) := [
  ("NewPackage", true);
  ("resolve", true);
  ("pkgBuilder.declare", true);
  ("pkgBuilder.error", true);
  ("pkgBuilder.errorf", true);
  ("NewScope", true);
  ("Scope.Lookup", true);
  ("Scope.Insert", true);
  ("Scope.String", true);
  ("NewObj", true);
  ("ObjKind.String", true)].
