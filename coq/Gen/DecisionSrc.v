(* GENERATED from /repo/decorator/resolver/{gotypes,goast}/resolver.go and decorator/decorator.go -- do not edit *)
From Coq Require Import List String Bool.
Import ListNotations.
From DV Require Import Model.Decision.
Local Open Scope string_scope.

Definition gotypes_resolveident_src : list dstmt :=
  [DGuard "nil(r.Uses)" false (DErr);
   DIf "is(parent,*ast.SelectorExpr)" false [DIf "eq(parentField,""Sel"")" false [DGuard "is(parent.(*ast.SelectorExpr).X,*ast.Ident)" true (DEmpty); DGuard "has(r.Uses,parent.(*ast.SelectorExpr).X.(*ast.Ident))" true (DEmpty); DGuard "is(r.Uses[parent.(*ast.SelectorExpr).X.(*ast.Ident)],*types.PkgName)" true (DEmpty); DRet (DVal "r.Uses[parent.(*ast.SelectorExpr).X.(*ast.Ident)].(*types.PkgName).Imported().Path()")]];
   DGuard "has(r.Uses,id)" true (DEmpty);
   DIf "is(r.Uses[id],*types.Var)" false [DGuard "true(r.Uses[id].(*types.Var).IsField())" false (DEmpty)];
   DGuard "nil(r.Uses[id].Pkg())" false (DEmpty);
   DRet (DVal "r.Uses[id].Pkg().Path()")].

Definition goast_resolveident_src : list dstmt :=
  [DGuard "fails(r.imports(file))" false DErr;
   DGuard "is(parent,*ast.SelectorExpr)" true (DEmpty);
   DGuard "eq(parentField,""Sel"")" true (DEmpty);
   DGuard "is(parent.(*ast.SelectorExpr).X,*ast.Ident)" true (DEmpty);
   DGuard "nil(parent.(*ast.SelectorExpr).X.(*ast.Ident).Obj)" true (DEmpty);
   DGuard "has(r.imports(file),parent.(*ast.SelectorExpr).X.(*ast.Ident).Name)" true (DEmpty);
   DRet (DVal "r.imports(file)[parent.(*ast.SelectorExpr).X.(*ast.Ident).Name]")].

Definition resolvepath_src : list dstmt :=
  [DGuard "nil(f.Resolver)" false (DPanic);
   DIf "force" true [DGuard "true(avoid[parentName+"".""+parentField])" false (DEmpty); DGuard "eq(parentFieldType,""Expr"")" true (DPanic)];
   DGuard "fails(f.Resolver.ResolveIdent(file-of(id),parent,parentField,id))" false DErr;
   DIf "true(f.ResolveLocalPath)" true [DGuard "eq(stripVendor(f.Resolver.ResolveIdent(file-of(id),parent,parentField,id)),stripVendor(f.Path))" false (DEmpty)];
   DRet (DVal "stripVendor(f.Resolver.ResolveIdent(file-of(id),parent,parentField,id))")].

Definition guess_resolvepackage_src : list dstmt :=
  [DGuard "has(r,importPath)" false (DVal "r[importPath]");
   DGuard "true(strings.Contains(importPath,""/""))" true (DVal "importPath");
   DRet (DVal "importPath[strings.LastIndex(importPath, ""/"")+1:]")].

Definition simple_resolvepackage_src : list dstmt :=
  [DGuard "has(r,importPath)" false (DVal "r[importPath]");
   DRet (DErr)].

Definition packagepathorderless_src : list dstmt :=
  [DGuard "eq(strings.Contains(pi,"".""),strings.Contains(pj,"".""))" true (DVal "strings.Contains(pj,""."")");
   DRet (DVal "pi<pj")].

Definition effalias_found_src : list dstmt :=
  [DGuard "eq(alias,"""")" false (DVal "continue");
   DIf "has(r.Alias,path)" false [DGuard "eq(r.Alias[path],"""")" false (DVal "continue")];
   DIf "eq(alias,""_"")" false [DGuard "true(packagesInUse[path])" false (DVal "continue")];
   DRet (DVal "set(effectiveAlias,path,alias)")].

Definition effalias_manual_src : list dstmt :=
  [DGuard "eq(alias,"""")" false (DVal "continue");
   DIf "eq(alias,""_"")" false [DGuard "true(packagesInUse[path])" false (DVal "continue")];
   DRet (DVal "set(effectiveAlias,path,alias)")].

Definition anonymous_required_src : list dstmt :=
  [DIf "eq(alias,""_"")" false [DRet (DVal "set(importsRequired,path,true)")]].

Definition resolve_names_src : list dstmt :=
  [DGuard "has(effectiveAlias,path)" false (DVal "continue");
   DGuard "fails(r.Resolver.ResolvePackage(path))" false DErr;
   DRet (DVal "set(resolved,path,r.Resolver.ResolvePackage(path))")].

Definition restoreident_src : list dstmt :=
  [DIf "nil(r.Resolver)" false [DGuard "eq(n.Path,"""")" true (DPanic)];
   DIf "nil(r.Resolver)" true [DIf "eq(n.Path,"""")" true [DGuard "true(avoid[parentName+"".""+parentField])" false (DPanic); DIf "eq(n.Path,r.Path)" true [DIf "eq(r.packageNames[n.Path],""."")" false [DGuard "eq("""","""")" false (DVal "nil"); DRet (DVal "selector:""""")]; DGuard "eq(r.packageNames[n.Path],"""")" false (DVal "nil"); DRet (DVal "selector:r.packageNames[n.Path]")]; DIf "eq("""",""."")" false [DGuard "eq("""","""")" false (DVal "nil"); DRet (DVal "selector:""""")]; DGuard "eq("""","""")" false (DVal "nil"); DRet (DVal "selector:""""")]];
   DGuard "eq("""","""")" false (DVal "nil");
   DRet (DVal "selector:""""")].

Definition parsefile_src : list dstmt :=
  [DIf "nil(parser.ParseFile(d.Fset,filename,src,mode|parser.ParseComments).1)" true [DGuard "nil(parser.ParseFile(d.Fset,filename,src,mode|parser.ParseComments).0)" false (DVal "nil , parser.ParseFile(d.Fset,filename,src,mode|parser.ParseComments).1"); DGuard "true(parser.ParseFile(d.Fset,filename,src,mode|parser.ParseComments).0.Pos().IsValid())" true (DVal "nil , parser.ParseFile(d.Fset,filename,src,mode|parser.ParseComments).1")];
   DGuard "fails(d.DecorateFile(parser.ParseFile(d.Fset,filename,src,mode|parser.ParseComments).0))" false DErr;
   DRet (DVal "d.DecorateFile(parser.ParseFile(d.Fset,filename,src,mode|parser.ParseComments).0) , parser.ParseFile(d.Fset,filename,src,mode|parser.ParseComments).1")].

Definition gobuild_resolvepackage_src : list dstmt :=
  [DGuard "has(r.Hints,importPath)" false (DVal "r.Hints[importPath]");
   DIf "nil(r.FindPackage)" false [DIf "nil(r.Context)" false [DGuard "fails((*build.Context).Import(&build.Default,importPath,r.Dir,0))" false DErr; DGuard "nil((*build.Context).Import(&build.Default,importPath,r.Dir,0))" false (DErr); DRet (DVal "(*build.Context).Import(&build.Default,importPath,r.Dir,0).Name")]; DGuard "fails((*build.Context).Import(r.Context,importPath,r.Dir,0))" false DErr; DGuard "nil((*build.Context).Import(r.Context,importPath,r.Dir,0))" false (DErr); DRet (DVal "(*build.Context).Import(r.Context,importPath,r.Dir,0).Name")];
   DIf "nil(r.Context)" false [DGuard "fails(r.FindPackage(&build.Default,importPath,r.Dir,0))" false DErr; DGuard "nil(r.FindPackage(&build.Default,importPath,r.Dir,0))" false (DErr); DRet (DVal "r.FindPackage(&build.Default,importPath,r.Dir,0).Name")];
   DGuard "fails(r.FindPackage(r.Context,importPath,r.Dir,0))" false DErr;
   DGuard "nil(r.FindPackage(r.Context,importPath,r.Dir,0))" false (DErr);
   DRet (DVal "r.FindPackage(r.Context,importPath,r.Dir,0).Name")].
