(* GENERATED from /repo/gendst/data/data.go -- do not edit *)
From Coq Require Import List String ZArith NArith Bool.
Import ListNotations.
From DV Require Import Model.Tree Model.Tables.
Local Open Scope string_scope.
Local Open Scope list_scope.

Definition data_tbl : list (string * list dpart) := [
  ("Field", [DDec "Start" false; DList "Names" ["Names"] false; DNode "Type" ["Type"]; DDec "Type" false; DNode "Tag" ["Tag"]; DDec "End" false]);
  ("FieldList", [DDec "Start" false; DTok "Opening" ["Opening"]; DDec "Opening" false; DList "List" ["List"] false; DTok "Closing" ["Closing"]; DDec "End" false]);
  ("BadExpr", [DDec "Start" false; DBad ["Length"] ["From"] ["To"]; DDec "End" false]);
  ("Ident", [DDec "Start" false; DDec "X" false; DStr "Name" ["Name"] ["NamePos"] false; DDec "End" false; DObject; DPathDec "Path"]);
  ("Ellipsis", [DDec "Start" false; DTok "Ellipsis" ["Ellipsis"]; DDec "Ellipsis" false; DNode "Elt" ["Elt"]; DDec "End" false]);
  ("BasicLit", [DDec "Start" false; DStr "Value" ["Value"] ["ValuePos"] true; DDec "End" false; DValue "Kind" ["Kind"]]);
  ("FuncLit", [DDec "Start" false; DNode "Type" ["Type"]; DDec "Type" false; DNode "Body" ["Body"]; DDec "End" false]);
  ("CompositeLit", [DDec "Start" false; DNode "Type" ["Type"]; DDec "Type" false; DTok "Lbrace" ["Lbrace"]; DDec "Lbrace" false; DList "Elts" ["Elts"] false; DTok "Rbrace" ["Rbrace"]; DDec "End" false; DValue "Incomplete" ["Incomplete"]]);
  ("ParenExpr", [DDec "Start" false; DTok "Lparen" ["Lparen"]; DDec "Lparen" false; DNode "X" ["X"]; DDec "X" false; DTok "Rparen" ["Rparen"]; DDec "End" false]);
  ("SelectorExpr", [DDec "Start" false; DNode "X" ["X"]; DTok "Period" []; DDec "X" false; DNode "Sel" ["Sel"]; DDec "End" false]);
  ("IndexExpr", [DDec "Start" false; DNode "X" ["X"]; DDec "X" false; DTok "Lbrack" ["Lbrack"]; DDec "Lbrack" false; DNode "Index" ["Index"]; DDec "Index" false; DTok "Rbrack" ["Rbrack"]; DDec "End" false]);
  ("IndexListExpr", [DDec "Start" false; DNode "X" ["X"]; DDec "X" false; DTok "Lbrack" ["Lbrack"]; DDec "Lbrack" false; DList "Indices" ["Indices"] false; DDec "Indices" false; DTok "Rbrack" ["Rbrack"]; DDec "End" false]);
  ("SliceExpr", [DDec "Start" false; DNode "X" ["X"]; DDec "X" false; DTok "Lbrack" ["Lbrack"]; DDec "Lbrack" false; DNode "Low" ["Low"]; DTok "Colon1" []; DDec "Low" false; DNode "High" ["High"]; DTok "Colon2" []; DDec "High" false; DNode "Max" ["Max"]; DDec "Max" false; DTok "Rbrack" ["Rbrack"]; DDec "End" false; DValue "Slice3" ["Slice3"]]);
  ("TypeAssertExpr", [DDec "Start" false; DNode "X" ["X"]; DTok "Period" []; DDec "X" false; DTok "Lparen" ["Lparen"]; DDec "Lparen" false; DNode "Type" ["Type"]; DTok "TypeToken" []; DDec "Type" false; DTok "Rparen" ["Rparen"]; DDec "End" false]);
  ("CallExpr", [DDec "Start" false; DNode "Fun" ["Fun"]; DDec "Fun" false; DTok "Lparen" ["Lparen"]; DDec "Lparen" false; DList "Args" ["Args"] false; DTok "Ellipsis" ["Ellipsis"]; DDec "Ellipsis" false; DTok "Rparen" ["Rparen"]; DDec "End" false]);
  ("StarExpr", [DDec "Start" false; DTok "Star" ["Star"]; DDec "Star" false; DNode "X" ["X"]; DDec "End" false]);
  ("UnaryExpr", [DDec "Start" false; DTok "Op" ["OpPos"]; DDec "Op" false; DNode "X" ["X"]; DDec "End" false]);
  ("BinaryExpr", [DDec "Start" false; DNode "X" ["X"]; DDec "X" false; DTok "Op" ["OpPos"]; DDec "Op" false; DNode "Y" ["Y"]; DDec "End" false]);
  ("KeyValueExpr", [DDec "Start" false; DNode "Key" ["Key"]; DDec "Key" false; DTok "Colon" ["Colon"]; DDec "Colon" false; DNode "Value" ["Value"]; DDec "End" false]);
  ("ArrayType", [DDec "Start" false; DTok "Lbrack" ["Lbrack"]; DDec "Lbrack" false; DNode "Len" ["Len"]; DTok "Rbrack" []; DDec "Len" false; DNode "Elt" ["Elt"]; DDec "End" false]);
  ("StructType", [DDec "Start" false; DTok "Struct" ["Struct"]; DDec "Struct" false; DNode "Fields" ["Fields"]; DDec "End" false; DValue "Incomplete" ["Incomplete"]]);
  ("FuncType", [DDec "Start" false; DTok "Func" ["Func"]; DDec "Func" false; DNode "TypeParams" ["TypeParams"]; DDec "TypeParams" false; DNode "Params" ["Params"]; DDec "Params" false; DNode "Results" ["Results"]; DDec "End" false]);
  ("InterfaceType", [DDec "Start" false; DTok "Interface" ["Interface"]; DDec "Interface" false; DNode "Methods" ["Methods"]; DDec "End" false; DValue "Incomplete" ["Incomplete"]]);
  ("MapType", [DDec "Start" false; DTok "Map" ["Map"]; DTok "Lbrack" []; DDec "Map" false; DNode "Key" ["Key"]; DTok "Rbrack" []; DDec "Key" false; DNode "Value" ["Value"]; DDec "End" false]);
  ("ChanType", [DDec "Start" false; DTok "Begin" ["Begin"]; DTok "Chan" []; DDec "Begin" false; DTok "Arrow" ["Arrow"]; DDec "Arrow" false; DNode "Value" ["Value"]; DDec "End" false; DValue "Dir" ["Dir"]]);
  ("BadStmt", [DDec "Start" false; DBad ["Length"] ["From"] ["To"]; DDec "End" false]);
  ("DeclStmt", [DDec "Start" false; DNode "Decl" ["Decl"]; DDec "End" false]);
  ("EmptyStmt", [DDec "Start" false; DTok "Semicolon" ["Semicolon"]; DDec "End" false; DValue "Implicit" ["Implicit"]]);
  ("LabeledStmt", [DDec "Start" false; DNode "Label" ["Label"]; DDec "Label" false; DTok "Colon" ["Colon"]; DDec "Colon" false; DNode "Stmt" ["Stmt"]; DDec "End" false]);
  ("ExprStmt", [DDec "Start" false; DNode "X" ["X"]; DDec "End" false]);
  ("SendStmt", [DDec "Start" false; DNode "Chan" ["Chan"]; DDec "Chan" false; DTok "Arrow" ["Arrow"]; DDec "Arrow" false; DNode "Value" ["Value"]; DDec "End" false]);
  ("IncDecStmt", [DDec "Start" false; DNode "X" ["X"]; DDec "X" false; DTok "Tok" ["TokPos"]; DDec "End" false]);
  ("AssignStmt", [DDec "Start" false; DList "Lhs" ["Lhs"] false; DTok "Tok" ["TokPos"]; DDec "Tok" false; DList "Rhs" ["Rhs"] false; DDec "End" false]);
  ("GoStmt", [DDec "Start" false; DTok "Go" ["Go"]; DDec "Go" false; DNode "Call" ["Call"]; DDec "End" false]);
  ("DeferStmt", [DDec "Start" false; DTok "Defer" ["Defer"]; DDec "Defer" false; DNode "Call" ["Call"]; DDec "End" false]);
  ("ReturnStmt", [DDec "Start" false; DTok "Return" ["Return"]; DDec "Return" false; DList "Results" ["Results"] false; DDec "End" false]);
  ("BranchStmt", [DDec "Start" false; DTok "Tok" ["TokPos"]; DDec "Tok" false; DNode "Label" ["Label"]; DDec "End" false]);
  ("BlockStmt", [DDec "Start" false; DTok "Lbrace" ["Lbrace"]; DDec "Lbrace" false; DList "List" ["List"] false; DTok "Rbrace" ["Rbrace"]; DDec "End" false]);
  ("IfStmt", [DDec "Start" false; DTok "If" ["If"]; DDec "If" false; DNode "Init" ["Init"]; DDec "Init" false; DNode "Cond" ["Cond"]; DDec "Cond" false; DNode "Body" ["Body"]; DTok "ElseTok" []; DDec "Else" false; DNode "Else" ["Else"]; DDec "End" false]);
  ("CaseClause", [DDec "Start" false; DTok "Case" ["Case"]; DDec "Case" false; DList "List" ["List"] false; DTok "Colon" ["Colon"]; DDec "Colon" false; DList "Body" ["Body"] false; DDec "End" false]);
  ("SwitchStmt", [DDec "Start" false; DTok "Switch" ["Switch"]; DDec "Switch" false; DNode "Init" ["Init"]; DDec "Init" false; DNode "Tag" ["Tag"]; DDec "Tag" false; DNode "Body" ["Body"]; DDec "End" false]);
  ("TypeSwitchStmt", [DDec "Start" false; DTok "Switch" ["Switch"]; DDec "Switch" false; DNode "Init" ["Init"]; DDec "Init" false; DNode "Assign" ["Assign"]; DDec "Assign" false; DNode "Body" ["Body"]; DDec "End" false]);
  ("CommClause", [DDec "Start" false; DTok "Case" ["Case"]; DDec "Case" false; DNode "Comm" ["Comm"]; DDec "Comm" false; DTok "Colon" ["Colon"]; DDec "Colon" false; DList "Body" ["Body"] false; DDec "End" false]);
  ("SelectStmt", [DDec "Start" false; DTok "Select" ["Select"]; DDec "Select" false; DNode "Body" ["Body"]; DDec "End" false]);
  ("ForStmt", [DDec "Start" false; DTok "For" ["For"]; DDec "For" false; DNode "Init" ["Init"]; DTok "InitSemicolon" []; DDec "Init" false; DNode "Cond" ["Cond"]; DTok "CondSemicolon" []; DDec "Cond" false; DNode "Post" ["Post"]; DDec "Post" false; DNode "Body" ["Body"]; DDec "End" false]);
  ("RangeStmt", [DDec "Start" false; DTok "For" ["For"]; DDec "For" false; DNode "Key" ["Key"]; DTok "Comma" []; DDec "Key" false; DNode "Value" ["Value"]; DDec "Value" false; DTok "Tok" ["TokPos"]; DTok "Range" []; DDec "Range" false; DNode "X" ["X"]; DDec "X" false; DNode "Body" ["Body"]; DDec "End" false]);
  ("ImportSpec", [DDec "Start" false; DNode "Name" ["Name"]; DDec "Name" false; DNode "Path" ["Path"]; DDec "End" false]);
  ("ValueSpec", [DDec "Start" false; DList "Names" ["Names"] false; DNode "Type" ["Type"]; DTok "Assign" []; DDec "Assign" false; DList "Values" ["Values"] false; DDec "End" false]);
  ("TypeSpec", [DDec "Start" false; DNode "Name" ["Name"]; DTok "Assign" ["Assign"]; DDec "Name" false; DNode "TypeParams" ["TypeParams"]; DDec "TypeParams" false; DNode "Type" ["Type"]; DDec "End" false]);
  ("BadDecl", [DDec "Start" false; DBad ["Length"] ["From"] ["To"]; DDec "End" false]);
  ("GenDecl", [DDec "Start" false; DTok "Tok" ["TokPos"]; DDec "Tok" false; DTok "Lparen" ["Lparen"]; DDec "Lparen" false; DList "Specs" ["Specs"] false; DTok "Rparen" ["Rparen"]; DDec "End" false]);
  ("FuncDecl", [DInit "Type" ["Type"]; DDec "Start" false; DSpecialDec "Start" ["Type"; "Decs"] false; DTok "Func" ["Type"; "Func"]; DDec "Func" false; DSpecialDec "Func" ["Type"; "Decs"] false; DNode "Recv" ["Recv"]; DDec "Recv" false; DNode "Name" ["Name"]; DDec "Name" false; DNode "TypeParams" ["Type"; "TypeParams"]; DDec "TypeParams" false; DSpecialDec "TypeParams" ["Type"; "Decs"] false; DNode "Params" ["Type"; "Params"]; DDec "Params" false; DSpecialDec "Params" ["Type"; "Decs"] false; DNode "Results" ["Type"; "Results"]; DDec "Results" false; DSpecialDec "End" ["Type"; "Decs"] false; DNode "Body" ["Body"]; DDec "End" false]);
  ("File", [DDec "Start" false; DTok "Package" ["Package"]; DDec "Package" false; DNode "Name" ["Name"]; DDec "Name" false; DList "Decls" ["Decls"] false; DDec "End" true; DScope; DList "Imports" ["Imports"] true]);
  ("Package", [DValue "Name" ["Name"]; DScope; DMap "Imports" ["Imports"]; DMap "Files" ["Files"]])].
