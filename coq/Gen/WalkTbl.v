(* GENERATED from /repo/walk.go and $GOROOT/src/go/ast/walk.go -- do not edit *)
From Coq Require Import List String ZArith NArith Bool.
Import ListNotations.
From DV Require Import Model.Tree Model.Tables.
Local Open Scope string_scope.
Local Open Scope list_scope.

Definition walk_tbl : wtable := [
  ("Field", [WMany "Names"; WOne "Type" true; WOne "Tag" true]);
  ("FieldList", [WMany "List"]);
  ("BadExpr", []);
  ("Ident", []);
  ("BasicLit", []);
  ("Ellipsis", [WOne "Elt" true]);
  ("FuncLit", [WOne "Type" false; WOne "Body" false]);
  ("CompositeLit", [WOne "Type" true; WMany "Elts"]);
  ("ParenExpr", [WOne "X" false]);
  ("SelectorExpr", [WOne "X" false; WOne "Sel" false]);
  ("IndexExpr", [WOne "X" false; WOne "Index" false]);
  ("IndexListExpr", [WOne "X" false; WMany "Indices"]);
  ("SliceExpr", [WOne "X" false; WOne "Low" true; WOne "High" true; WOne "Max" true]);
  ("TypeAssertExpr", [WOne "X" false; WOne "Type" true]);
  ("CallExpr", [WOne "Fun" false; WMany "Args"]);
  ("StarExpr", [WOne "X" false]);
  ("UnaryExpr", [WOne "X" false]);
  ("BinaryExpr", [WOne "X" false; WOne "Y" false]);
  ("KeyValueExpr", [WOne "Key" false; WOne "Value" false]);
  ("ArrayType", [WOne "Len" true; WOne "Elt" false]);
  ("StructType", [WOne "Fields" false]);
  ("FuncType", [WOne "TypeParams" true; WOne "Params" true; WOne "Results" true]);
  ("InterfaceType", [WOne "Methods" false]);
  ("MapType", [WOne "Key" false; WOne "Value" false]);
  ("ChanType", [WOne "Value" false]);
  ("BadStmt", []);
  ("DeclStmt", [WOne "Decl" false]);
  ("EmptyStmt", []);
  ("LabeledStmt", [WOne "Label" false; WOne "Stmt" false]);
  ("ExprStmt", [WOne "X" false]);
  ("SendStmt", [WOne "Chan" false; WOne "Value" false]);
  ("IncDecStmt", [WOne "X" false]);
  ("AssignStmt", [WMany "Lhs"; WMany "Rhs"]);
  ("GoStmt", [WOne "Call" false]);
  ("DeferStmt", [WOne "Call" false]);
  ("ReturnStmt", [WMany "Results"]);
  ("BranchStmt", [WOne "Label" true]);
  ("BlockStmt", [WMany "List"]);
  ("IfStmt", [WOne "Init" true; WOne "Cond" false; WOne "Body" false; WOne "Else" true]);
  ("CaseClause", [WMany "List"; WMany "Body"]);
  ("SwitchStmt", [WOne "Init" true; WOne "Tag" true; WOne "Body" false]);
  ("TypeSwitchStmt", [WOne "Init" true; WOne "Assign" false; WOne "Body" false]);
  ("CommClause", [WOne "Comm" true; WMany "Body"]);
  ("SelectStmt", [WOne "Body" false]);
  ("ForStmt", [WOne "Init" true; WOne "Cond" true; WOne "Post" true; WOne "Body" false]);
  ("RangeStmt", [WOne "Key" true; WOne "Value" true; WOne "X" false; WOne "Body" false]);
  ("ImportSpec", [WOne "Name" true; WOne "Path" false]);
  ("ValueSpec", [WMany "Names"; WOne "Type" true; WMany "Values"]);
  ("TypeSpec", [WOne "Name" false; WOne "TypeParams" true; WOne "Type" false]);
  ("BadDecl", []);
  ("GenDecl", [WMany "Specs"]);
  ("FuncDecl", [WOne "Recv" true; WOne "Name" false; WOne "Type" false; WOne "Body" true]);
  ("File", [WOne "Name" false; WMany "Decls"]);
  ("Package", [WMany "Files"])].

Definition walk_frame_ok : bool := true.

Definition ast_walk_tbl : wtable := [
  ("Comment", []);
  ("CommentGroup", [WMany "List"]);
  ("Field", [WOne "Doc" true; WMany "Names"; WOne "Type" true; WOne "Tag" true; WOne "Comment" true]);
  ("FieldList", [WMany "List"]);
  ("BadExpr", []);
  ("Ident", []);
  ("BasicLit", []);
  ("Ellipsis", [WOne "Elt" true]);
  ("FuncLit", [WOne "Type" false; WOne "Body" false]);
  ("CompositeLit", [WOne "Type" true; WMany "Elts"]);
  ("ParenExpr", [WOne "X" false]);
  ("SelectorExpr", [WOne "X" false; WOne "Sel" false]);
  ("IndexExpr", [WOne "X" false; WOne "Index" false]);
  ("IndexListExpr", [WOne "X" false; WMany "Indices"]);
  ("SliceExpr", [WOne "X" false; WOne "Low" true; WOne "High" true; WOne "Max" true]);
  ("TypeAssertExpr", [WOne "X" false; WOne "Type" true]);
  ("CallExpr", [WOne "Fun" false; WMany "Args"]);
  ("StarExpr", [WOne "X" false]);
  ("UnaryExpr", [WOne "X" false]);
  ("BinaryExpr", [WOne "X" false; WOne "Y" false]);
  ("KeyValueExpr", [WOne "Key" false; WOne "Value" false]);
  ("ArrayType", [WOne "Len" true; WOne "Elt" false]);
  ("StructType", [WOne "Fields" false]);
  ("FuncType", [WOne "TypeParams" true; WOne "Params" true; WOne "Results" true]);
  ("InterfaceType", [WOne "Methods" false]);
  ("MapType", [WOne "Key" false; WOne "Value" false]);
  ("ChanType", [WOne "Value" false]);
  ("BadStmt", []);
  ("DeclStmt", [WOne "Decl" false]);
  ("EmptyStmt", []);
  ("LabeledStmt", [WOne "Label" false; WOne "Stmt" false]);
  ("ExprStmt", [WOne "X" false]);
  ("SendStmt", [WOne "Chan" false; WOne "Value" false]);
  ("IncDecStmt", [WOne "X" false]);
  ("AssignStmt", [WMany "Lhs"; WMany "Rhs"]);
  ("GoStmt", [WOne "Call" false]);
  ("DeferStmt", [WOne "Call" false]);
  ("ReturnStmt", [WMany "Results"]);
  ("BranchStmt", [WOne "Label" true]);
  ("BlockStmt", [WMany "List"]);
  ("IfStmt", [WOne "Init" true; WOne "Cond" false; WOne "Body" false; WOne "Else" true]);
  ("CaseClause", [WMany "List"; WMany "Body"]);
  ("SwitchStmt", [WOne "Init" true; WOne "Tag" true; WOne "Body" false]);
  ("TypeSwitchStmt", [WOne "Init" true; WOne "Assign" false; WOne "Body" false]);
  ("CommClause", [WOne "Comm" true; WMany "Body"]);
  ("SelectStmt", [WOne "Body" false]);
  ("ForStmt", [WOne "Init" true; WOne "Cond" true; WOne "Post" true; WOne "Body" false]);
  ("RangeStmt", [WOne "Key" true; WOne "Value" true; WOne "X" false; WOne "Body" false]);
  ("ImportSpec", [WOne "Doc" true; WOne "Name" true; WOne "Path" false; WOne "Comment" true]);
  ("ValueSpec", [WOne "Doc" true; WMany "Names"; WOne "Type" true; WMany "Values"; WOne "Comment" true]);
  ("TypeSpec", [WOne "Doc" true; WOne "Name" false; WOne "TypeParams" true; WOne "Type" false; WOne "Comment" true]);
  ("BadDecl", []);
  ("GenDecl", [WOne "Doc" true; WMany "Specs"]);
  ("FuncDecl", [WOne "Doc" true; WOne "Recv" true; WOne "Name" false; WOne "Type" false; WOne "Body" true]);
  ("File", [WOne "Doc" true; WOne "Name" false; WMany "Decls"]);
  ("Package", [WMany "Files"])].

Definition ast_walk_frame_ok : bool := true.

Definition inspect_shape_ok : bool := true.
