(* GENERATED from /repo/clone-generated.go and /repo/clone.go -- do not edit *)
From Coq Require Import List String ZArith NArith Bool.
Import ListNotations.
From DV Require Import Model.Tree Model.Tables.
Local Open Scope string_scope.
Local Open Scope list_scope.

Definition clone_tbl : list (string * list cstmt) := [
  ("ArrayType", [KNew "ArrayType"; KSpace [] false; KDec [] "Start"; KDec [] "Lbrack"; KNode ["Len"] "Expr"; KDec [] "Len"; KNode ["Elt"] "Expr"; KDec [] "End"; KSpace [] true; KReturn]);
  ("AssignStmt", [KNew "AssignStmt"; KSpace [] false; KDec [] "Start"; KList ["Lhs"] "Expr"; KCopy ["Tok"]; KDec [] "Tok"; KList ["Rhs"] "Expr"; KDec [] "End"; KSpace [] true; KReturn]);
  ("BadDecl", [KNew "BadDecl"; KSpace [] false; KDec [] "Start"; KCopy ["Length"]; KDec [] "End"; KSpace [] true; KReturn]);
  ("BadExpr", [KNew "BadExpr"; KSpace [] false; KDec [] "Start"; KCopy ["Length"]; KDec [] "End"; KSpace [] true; KReturn]);
  ("BadStmt", [KNew "BadStmt"; KSpace [] false; KDec [] "Start"; KCopy ["Length"]; KDec [] "End"; KSpace [] true; KReturn]);
  ("BasicLit", [KNew "BasicLit"; KSpace [] false; KDec [] "Start"; KCopy ["Value"]; KDec [] "End"; KCopy ["Kind"]; KSpace [] true; KReturn]);
  ("BinaryExpr", [KNew "BinaryExpr"; KSpace [] false; KDec [] "Start"; KNode ["X"] "Expr"; KDec [] "X"; KCopy ["Op"]; KDec [] "Op"; KNode ["Y"] "Expr"; KDec [] "End"; KSpace [] true; KReturn]);
  ("BlockStmt", [KNew "BlockStmt"; KSpace [] false; KDec [] "Start"; KDec [] "Lbrace"; KList ["List"] "Stmt"; KCopy ["RbraceHasNoPos"]; KDec [] "End"; KSpace [] true; KReturn]);
  ("BranchStmt", [KNew "BranchStmt"; KSpace [] false; KDec [] "Start"; KCopy ["Tok"]; KDec [] "Tok"; KNode ["Label"] "Ident"; KDec [] "End"; KSpace [] true; KReturn]);
  ("CallExpr", [KNew "CallExpr"; KSpace [] false; KDec [] "Start"; KNode ["Fun"] "Expr"; KDec [] "Fun"; KDec [] "Lparen"; KList ["Args"] "Expr"; KCopy ["Ellipsis"]; KDec [] "Ellipsis"; KDec [] "End"; KSpace [] true; KReturn]);
  ("CaseClause", [KNew "CaseClause"; KSpace [] false; KDec [] "Start"; KDec [] "Case"; KList ["List"] "Expr"; KDec [] "Colon"; KList ["Body"] "Stmt"; KDec [] "End"; KSpace [] true; KReturn]);
  ("ChanType", [KNew "ChanType"; KSpace [] false; KDec [] "Start"; KDec [] "Begin"; KDec [] "Arrow"; KNode ["Value"] "Expr"; KDec [] "End"; KCopy ["Dir"]; KSpace [] true; KReturn]);
  ("CommClause", [KNew "CommClause"; KSpace [] false; KDec [] "Start"; KDec [] "Case"; KNode ["Comm"] "Stmt"; KDec [] "Comm"; KDec [] "Colon"; KList ["Body"] "Stmt"; KDec [] "End"; KSpace [] true; KReturn]);
  ("CompositeLit", [KNew "CompositeLit"; KSpace [] false; KDec [] "Start"; KNode ["Type"] "Expr"; KDec [] "Type"; KDec [] "Lbrace"; KList ["Elts"] "Expr"; KDec [] "End"; KCopy ["Incomplete"]; KSpace [] true; KReturn]);
  ("DeclStmt", [KNew "DeclStmt"; KSpace [] false; KDec [] "Start"; KNode ["Decl"] "Decl"; KDec [] "End"; KSpace [] true; KReturn]);
  ("DeferStmt", [KNew "DeferStmt"; KSpace [] false; KDec [] "Start"; KDec [] "Defer"; KNode ["Call"] "CallExpr"; KDec [] "End"; KSpace [] true; KReturn]);
  ("Ellipsis", [KNew "Ellipsis"; KSpace [] false; KDec [] "Start"; KDec [] "Ellipsis"; KNode ["Elt"] "Expr"; KDec [] "End"; KSpace [] true; KReturn]);
  ("EmptyStmt", [KNew "EmptyStmt"; KSpace [] false; KDec [] "Start"; KDec [] "End"; KCopy ["Implicit"]; KSpace [] true; KReturn]);
  ("ExprStmt", [KNew "ExprStmt"; KSpace [] false; KDec [] "Start"; KNode ["X"] "Expr"; KDec [] "End"; KSpace [] true; KReturn]);
  ("Field", [KNew "Field"; KSpace [] false; KDec [] "Start"; KList ["Names"] "Ident"; KNode ["Type"] "Expr"; KDec [] "Type"; KNode ["Tag"] "BasicLit"; KDec [] "End"; KSpace [] true; KReturn]);
  ("FieldList", [KNew "FieldList"; KSpace [] false; KDec [] "Start"; KCopy ["Opening"]; KDec [] "Opening"; KList ["List"] "Field"; KCopy ["Closing"]; KDec [] "End"; KSpace [] true; KReturn]);
  ("File", [KNew "File"; KSpace [] false; KDec [] "Start"; KDec [] "Package"; KNode ["Name"] "Ident"; KDec [] "Name"; KList ["Decls"] "Decl"; KDec [] "End"; KScope ["Scope"]; KList ["Imports"] "ImportSpec"; KSpace [] true; KReturn]);
  ("ForStmt", [KNew "ForStmt"; KSpace [] false; KDec [] "Start"; KDec [] "For"; KNode ["Init"] "Stmt"; KDec [] "Init"; KNode ["Cond"] "Expr"; KDec [] "Cond"; KNode ["Post"] "Stmt"; KDec [] "Post"; KNode ["Body"] "BlockStmt"; KDec [] "End"; KSpace [] true; KReturn]);
  ("FuncDecl", [KNew "FuncDecl"; KSpace [] false; KInit ["Type"] "FuncType"; KDec [] "Start"; KDec ["Type"] "Start"; KCopy ["Type"; "Func"]; KDec [] "Func"; KDec ["Type"] "Func"; KNode ["Recv"] "FieldList"; KDec [] "Recv"; KNode ["Name"] "Ident"; KDec [] "Name"; KNode ["Type"; "TypeParams"] "FieldList"; KDec [] "TypeParams"; KDec ["Type"] "TypeParams"; KNode ["Type"; "Params"] "FieldList"; KDec [] "Params"; KDec ["Type"] "Params"; KNode ["Type"; "Results"] "FieldList"; KDec [] "Results"; KDec ["Type"] "End"; KNode ["Body"] "BlockStmt"; KDec [] "End"; KSpace [] true; KReturn]);
  ("FuncLit", [KNew "FuncLit"; KSpace [] false; KDec [] "Start"; KNode ["Type"] "FuncType"; KDec [] "Type"; KNode ["Body"] "BlockStmt"; KDec [] "End"; KSpace [] true; KReturn]);
  ("FuncType", [KNew "FuncType"; KSpace [] false; KDec [] "Start"; KCopy ["Func"]; KDec [] "Func"; KNode ["TypeParams"] "FieldList"; KDec [] "TypeParams"; KNode ["Params"] "FieldList"; KDec [] "Params"; KNode ["Results"] "FieldList"; KDec [] "End"; KSpace [] true; KReturn]);
  ("GenDecl", [KNew "GenDecl"; KSpace [] false; KDec [] "Start"; KCopy ["Tok"]; KDec [] "Tok"; KCopy ["Lparen"]; KDec [] "Lparen"; KList ["Specs"] "Spec"; KCopy ["Rparen"]; KDec [] "End"; KSpace [] true; KReturn]);
  ("GoStmt", [KNew "GoStmt"; KSpace [] false; KDec [] "Start"; KDec [] "Go"; KNode ["Call"] "CallExpr"; KDec [] "End"; KSpace [] true; KReturn]);
  ("Ident", [KNew "Ident"; KSpace [] false; KDec [] "Start"; KDec [] "X"; KCopy ["Name"]; KDec [] "End"; KObj ["Obj"]; KCopy ["Path"]; KSpace [] true; KReturn]);
  ("IfStmt", [KNew "IfStmt"; KSpace [] false; KDec [] "Start"; KDec [] "If"; KNode ["Init"] "Stmt"; KDec [] "Init"; KNode ["Cond"] "Expr"; KDec [] "Cond"; KNode ["Body"] "BlockStmt"; KDec [] "Else"; KNode ["Else"] "Stmt"; KDec [] "End"; KSpace [] true; KReturn]);
  ("ImportSpec", [KNew "ImportSpec"; KSpace [] false; KDec [] "Start"; KNode ["Name"] "Ident"; KDec [] "Name"; KNode ["Path"] "BasicLit"; KDec [] "End"; KSpace [] true; KReturn]);
  ("IncDecStmt", [KNew "IncDecStmt"; KSpace [] false; KDec [] "Start"; KNode ["X"] "Expr"; KDec [] "X"; KCopy ["Tok"]; KDec [] "End"; KSpace [] true; KReturn]);
  ("IndexExpr", [KNew "IndexExpr"; KSpace [] false; KDec [] "Start"; KNode ["X"] "Expr"; KDec [] "X"; KDec [] "Lbrack"; KNode ["Index"] "Expr"; KDec [] "Index"; KDec [] "End"; KSpace [] true; KReturn]);
  ("IndexListExpr", [KNew "IndexListExpr"; KSpace [] false; KDec [] "Start"; KNode ["X"] "Expr"; KDec [] "X"; KDec [] "Lbrack"; KList ["Indices"] "Expr"; KDec [] "Indices"; KDec [] "End"; KSpace [] true; KReturn]);
  ("InterfaceType", [KNew "InterfaceType"; KSpace [] false; KDec [] "Start"; KDec [] "Interface"; KNode ["Methods"] "FieldList"; KDec [] "End"; KCopy ["Incomplete"]; KSpace [] true; KReturn]);
  ("KeyValueExpr", [KNew "KeyValueExpr"; KSpace [] false; KDec [] "Start"; KNode ["Key"] "Expr"; KDec [] "Key"; KDec [] "Colon"; KNode ["Value"] "Expr"; KDec [] "End"; KSpace [] true; KReturn]);
  ("LabeledStmt", [KNew "LabeledStmt"; KSpace [] false; KDec [] "Start"; KNode ["Label"] "Ident"; KDec [] "Label"; KDec [] "Colon"; KNode ["Stmt"] "Stmt"; KDec [] "End"; KSpace [] true; KReturn]);
  ("MapType", [KNew "MapType"; KSpace [] false; KDec [] "Start"; KDec [] "Map"; KNode ["Key"] "Expr"; KDec [] "Key"; KNode ["Value"] "Expr"; KDec [] "End"; KSpace [] true; KReturn]);
  ("Package", [KNew "Package"; KCopy ["Name"]; KScope ["Scope"]; KMapObjs ["Imports"]; KMapNodes ["Files"]; KReturn]);
  ("ParenExpr", [KNew "ParenExpr"; KSpace [] false; KDec [] "Start"; KDec [] "Lparen"; KNode ["X"] "Expr"; KDec [] "X"; KDec [] "End"; KSpace [] true; KReturn]);
  ("RangeStmt", [KNew "RangeStmt"; KSpace [] false; KDec [] "Start"; KDec [] "For"; KNode ["Key"] "Expr"; KDec [] "Key"; KNode ["Value"] "Expr"; KDec [] "Value"; KCopy ["Tok"]; KDec [] "Range"; KNode ["X"] "Expr"; KDec [] "X"; KNode ["Body"] "BlockStmt"; KDec [] "End"; KSpace [] true; KReturn]);
  ("ReturnStmt", [KNew "ReturnStmt"; KSpace [] false; KDec [] "Start"; KDec [] "Return"; KList ["Results"] "Expr"; KDec [] "End"; KSpace [] true; KReturn]);
  ("SelectStmt", [KNew "SelectStmt"; KSpace [] false; KDec [] "Start"; KDec [] "Select"; KNode ["Body"] "BlockStmt"; KDec [] "End"; KSpace [] true; KReturn]);
  ("SelectorExpr", [KNew "SelectorExpr"; KSpace [] false; KDec [] "Start"; KNode ["X"] "Expr"; KDec [] "X"; KNode ["Sel"] "Ident"; KDec [] "End"; KSpace [] true; KReturn]);
  ("SendStmt", [KNew "SendStmt"; KSpace [] false; KDec [] "Start"; KNode ["Chan"] "Expr"; KDec [] "Chan"; KDec [] "Arrow"; KNode ["Value"] "Expr"; KDec [] "End"; KSpace [] true; KReturn]);
  ("SliceExpr", [KNew "SliceExpr"; KSpace [] false; KDec [] "Start"; KNode ["X"] "Expr"; KDec [] "X"; KDec [] "Lbrack"; KNode ["Low"] "Expr"; KDec [] "Low"; KNode ["High"] "Expr"; KDec [] "High"; KNode ["Max"] "Expr"; KDec [] "Max"; KDec [] "End"; KCopy ["Slice3"]; KSpace [] true; KReturn]);
  ("StarExpr", [KNew "StarExpr"; KSpace [] false; KDec [] "Start"; KDec [] "Star"; KNode ["X"] "Expr"; KDec [] "End"; KSpace [] true; KReturn]);
  ("StructType", [KNew "StructType"; KSpace [] false; KDec [] "Start"; KDec [] "Struct"; KNode ["Fields"] "FieldList"; KDec [] "End"; KCopy ["Incomplete"]; KSpace [] true; KReturn]);
  ("SwitchStmt", [KNew "SwitchStmt"; KSpace [] false; KDec [] "Start"; KDec [] "Switch"; KNode ["Init"] "Stmt"; KDec [] "Init"; KNode ["Tag"] "Expr"; KDec [] "Tag"; KNode ["Body"] "BlockStmt"; KDec [] "End"; KSpace [] true; KReturn]);
  ("TypeAssertExpr", [KNew "TypeAssertExpr"; KSpace [] false; KDec [] "Start"; KNode ["X"] "Expr"; KDec [] "X"; KDec [] "Lparen"; KNode ["Type"] "Expr"; KDec [] "Type"; KDec [] "End"; KSpace [] true; KReturn]);
  ("TypeSpec", [KNew "TypeSpec"; KSpace [] false; KDec [] "Start"; KNode ["Name"] "Ident"; KCopy ["Assign"]; KDec [] "Name"; KNode ["TypeParams"] "FieldList"; KDec [] "TypeParams"; KNode ["Type"] "Expr"; KDec [] "End"; KSpace [] true; KReturn]);
  ("TypeSwitchStmt", [KNew "TypeSwitchStmt"; KSpace [] false; KDec [] "Start"; KDec [] "Switch"; KNode ["Init"] "Stmt"; KDec [] "Init"; KNode ["Assign"] "Stmt"; KDec [] "Assign"; KNode ["Body"] "BlockStmt"; KDec [] "End"; KSpace [] true; KReturn]);
  ("UnaryExpr", [KNew "UnaryExpr"; KSpace [] false; KDec [] "Start"; KCopy ["Op"]; KDec [] "Op"; KNode ["X"] "Expr"; KDec [] "End"; KSpace [] true; KReturn]);
  ("ValueSpec", [KNew "ValueSpec"; KSpace [] false; KDec [] "Start"; KList ["Names"] "Ident"; KNode ["Type"] "Expr"; KDec [] "Assign"; KList ["Values"] "Expr"; KDec [] "End"; KSpace [] true; KReturn])].

Definition clone_frame_ok : bool := true.
Definition clone_refs_nil : bool := true.
