(* GENERATED from /repo/dst.go and /repo/decorations-types-generated.go -- do not edit *)
From Coq Require Import List String ZArith NArith Bool.
Import ListNotations.
From DV Require Import Model.Tree Model.Tables.
Local Open Scope string_scope.
Local Open Scope list_scope.

Definition universe : universe_t := [
  ("Field", [("Names", FList "Ident"); ("Type", FNode "Expr"); ("Tag", FNode "BasicLit"); ("Decs", FDecs "FieldDecorations")]);
  ("FieldList", [("Opening", FVal "bool"); ("List", FList "Field"); ("Closing", FVal "bool"); ("Decs", FDecs "FieldListDecorations")]);
  ("BadExpr", [("Length", FVal "int"); ("Decs", FDecs "BadExprDecorations")]);
  ("Ident", [("Name", FVal "string"); ("Obj", FObj); ("Path", FVal "string"); ("Decs", FDecs "IdentDecorations")]);
  ("Ellipsis", [("Elt", FNode "Expr"); ("Decs", FDecs "EllipsisDecorations")]);
  ("BasicLit", [("Kind", FVal "token.Token"); ("Value", FVal "string"); ("Decs", FDecs "BasicLitDecorations")]);
  ("FuncLit", [("Type", FNode "FuncType"); ("Body", FNode "BlockStmt"); ("Decs", FDecs "FuncLitDecorations")]);
  ("CompositeLit", [("Type", FNode "Expr"); ("Elts", FList "Expr"); ("Incomplete", FVal "bool"); ("Decs", FDecs "CompositeLitDecorations")]);
  ("ParenExpr", [("X", FNode "Expr"); ("Decs", FDecs "ParenExprDecorations")]);
  ("SelectorExpr", [("X", FNode "Expr"); ("Sel", FNode "Ident"); ("Decs", FDecs "SelectorExprDecorations")]);
  ("IndexExpr", [("X", FNode "Expr"); ("Index", FNode "Expr"); ("Decs", FDecs "IndexExprDecorations")]);
  ("IndexListExpr", [("X", FNode "Expr"); ("Indices", FList "Expr"); ("Decs", FDecs "IndexListExprDecorations")]);
  ("SliceExpr", [("X", FNode "Expr"); ("Low", FNode "Expr"); ("High", FNode "Expr"); ("Max", FNode "Expr"); ("Slice3", FVal "bool"); ("Decs", FDecs "SliceExprDecorations")]);
  ("TypeAssertExpr", [("X", FNode "Expr"); ("Type", FNode "Expr"); ("Decs", FDecs "TypeAssertExprDecorations")]);
  ("CallExpr", [("Fun", FNode "Expr"); ("Args", FList "Expr"); ("Ellipsis", FVal "bool"); ("Decs", FDecs "CallExprDecorations")]);
  ("StarExpr", [("X", FNode "Expr"); ("Decs", FDecs "StarExprDecorations")]);
  ("UnaryExpr", [("Op", FVal "token.Token"); ("X", FNode "Expr"); ("Decs", FDecs "UnaryExprDecorations")]);
  ("BinaryExpr", [("X", FNode "Expr"); ("Op", FVal "token.Token"); ("Y", FNode "Expr"); ("Decs", FDecs "BinaryExprDecorations")]);
  ("KeyValueExpr", [("Key", FNode "Expr"); ("Value", FNode "Expr"); ("Decs", FDecs "KeyValueExprDecorations")]);
  ("ArrayType", [("Len", FNode "Expr"); ("Elt", FNode "Expr"); ("Decs", FDecs "ArrayTypeDecorations")]);
  ("StructType", [("Fields", FNode "FieldList"); ("Incomplete", FVal "bool"); ("Decs", FDecs "StructTypeDecorations")]);
  ("FuncType", [("Func", FVal "bool"); ("TypeParams", FNode "FieldList"); ("Params", FNode "FieldList"); ("Results", FNode "FieldList"); ("Decs", FDecs "FuncTypeDecorations")]);
  ("InterfaceType", [("Methods", FNode "FieldList"); ("Incomplete", FVal "bool"); ("Decs", FDecs "InterfaceTypeDecorations")]);
  ("MapType", [("Key", FNode "Expr"); ("Value", FNode "Expr"); ("Decs", FDecs "MapTypeDecorations")]);
  ("ChanType", [("Dir", FVal "ChanDir"); ("Value", FNode "Expr"); ("Decs", FDecs "ChanTypeDecorations")]);
  ("BadStmt", [("Length", FVal "int"); ("Decs", FDecs "BadStmtDecorations")]);
  ("DeclStmt", [("Decl", FNode "Decl"); ("Decs", FDecs "DeclStmtDecorations")]);
  ("EmptyStmt", [("Implicit", FVal "bool"); ("Decs", FDecs "EmptyStmtDecorations")]);
  ("LabeledStmt", [("Label", FNode "Ident"); ("Stmt", FNode "Stmt"); ("Decs", FDecs "LabeledStmtDecorations")]);
  ("ExprStmt", [("X", FNode "Expr"); ("Decs", FDecs "ExprStmtDecorations")]);
  ("SendStmt", [("Chan", FNode "Expr"); ("Value", FNode "Expr"); ("Decs", FDecs "SendStmtDecorations")]);
  ("IncDecStmt", [("X", FNode "Expr"); ("Tok", FVal "token.Token"); ("Decs", FDecs "IncDecStmtDecorations")]);
  ("AssignStmt", [("Lhs", FList "Expr"); ("Tok", FVal "token.Token"); ("Rhs", FList "Expr"); ("Decs", FDecs "AssignStmtDecorations")]);
  ("GoStmt", [("Call", FNode "CallExpr"); ("Decs", FDecs "GoStmtDecorations")]);
  ("DeferStmt", [("Call", FNode "CallExpr"); ("Decs", FDecs "DeferStmtDecorations")]);
  ("ReturnStmt", [("Results", FList "Expr"); ("Decs", FDecs "ReturnStmtDecorations")]);
  ("BranchStmt", [("Tok", FVal "token.Token"); ("Label", FNode "Ident"); ("Decs", FDecs "BranchStmtDecorations")]);
  ("BlockStmt", [("List", FList "Stmt"); ("RbraceHasNoPos", FVal "bool"); ("Decs", FDecs "BlockStmtDecorations")]);
  ("IfStmt", [("Init", FNode "Stmt"); ("Cond", FNode "Expr"); ("Body", FNode "BlockStmt"); ("Else", FNode "Stmt"); ("Decs", FDecs "IfStmtDecorations")]);
  ("CaseClause", [("List", FList "Expr"); ("Body", FList "Stmt"); ("Decs", FDecs "CaseClauseDecorations")]);
  ("SwitchStmt", [("Init", FNode "Stmt"); ("Tag", FNode "Expr"); ("Body", FNode "BlockStmt"); ("Decs", FDecs "SwitchStmtDecorations")]);
  ("TypeSwitchStmt", [("Init", FNode "Stmt"); ("Assign", FNode "Stmt"); ("Body", FNode "BlockStmt"); ("Decs", FDecs "TypeSwitchStmtDecorations")]);
  ("CommClause", [("Comm", FNode "Stmt"); ("Body", FList "Stmt"); ("Decs", FDecs "CommClauseDecorations")]);
  ("SelectStmt", [("Body", FNode "BlockStmt"); ("Decs", FDecs "SelectStmtDecorations")]);
  ("ForStmt", [("Init", FNode "Stmt"); ("Cond", FNode "Expr"); ("Post", FNode "Stmt"); ("Body", FNode "BlockStmt"); ("Decs", FDecs "ForStmtDecorations")]);
  ("RangeStmt", [("Key", FNode "Expr"); ("Value", FNode "Expr"); ("Tok", FVal "token.Token"); ("X", FNode "Expr"); ("Body", FNode "BlockStmt"); ("Decs", FDecs "RangeStmtDecorations")]);
  ("ImportSpec", [("Name", FNode "Ident"); ("Path", FNode "BasicLit"); ("Decs", FDecs "ImportSpecDecorations")]);
  ("ValueSpec", [("Names", FList "Ident"); ("Type", FNode "Expr"); ("Values", FList "Expr"); ("Decs", FDecs "ValueSpecDecorations")]);
  ("TypeSpec", [("Name", FNode "Ident"); ("TypeParams", FNode "FieldList"); ("Assign", FVal "bool"); ("Type", FNode "Expr"); ("Decs", FDecs "TypeSpecDecorations")]);
  ("BadDecl", [("Length", FVal "int"); ("Decs", FDecs "BadDeclDecorations")]);
  ("GenDecl", [("Tok", FVal "token.Token"); ("Lparen", FVal "bool"); ("Specs", FList "Spec"); ("Rparen", FVal "bool"); ("Decs", FDecs "GenDeclDecorations")]);
  ("FuncDecl", [("Recv", FNode "FieldList"); ("Name", FNode "Ident"); ("Type", FNode "FuncType"); ("Body", FNode "BlockStmt"); ("Decs", FDecs "FuncDeclDecorations")]);
  ("File", [("Name", FNode "Ident"); ("Decls", FList "Decl"); ("Scope", FScope); ("Imports", FImportList); ("Unresolved", FIdentList); ("Decs", FDecs "FileDecorations")]);
  ("Package", [("Name", FVal "string"); ("Scope", FScope); ("Imports", FMapObj); ("Files", FMapFiles)])].

(* decoration points per kind in struct order; NodeDecs stands for Start (first) and End (last) *)
Definition dec_universe : list (string * list string) := [
  ("ArrayType", ["Start"; "Lbrack"; "Len"; "End"]);
  ("AssignStmt", ["Start"; "Tok"; "End"]);
  ("BadDecl", ["Start"; "End"]);
  ("BadExpr", ["Start"; "End"]);
  ("BadStmt", ["Start"; "End"]);
  ("BasicLit", ["Start"; "End"]);
  ("BinaryExpr", ["Start"; "X"; "Op"; "End"]);
  ("BlockStmt", ["Start"; "Lbrace"; "End"]);
  ("BranchStmt", ["Start"; "Tok"; "End"]);
  ("CallExpr", ["Start"; "Fun"; "Lparen"; "Ellipsis"; "End"]);
  ("CaseClause", ["Start"; "Case"; "Colon"; "End"]);
  ("ChanType", ["Start"; "Begin"; "Arrow"; "End"]);
  ("CommClause", ["Start"; "Case"; "Comm"; "Colon"; "End"]);
  ("CompositeLit", ["Start"; "Type"; "Lbrace"; "End"]);
  ("DeclStmt", ["Start"; "End"]);
  ("DeferStmt", ["Start"; "Defer"; "End"]);
  ("Ellipsis", ["Start"; "Ellipsis"; "End"]);
  ("EmptyStmt", ["Start"; "End"]);
  ("ExprStmt", ["Start"; "End"]);
  ("Field", ["Start"; "Type"; "End"]);
  ("FieldList", ["Start"; "Opening"; "End"]);
  ("File", ["Start"; "Package"; "Name"; "End"]);
  ("ForStmt", ["Start"; "For"; "Init"; "Cond"; "Post"; "End"]);
  ("FuncDecl", ["Start"; "Func"; "Recv"; "Name"; "TypeParams"; "Params"; "Results"; "End"]);
  ("FuncLit", ["Start"; "Type"; "End"]);
  ("FuncType", ["Start"; "Func"; "TypeParams"; "Params"; "End"]);
  ("GenDecl", ["Start"; "Tok"; "Lparen"; "End"]);
  ("GoStmt", ["Start"; "Go"; "End"]);
  ("Ident", ["Start"; "X"; "End"]);
  ("IfStmt", ["Start"; "If"; "Init"; "Cond"; "Else"; "End"]);
  ("ImportSpec", ["Start"; "Name"; "End"]);
  ("IncDecStmt", ["Start"; "X"; "End"]);
  ("IndexExpr", ["Start"; "X"; "Lbrack"; "Index"; "End"]);
  ("IndexListExpr", ["Start"; "X"; "Lbrack"; "Indices"; "End"]);
  ("InterfaceType", ["Start"; "Interface"; "End"]);
  ("KeyValueExpr", ["Start"; "Key"; "Colon"; "End"]);
  ("LabeledStmt", ["Start"; "Label"; "Colon"; "End"]);
  ("MapType", ["Start"; "Map"; "Key"; "End"]);
  ("ParenExpr", ["Start"; "Lparen"; "X"; "End"]);
  ("RangeStmt", ["Start"; "For"; "Key"; "Value"; "Range"; "X"; "End"]);
  ("ReturnStmt", ["Start"; "Return"; "End"]);
  ("SelectStmt", ["Start"; "Select"; "End"]);
  ("SelectorExpr", ["Start"; "X"; "End"]);
  ("SendStmt", ["Start"; "Chan"; "Arrow"; "End"]);
  ("SliceExpr", ["Start"; "X"; "Lbrack"; "Low"; "High"; "Max"; "End"]);
  ("StarExpr", ["Start"; "Star"; "End"]);
  ("StructType", ["Start"; "Struct"; "End"]);
  ("SwitchStmt", ["Start"; "Switch"; "Init"; "Tag"; "End"]);
  ("TypeAssertExpr", ["Start"; "X"; "Lparen"; "Type"; "End"]);
  ("TypeSpec", ["Start"; "Name"; "TypeParams"; "End"]);
  ("TypeSwitchStmt", ["Start"; "Switch"; "Init"; "Assign"; "End"]);
  ("UnaryExpr", ["Start"; "Op"; "End"]);
  ("ValueSpec", ["Start"; "Assign"; "End"])].
