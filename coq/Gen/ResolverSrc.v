(* GENERATED from /repo/decorator/decorator.go and decorator/resolver/{gotypes,goast}/resolver.go -- do not edit *)
From Coq Require Import List String Bool.
Import ListNotations.
Local Open Scope string_scope.

Definition avoid_src : list string := ["BranchStmt.Label"; "Field.Names"; "File.Name"; "FuncDecl.Name"; "ImportSpec.Name"; "LabeledStmt.Label"; "SelectorExpr.Sel"; "TypeSpec.Name"; "ValueSpec.Names"].

Definition resolver_sources_pinned : list (string * bool) := [
  ("decorator.stripVendor", true)].
