(* GENERATED from /repo/decorator/decorator.go (stripVendor) -- do not edit *)
From Coq Require Import List String ZArith.
Import ListNotations.
From DV Require Import Model.StripProg.
Local Open Scope string_scope.

Definition strip_vendor_src : sv_prog :=
  SVProg [SVContainsLast "/vendor/" "/vendor/" 1%Z; SVPrefix "vendor/" 0%Z] "vendor/".
