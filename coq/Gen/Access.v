(* GENERATED from /repo/decorator/resolver/goast/resolver.go and the package-level variables of /repo -- do not edit *)
From Coq Require Import List String Bool.
Import ListNotations.
Local Open Scope string_scope.

Inductive lockstate := LExcl | LShared | LNone.

Definition goast_accesses : list (string * string * bool * lockstate) := [
  ("imports", "RestorerResolver", false, LExcl);
  ("imports", "RestorerResolver", true, LExcl);
  ("imports", "files", false, LExcl);
  ("imports", "files", true, LExcl);
  ("imports", "files", false, LExcl);
  ("imports", "RestorerResolver", false, LExcl);
  ("imports", "files", true, LExcl)].

Definition goast_mutex_is_plain : bool := true.

Definition package_vars : list (string * bool) := [
  ("..indent", false);
  ("..objKindStrings", false);
  ("decorator.avoid", false);
  ("decorator/resolver.ErrPackageNotFound", false);
  ("dstutil.abort", false)].
