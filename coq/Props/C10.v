(* C10 -- Moving code between files or packages preserves what it refers to (partial:
   type-checking is go/types' and is judged on the implementation; the theorems say what the
   moved identifier carries and how the target file renders and binds it).
   Composition of C09 (Model/Resolvers.v) and C07 (Model/Imports.v, corresponded). *)
From Coq Require Import List String ZArith NArith Bool.
Import ListNotations.
From DV Require Import Model.Decision Gen.DecisionSrc Proofs.RestoreIdentProofs.
From DV Require Import Model.Decision Gen.GoastImportsSrc Proofs.GoastStepProofs.
From DV Require Import Proofs.StripVendorProofs Model.StripProg Gen.StripVendorSrc Proofs.StripVendorSrcProofs.
From DV Require Import Model.Tree Model.Resolvers Model.Imports Proofs.ResolverProofs Proofs.ImportsProofs Proofs.ImportsExact
  Model.Decision Model.DecisionInterp Gen.DecisionSrc Proofs.DecisionProofs.
Local Open Scope string_scope.
Local Open Scope list_scope.

(* (1) What travels with the code: an identifier that denotes a package-level object of
   another package -- whether the source file reached it through a qualifier under any name or
   alias, or through a dot-import -- is decorated with that package's import path (vendor prefix
   removed); every other identifier with none. *)
Theorem C10_reference_travels_as_import_path :
  forall local r parent_dot_field, in_avoid parent_dot_field = false ->
  resolve_path false local false parent_dot_field (gotypes_resolve (occurrence_of local r)) = expected_path local r.
Proof. exact gotypes_exact. Qed.

(* (1') ... and that is what the code does: the translated sources of gotypes.ResolveIdent and of
   resolvePath (Gen/DecisionSrc.v, regenerated on every run) compute these models on every
   abstract state *)
Theorem C10_resolver_sources_compute_the_models :
  (forall g, out_string (gotypes_syms g) (run (fun p => str_case p (gotypes_preds g) false) gotypes_resolveident_src) = gotypes_resolve (g_occ g)) /\
  (forall p, out_string (resolvepath_syms p) (run (fun q => str_case q (resolvepath_preds p) false) resolvepath_src) = resolvepath_model p) /\
  gotypes_src_agrees gotypes_resolveident_src && resolvepath_src_agrees resolvepath_src = true.
Proof. split; [exact gotypes_source_is_model|]. split; [exact resolvepath_source_is_model|]. vm_compute. reflexivity. Qed.

(* (2) In the target file, whatever it imported, aliased, dot-imported or omitted: every
   referenced path is imported, after the update, by a spec carrying the alias chosen for it. *)
Theorem C10_referenced_path_is_imported_in_target :
  forall required aliases found ordered blocks p,
  NoDup (map b_id blocks) -> (forall b, In b blocks -> b_id b <> 0%N) ->
  mem p required = true -> In p ordered ->
  (ahas found p = true -> exists b s, In b blocks /\ In s (b_specs b) /\ s_path s = p) ->
  exists b s, In b (fst (fst (fst (rebuild_blocks required aliases found ordered blocks)))) /\ In s (b_specs b) /\
              s_path s = p /\ s_name s = alias_of aliases p.
Proof. exact required_path_is_imported. Qed.

(* (3) The alias written into that spec binds the name the restored code uses: for a dot-import
   the identifier is bare; otherwise the qualifier equals the alias, or the spec has no alias
   and the qualifier is the resolved package name. *)
Theorem C10_import_alias_binds_the_qualifier :
  forall resolved eff ordered q, NoDup ordered -> In q ordered ->
  let '(names, aliases) := assign_names resolved eff ordered in entry_ok resolved eff names aliases q.
Proof. exact assign_names_bind. Qed.

(* (4) and no two ordinary imports bind the same name, so the qualifier denotes that package
   and no other (C07) -- provided no declaration of the target file shadows it. *)
Theorem C10_qualifiers_are_unambiguous :
  forall resolved eff ordered, NoDup ordered -> NoDup (ordinary (fst (assign_names resolved eff ordered))).
Proof.
  intros resolved eff ordered Hnd. unfold assign_names.
  apply names_distinct; [exact Hnd|intros; reflexivity|constructor].
Qed.

(* (2)-(4) as one statement about a whole update of the target file: every path the moved code
   refers to is imported by a spec that binds exactly the qualifier the restored code writes
   (bare under a dot-import) -- C07_every_reference_is_bound_by_its_import *)
Theorem C10_moved_reference_is_bound_in_the_target :
  forall resolve local alias all_blocks used bs del names nb added,
  update_imports resolve local alias all_blocks used = Done bs del names nb added ->
  let blocks := filter (fun b => negb (is_cgo_only b)) all_blocks in
  NoDup (map b_id blocks) -> (forall b, In b blocks -> b_id b <> 0%N) ->
  (forall p, p <> "C" -> In p (spec_paths all_blocks) -> In p (spec_paths blocks)) ->
  (forall p n, resolve p = Some n -> n <> "") ->
  forall p, In p (in_use local used) -> p <> "C" ->
  exists b s, In b bs /\ In s (b_specs b) /\ s_path s = p /\
    ((eff_alias (eff_of local alias all_blocks used) p = "." /\ s_name s = "." /\ rendered_qualifier local names p = None) \/
     (eff_alias (eff_of local alias all_blocks used) p <> "." /\
      exists n, n <> "" /\ rendered_qualifier local names p = Some n /\ bound_name resolve s = Some n)).
Proof. exact reference_is_bound. Qed.

(* the moved reference in a file that already uses the name for another package *)
Example C10_nonvacuous :
  let blocks := [mkBlock [mkSpec "root/x/jsoniter" "json" 1 SNewLine SNewLine] false 100] in
  let resolve := fun p => if String.eqb p "root/enc/json" then Some "json" else Some "jsoniter" in
  match update_imports resolve "root/main" [] blocks ["root/x/jsoniter"; "root/enc/json"] with
  | Done bs _ names _ _ =>
    map (fun b => map (fun s => (s_path s, s_name s)) (b_specs b)) bs = [[("root/enc/json", ""); ("root/x/jsoniter", "json1")]]
    /\ rendered_qualifier "root/main" names "root/enc/json" = Some "json"
    /\ rendered_qualifier "root/main" names "root/x/jsoniter" = Some "json1"
  | _ => False
  end.
Proof. vm_compute. repeat split. Qed.


(* goast.DecoratorResolver.imports is no longer pinned by hash as a whole: the case of its traversal for
   one import spec is translated on every run (a decision program over the spec: skip "C" and blank
   imports, refuse dot-imports, resolve the name of an unnamed import, refuse a second package under one
   name, else add) and proved to be one step of the model's goast_scan, for every spec, name resolver and
   table built so far (goast_scan_by_steps: the model's scan is the iteration of that step); what surrounds
   the case -- the lock, the per-file cache, the traversal that stops at the first declaration that is no
   import -- is pinned with the case body struck out *)
Theorem C10_goast_import_case_source_computes_the_model :
  forall name_of s acc,
    match run (step_val name_of s acc) goast_spec_step_src with
    | OReturn (DVal r) => step_sym name_of s acc r = Some (scan_step name_of s acc)
    | _ => False
    end.
Proof. exact goast_step_source_is_model. Qed.

Theorem C10_goast_scan_iterates_the_step :
  forall name_of s r acc,
  Model.Resolvers.goast_scan name_of (s :: r) acc
  = match scan_step name_of s acc with
    | Model.Resolvers.GIError w => Model.Resolvers.GIError w
    | Model.Resolvers.GIOk acc' => Model.Resolvers.goast_scan name_of r acc'
    end.
Proof. exact goast_scan_by_steps. Qed.

Theorem C10_goast_imports_source_is_within_the_vocabulary : step_vocabulary_ok && goast_imports_frame_ok = true.
Proof. vm_compute. reflexivity. Qed.


(* restoreIdent decides which identifiers come back as package.Name and under which name.  Its decision part
   is translated on every run (the conditional assignments to `name` fork the rest of the function; the
   statements that build the selector are pinned against the model's selector_acts and form one outcome) and
   proved, for every input, to compute: panic without a resolver or at an illegal position; a bare identifier
   when there is no path, the path is the restorer's own, or the chosen name is empty (dot-import); otherwise
   a selector on exactly the name updateImports chose for the path -- which is the choice the restorer
   model makes at an identifier (node_acts) *)
Theorem C10_restoreIdent_source_computes_the_model :
  (forall resolver_nil path_empty avoid_hit same_path pname,
    ident_outcome pname (run (ident_val resolver_nil path_empty avoid_hit same_path pname) restoreident_src)
    = Some (restore_ident_mode resolver_nil path_empty avoid_hit same_path pname)) /\
  (forall managed pu_zero same_path pname,
    erase (restore_ident_mode (negb managed) pu_zero false same_path pname)
    = node_acts_mode managed pu_zero (pk_of same_path pname)).
Proof. split; [exact restoreident_source_is_model | exact restore_ident_mode_is_the_models_choice]. Qed.

Theorem C10_restoreIdent_source_is_within_the_vocabulary : restoreident_vocabulary_ok = true.
Proof. vm_compute. reflexivity. Qed.

(* What travels does not depend on where the code came from: with ResolveLocalPath the path stored on
   an identifier is the same whatever package the file was decorated in (so a reference to the source
   package's own objects survives the move), it never contains a vendor directory, and stripVendor as
   decorator.go writes it on this run computes the model for every path. Without ResolveLocalPath the
   stored path does depend on the source package (witness): the documented requirement is necessary. *)
Theorem C10_stored_path_is_independent_of_the_source_package : forall force l1 l2 pf raw,
  resolve_path force l1 true pf raw = resolve_path force l2 true pf raw.
Proof. exact resolve_path_independent_of_source_package. Qed.

Theorem C10_travelling_paths_are_vendor_free : forall force local rl pf raw,
  strip_vendor (resolve_path force local rl pf raw) = resolve_path force local rl pf raw.
Proof. exact resolve_path_is_vendor_free. Qed.

Theorem C10_stripVendor_source_computes_the_model : forall path,
  run_sv strip_vendor_src path = Some (strip_vendor path).
Proof. exact strip_vendor_source_is_model. Qed.

Example C10_without_ResolveLocalPath_the_source_package_matters :
  exists l1 l2 pf raw, resolve_path false l1 false pf raw <> resolve_path false l2 false pf raw.
Proof. exact resolve_path_depends_on_source_package_without_local_paths. Qed.

Print Assumptions C10_reference_travels_as_import_path.
Print Assumptions C10_resolver_sources_compute_the_models.
Print Assumptions C10_moved_reference_is_bound_in_the_target.
Print Assumptions C10_referenced_path_is_imported_in_target.
Print Assumptions C10_import_alias_binds_the_qualifier.
Print Assumptions C10_qualifiers_are_unambiguous.
Print Assumptions C10_goast_import_case_source_computes_the_model.
Print Assumptions C10_goast_scan_iterates_the_step.
Print Assumptions C10_goast_imports_source_is_within_the_vocabulary.
Print Assumptions C10_restoreIdent_source_computes_the_model.
Print Assumptions C10_restoreIdent_source_is_within_the_vocabulary.
Print Assumptions C10_stored_path_is_independent_of_the_source_package.
Print Assumptions C10_travelling_paths_are_vendor_free.
Print Assumptions C10_stripVendor_source_computes_the_model.
