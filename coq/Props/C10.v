(* C10 -- Moving code between files or packages preserves what it refers to (partial:
   type-checking is go/types' and is judged on the implementation; the theorems say what the
   moved identifier carries and how the target file renders and binds it).
   Composition of C09 (Model/Resolvers.v) and C07 (Model/Imports.v, corresponded). *)
From Coq Require Import List String ZArith NArith Bool.
Import ListNotations.
From DV Require Import Model.Tree Model.Resolvers Model.Imports Proofs.ResolverProofs Proofs.ImportsProofs.
Local Open Scope string_scope.
Local Open Scope list_scope.

(* (1) What travels with the code: an identifier that denotes a package-level object of
   another package -- whether the source file reached it through a qualifier under any name or
   alias, or through a dot-import -- is decorated with that package's import path (vendor prefix
   removed); every other identifier with none. *)
Theorem C10_reference_travels_as_import_path :
  forall local r parent_dot_field, in_avoid parent_dot_field = false ->
  resolve_path false local false parent_dot_field (gotypes_resolve (occurrence_of local r)) = expected_path local r.
Proof. exact gotypes_exact. Qed.

(* (2) In the target file, whatever it imported, aliased, dot-imported or omitted: every
   referenced path is imported, after the update, by a spec carrying the alias chosen for it. *)
Theorem C10_referenced_path_is_imported_in_target :
  forall required aliases found ordered blocks p,
  NoDup (map b_id blocks) -> (forall b, In b blocks -> b_id b <> 0%N) ->
  mem p required = true -> In p ordered ->
  (ahas found p = true -> exists b s, In b blocks /\ In s (b_specs b) /\ s_path s = p) ->
  exists b s, In b (fst (fst (fst (rebuild_blocks required aliases found ordered blocks)))) /\ In s (b_specs b) /\
              s_path s = p /\ s_name s = alias_of aliases p.
Proof. exact required_path_is_imported. Qed.

(* (3) The alias written into that spec binds the name the restored code uses: for a dot-import
   the identifier is bare; otherwise the qualifier equals the alias, or the spec has no alias
   and the qualifier is the resolved package name. *)
Theorem C10_import_alias_binds_the_qualifier :
  forall resolved eff ordered q, NoDup ordered -> In q ordered ->
  let '(names, aliases) := assign_names resolved eff ordered in entry_ok resolved eff names aliases q.
Proof. exact assign_names_bind. Qed.

(* (4) and no two ordinary imports bind the same name, so the qualifier denotes that package
   and no other (C07) -- provided no declaration of the target file shadows it. *)
Theorem C10_qualifiers_are_unambiguous :
  forall resolved eff ordered, NoDup ordered -> NoDup (ordinary (fst (assign_names resolved eff ordered))).
Proof.
  intros resolved eff ordered Hnd. unfold assign_names.
  apply names_distinct; [exact Hnd|intros; reflexivity|constructor].
Qed.

(* the moved reference in a file that already uses the name for another package *)
Example C10_nonvacuous :
  let blocks := [mkBlock [mkSpec "root/x/jsoniter" "json" 1 SNewLine SNewLine] false 100] in
  let resolve := fun p => if String.eqb p "root/enc/json" then Some "json" else Some "jsoniter" in
  match update_imports resolve "root/main" [] blocks ["root/x/jsoniter"; "root/enc/json"] with
  | Done bs _ names _ _ =>
    map (fun b => map (fun s => (s_path s, s_name s)) (b_specs b)) bs = [[("root/enc/json", ""); ("root/x/jsoniter", "json1")]]
    /\ rendered_qualifier "root/main" names "root/enc/json" = Some "json"
    /\ rendered_qualifier "root/main" names "root/x/jsoniter" = Some "json1"
  | _ => False
  end.
Proof. vm_compute. repeat split. Qed.

Print Assumptions C10_reference_travels_as_import_path.
Print Assumptions C10_referenced_path_is_imported_in_target.
Print Assumptions C10_import_alias_binds_the_qualifier.
Print Assumptions C10_qualifiers_are_unambiguous.
