(* C14 -- Apply follows astutil semantics for traversal and cursor edits.
   Gen/ApplyTbl.v is re-extracted on every run from /repo/dstutil/rewrite.go and from
   golang.org/x/tools@v0.1.12 go/ast/astutil/rewrite.go (module cache): the child table of
   application.apply, the bodies of the Cursor edit methods as a slice-operation IR, the
   function-by-function textual comparison with astutil, and the pinned text of the frames
   that Model/Iter.v transcribes by hand (Apply, apply's pre/post frame, applyList). *)
From Coq Require Import List String ZArith NArith Bool.
Import ListNotations.
From DV Require Import Model.Tree Model.Tables Model.Iter Proofs.IterProofs Model.ApplyTree Proofs.ApplyTreeProofs Proofs.ApplyWalk Gen.Universe Gen.WalkTbl Gen.ApplyTbl.
Local Open Scope string_scope.
Local Open Scope list_scope.

(* Table obligations ------------------------------------------------------------------- *)

(* for every kind, apply descends into exactly the Node-typed fields of the struct, in struct
   order, single nodes through a.apply(n, "F", nil, n.F) with the literal name equal to the
   field (so Parent/Name locate the node), slices through applyList(n, "F") *)
Theorem C14_children_complete_and_named : apply_tbl_ok universe apply_tbl = true.
Proof. vm_compute. reflexivity. Qed.

(* kind by kind the children are astutil's, comments (Doc, Comment, Comments) removed *)
Theorem C14_children_match_astutil :
  apply_tbls_agree ["Doc"; "Comment"; "Comments"] (map fst universe) astutil_tbl apply_tbl = true.
Proof. vm_compute. reflexivity. Qed.

(* and they are the children dst.Walk visits, in the same order (C13 gives depth-first order) *)
Theorem C14_children_match_walk : apply_matches_walk walk_tbl apply_tbl (map fst universe) = true.
Proof. vm_compute. reflexivity. Qed.

(* Apply, the Cursor type and all its methods, the iterator, applyList and the frame of
   application.apply (cursor save/restore, pre returning false skips children and post, post
   returning false panics with the abort sentinel that Apply recovers, returning parent.Node)
   are astutil's text with dst. for ast.; the hand-modelled frames have the pinned text *)
Theorem C14_text_is_astutils :
  forallb (fun e => snd e) same_as_astutil && apply_frame_same_as_astutil
  && apply_frame_ok && apply_list_shape_ok && apply_entry_ok = true.
Proof. vm_compute. reflexivity. Qed.

(* the four edit methods are the expected slice programs *)
Theorem C14_methods_are_expected :
  iops_eqb ir_Replace expected_Replace && iops_eqb ir_Delete expected_Delete
  && iops_eqb ir_InsertAfter expected_InsertAfter && iops_eqb ir_InsertBefore expected_InsertBefore = true.
Proof. vm_compute. reflexivity. Qed.

(* Generic theorems ---------------------------------------------------------------------- *)

(* The traversal (Model/ApplyTree.v: the frame of application.apply interpreted over the child table
   above, corresponded on every run against the real Apply with callbacks that return false on
   chosen nodes -- mismatch_C14_apply_tree), for every child table, tree and pair of callbacks: *)

(* pre returns false: the node's children and its post are skipped *)
Theorem C14_pre_false_skips_children_and_post :
  forall tbl cb t parent name index, cb_pre cb (KNode (tid t)) = false ->
  apply_tree tbl cb t parent name index = ([APre (KNode (tid t)) parent name index], false).
Proof. exact pre_false_skips. Qed.

(* post returns false: the traversal stops right there -- the last callback made is that post, every
   post before it returned true (and the tree is still returned: the abort sentinel is recovered in
   Apply, C14_text_is_astutils, and the correspondence compares the returned node) *)
Theorem C14_post_false_stops_the_traversal :
  forall tbl cb t evs, apply_root tbl cb t = (evs, true) -> ~ In AStuck evs ->
  exists pre k, evs = pre ++ [APost k] /\ cb_post cb k = false /\ Forall (quiet cb) pre.
Proof. exact post_false_stops. Qed.

Theorem C14_complete_run_made_no_post_return_false :
  forall tbl cb t evs, apply_root tbl cb t = (evs, false) -> Forall (quiet cb) evs.
Proof. exact complete_run_all_posts_true. Qed.

(* with callbacks that never decline, Apply makes its pre calls for exactly the nodes dst.Walk
   visits, in Walk's order (C13: depth-first, source order) -- for the child tables re-extracted
   from rewrite.go and walk.go, on every tree whose nodes have aligned cases in both tables and
   children of the shapes the tables expect (aligned_tree: evaluated on every tree of a run) *)
Theorem C14_pre_calls_follow_walk_order :
  forall t, aligned_tree walk_tbl apply_tbl t = true ->
  forall parent name index,
  snd (apply_tree apply_tbl always t parent name index) = false /\
  pre_ids (fst (apply_tree apply_tbl always t parent name index)) = visit_ids (walk walk_tbl (fun _ => false) t).
Proof. intros t H. exact (apply_pre_calls_follow_walk walk_tbl apply_tbl t H). Qed.

(* Parent, Name and Index always locate the current node inside its parent: the root under the
   synthetic parent in field "Node"; every other node as the child its parent holds in the field
   of that name, at that index when the field is a list; a nil child as the empty field *)
Theorem C14_cursor_locates_the_node :
  forall cb t, Forall (located t 0%N "Node" (-1)%Z) (fst (apply_root apply_tbl cb t)).
Proof. intros cb t. apply apply_cursor_locates_node. vm_compute. reflexivity. Qed.

(* On every list and at every position the slice programs are the list operations: Replace
   sets the current element, Delete removes it and decrements step, InsertAfter inserts right
   after it and increments step, InsertBefore inserts right before it and increments index. *)
Theorem C14_methods_refine_list_ops :
  forall (A R : list N) (x : N) (s : Z) (c : cop),
  let st := mkI (A ++ x :: R) (List.length A) s in
  run_method (match c with
              | CReplace _ => expected_Replace | CDelete => expected_Delete
              | CInsertAfter _ => expected_InsertAfter | CInsertBefore _ => expected_InsertBefore end)
             (match c with CReplace y | CInsertAfter y | CInsertBefore y => y | CDelete => 0%N end) st
  = Some (cop_abs st c).
Proof. exact methods_refine_list_ops. Qed.

(* For every list and every script in which each visit issues any sequence of Replace,
   InsertBefore and InsertAfter followed by at most one Delete: the loop visits exactly the
   original elements, each once, in order; inserted and replacement nodes are never visited;
   the final list is the splice of what every visit left. *)
Theorem C14_each_original_visited_once :
  forall script, (forall x k, delete_last (script x k) = true) ->
  forall l, apply_list (S (List.length l)) script l 0 0 = Some (l, splice script l 0).
Proof.
  intros script Hs l. exact (apply_list_visits_once script Hs l [] 0 (S (List.length l)) (Nat.lt_succ_diag_r _)).
Qed.

(* The restriction is needed -- in dstutil and astutil alike (recorded finding
   delete-then-insert-same-visit): after Delete, an InsertAfter in the same visit is visited
   and the next original element is skipped. *)
Theorem C14_unrestricted_visit_once_refuted :
  exists script l vis fin, apply_list 10 script l 0 0 = Some (vis, fin) /\ vis <> l.
Proof.
  exists (fun (x : N) (k : nat) => if N.eqb x 2 then [CDelete; CInsertAfter 9%N] else []), [1; 2; 3; 4]%N.
  eexists. eexists. split; [vm_compute; reflexivity|discriminate].
Qed.

(* the same holds for the other edits after Delete (recorded findings delete-then-replace-same-visit
   and delete-twice-same-visit): Replace after Delete overwrites the next, unvisited element and the
   replacement is visited; a second Delete removes the next element and steps the loop backwards,
   so an element is visited twice *)
Example C14_replace_after_delete_refuted :
  apply_list 10 (fun (x : N) (k : nat) => if N.eqb x 2 then [CDelete; CReplace 9%N] else []) [1; 2; 3; 4]%N 0 0
  = Some ([1; 2; 9; 4]%N, [1; 9; 4]%N).
Proof. vm_compute. reflexivity. Qed.

Example C14_delete_twice_refuted :
  exists vis fin, apply_list 10 (fun (x : N) (k : nat) => if N.eqb x 2 then [CDelete; CDelete] else []) [1; 2; 3; 4]%N 0 0
  = Some (vis, fin) /\ vis <> [1; 2; 3; 4]%N /\ ~ In 3%N vis.
Proof. eexists. eexists. split; [vm_compute; reflexivity|]. split; [discriminate|]. cbn. intuition discriminate. Qed.

Example C14_nonvacuous :
  let script := fun (x : N) (k : nat) =>
    if N.eqb x 2 then [CInsertBefore 20%N; CInsertAfter 21%N; CInsertAfter 22%N; CReplace 23%N]
    else if N.eqb x 3 then [CInsertAfter 30%N; CDelete] else [] in
  (forall x k, delete_last (script x k) = true) /\
  apply_list 5 script [1; 2; 3; 4]%N 0 0 = Some ([1; 2; 3; 4]%N, [1; 20; 23; 22; 21; 30; 4]%N).
Proof.
  split; [|vm_compute; reflexivity].
  intros x k. cbn. destruct (N.eqb x 2); [reflexivity|]. destruct (N.eqb x 3); reflexivity.
Qed.

Print Assumptions C14_pre_calls_follow_walk_order.
Print Assumptions C14_pre_false_skips_children_and_post.
Print Assumptions C14_post_false_stops_the_traversal.
Print Assumptions C14_complete_run_made_no_post_return_false.
Print Assumptions C14_cursor_locates_the_node.
Print Assumptions C14_children_complete_and_named.
Print Assumptions C14_children_match_astutil.
Print Assumptions C14_children_match_walk.
Print Assumptions C14_text_is_astutils.
Print Assumptions C14_methods_are_expected.
Print Assumptions C14_methods_refine_list_ops.
Print Assumptions C14_each_original_visited_once.
Print Assumptions C14_unrestricted_visit_once_refuted.
