(* C07 -- Import-managed restore binds each reference to its package; imports stay exact.
   Model/Imports.v is a hand model of FileRestorer.updateImports (decorator/restorer.go),
   corresponded on every run against the real restorer on generated import configurations
   (blocks, aliases, referenced paths, Alias overrides, resolver maps) -- Cases/C07_cases.v.
   Gen/ImportsSrc.v holds static facts re-extracted from restorer.go on every run. *)
From Coq Require Import List String ZArith NArith Bool.
Import ListNotations.
From DV Require Import Proofs.PathOrderLaws.
From Coq Require Import Sorted Permutation.
From DV Require Import Proofs.ImportLoopsProofs.
From DV Require Import Model.Decision Gen.DecisionSrc Proofs.PathOrderProofs.
From DV Require Import Model.Tree Model.Imports Proofs.ImportsProofs Proofs.ImportsExact Gen.ImportsSrc.
Local Open Scope string_scope.
Local Open Scope list_scope.

(* Source facts: required imports are sorted (packagePathOrderLess) before names are assigned --
   the choice of who is renamed in a conflict does not follow map iteration order *)
Theorem C07_conflicts_resolved_in_sorted_order : imports_sorted_before_names = true.
Proof. vm_compute. reflexivity. Qed.

(* The conflict loop  for conflict(current) { current = preferred + modifier; modifier++ }
   terminates (within one more step than there are names) on a name no import uses yet -- or on the
   empty name, which binds nothing (dot and anonymous imports, the cgo import "C") and conflicts with
   nothing. *)
Theorem C07_conflict_loop_finds_a_free_name :
  forall names pref, let r := find_free (S (List.length names)) names pref pref 1 in
                     (negb (String.eqb r "") && mem r names) = false.
Proof. exact find_free_is_free. Qed.

(* Names bound by ordinary imports (not dot, not blank) are pairwise distinct, for every set of
   required paths, every resolver name map and every alias assignment. *)
Theorem C07_import_names_pairwise_distinct :
  forall resolved eff ordered, NoDup ordered ->
  NoDup (ordinary (fst (assign_names resolved eff ordered))).
Proof.
  intros resolved eff ordered Hnd. unfold assign_names.
  apply names_distinct; [exact Hnd|intros; reflexivity|constructor].
Qed.

(* After a successful update the managed import blocks contain nothing but required paths:
   referenced paths, "C" if it was imported, and blank imports. *)
Theorem C07_only_required_imports_remain :
  forall resolve local alias all_blocks used bs del names nb added,
  update_imports resolve local alias all_blocks used = Done bs del names nb added ->
  forall b s, In b bs -> In s (b_specs b) -> mem (s_path s) (required_paths local alias all_blocks used) = true.
Proof. exact only_required_imports_remain. Qed.

(* Blocks that need no addition and no renaming are left exactly as they are: same specs in
   the same order, same aliases, same spacing, same parentheses; no block is created or
   deleted. *)
Theorem C07_blocks_without_additions_are_kept :
  forall required aliases found ordered blocks,
  filter (fun p => negb (ahas found p)) ordered = [] ->
  (forall b s, In b blocks -> In s (b_specs b) -> mem (s_path s) required = true /\ alias_of aliases (s_path s) = s_name s) ->
  rebuild_blocks required aliases found ordered blocks = (blocks, [], false, false).
Proof. exact rebuild_noop. Qed.

(* "the import declarations contain each referenced path exactly once": at least once is
   C07_every_reference_is_bound_by_its_import below; at most once -- a file whose import
   declarations name no path twice is restored with import declarations that name no path twice,
   whatever had to be added, renamed, sorted or removed (a source that does import one path twice
   is the recorded finding duplicate-path-import, C07_duplicate_path_refuted). *)
Theorem C07_each_path_at_most_once :
  forall resolve local alias all_blocks used bs del names nb added,
  update_imports resolve local alias all_blocks used = Done bs del names nb added ->
  NoDup (spec_paths all_blocks) -> NoDup (spec_paths bs).
Proof. exact each_path_at_most_once. Qed.

(* The binding clause of the property, for every configuration of blocks, aliases, Alias map,
   resolver and referenced paths: every referenced non-local path is imported by a spec of the
   managed blocks and that spec binds exactly the qualifier the restored code writes -- a bare
   identifier where a dot-import is in effect, otherwise a selector on the non-empty name the spec
   binds (its alias, or the resolved package name when it has none). *)
Theorem C07_every_reference_is_bound_by_its_import :
  forall resolve local alias all_blocks used bs del names nb added,
  update_imports resolve local alias all_blocks used = Done bs del names nb added ->
  let blocks := filter (fun b => negb (is_cgo_only b)) all_blocks in
  NoDup (map b_id blocks) -> (forall b, In b blocks -> b_id b <> 0%N) ->
  (forall p, p <> "C" -> In p (spec_paths all_blocks) -> In p (spec_paths blocks)) ->
  (forall p n, resolve p = Some n -> n <> "") ->
  forall p, In p (in_use local used) -> p <> "C" ->
  exists b s, In b bs /\ In s (b_specs b) /\ s_path s = p /\
    ((eff_alias (eff_of local alias all_blocks used) p = "." /\ s_name s = "." /\ rendered_qualifier local names p = None) \/
     (eff_alias (eff_of local alias all_blocks used) p <> "." /\
      exists n, n <> "" /\ rendered_qualifier local names p = Some n /\ bound_name resolve s = Some n)).
Proof. exact reference_is_bound. Qed.

(* Alias precedence, for every source alias table, Alias map and set of referenced paths (both are
   Go maps: keys are unique): an alias given to the file restorer beats the alias in the source; an
   empty entry removes the source's alias; without an entry the source's alias stands; "_" never
   stands for a referenced path. *)
Theorem C07_alias_map_beats_source_alias_beats_nothing :
  forall found alias inuse p, NoDup (map fst found) -> NoDup (map fst alias) ->
  aget (effective_alias found alias inuse) p =
  match aget alias p with
  | Some a => if usable inuse p a then Some a
              else if String.eqb a "" then None else from_source found inuse p
  | None => from_source found inuse p
  end.
Proof. exact effective_alias_precedence. Qed.

(* ... and the effective alias beats the resolved package name: the name that binds an ordinary
   import is its effective alias when it has one and the resolved name otherwise, followed by a
   decimal counter only when every smaller candidate is already taken by an import that sorts
   before it (conflicts renamed deterministically). *)
Theorem C07_effective_alias_beats_resolved_name :
  forall resolved names path preferred,
  let pref := if negb (String.eqb preferred "") then preferred else res_name resolved path in
  exists k, fst (find_alias resolved names path preferred) = cand pref k /\
            (forall j, j < k -> mem (cand pref j) (values names) = true /\ cand pref j <> "") /\
            (k = 0 \/ cand pref 0 <> "").
Proof. exact chosen_name_prefers_alias. Qed.

(* the table of source aliases the theorem above is about has unique keys *)
Theorem C07_source_alias_table_is_a_map : forall bs, NoDup (map fst (imports_found bs)).
Proof. exact imports_found_keys_NoDup. Qed.

(* Alias precedence on a concrete run: an entry of the Alias map overrides the alias found in the source. *)
Example C07_alias_map_beats_source_alias :
  let blocks := [mkBlock [mkSpec "fmt" "f" 1 SNewLine SNewLine] false 100] in
  match update_imports (fun p => Some p) "self" [("fmt", "g")] blocks ["fmt"] with
  | Done bs _ names _ _ => map (fun b => map (fun s => (s_path s, s_name s)) (b_specs b)) bs = [[("fmt", "g")]]
                           /\ rendered_qualifier "self" names "fmt" = Some "g"
  | _ => False
  end.
Proof. vm_compute. split; reflexivity. Qed.

(* Recorded finding duplicate-path-import: a (legal) file importing one path under two names
   comes back with both specs carrying one name. *)
Example C07_duplicate_path_refuted :
  let blocks := [mkBlock [mkSpec "fmt" "" 1 SNewLine SNewLine; mkSpec "fmt" "f2" 2 SNewLine SNewLine] true 100] in
  match update_imports (fun p => Some p) "self" [] blocks ["fmt"] with
  | Done bs _ _ _ _ => map (fun b => map (fun s => (s_path s, s_name s)) (b_specs b)) bs = [[("fmt", "f2"); ("fmt", "f2")]]
  | _ => False
  end.
Proof. vm_compute. reflexivity. Qed.

Example C07_nonvacuous :
  let blocks := [mkBlock [mkSpec "math/rand" "" 1 SNewLine SNewLine; mkSpec "os" "_" 2 SNewLine SNewLine] true 100] in
  let resolve := fun p => if String.eqb p "crypto/rand" then Some "rand" else if String.eqb p "math/rand" then Some "rand" else Some p in
  match update_imports resolve "self" [] blocks ["math/rand"; "crypto/rand"; "self"; ""] with
  | Done bs del names nb added =>
    map (fun b => map (fun s => (s_path s, s_name s)) (b_specs b)) bs = [[("crypto/rand", ""); ("math/rand", "rand1"); ("os", "_")]]
    /\ rendered_qualifier "self" names "math/rand" = Some "rand1" /\ rendered_qualifier "self" names "crypto/rand" = Some "rand"
    /\ rendered_qualifier "self" names "self" = None /\ added = true /\ nb = false
  | _ => False
  end.
Proof. vm_compute. repeat split. Qed.


(* packagePathOrderLess -- the order in which required imports are named (who keeps the plain name, who gets the counter) and listed -- is translated from restorer.go on every run
   (a decision program: one guarded return, one return) and proved to compute Model/Imports.path_less for
   every pair of paths: paths with a dot after paths without, otherwise by string order *)
Theorem C07_path_order_source_computes_the_model :
  forall a b,
    match run (order_val a b) packagepathorderless_src with
    | OReturn (DVal s) => order_sym a b s = Some (Model.Imports.path_less a b)
    | _ => False
    end.
Proof. exact path_order_source_is_model. Qed.

Theorem C07_path_order_source_is_within_the_vocabulary : order_vocabulary_ok = true.
Proof. vm_compute. reflexivity. Qed.


(* Three loops of updateImports are translated on every run, one decision program per iteration
   (Gen/DecisionSrc.v): the effective alias of every path -- first from the import blocks (an empty Alias-map
   entry removes the source's alias, a blank import of a package in use is dropped), then from the Alias map --
   and "anonymous imports are required".  Each body is proved to be the step function of the model's fold,
   for every path, alias, Alias map, set of packages in use and map built so far; the model's
   effective_alias IS the two folds. *)
Theorem C07_effective_alias_loops_source_computes_the_model :
  (forall p a manual inuse m,
     eff_outcome p a m (run (eff_val p a manual inuse) effalias_found_src) = Some (found_step manual inuse m (p, a))) /\
  (forall p a inuse m,
     eff_outcome p a m (run (eff_val p a [] inuse) effalias_manual_src) = Some (manual_step inuse m (p, a))) /\
  (forall found manual inuse,
     Model.Imports.effective_alias found manual inuse
     = fold_left (manual_step inuse) manual (fold_left (found_step manual inuse) found [])).
Proof.
  split; [exact effalias_found_source_is_model|].
  split; [exact effalias_manual_source_is_model | exact effective_alias_is_the_two_loops].
Qed.

Theorem C07_anonymous_imports_required_source_computes_the_model :
  (forall p a acc,
    match run (eff_val p a [] []) anonymous_required_src with
    | OReturn (DVal s) => String.eqb s S_SET_REQ = true /\ anon_step acc (p, a) = acc ++ [p]
    | OFall => anon_step acc (p, a) = acc
    | _ => False
    end) /\
  (forall eff acc, fold_left anon_step eff acc = acc ++ map fst (filter (fun pa => String.eqb (snd pa) "_") eff)).
Proof. split; [exact anonymous_required_source_is_model | intros; apply anon_fold]. Qed.

Theorem C07_import_loops_are_within_the_vocabulary : import_loops_vocabulary_ok = true.
Proof. vm_compute. reflexivity. Qed.


(* non-vacuity: the two translated loops on a concrete configuration -- the source aliases a/x as ax, imports
   b/y blank and c/z plain; the Alias map removes the alias of a/x and names c/z cz; b/y is in use *)
Example C07_effective_alias_loops_run :
  let found := [("a/x", "ax"); ("b/y", "_"); ("c/z", "")] in
  let manual := [("a/x", ""); ("c/z", "cz")] in
  let inuse := ["b/y"; "c/z"] in
  fold_left (manual_step inuse) manual (fold_left (found_step manual inuse) found []) = [("c/z", "cz")]
  /\ Model.Imports.effective_alias found manual inuse = [("c/z", "cz")]
  /\ eff_outcome "c/z" "cz" [] (run (eff_val "c/z" "cz" [] inuse) effalias_manual_src) = Some [("c/z", "cz")].
Proof. vm_compute. repeat split; reflexivity. Qed.

(* packagePathOrderLess is a strict total order on import paths (irreflexive, transitive, total), so the
   sorted arrangement of a duplicate-free list of paths is unique: ANY sorted rearrangement -- whatever
   algorithm sort.Slice runs, which is neither stable nor specified -- is the model's sort_by, and the
   result does not depend on the order in which the paths were collected (Go map iteration order) *)
Theorem C07_path_order_is_a_strict_total_order :
  (forall a, Model.Imports.path_less a a = false) /\
  (forall a b c, Model.Imports.path_less a b = true -> Model.Imports.path_less b c = true -> Model.Imports.path_less a c = true) /\
  (forall a b, a <> b -> Model.Imports.path_less a b = true \/ Model.Imports.path_less b a = true).
Proof. exact (conj path_less_irrefl (conj path_less_trans path_less_total)). Qed.

Theorem C07_any_sort_by_the_path_order_is_the_models : forall l l',
  NoDup l -> Permutation l l' -> StronglySorted pl l' -> l' = Model.Imports.sort_by (fun p => p) l.
Proof. exact any_sort_is_the_models. Qed.

Theorem C07_sorted_paths_ignore_collection_order : forall l l',
  NoDup l -> Permutation l l' -> Model.Imports.sort_by (fun p => p) l' = Model.Imports.sort_by (fun p => p) l.
Proof. exact sort_by_ignores_collection_order. Qed.

Example C07_path_order_laws_are_not_vacuous :
  Model.Imports.sort_by (fun s => s) ["golang.org/x/b"; "fmt"; "a.b/c"; "os"]%string = ["fmt"; "os"; "a.b/c"; "golang.org/x/b"]%string /\
  Model.Imports.sort_by (fun s => s) ["os"; "a.b/c"; "golang.org/x/b"; "fmt"]%string = ["fmt"; "os"; "a.b/c"; "golang.org/x/b"]%string.
Proof. exact path_order_laws_nonvacuous. Qed.

(* the same for import specs sorted by their path (the rearrangement of the first import block after an
   addition, sort.Slice over blocks[0].Specs): when no path occurs twice in the block, any rearrangement
   sorted by packagePathOrderLess is the model's sort_by s_path *)
Theorem C07_any_sort_of_specs_by_path_is_the_models : forall (l l' : list Model.Imports.spec),
  NoDup (map Model.Imports.s_path l) -> Permutation l l' -> StronglySorted (plk Model.Imports.s_path) l' ->
  l' = Model.Imports.sort_by Model.Imports.s_path l.
Proof. exact (any_sort_is_the_models_k Model.Imports.s_path). Qed.

Print Assumptions C07_conflicts_resolved_in_sorted_order.
Print Assumptions C07_conflict_loop_finds_a_free_name.
Print Assumptions C07_import_names_pairwise_distinct.
Print Assumptions C07_only_required_imports_remain.
Print Assumptions C07_blocks_without_additions_are_kept.
Print Assumptions C07_each_path_at_most_once.
Print Assumptions C07_every_reference_is_bound_by_its_import.
Print Assumptions C07_alias_map_beats_source_alias_beats_nothing.
Print Assumptions C07_effective_alias_beats_resolved_name.
Print Assumptions C07_source_alias_table_is_a_map.
Print Assumptions C07_path_order_source_computes_the_model.
Print Assumptions C07_path_order_source_is_within_the_vocabulary.
Print Assumptions C07_effective_alias_loops_source_computes_the_model.
Print Assumptions C07_anonymous_imports_required_source_computes_the_model.
Print Assumptions C07_import_loops_are_within_the_vocabulary.
Print Assumptions C07_effective_alias_loops_run.
Print Assumptions C07_path_order_is_a_strict_total_order.
Print Assumptions C07_any_sort_by_the_path_order_is_the_models.
Print Assumptions C07_sorted_paths_ignore_collection_order.
Print Assumptions C07_any_sort_of_specs_by_path_is_the_models.
