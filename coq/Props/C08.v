(* C08 -- Import management is transparent when nothing changes.
   Model/Merge.v is a hand model of decorateSelectorExpr / mergeDecorations
   (decorator/decorator.go); Model/Imports.v of updateImports (corresponded, see C07);
   the restorer state machine Model/Restore.v includes restoreIdent's expansion
   (selector_acts), corresponded against the real restorer on import-managed cases. *)
From Coq Require Import List String ZArith NArith Bool.
Import ListNotations.
From DV Require Import Model.Decision Gen.DecisionSrc Proofs.RestoreIdentProofs.
From DV Require Import Model.Tree Model.Tables Model.Restore Model.Merge Model.Imports
     Proofs.RestoreProofs Proofs.MergeProofs Proofs.ImportsProofs
     Model.MergeProg Gen.MergeSrc Proofs.MergeSrcProofs.
Local Open Scope string_scope.
Local Open Scope list_scope.
Local Open Scope Z_scope.

(* Collapsing a qualified identifier keeps every comment of its three ast nodes, in source
   order, exactly once, in the slot of the identifier that is rendered at the same place:
   Start = n.Start, X.Start;  X = X.End, n.X, Sel.Start;  End = Sel.End, n.End. *)
Theorem C08_collapse_keeps_every_comment :
  forall sl,
  comment_uids (i_start (collapse sl)) = comment_uids (n_start sl) ++ comment_uids (x_start sl) /\
  comment_uids (i_x (collapse sl)) = comment_uids (x_end sl) ++ comment_uids (n_x sl) ++ comment_uids (s_start sl) /\
  comment_uids (i_end (collapse sl)) = comment_uids (s_end sl) ++ comment_uids (n_end sl).
Proof.
  intros sl. unfold collapse. cbn [i_start i_x i_end]. rewrite !merge_keeps_comments. cbn [item_comments].
  rewrite !app_nil_r. repeat split; reflexivity.
Qed.

(* Line breaks: restoring the merged decoration list emits exactly as many line breaks as
   restoring the original decoration lists and spacings one after the other with the
   restorer's non-additive rule, and leaves the cursor in the same relation to the last line
   break -- for every sequence of decoration lists and spacings, whenever mergeDecorations'
   endsWithNewLine describes the restorer's state at that point. *)
Theorem C08_merged_spacing_renders_the_same_line_breaks :
  forall id kind name isend items s1 s2,
  (String.eqb kind "File" && String.eqb name "Start" = false) ->
  W s1 -> W s2 -> isfresh s1 = isfresh s2 -> items_rendered items ->
  let t1 := fold_left (run_item id kind name isend) items s1 in
  let t2 := apply_decs s2 id kind name isend (merge (isfresh s2) items) in
  nlines t1 - nlines s1 = nlines t2 - nlines s2 /\ isfresh t1 = isfresh t2.
Proof. exact merge_keeps_line_breaks. Qed.

(* mergeDecorations always starts with endsWithNewLine = false; after a line break (the
   identifier's own Before spacing) a spacing on X would be rendered additively.  The
   decorator never produces that combination (the line break before a selector is attached
   to the outermost node); the byte-level oracle covers it. *)
Example C08_merge_needs_matching_state :
  let s := apply_space (mkR 1 10 0 [0] [] [] [] None) false false SNewLine in
  nlines (apply_space s false false SNewLine) - nlines s = 0 /\
  nlines (apply_decs s 1 "Ident" "Start" false (merge false [MSpace SNewLine])) - nlines s = 1.
Proof. vm_compute. split; reflexivity. Qed.

(* Imports: when every required path is already imported and no alias has to change, the
   import declarations are returned untouched -- not reordered, not re-parenthesised, not
   re-spaced; no block created or deleted. *)
Theorem C08_imports_untouched_when_nothing_changes :
  forall required aliases found ordered blocks,
  filter (fun p => negb (ahas found p)) ordered = [] ->
  (forall b s, In b blocks -> In s (b_specs b) -> mem (s_path s) required = true /\ alias_of aliases (s_path s) = s_name s) ->
  rebuild_blocks required aliases found ordered blocks = (blocks, [], false, false).
Proof. exact rebuild_noop. Qed.

Example C08_nonvacuous :
  let sl := mkSlots SNewLine [DBlock 5 [] 1] SNone [] [DLine 4 2] SNone [] SNewLine [DBlock 5 [] 3] [] SNone [DLine 4 4] SEmptyLine in
  collapse sl = mkID SNewLine [DBlock 5 [] 1] [DLine 4 2; DBlock 5 [] 3] [DLine 4 4] SEmptyLine.
Proof. vm_compute. reflexivity. Qed.

(* mergeDecorations is not only transcribed by hand: the translator renders it case by case into a merge
   program (Gen/MergeSrc.v: what happens to endsWithNewLine and out for a decoration list and for each
   line spacing value; the default case panics) and the program is proved to compute Model/Merge.merge for
   EVERY argument list (induction over the arguments from an arbitrary state of the two variables) *)
Theorem C08_mergeDecorations_source_computes_the_model :
  forall items, ms_out (mrun mergeDecorations_src items) = merge false items
                /\ ms_stuck (mrun mergeDecorations_src items) = false.
Proof. exact merge_source_is_model. Qed.

Theorem C08_merge_source_is_within_the_language : mprog_known mergeDecorations_src = true.
Proof. vm_compute. reflexivity. Qed.

(* the three calls in decorateSelectorExpr pass the slots in the order of Model/Merge.collapse and
   append the result to the Start, X and End decorations of the identifier (which map entry each local
   holds is part of the hand model, corresponded) *)
Theorem C08_merge_calls_are_the_models :
  merge_calls = [("Start", ["nStart"; "xBefore"; "xStart"]);
                 ("X", ["xEnd"; "xAfter"; "nX"; "sBefore"; "sStart"]);
                 ("End", ["sEnd"; "sAfter"; "nEnd"])].
Proof. vm_compute. reflexivity. Qed.


(* non-vacuity: the translated mergeDecorations run on a concrete argument list (a line comment, an empty
   line -- of which one break is already there --, an empty list, a line break that is already there, a
   block comment) *)
Example C08_merge_source_runs :
  let items := [MDecs [DLine 3 1]; MSpace SEmptyLine; MDecs []; MSpace SNewLine; MDecs [DBlock 4 [] 2]] in
  ms_out (mrun mergeDecorations_src items) = [DLine 3 1; DNl; DBlock 4 [] 2]
  /\ merge false items = [DLine 3 1; DNl; DBlock 4 [] 2].
Proof. vm_compute. split; reflexivity. Qed.


(* restoreIdent decides which identifiers come back as package.Name and under which name.  Its decision part
   is translated on every run (the conditional assignments to `name` fork the rest of the function; the
   statements that build the selector are pinned against the model's selector_acts and form one outcome) and
   proved, for every input, to compute: panic without a resolver or at an illegal position; a bare identifier
   when there is no path, the path is the restorer's own, or the chosen name is empty (dot-import); otherwise
   a selector on exactly the name updateImports chose for the path -- which is the choice the restorer
   model makes at an identifier (node_acts) *)
Theorem C08_restoreIdent_source_computes_the_model :
  (forall resolver_nil path_empty avoid_hit same_path pname,
    ident_outcome pname (run (ident_val resolver_nil path_empty avoid_hit same_path pname) restoreident_src)
    = Some (restore_ident_mode resolver_nil path_empty avoid_hit same_path pname)) /\
  (forall managed pu_zero same_path pname,
    erase (restore_ident_mode (negb managed) pu_zero false same_path pname)
    = node_acts_mode managed pu_zero (pk_of same_path pname)).
Proof. split; [exact restoreident_source_is_model | exact restore_ident_mode_is_the_models_choice]. Qed.

Theorem C08_restoreIdent_source_is_within_the_vocabulary : restoreident_vocabulary_ok = true.
Proof. vm_compute. reflexivity. Qed.


(* ... and which map entry each of those locals holds is read off the source as well (Gen/MergeSrc.v:
   merge_slots): resolving the locals of the three calls gives exactly the thirteen slots
   {1}{2}{3}{4}[X].{5}{6}{7}{8}{9}[Sel]{10}{11}{12}{13} of Model/Merge.collapse -- Before and After of the
   selector copied, Start = n.Start, X.Before, X.Start; X = X.End, X.After, n.X, Sel.Before, Sel.Start;
   End = Sel.End, Sel.After, n.End *)
Definition slot_of (x : string) : string * string * string :=
  match List.find (fun e => String.eqb (fst (fst (fst e))) x) merge_slots with
  | Some (_, m, node, point) => (m, node, point)
  | None => ("?", "?", "?")
  end.

Theorem C08_merge_slots_are_the_models :
  (slot_of "out.Decs.Before", slot_of "out.Decs.After",
   map (fun c => (fst c, map slot_of (snd c))) merge_calls)
  = (("before", "n", ""), ("after", "n", ""),
     [("Start", [("decorations", "n", "Start"); ("before", "n.X", ""); ("decorations", "n.X", "Start")]);
      ("X", [("decorations", "n.X", "End"); ("after", "n.X", ""); ("decorations", "n", "X");
             ("before", "n.Sel", ""); ("decorations", "n.Sel", "Start")]);
      ("End", [("decorations", "n.Sel", "End"); ("after", "n.Sel", ""); ("decorations", "n", "End")])])
  /\ List.length merge_slots = 13%nat.
Proof. vm_compute. split; reflexivity. Qed.

Print Assumptions C08_collapse_keeps_every_comment.
Print Assumptions C08_merged_spacing_renders_the_same_line_breaks.
Print Assumptions C08_imports_untouched_when_nothing_changes.
Print Assumptions C08_mergeDecorations_source_computes_the_model.
Print Assumptions C08_merge_source_is_within_the_language.
Print Assumptions C08_merge_calls_are_the_models.
Print Assumptions C08_merge_source_runs.
Print Assumptions C08_restoreIdent_source_computes_the_model.
Print Assumptions C08_restoreIdent_source_is_within_the_vocabulary.
Print Assumptions C08_merge_slots_are_the_models.
