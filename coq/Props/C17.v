(* C17 -- Resolver failures surface as errors and leave the tree reusable.
   Gen/ImportsSrc.v, Gen/ErrProp.v, Gen/DecTbl.v are re-extracted from /repo on every run;
   Model/Imports.v is corresponded against the real restorer (Cases/C17_cases.v). *)
From Coq Require Import List String ZArith NArith Bool.
Import ListNotations.
From DV Require Import Model.Decision Gen.DecisionSrc Proofs.ParseFileProofs.
From DV Require Import Model.Decision Gen.DecisionSrc Proofs.ImportLoopsProofs.
From DV Require Import Model.Tree Model.Tables Model.Maps Model.Imports Proofs.ImportsProofs
     Gen.ImportsSrc Gen.ErrProp Gen.DecTbl Gen.Universe.
Local Open Scope string_scope.
Local Open Scope list_scope.

(* Source facts --------------------------------------------------------------------------- *)

(* restore: in updateImports no statement up to and including the last ResolvePackage call
   writes outside the function's own local maps; the resolver's error is returned wrapped
   with %w; RestoreFile runs updateImports and returns its error before restoring any node *)
Theorem C17_restore_resolves_before_it_mutates :
  imports_resolve_before_mutation && imports_error_wrapped && restorefile_updates_imports_first = true.
Proof. vm_compute. reflexivity. Qed.

(* decorate / restore / save: in every hand-written function on the path of a resolver error
   each  x, err := call(...)  is immediately followed by  if err != nil { return ..., err } *)
Theorem C17_errors_are_propagated : forallb (fun e => snd e) err_propagation = true.
Proof. vm_compute. reflexivity. Qed.

(* decorate: every decorateNode case checks the error of each recursive call (the translator
   recognises a child statement only with its error check), and no statement of any case
   assigns through the input ast *)
Theorem C17_decorator_checks_errors_and_writes_nothing :
  forallb (fun e => dec_no_bad (snd e)) dec_tbl && dec_frame_ok = true.
Proof. vm_compute. reflexivity. Qed.

(* Model theorems -------------------------------------------------------------------------- *)

(* A failing update reports a referenced path the resolver rejects and returns nothing else
   (in the model the input is a value: there is no modified file to return). *)
Theorem C17_failure_is_an_unresolvable_reference :
  forall resolve local alias all_blocks used p,
  update_imports resolve local alias all_blocks used = Failed p ->
  In p (in_use local used) /\ resolve p = None /\ ahas (eff_of local alias all_blocks used) p = false.
Proof. exact update_imports_failure. Qed.

(* No other failure: if every referenced, non-aliased path resolves the update succeeds --
   so a retry with a working resolver goes through, and being a function of its inputs gives
   what a failure-free run gives. *)
Theorem C17_working_resolver_succeeds :
  forall resolve local alias all_blocks used,
  (forall p, In p (in_use local used) -> ahas (eff_of local alias all_blocks used) p = false -> resolve p <> None) ->
  exists bs del names nb added, update_imports resolve local alias all_blocks used = Done bs del names nb added.
Proof. exact update_imports_succeeds. Qed.

Example C17_nonvacuous :
  let blocks := [mkBlock [mkSpec "fmt" "" 1 SNewLine SNewLine] false 100] in
  update_imports (fun p => if String.eqb p "os" then None else Some p) "self" [] blocks ["fmt"; "os"] = Failed "os"
  /\ (exists bs d n nb a, update_imports (fun p => Some p) "self" [] blocks ["fmt"; "os"] = Done bs d n nb a).
Proof. split; [vm_compute; reflexivity|]. vm_compute. eauto 10. Qed.


(* The loop of updateImports that asks the package-name resolver is translated on every run (one decision
   program per iteration: skip a path that has an effective alias, else call the resolver, end the function
   with an error when it fails, else record the name) and proved to be the step of the model's resolve_all,
   which is the iteration of that step: the first failing path, in sorted order, is the one reported, and
   nothing but the local table `resolved` has been written by then *)
Theorem C17_resolve_loop_source_computes_the_model :
  (forall resolve eff p acc,
    match run (res_val resolve eff p) resolve_names_src with
    | OReturn (DVal s) =>
      if String.eqb s S_CONTINUE then res_step resolve eff p acc = inr acc
      else if String.eqb s S_SET_RESOLVED
           then exists n, resolve p = Some n /\ res_step resolve eff p acc = inr (Model.Imports.aset acc p n)
           else False
    | OReturn DErr => res_step resolve eff p acc = inl p
    | _ => False
    end) /\
  (forall resolve eff p r acc,
    Model.Imports.resolve_all resolve eff (p :: r) acc
    = match res_step resolve eff p acc with inl e => inl e | inr acc' => Model.Imports.resolve_all resolve eff r acc' end).
Proof. split; [exact resolve_names_source_is_model | exact resolve_all_by_steps]. Qed.

Theorem C17_resolve_loop_is_within_the_vocabulary : import_loops_vocabulary_ok = true.
Proof. vm_compute. reflexivity. Qed.


(* Decorator.ParseFile (and Parse, ParseDir's per-file use) is translated on every run (functions with several
   results: "return a, b" as one symbol, "a, b := CALL" as the two components of the call) and proved to
   compute, for every answer of the parser and of the decoration: nothing and the parser's error when the
   parser returned no file or a placeholder without a position; else nothing and the decoration's error (a
   failing resolver) whatever the parser reported; else the decorated file together with the parser's error *)
Theorem C17_parsefile_source_computes_the_model :
  (forall perr_nil file_nil pos_valid dec_fails,
    pf_outcome (run (pf_val perr_nil file_nil pos_valid dec_fails) parsefile_src)
    = Some (parsefile_spec perr_nil file_nil pos_valid dec_fails)) /\
  (forall perr_nil, parsefile_spec perr_nil false true true = NothingWithDecorationError).
Proof. split; [exact parsefile_source_is_model | exact decoration_error_wins]. Qed.

Theorem C17_parsefile_source_is_within_the_vocabulary : parsefile_vocabulary_ok = true.
Proof. vm_compute. reflexivity. Qed.

Print Assumptions C17_restore_resolves_before_it_mutates.
Print Assumptions C17_errors_are_propagated.
Print Assumptions C17_decorator_checks_errors_and_writes_nothing.
Print Assumptions C17_failure_is_an_unresolvable_reference.
Print Assumptions C17_working_resolver_succeeds.
Print Assumptions C17_resolve_loop_source_computes_the_model.
Print Assumptions C17_resolve_loop_is_within_the_vocabulary.
Print Assumptions C17_parsefile_source_computes_the_model.
Print Assumptions C17_parsefile_source_is_within_the_vocabulary.
