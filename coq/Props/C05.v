(* C05 -- Before/After spacing renders by the documented non-additive rule.
   applySpace / applyDecorations are the hand model Model/Restore.v (corresponded against
   restorer.go on every run); Gen/RestTbl.v gives where every case applies spacing. *)
From Coq Require Import List String ZArith NArith Bool.
Import ListNotations.
From DV Require Import Model.Cursor Gen.CursorSrc Proofs.CursorProofs.
From DV Require Import Model.Tree Model.Tables Model.Restore Model.RestoreChecks Proofs.RestoreProofs
     Model.Skeleton Model.FragSkel Gen.Universe Gen.RestTbl Gen.FragTbl.
Local Open Scope Z_scope.

(* Table obligation: in every case Before spacing is applied before anything the node emits
   and After spacing after everything (Package has no spacing). *)
Theorem C05_spacing_brackets_node : rest_space_ok universe rest_tbl = true.
Proof. vm_compute. reflexivity. Qed.

(* Table obligation: the cursor moves between two spacings only over what is printed -- the restorer
   advances over a token, a string or a bad span under exactly the conditions under which the
   decorator emits the fragment for it (an implicit empty statement, an absent parenthesis, an absent
   "func" keyword advance nothing): "directly after a line break" (cursor = cursorAtNewLine) then means
   that nothing was printed since, which is what makes the rule non-additive across nested nodes. *)
Theorem C05_cursor_advances_only_over_what_is_printed : token_guards_agree frag_tbl rest_tbl universe = true.
Proof. vm_compute. reflexivity. Qed.

(* applySpace emits the requested number of line breaks, minus one when the cursor sits
   directly after a line break (BadXxx nodes force EmptyLine after). *)
Theorem C05_apply_space_count :
  forall s isbad after sp,
  let want := newlines_of (if isbad && after then SEmptyLine else sp) in
  let n := Z.max 0 (want - (if Z.eqb (cursor s) (atnl s) then 1 else 0)) in
  nlines (apply_space s isbad after sp) = nlines s + n /\
  (0 < n -> cursor (apply_space s isbad after sp) = atnl (apply_space s isbad after sp)) /\
  (n = 0 -> apply_space s isbad after sp = s).
Proof. exact apply_space_count. Qed.

(* Two adjacent siblings, After = a, Before = b, for every state whose cursor is not
   directly after a line break (the first ended in a token): the line breaks emitted between
   them number a + max 0 (b - [a>0]); capped at two this is max a b -- so at least two breaks
   (one blank line) iff either is EmptyLine, one iff the larger is NewLine, none iff both are
   None.  The same lemma covers an opening delimiter followed by the first element and the
   last element followed by the closing delimiter (one side is then None). *)
Theorem C05_sibling_spacing :
  forall s a b, cursor s <> atnl s ->
  let s2 := apply_space (apply_space s false true a) false false b in
  nlines s2 - nlines s = newlines_of a + Z.max 0 (newlines_of b - (if Z.eqb (newlines_of a) 0 then 0 else 1)) /\
  Z.min 2 (nlines s2 - nlines s) = Z.max (newlines_of a) (newlines_of b).
Proof. exact sibling_spacing. Qed.

(* A decoration list ending in a line comment or "\n" contributes its own line break and the
   following spacing loses exactly one break: no blank line is added or removed. *)
Theorem C05_trailing_line_comment_neutral :
  forall s id kind name isend ds d sp,
  (match d with DLine _ _ | DNl => True | _ => False end) ->
  (String.eqb kind "File" && String.eqb name "Start" = false) ->
  let s1 := apply_decs s id kind name isend (ds ++ [d]) in
  cursor s1 = atnl s1 /\
  nlines (apply_space s1 false false sp) = nlines s1 + Z.max 0 (newlines_of sp - 1).
Proof. exact trailing_line_comment_neutral. Qed.

(* all nine combinations, spelled out *)
Example C05_matrix :
  let s := mkR 1 10 0 [0] [] [] [] None in
  map (fun ab => nlines (apply_space (apply_space s false true (fst ab)) false false (snd ab)) - nlines s)
      [(SNone, SNone); (SNone, SNewLine); (SNone, SEmptyLine);
       (SNewLine, SNone); (SNewLine, SNewLine); (SNewLine, SEmptyLine);
       (SEmptyLine, SNone); (SEmptyLine, SNewLine); (SEmptyLine, SEmptyLine)]
  = [0; 1; 2; 1; 1; 2; 2; 2; 3].
Proof. vm_compute. reflexivity. Qed.


(* applySpace (decorator/restorer.go) is translated on every run into a cursor program
   (Gen/CursorSrc.v: applySpace_src) and proved to compute Model/Restore.apply_space for EVERY state,
   node kind, position string and spacing: the BadXXX override, the count 0/1/2 minus one at a line
   start, and per line break the two cursor steps around the recorded line offset *)
Theorem C05_applySpace_source_computes_the_model :
  forall s kind id pos sp,
    let env' := exec_list applySpace_src (space_env s kind id pos sp) in
    e_rs env' = apply_space s (is_bad_kind kind) (String.eqb pos "After") sp /\ e_stuck env' = false.
Proof. exact applySpace_source_is_model. Qed.

Theorem C05_applySpace_source_is_within_the_language : program_known applySpace_src = true.
Proof. vm_compute. reflexivity. Qed.


(* ... hence the theorems about the model are theorems about the translated source: running the source of
   applySpace emits the requested number of line breaks, minus one when the cursor sits directly after a
   line break, and leaves the state untouched when that number is zero *)
Theorem C05_translated_applySpace_emits_the_requested_breaks :
  forall s kind id pos sp,
  let s' := e_rs (exec_list applySpace_src (space_env s kind id pos sp)) in
  let want := newlines_of (if is_bad_kind kind && String.eqb pos "After" then SEmptyLine else sp) in
  let n := Z.max 0 (want - (if Z.eqb (cursor s) (atnl s) then 1 else 0)) in
  nlines s' = nlines s + n /\ (0 < n -> cursor s' = atnl s') /\ (n = 0 -> s' = s).
Proof.
  intros s kind id pos sp. cbv zeta.
  rewrite (proj1 (applySpace_source_is_model s kind id pos sp)). apply apply_space_count.
Qed.

Print Assumptions C05_spacing_brackets_node.
Print Assumptions C05_cursor_advances_only_over_what_is_printed.
Print Assumptions C05_apply_space_count.
Print Assumptions C05_sibling_spacing.
Print Assumptions C05_trailing_line_comment_neutral.
Print Assumptions C05_applySpace_source_computes_the_model.
Print Assumptions C05_applySpace_source_is_within_the_language.
Print Assumptions C05_translated_applySpace_emits_the_requested_breaks.
