(* C09 -- Decorator resolvers assign package paths exactly to remote references (partial:
   go/types is not modelled; what Info.Uses says about each role of an identifier is the
   assumption [occurrence_of], tied by the harness against the real type checker).
   Model/Resolvers.v transcribes gotypes.ResolveIdent, goast.imports/ResolveIdent,
   fileDecorator.resolvePath and stripVendor; Gen/ResolverSrc.v (regenerated every run) pins
   their source text and carries decorator.go's avoid table. *)
From Coq Require Import List String ZArith NArith Bool.
Import ListNotations.
From DV Require Import Model.Decision Gen.GoastImportsSrc Proofs.GoastStepProofs.
From DV Require Import Proofs.StripVendorProofs Model.StripProg Gen.StripVendorSrc Proofs.StripVendorSrcProofs.
From DV Require Import Model.Resolvers Proofs.ResolverProofs Proofs.ResolverAgree Gen.ResolverSrc
  Model.Decision Model.DecisionInterp Gen.DecisionSrc Proofs.DecisionProofs.
Local Open Scope string_scope.
Local Open Scope list_scope.

(* Three of the modelled functions are translated, statement by statement, into decision programs
   (Gen/DecisionSrc.v; bindings inlined symbolically, every statement outside the language of
   guarded returns is DUnknown): the programs stay inside the vocabulary the interpretations
   know, and on EVERY abstract state -- any shape of the site, anything types.Info can say about
   the identifier and about X, any import table, any raw path, local path, option setting and
   Parent.Field name -- the translated source returns what the hand model returns (including
   where the code panics or passes the resolver's error on). *)
Theorem C09_translated_sources_are_within_the_vocabulary :
  gotypes_src_agrees gotypes_resolveident_src && goast_src_agrees goast_resolveident_src && resolvepath_src_agrees resolvepath_src = true.
Proof. vm_compute. reflexivity. Qed.

Theorem C09_gotypes_source_computes_the_model : forall g,
  out_string (gotypes_syms g) (run (fun p => str_case p (gotypes_preds g) false) gotypes_resolveident_src) = gotypes_resolve (g_occ g).
Proof. exact gotypes_source_is_model. Qed.

Theorem C09_goast_source_computes_the_model : forall a,
  out_string (goast_syms a) (run (fun p => str_case p (goast_preds a) false) goast_resolveident_src) = goast_model a.
Proof. exact goast_source_is_model. Qed.

Theorem C09_resolvepath_source_computes_the_model : forall p,
  out_string (resolvepath_syms p) (run (fun q => str_case q (resolvepath_preds p) false) resolvepath_src) = resolvepath_model p.
Proof. exact resolvepath_source_is_model. Qed.

(* the two remaining modelled functions (goast.imports: a loop over the file; stripVendor: string
   search) still have the text the models were written against -- and are corresponded on every run
   (mismatch_goast, mismatch_strip_vendor) --, and the avoid table of decorator.go is the model's *)
Theorem C09_models_transcribe_the_source :
  forallb (fun e => snd e) resolver_sources_pinned
  && forallb (fun a => existsb (String.eqb a) avoid_list) avoid_src
  && forallb (fun a => existsb (String.eqb a) avoid_src) avoid_list = true.
Proof. vm_compute. reflexivity. Qed.

(* For every role an identifier can play and every local package path: the types-based
   resolver followed by resolvePath yields the package's import path with the vendor prefix
   removed exactly for qualified and dot-imported references to other packages, and no path
   for local package-level objects, local variables, universe objects, field keys (also of
   embedded and remote fields), field and method selectors, labels and declaring identifiers. *)
Theorem C09_gotypes_assigns_paths_exactly :
  forall local r parent_dot_field, in_avoid parent_dot_field = false ->
  resolve_path false local false parent_dot_field (gotypes_resolve (occurrence_of local r)) = expected_path local r.
Proof. exact gotypes_exact. Qed.

Theorem C09_gotypes_assigns_paths_exactly_forced_sel :
  forall local r,
  resolve_path true local false "SelectorExpr.Sel" (gotypes_resolve (occurrence_of local r)) = expected_path local r.
Proof. exact gotypes_exact_forced. Qed.

(* identifiers in declaring / label / import-name / selector-Sel positions never get a path *)
Theorem C09_avoided_positions_get_no_path :
  forall local rl raw pdf, in_avoid pdf = true -> resolve_path false local rl pdf raw = "".
Proof. exact avoided_fields_get_no_path. Qed.

(* the syntax-only resolver refuses instead of guessing: any dot-import (not "C") makes the
   import scan fail, and a scan that fails does so at a dot-import, an unresolvable name or a
   second import under a name already in use *)
Theorem C09_goast_refuses_dot_imports :
  forall name_of pre s post acc,
  is_name s = "." -> is_path s <> "C" -> (forall q, In q pre -> is_name q <> ".") ->
  exists why, goast_scan name_of (pre ++ s :: post) acc = GIError why.
Proof. exact goast_refuses_dot_imports. Qed.

Example C09_goast_refuses_duplicate_names :
  goast_scan (fun p => Some "a") [mkISpec "root/a" ""; mkISpec "root/b/a" ""] [] = GIError "multiple packages using one name".
Proof. vm_compute. reflexivity. Qed.

(* goast agrees with gotypes on every file it accepts.  (1) For the Sel of a selector whose X is an
   unshadowed identifier that the type checker resolves to the package imported by spec s (the
   spec's path and the checker's path equal up to a vendor prefix), both lead resolvePath to the
   same path; (2) every identifier that is neither qualified nor dot-imported gets no path from
   either; (3) a qualifier that is no import name of the file resolves to nothing. *)
Theorem C09_goast_agrees_on_qualified_identifiers :
  forall name_of specs m s n ptypes importing local uses,
  goast_scan name_of specs [] = GIOk m ->
  In s specs -> ordinary_spec s = true -> spec_name name_of s = Some n ->
  strip_vendor (is_path s) = strip_vendor ptypes ->
  resolve_path true local false "SelectorExpr.Sel" (goast_resolve m true (Some n) false) =
  resolve_path true local false "SelectorExpr.Sel" (gotypes_resolve (mkOcc (Some (XIdent (Some (TPkgName ptypes importing)))) uses)).
Proof. exact goast_agrees_on_qualified. Qed.

Theorem C09_goast_agrees_elsewhere :
  forall local r pdf, in_avoid pdf = false ->
  (forall p, r <> DotImported p) -> (forall p, r <> Qualified p) ->
  resolve_path false local false pdf (gotypes_resolve (occurrence_of local r)) = "" /\
  forall m, goast_resolve m false None false = "".
Proof. exact goast_agrees_elsewhere. Qed.

Theorem C09_goast_unknown_qualifier_gets_no_path :
  forall name_of specs m n, goast_scan name_of specs [] = GIOk m ->
  (forall s, In s specs -> ordinary_spec s = true -> spec_name name_of s <> Some n) ->
  goast_resolve m true (Some n) false = "".
Proof. exact goast_unknown_qualifier. Qed.

(* the table goast builds is exactly bound name -> path of the ordinary import specs *)
Theorem C09_goast_table_is_exact :
  forall name_of specs m, goast_scan name_of specs [] = GIOk m ->
  (forall s, In s specs -> ordinary_spec s = true -> exists n, spec_name name_of s = Some n /\ lookup m n = Some (is_path s)) /\
  (forall k v, lookup m k = Some v -> exists s, In s specs /\ ordinary_spec s = true /\ spec_name name_of s = Some k /\ is_path s = v).
Proof.
  intros name_of specs m H. destruct (goast_scan_table name_of specs [] m H) as [_ [B C]]. split; [exact B|].
  intros k v Hk. destruct (C k v Hk) as [L|R]; [discriminate L|exact R].
Qed.

Example C09_goast_agrees_on_qualified :
  match goast_scan (fun p => if String.eqb p "root/a" then Some "a" else None) [mkISpec "root/a" ""; mkISpec "root/vendor/ext/v" "vv"; mkISpec "os" "_"] [] with
  | GIOk m => goast_resolve m true (Some "a") false = gotypes_resolve (occurrence_of "root/main" (Qualified "root/a"))
              /\ goast_resolve m true (Some "a") true = ""          (* a is a local variable here *)
              /\ goast_resolve m true (Some "vv") false = "root/vendor/ext/v"
  | GIError _ => False
  end.
Proof. vm_compute. repeat split. Qed.

Example C09_vendor_prefix_removed :
  expected_path "root/main" (Qualified "root/vendor/ext/v") = "ext/v" /\
  expected_path "root/main" (DotImported "root/main") = "" /\
  expected_path "root/main" (FieldKey (Some "root/a")) = "".
Proof. vm_compute. repeat split. Qed.


(* goast.DecoratorResolver.imports is no longer pinned by hash as a whole: the case of its traversal for
   one import spec is translated on every run (a decision program over the spec: skip "C" and blank
   imports, refuse dot-imports, resolve the name of an unnamed import, refuse a second package under one
   name, else add) and proved to be one step of the model's goast_scan, for every spec, name resolver and
   table built so far (goast_scan_by_steps: the model's scan is the iteration of that step); what surrounds
   the case -- the lock, the per-file cache, the traversal that stops at the first declaration that is no
   import -- is pinned with the case body struck out *)
Theorem C09_goast_import_case_source_computes_the_model :
  forall name_of s acc,
    match run (step_val name_of s acc) goast_spec_step_src with
    | OReturn (DVal r) => step_sym name_of s acc r = Some (scan_step name_of s acc)
    | _ => False
    end.
Proof. exact goast_step_source_is_model. Qed.

Theorem C09_goast_scan_iterates_the_step :
  forall name_of s r acc,
  Model.Resolvers.goast_scan name_of (s :: r) acc
  = match scan_step name_of s acc with
    | Model.Resolvers.GIError w => Model.Resolvers.GIError w
    | Model.Resolvers.GIOk acc' => Model.Resolvers.goast_scan name_of r acc'
    end.
Proof. exact goast_scan_by_steps. Qed.

Theorem C09_goast_imports_source_is_within_the_vocabulary : step_vocabulary_ok && goast_imports_frame_ok = true.
Proof. vm_compute. reflexivity. Qed.

(* stripVendor, for EVERY path (Model.Resolvers.strip_vendor; the source text is pinned and the model
   is corresponded on every run): nothing of a vendor directory is left in the result, so resolvePath's
   comparison stripVendor(path) == stripVendor(f.Path) compares effective import paths; only a prefix
   is ever removed; a path without a vendor directory is returned as it is; the LAST vendor directory
   decides, whatever precedes it *)
Theorem C09_strip_vendor_leaves_no_vendor_directory : forall p,
  after_last_vendor (strip_vendor p) = None /\ prefixb "vendor/" (strip_vendor p) = false.
Proof. exact strip_vendor_leaves_no_vendor. Qed.

Theorem C09_strip_vendor_is_idempotent : forall p, strip_vendor (strip_vendor p) = strip_vendor p.
Proof. exact strip_vendor_idempotent. Qed.

Theorem C09_strip_vendor_removes_only_a_prefix : forall p, exists pre, p = (pre ++ strip_vendor p)%string.
Proof. exact strip_vendor_is_suffix. Qed.

Theorem C09_strip_vendor_keeps_unvendored_paths : forall p,
  after_last_vendor p = None -> prefixb "vendor/" p = false -> strip_vendor p = p.
Proof. exact strip_vendor_unvendored_unchanged. Qed.

Theorem C09_strip_vendor_last_vendor_directory_decides : forall pre t,
  after_last_vendor t = None -> prefixb "vendor/" t = false ->
  strip_vendor (pre ++ "/vendor/" ++ t)%string = t /\ strip_vendor ("vendor/" ++ t)%string = t.
Proof. exact strip_vendor_last_vendor_decides. Qed.

Example C09_strip_vendor_laws_are_not_vacuous :
  after_last_vendor "golang.org/x/net/idna" = None /\ prefixb "vendor/" "golang.org/x/net/idna" = false /\
  strip_vendor "a/vendor/b/vendor/golang.org/x/net/idna" = "golang.org/x/net/idna" /\
  strip_vendor "vendorx/y" = "vendorx/y" /\ strip_vendor "x/vendor" = "x/vendor".
Proof. exact strip_vendor_laws_nonvacuous. Qed.

(* stripVendor as decorator.go writes it on this run (Gen/StripVendorSrc.v: the cases of the closure
   findVendor over strings.Contains / strings.LastIndex / strings.HasPrefix and the final slice
   expression, rendered by the translator) computes the model for EVERY path, and its slice
   expression is never out of range (Some: no run-time panic) *)
Theorem C09_stripVendor_source_computes_the_model : forall path,
  run_sv strip_vendor_src path = Some (strip_vendor path).
Proof. exact strip_vendor_source_is_model. Qed.

(* consequences for fileDecorator.resolvePath, for all inputs: the path stored on an identifier never
   contains a vendor directory; vendoring the decorated package or the package referred to changes no
   assignment; without ResolveLocalPath the decorated package's own path is never stored; with it,
   every resolved reference outside the avoided positions keeps its vendor-free path *)
Theorem C09_stored_paths_are_vendor_free : forall force local rl pf raw,
  strip_vendor (resolve_path force local rl pf raw) = resolve_path force local rl pf raw.
Proof. exact resolve_path_is_vendor_free. Qed.

Theorem C09_assignment_is_blind_to_vendoring : forall force local rl pf raw,
  resolve_path force local rl pf raw = resolve_path force (strip_vendor local) rl pf (strip_vendor raw).
Proof. exact resolve_path_is_vendor_blind. Qed.

Theorem C09_local_path_is_never_stored : forall force local pf raw,
  resolve_path force local false pf raw = strip_vendor local -> resolve_path force local false pf raw = "".
Proof. exact resolve_path_never_stores_the_local_path. Qed.

Theorem C09_resolve_local_path_keeps_every_path : forall force local pf raw,
  (negb force && in_avoid pf) = false -> resolve_path force local true pf raw = strip_vendor raw.
Proof. exact resolve_path_with_local_paths. Qed.

Example C09_resolve_path_laws_are_not_vacuous :
  resolve_path false "root/vendor/root/a" false "CallExpr.Fun" "root/a" = "" /\
  resolve_path false "root/a" false "CallExpr.Fun" "root/vendor/golang.org/x/b" = "golang.org/x/b" /\
  resolve_path false "root/a" true "CallExpr.Fun" "root/a" = "root/a".
Proof. exact resolve_path_laws_nonvacuous. Qed.

Print Assumptions C09_translated_sources_are_within_the_vocabulary.
Print Assumptions C09_gotypes_source_computes_the_model.
Print Assumptions C09_goast_source_computes_the_model.
Print Assumptions C09_resolvepath_source_computes_the_model.
Print Assumptions C09_goast_agrees_on_qualified_identifiers.
Print Assumptions C09_goast_agrees_elsewhere.
Print Assumptions C09_goast_unknown_qualifier_gets_no_path.
Print Assumptions C09_goast_table_is_exact.
Print Assumptions C09_models_transcribe_the_source.
Print Assumptions C09_gotypes_assigns_paths_exactly.
Print Assumptions C09_gotypes_assigns_paths_exactly_forced_sel.
Print Assumptions C09_avoided_positions_get_no_path.
Print Assumptions C09_goast_refuses_dot_imports.
Print Assumptions C09_goast_import_case_source_computes_the_model.
Print Assumptions C09_goast_scan_iterates_the_step.
Print Assumptions C09_goast_imports_source_is_within_the_vocabulary.
Print Assumptions C09_strip_vendor_leaves_no_vendor_directory.
Print Assumptions C09_strip_vendor_is_idempotent.
Print Assumptions C09_strip_vendor_removes_only_a_prefix.
Print Assumptions C09_strip_vendor_keeps_unvendored_paths.
Print Assumptions C09_strip_vendor_last_vendor_directory_decides.
Print Assumptions C09_stripVendor_source_computes_the_model.
Print Assumptions C09_stored_paths_are_vendor_free.
Print Assumptions C09_assignment_is_blind_to_vendoring.
Print Assumptions C09_local_path_is_never_stored.
Print Assumptions C09_resolve_local_path_keeps_every_path.
