(* C09 -- Decorator resolvers assign package paths exactly to remote references (partial:
   go/types is not modelled; what Info.Uses says about each role of an identifier is the
   assumption [occurrence_of], tied by the harness against the real type checker).
   Model/Resolvers.v transcribes gotypes.ResolveIdent, goast.imports/ResolveIdent,
   fileDecorator.resolvePath and stripVendor; Gen/ResolverSrc.v (regenerated every run) pins
   their source text and carries decorator.go's avoid table. *)
From Coq Require Import List String ZArith NArith Bool.
Import ListNotations.
From DV Require Import Model.Resolvers Proofs.ResolverProofs Gen.ResolverSrc.
Local Open Scope string_scope.
Local Open Scope list_scope.

(* the modelled functions still have the text the models were written against, and the avoid
   table of decorator.go is the model's *)
Theorem C09_models_transcribe_the_source :
  forallb (fun e => snd e) resolver_sources_pinned
  && forallb (fun a => existsb (String.eqb a) avoid_list) avoid_src
  && forallb (fun a => existsb (String.eqb a) avoid_src) avoid_list = true.
Proof. vm_compute. reflexivity. Qed.

(* For every role an identifier can play and every local package path: the types-based
   resolver followed by resolvePath yields the package's import path with the vendor prefix
   removed exactly for qualified and dot-imported references to other packages, and no path
   for local package-level objects, local variables, universe objects, field keys (also of
   embedded and remote fields), field and method selectors, labels and declaring identifiers. *)
Theorem C09_gotypes_assigns_paths_exactly :
  forall local r parent_dot_field, in_avoid parent_dot_field = false ->
  resolve_path false local false parent_dot_field (gotypes_resolve (occurrence_of local r)) = expected_path local r.
Proof. exact gotypes_exact. Qed.

Theorem C09_gotypes_assigns_paths_exactly_forced_sel :
  forall local r,
  resolve_path true local false "SelectorExpr.Sel" (gotypes_resolve (occurrence_of local r)) = expected_path local r.
Proof. exact gotypes_exact_forced. Qed.

(* identifiers in declaring / label / import-name / selector-Sel positions never get a path *)
Theorem C09_avoided_positions_get_no_path :
  forall local rl raw pdf, in_avoid pdf = true -> resolve_path false local rl pdf raw = "".
Proof. exact avoided_fields_get_no_path. Qed.

(* the syntax-only resolver refuses instead of guessing: any dot-import (not "C") makes the
   import scan fail, and a scan that fails does so at a dot-import, an unresolvable name or a
   second import under a name already in use *)
Theorem C09_goast_refuses_dot_imports :
  forall name_of pre s post acc,
  is_name s = "." -> is_path s <> "C" -> (forall q, In q pre -> is_name q <> ".") ->
  exists why, goast_scan name_of (pre ++ s :: post) acc = GIError why.
Proof. exact goast_refuses_dot_imports. Qed.

Example C09_goast_refuses_duplicate_names :
  goast_scan (fun p => Some "a") [mkISpec "root/a" ""; mkISpec "root/b/a" ""] [] = GIError "multiple packages using one name".
Proof. vm_compute. reflexivity. Qed.

(* goast agrees with gotypes on qualified identifiers when names are accurate and unshadowed *)
Example C09_goast_agrees_on_qualified :
  match goast_scan (fun p => if String.eqb p "root/a" then Some "a" else None) [mkISpec "root/a" ""; mkISpec "root/vendor/ext/v" "vv"; mkISpec "os" "_"] [] with
  | GIOk m => goast_resolve m true (Some "a") false = gotypes_resolve (occurrence_of "root/main" (Qualified "root/a"))
              /\ goast_resolve m true (Some "a") true = ""          (* a is a local variable here *)
              /\ goast_resolve m true (Some "vv") false = "root/vendor/ext/v"
  | GIError _ => False
  end.
Proof. vm_compute. repeat split. Qed.

Example C09_vendor_prefix_removed :
  expected_path "root/main" (Qualified "root/vendor/ext/v") = "ext/v" /\
  expected_path "root/main" (DotImported "root/main") = "" /\
  expected_path "root/main" (FieldKey (Some "root/a")) = "".
Proof. vm_compute. repeat split. Qed.

Print Assumptions C09_models_transcribe_the_source.
Print Assumptions C09_gotypes_assigns_paths_exactly.
Print Assumptions C09_gotypes_assigns_paths_exactly_forced_sel.
Print Assumptions C09_avoided_positions_get_no_path.
Print Assumptions C09_goast_refuses_dot_imports.
