(* C06 -- Clone is a complete, alias-free deep copy and the only legal way to reuse a node.
   Gen/CloneTbl.v is re-translated statement by statement from /repo/clone-generated.go and
   clone.go on every run; Gen/Universe.v from dst.go and decorations-types-generated.go;
   Gen/RestTbl.v from restorer-generated.go.  The generic interpreter Model/Clone.v run on the
   translated table is corresponded against the real dst.Clone on dumped trees. *)
From Coq Require Import List String ZArith NArith Bool.
Import ListNotations.
From DV Require Import Model.Tree Model.Tables Model.Skeleton Model.Clone Model.Restore Model.SliceHeap
     Proofs.CloneProofs Proofs.CloneRender Proofs.RestoreProofs Proofs.DupProofs
     Gen.Universe Gen.CloneTbl Gen.RestTbl.
Local Open Scope string_scope.
Local Open Scope list_scope.

(* Table obligations (finite; vm_compute is a proof) ------------------------------------ *)

(* For every node kind of dst.go the Clone case allocates a fresh node of that kind and
   - copies every value field (bool, string, token, int ...) with out.F = n.F,
   - clones every node field with Clone(n.F) under a nil check and every node slice
     element-wise into a new slice,
   - copies every decoration point of the kind's Decorations struct with
     append(out.Decs.P, n.Decs.P...) -- never out.Decs.P = n.Decs.P, which would share the
     backing array -- and Before/After by value,
   - sets Obj / Scope links to nil (CloneObject / CloneScope, checked to return nil),
   - for FuncDecl allocates the signature node and copies all of its fields and all of its
     decoration points (Type.Decs.Start/Func/TypeParams/Params/End),
   and contains no statement the translator does not recognise. *)
Theorem C06_clone_table_complete_alias_free :
  clone_tbl_ok universe dec_universe clone_tbl && clone_frame_ok && clone_refs_nil = true.
Proof. vm_compute. reflexivity. Qed.

(* every decoration list the restorer renders -- including the FuncDecl signature
   decorations n.Type.Decs.* -- is copied by Clone *)
Theorem C06_clone_covers_what_printing_consults : clone_covers_restorer rest_tbl clone_tbl universe = true.
Proof. vm_compute. reflexivity. Qed.

(* the only thing Clone does not copy is the Before/After spacing of a FuncDecl's signature
   node, which the restorer never renders (it never descends into FuncDecl.Type as a node) *)
Theorem C06_init_spacing_never_rendered : init_spacing_never_rendered rest_tbl = true.
Proof. vm_compute. reflexivity. Qed.

(* Generic theorems ---------------------------------------------------------------------- *)

(* For every tree (all kinds, all fields, all decorations, any depth): the clone is the
   original with object/scope links dropped -- every value, every child (recursively), every
   decoration list at every point and the spacing are equal. *)
Theorem C06_clone_is_complete_copy :
  forall t, conforms_full universe dec_universe t = true -> spacing_conforms universe t = true ->
  clone clone_tbl t = normalize t.
Proof.
  apply clone_exact.
  pose proof C06_clone_table_complete_alias_free as H.
  apply andb_true_iff in H. destruct H as [H _]. apply andb_true_iff in H. destruct H as [H _]. exact H.
Qed.

(* ... and it prints as the original does: for every tree, with or without import management and
   whatever names the import manager chose, the restorer performs exactly the same actions
   (positions, line breaks, comments, literals) on the clone as on the original, node identities
   aside (a clone's nodes are new: C06_shared_node_panics below is about identities).  Table
   condition: the restorer never restores an Init field as a node of its own, also not through
   a longer path. *)
Theorem C06_restorer_reads_no_init_node : tbl_safe rest_tbl = true.
Proof. vm_compute. reflexivity. Qed.

Theorem C06_clone_prints_as_the_original :
  forall t, conforms_full universe dec_universe t = true -> spacing_conforms universe t = true ->
  forall managed pkg, flatten rest_tbl managed pkg (clone clone_tbl t) = flatten rest_tbl managed pkg t.
Proof.
  intros t Hc Hs managed pkg. rewrite (C06_clone_is_complete_copy t Hc Hs).
  apply normalize_renders_the_same. exact C06_restorer_reads_no_init_node.
Qed.

(* object and scope links are dropped: no reference survives in the clone *)
Theorem C06_clone_drops_links :
  forall t, conforms_full universe dec_universe t = true -> spacing_conforms universe t = true ->
  forall f v, In (f, v) (tvals (clone clone_tbl t)) -> match v with VRef r => r = 0%N | _ => True end.
Proof.
  intros t Hc Hs f v Hin. rewrite (C06_clone_is_complete_copy t Hc Hs) in Hin.
  destruct t as [id k vals kids decs b a]. cbn [normalize tvals] in Hin.
  apply in_map_iff in Hin. destruct Hin as [[f' v'] [Heq _]]. inversion Heq; subst.
  destruct v'; cbn; auto.
Qed.

(* Storage: every decoration list of the clone is the result of append(nil, src...), which in
   the slice-heap model (corresponded against the Go runtime for C19) is nil or a slice of a
   NEW array with the same contents, and writes to no existing array: a later mutation of
   either list cannot be seen through the other. *)
Theorem C06_cloned_decorations_are_fresh :
  forall grow (h : heap) (src : option slice),
  let xs := contents h src in
  let '(h', s') := go_append grow h None xs in
  (xs = [] -> h' = h /\ s' = None) /\
  (xs <> [] -> exists sl, s' = Some sl /\ arr sl = List.length h /\ contents h' s' = xs) /\
  (forall a, (a < List.length h)%nat -> read_arr h' a = read_arr h a).
Proof. exact append_to_nil_is_fresh. Qed.

Theorem C06_all_origins_fresh :
  forallb (fun e => match lookup clone_tbl (fst e), lookup dec_universe (fst e) with
                    | Some stmts, Some pts =>
                      forallb (fun pt => match dec_origin stmts [] pt with Fresh => true | _ => false end) pts
                      && forallb (fun f => match kid_origin stmts [fst f] with Fresh => true | _ => false end) (child_fields_t universe (fst e))
                    | Some stmts, None => forallb (fun f => match kid_origin stmts [fst f] with Fresh => true | _ => false end) (child_fields_t universe (fst e))
                    | _, _ => false
                    end) universe = true.
Proof. vm_compute. reflexivity. Qed.

(* Reuse without Clone is rejected: a dst node reached twice makes the restorer panic,
   whatever is restored before, between and after; with pairwise distinct nodes and no other
   panic site reached there is no panic. *)
Theorem C06_shared_node_panics :
  forall b a1 a2 a3 id, panic (run_acts b (a1 ++ AEnter id :: a2 ++ AEnter id :: a3)) <> None.
Proof. exact dup_enter_panics. Qed.

(* ... but a node shared as an Init field (FuncDecl.Type) is only recorded in the node map (AMapAt),
   never looked up: two FuncDecls sharing one FuncType are not rejected (recorded finding
   shared-funcdecl-type-not-rejected; with a non-nil field list the shared FieldList is entered
   twice and caught) *)
Example C06_shared_init_field_refuted :
  panic (run_acts 1 [AEnter 1; AMapAt 7; AEnter 2; AMapAt 7]) = None.
Proof. vm_compute. reflexivity. Qed.

Theorem C06_distinct_nodes_do_not_panic :
  forall b acts, existsb is_panic_act acts = false -> NoDup (flat_map entered acts) ->
  panic (run_acts b acts) = None.
Proof.
  intros b acts Hn Hd. unfold run_acts. apply nodup_no_panic; auto.
Qed.

(* every restored node is entered: the action list of a node starts with AEnter of its id *)
Theorem C06_every_node_entered :
  forall tbl managed pkg t, exists rest, flatten tbl managed pkg t = AEnter (tid t) :: rest.
Proof. intros tbl managed pkg [id k vals kids decs b a]. eexists. reflexivity. Qed.

(* Non-vacuity and the tree-level picture: a FuncDecl with signature decorations; its clone
   restores to the same actions (prints identically); the same Ident used twice panics, two
   clones do not. *)
Definition ex_ident (id : N) : tree :=
  Node id "Ident" [("Name", VStr 1 [] 5); ("Obj", VRef 3); ("Path", VStr 0 [] 0)] []
       [("Start", []); ("X", []); ("End", [DBlock 5 [] 9])] SNone SNone.

Definition ex_binary (x y : tree) : tree :=
  Node 1 "BinaryExpr" [("Op", VTok "+")] [("X", One (Some x)); ("Y", One (Some y))]
       [("Start", []); ("X", [DBlock 5 [] 7]); ("Op", []); ("End", [])] SNone SNone.

Example C06_nonvacuous :
  let t := ex_binary (ex_ident 2) (ex_ident 4) in
  conforms_full universe dec_universe t = true /\ spacing_conforms universe t = true /\
  flatten rest_tbl false (fun _ => None) (clone clone_tbl t) = flatten rest_tbl false (fun _ => None) t /\
  panic (run_acts 1 (flatten rest_tbl false (fun _ => None) t)) = None /\
  panic (run_acts 1 (flatten rest_tbl false (fun _ => None) (ex_binary (ex_ident 2) (ex_ident 2)))) = Some "duplicate node".
Proof. vm_compute. repeat split. Qed.

Print Assumptions C06_clone_table_complete_alias_free.
Print Assumptions C06_clone_covers_what_printing_consults.
Print Assumptions C06_init_spacing_never_rendered.
Print Assumptions C06_clone_is_complete_copy.
Print Assumptions C06_clone_drops_links.
Print Assumptions C06_cloned_decorations_are_fresh.
Print Assumptions C06_all_origins_fresh.
Print Assumptions C06_shared_node_panics.
Print Assumptions C06_distinct_nodes_do_not_panic.
Print Assumptions C06_every_node_entered.
Print Assumptions C06_clone_prints_as_the_original.
