(* C11 -- Node maps are exact inverse correspondences between ast and dst.
   Gen/DecTbl.v is re-translated statement by statement from
   /repo/decorator/decorator-node-generated.go on every run, Gen/RestTbl.v from
   restorer-generated.go, Gen/Universe.v from dst.go.  The hand-written parts
   (decorateSelectorExpr, restoreIdent, the memo check of decorateNode / the duplicate check of
   restoreNode) are exercised by the implementation oracle, which checks every law on the
   complete maps of real runs. *)
From Coq Require Import List String ZArith NArith Bool.
Import ListNotations.
From DV Require Import Model.Tree Model.Tables Model.Skeleton Model.Maps Proofs.TreeInd Proofs.WalkProofs Proofs.MapsProofs
     Gen.Universe Gen.DecTbl Gen.RestTbl.
Local Open Scope string_scope.
Local Open Scope list_scope.

(* Table obligations ------------------------------------------------------------------- *)

(* Decorator: decorateNode returns the memoised node if n is already in Dst.Nodes; every case
   allocates out and records Dst.Nodes[n] = out and Ast.Nodes[out] = n before anything else
   (FuncDecl also for the signature node it allocates), writes no other map entry, decorates
   every Node-typed field of the struct exactly once -- from n.F into out.F, announced with its
   own kind and field name, asserted to the field's type -- and never assigns through n. *)
Theorem C11_decorator_cases_record_both_maps : dec_tbl_ok universe dec_tbl && dec_frame_ok = true.
Proof. vm_compute. reflexivity. Qed.

(* Restorer: likewise r.Ast.Nodes[n] = out and r.Dst.Nodes[out] = n first (for FuncDecl also
   for the FuncType it creates), every child restored from n.F into out.F. *)
Theorem C11_restorer_cases_record_both_maps : rest_maps_ok universe rest_tbl = true.
Proof. vm_compute. reflexivity. Qed.

(* the nodes decorateNode / restoreNode are called on are the Node-typed fields of every
   struct, each once (File.Imports, aliases of specs already in Decls, on top) *)
Theorem C11_child_tables_complete :
  walk_tbl_ok universe (dec_wtable universe dec_tbl) && walk_tbl_ok universe (rest_wtable universe rest_tbl) = true.
Proof. vm_compute. reflexivity. Qed.

(* Generic theorems ---------------------------------------------------------------------- *)

(* For every tree: the sequence of nodes decorateNode (restoreNode) is called on is the
   preorder enumeration of all its nodes -- every syntax node gets its pair of map entries,
   each exactly once, parents before children (so the correspondence commutes with
   parent/child structure: out.F is the image of n.F). *)
Theorem C11_every_node_decorated_once :
  forall t, conformsb universe t = true -> mandatory_okb (dec_wtable universe dec_tbl) t = true ->
  visited (walk (dec_wtable universe dec_tbl) (fun _ => false) t) = ids t.
Proof.
  intros t Hc Hm.
  assert (Hok : walk_tbl_ok universe (dec_wtable universe dec_tbl) = true) by (vm_compute; reflexivity).
  rewrite (walk_eq_spec universe _ Hok _ t Hc Hm). apply spec_walk_visits_ids.
Qed.

Theorem C11_every_node_restored_once :
  forall t, conformsb universe t = true -> mandatory_okb (rest_wtable universe rest_tbl) t = true ->
  visited (walk (rest_wtable universe rest_tbl) (fun _ => false) t) = ids t.
Proof.
  intros t Hc Hm.
  assert (Hok : walk_tbl_ok universe (rest_wtable universe rest_tbl) = true) by (vm_compute; reflexivity).
  rewrite (walk_eq_spec universe _ Hok _ t Hc Hm). apply spec_walk_visits_ids.
Qed.

(* Recording the converse pairs (n, out) / (out, n) for pairwise distinct n (the memo check)
   and pairwise distinct, freshly allocated out gives two total, mutually inverse maps. *)
Theorem C11_converse_maps_are_inverse :
  forall l : list (N * N), NoDup (map fst l) -> NoDup (map snd l) ->
  forall a d, In (a, d) l -> lookupNN l a = Some d /\ lookupNN (swap_pairs l) d = Some a.
Proof. exact converse_maps_inverse. Qed.

(* The one exception: a qualified identifier's SelectorExpr, X and Sel all map to the dst
   identifier, which maps back to the SelectorExpr; everything else stays inverse. *)
Theorem C11_collapsed_selector :
  forall (l : list (N * N)) (sel x s out : N),
  NoDup (sel :: x :: s :: map fst l) -> ~ In out (map snd l) ->
  let dstn := (sel, out) :: (x, out) :: (s, out) :: l in
  let astn := (out, sel) :: swap_pairs l in
  lookupNN dstn sel = Some out /\ lookupNN dstn x = Some out /\ lookupNN dstn s = Some out /\
  lookupNN astn out = Some sel /\
  (forall a d, In (a, d) l -> NoDup (map snd l) -> lookupNN dstn a = Some d /\ lookupNN astn d = Some a).
Proof. exact collapsed_selector_maps. Qed.

Example C11_nonvacuous :
  let t := Node 1 "FuncDecl" [] [("Recv", One None); ("Name", One (Some (Node 2 "Ident" [] [] [] SNone SNone)));
                                 ("Type", One (Some (Node 3 "FuncType" [] [("TypeParams", One None); ("Params", One (Some (Node 4 "FieldList" [] [("List", Many [])] [] SNone SNone))); ("Results", One None)] [] SNone SNone)));
                                 ("Body", One None)] [] SNone SNone in
  conformsb universe t = true /\ mandatory_okb (dec_wtable universe dec_tbl) t = true /\
  visited (walk (dec_wtable universe dec_tbl) (fun _ => false) t) = [1; 2; 3; 4]%N.
Proof. vm_compute. repeat split. Qed.

Print Assumptions C11_decorator_cases_record_both_maps.
Print Assumptions C11_restorer_cases_record_both_maps.
Print Assumptions C11_child_tables_complete.
Print Assumptions C11_every_node_decorated_once.
Print Assumptions C11_every_node_restored_once.
Print Assumptions C11_converse_maps_are_inverse.
Print Assumptions C11_collapsed_selector.
