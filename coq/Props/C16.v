(* C16 -- Concurrent use of separate decorators/restorers is race-free and deterministic
   (partial: the Go memory model and scheduler are not modelled; the race detector run of the
   harness is the corroboration and the replay engine).
   Gen/Access.v, regenerated on every run: every access to a field of the shared goast
   resolver with the state of its mutex; the package-level variables of the module and whether
   any function assigns them.  Gen/ImportsSrc.v: updateImports sorts before it names. *)
From Coq Require Import List String Arith Bool.
Import ListNotations.
From DV Require Import Proofs.PathOrderLaws.
From Coq Require Import Sorted Permutation.
From DV Require Import Proofs.GobuildProofs.
From DV Require Import Model.Decision Gen.DecisionSrc Proofs.PathOrderProofs.
From DV Require Import Model.Conc Proofs.ConcProofs Gen.Access Gen.ImportsSrc
  Model.Resolvers Model.Decision Model.DecisionInterp Gen.DecisionSrc Proofs.DecisionProofs Gen.PuritySrc.
Local Open Scope string_scope.
Local Open Scope list_scope.

(* Every access to the shared resolver's mutable fields (the file cache and the lazily
   defaulted package-name resolver) is made holding the mutex exclusively; the mutex is a plain
   sync.Mutex (no shared mode). *)
Theorem C16_shared_resolver_accesses_hold_the_mutex :
  forallb (fun a => match a with (_, _, _, LExcl) => true | _ => false end) goast_accesses
  && goast_mutex_is_plain = true.
Proof. vm_compute. reflexivity. Qed.

(* The shared resolver's mutable state is exactly what Model/Conc.v and C16_cache_is_transparent
   speak about: the per-file import cache (keyed by the file, so one file's view never reaches
   another) and the lazily defaulted package-name resolver.  Any further field that the resolver
   reads or writes -- a memo shared between files, say -- is state the model does not have. *)
Theorem C16_shared_state_is_the_per_file_cache :
  forallb (fun a => match a with (_, f, _, _) => String.eqb f "files" || String.eqb f "RestorerResolver" end) goast_accesses = true.
Proof. vm_compute. reflexivity. Qed.

(* The package-name resolvers that may be shared read-only (guess, simple) are pure: their
   ResolvePackage methods translate into decision programs -- guarded returns over the receiver map
   and the argument; an assignment, a map write or any other statement is outside that language
   and would show as DUnknown -- and compute the models (a map lookup; for guess, else the last
   element of the path) for every map and path. *)
Theorem C16_name_resolvers_are_pure_functions_of_their_map :
  pkgres_vocabulary_ok guess_resolvepackage_src && pkgres_vocabulary_ok simple_resolvepackage_src = true /\
  (forall m p, out_string (pkgres_syms m p) (run (fun q => str_case q (pkgres_preds m p) false) guess_resolvepackage_src) = guess_resolve m p) /\
  (forall m p, out_string (pkgres_syms m p) (run (fun q => str_case q (pkgres_preds m p) false) simple_resolvepackage_src) =
               match simple_resolve m p with Some n => n | None => "<error>" end).
Proof. split; [vm_compute; reflexivity|]. split; [exact guess_source_is_model|exact simple_source_is_model]. Qed.

(* ... and the ResolvePackage methods of guess, simple and gobuild (which works on the caller's
   build context or on the process-wide build.Default) assign only to variables declared inside the
   method: nothing is written through the receiver, a pointer, an index or a package-level name. *)
Theorem C16_shareable_name_resolvers_write_only_locals :
  forallb (fun e => snd e) name_resolvers_write_only_locals && Nat.eqb (List.length name_resolvers_write_only_locals) 3 = true.
Proof. vm_compute. reflexivity. Qed.

(* No package-level variable of the module is assigned by any function: decorators and
   restorers of different goroutines share no other mutable state. *)
Theorem C16_no_package_level_state_is_written : forallb (fun v => negb (snd v)) package_vars = true.
Proof. vm_compute. reflexivity. Qed.

(* Lock discipline gives happens-before: in every possible execution two accesses by different
   threads made under the mutex are separated by an unlock of the first thread followed by a
   lock of the second. *)
Theorem C16_locked_accesses_are_ordered :
  forall pre e1 seg e2 post t1 t2,
  run_lock None (pre ++ (t1, e1) :: seg ++ (t2, e2) :: post) <> None ->
  is_access e1 = true -> is_access e2 = true -> t1 <> t2 ->
  run_lock None pre = Some (Some t1) ->
  run_lock None (pre ++ (t1, e1) :: seg) = Some (Some t2) ->
  exists a b c, seg = a ++ (t1, EUnlock) :: b ++ (t2, ELock) :: c.
Proof. exact locked_accesses_are_ordered. Qed.

(* The cache is transparent: in whatever order the calls of all goroutines take the mutex,
   each call returns what a call made alone returns. *)
Theorem C16_cache_is_transparent :
  forall (key val : Type) (key_eqb : key -> key -> bool) (compute : key -> val),
  (forall a b, key_eqb a b = true -> a = b) ->
  forall ks, calls key val key_eqb compute [] ks = map compute ks.
Proof. intros. apply cache_transparent; [assumption|intros k v []]. Qed.

(* Determinism of import naming: conflicts are resolved over the sorted list of required
   paths, not in map iteration order (the model of updateImports, a function, is corresponded
   against the implementation under C07). *)
Theorem C16_import_names_do_not_follow_map_order : imports_sorted_before_names = true.
Proof. vm_compute. reflexivity. Qed.

Example C16_nonvacuous :
  let t := [(1, ELock); (1, EWrite 0); (1, EUnlock); (2, ELock); (2, ERead 0); (2, EUnlock)] in
  run_lock None t = Some None /\
  run_lock None [(1, ELock)] = Some (Some 1) /\
  run_lock None ([(1, ELock)] ++ (1, EWrite 0) :: [(1, EUnlock); (2, ELock)]) = Some (Some 2).
Proof. vm_compute. repeat split. Qed.


(* packagePathOrderLess -- the order that makes the chosen names and the printed import list independent of map iteration order -- is translated from restorer.go on every run
   (a decision program: one guarded return, one return) and proved to compute Model/Imports.path_less for
   every pair of paths: paths with a dot after paths without, otherwise by string order *)
Theorem C16_path_order_source_computes_the_model :
  forall a b,
    match run (order_val a b) packagepathorderless_src with
    | OReturn (DVal s) => order_sym a b s = Some (Model.Imports.path_less a b)
    | _ => False
    end.
Proof. exact path_order_source_is_model. Qed.

Theorem C16_path_order_source_is_within_the_vocabulary : order_vocabulary_ok = true.
Proof. vm_compute. reflexivity. Qed.


(* The gobuild name resolver is more than "writes only locals" (the lint above): its source is translated on
   every run (the defaulted locals fp and bc are conditional assignments, rendered by forking) and proved to be
   a function of the resolver's fields and of the ONE finder call it makes: a hint wins; else the FindPackage
   field if set, otherwise build.Context's Import, is called with the Context field if set, otherwise
   &build.Default -- that call and no other; its error, or a nil package, is an error; else the package's name.
   Nothing is written: the shared default build context is only passed on. *)
Theorem C16_gobuild_resolver_source_computes_the_model :
  forall hint fp_nil ctx_nil fails nilp,
    gb_outcome (run (gb_val hint fp_nil ctx_nil fails nilp) gobuild_resolvepackage_src)
    = Some (gobuild_spec hint fp_nil ctx_nil fails nilp).
Proof. exact gobuild_source_is_model. Qed.

(* packagePathOrderLess is a strict total order on import paths (irreflexive, transitive, total), so the
   sorted arrangement of a duplicate-free list of paths is unique: ANY sorted rearrangement -- whatever
   algorithm sort.Slice runs, which is neither stable nor specified -- is the model's sort_by, and the
   result does not depend on the order in which the paths were collected (Go map iteration order) *)
Theorem C16_path_order_is_a_strict_total_order :
  (forall a, Model.Imports.path_less a a = false) /\
  (forall a b c, Model.Imports.path_less a b = true -> Model.Imports.path_less b c = true -> Model.Imports.path_less a c = true) /\
  (forall a b, a <> b -> Model.Imports.path_less a b = true \/ Model.Imports.path_less b a = true).
Proof. exact (conj path_less_irrefl (conj path_less_trans path_less_total)). Qed.

Theorem C16_any_sort_by_the_path_order_is_the_models : forall l l',
  NoDup l -> Permutation l l' -> StronglySorted pl l' -> l' = Model.Imports.sort_by (fun p => p) l.
Proof. exact any_sort_is_the_models. Qed.

Theorem C16_sorted_paths_ignore_collection_order : forall l l',
  NoDup l -> Permutation l l' -> Model.Imports.sort_by (fun p => p) l' = Model.Imports.sort_by (fun p => p) l.
Proof. exact sort_by_ignores_collection_order. Qed.

Example C16_path_order_laws_are_not_vacuous :
  Model.Imports.sort_by (fun s => s) ["golang.org/x/b"; "fmt"; "a.b/c"; "os"]%string = ["fmt"; "os"; "a.b/c"; "golang.org/x/b"]%string /\
  Model.Imports.sort_by (fun s => s) ["os"; "a.b/c"; "golang.org/x/b"; "fmt"]%string = ["fmt"; "os"; "a.b/c"; "golang.org/x/b"]%string.
Proof. exact path_order_laws_nonvacuous. Qed.

Print Assumptions C16_shared_resolver_accesses_hold_the_mutex.
Print Assumptions C16_shared_state_is_the_per_file_cache.
Print Assumptions C16_name_resolvers_are_pure_functions_of_their_map.
Print Assumptions C16_shareable_name_resolvers_write_only_locals.
Print Assumptions C16_no_package_level_state_is_written.
Print Assumptions C16_locked_accesses_are_ordered.
Print Assumptions C16_cache_is_transparent.
Print Assumptions C16_import_names_do_not_follow_map_order.
Print Assumptions C16_path_order_source_computes_the_model.
Print Assumptions C16_path_order_source_is_within_the_vocabulary.
Print Assumptions C16_gobuild_resolver_source_computes_the_model.
Print Assumptions C16_path_order_is_a_strict_total_order.
Print Assumptions C16_any_sort_by_the_path_order_is_the_models.
Print Assumptions C16_sorted_paths_ignore_collection_order.
