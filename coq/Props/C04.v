(* C04 -- Every decoration is rendered exactly once at its documented attachment point.
   Tables: Gen/RestTbl.v (restorer-generated.go), Gen/Universe.v (dst.go +
   decorations-types-generated.go), Gen/PointsTbl.v (dstutil + accessor), regenerated on
   every run.  State machine: Model/Restore.v (hand model of restorer.go, corresponded). *)
From Coq Require Import List String ZArith NArith Bool.
Import ListNotations.
From DV Require Import Model.Cursor Gen.CursorSrc Proofs.CursorProofs.
From DV Require Import Model.Tree Model.Tables Model.Skeleton Model.Restore Model.RestoreChecks Proofs.RestoreProofs
     Gen.Universe Gen.RestTbl Gen.PointsTbl Gen.DataTbl.
Local Open Scope string_scope.
Local Open Scope list_scope.

(* Table obligations ------------------------------------------------------------------- *)

(* For every node kind the restorer case calls applyDecorations exactly once for each field
   of the kind's Decorations struct, unconditionally, in struct order (Start first, End last
   and the only call with end = true), under the point's own name; the only decorations
   rendered from another node are the FuncDecl signature decorations n.Type.Decs.* *)
Theorem C04_points_exact : rest_points_ok dec_universe universe rest_tbl = true.
Proof. vm_compute. reflexivity. Qed.

(* Where each point is rendered relative to the node's tokens, strings and children: for
   every kind the restorer case emits decoration points, position assignments, tokens,
   strings, child nodes and lists in exactly the order of the kind's part list in
   gendst/data/data.go -- the description from which the documentation of every point
   (the "/*Point*/" examples of decorations-types-generated.go) is produced. *)
Theorem C04_render_order_is_documented_order : rest_matches_data data_tbl rest_tbl universe = true.
Proof. vm_compute. reflexivity. Qed.

Theorem C04_funcdecl_signature_points : funcdecl_special_covers dec_universe = true.
Proof. vm_compute. reflexivity. Qed.

(* dstutil.Decorations lists Before, After and exactly these points in render order (the
   slice headers themselves, i.e. the node's own storage), and Decorations() returns
   &n.Decs.NodeDecs for every kind *)
Theorem C04_listing_exact : listing_all_ok dec_universe universe points_tbl accessor_tbl = true.
Proof. vm_compute. reflexivity. Qed.

(* Generic theorems ---------------------------------------------------------------------- *)

(* The action list of a node is the concatenation, in statement order, of one segment per
   statement of its case; the segment of applyDecorations(out, name, n.Decs.P, e) is exactly
   one ADecs action carrying the node's decorations at P. *)
Theorem C04_node_segments :
  forall t rk stmts, stmts_acts t rk stmts = flat_map (stmt_acts t rk) stmts.
Proof. reflexivity. Qed.

Theorem C04_dec_segment :
  forall t rk name point e ds,
  lookup (tdecs t) point = Some ds ->
  stmt_acts t rk (RDec name [] point e) = [ADecs (tid t) (tkind t) name e ds].
Proof. intros t rk name point e ds H. cbn. rewrite H. reflexivity. Qed.

(* For every action list (hence every tree, every assignment of decorations to points): if
   the restorer does not panic, each comment decoration occurs in the restored file's comment
   list exactly as often as it occurs in the applyDecorations calls -- nothing is dropped or
   duplicated by the state machine. *)
Theorem C04_comments_rendered_once :
  forall b acts u,
  panic (run_acts b acts) = None ->
  cnt u (all_uids (comments (run_acts b acts))) = cnt u (acts_comment_uids acts).
Proof.
  intros b acts u H. unfold run_acts in *.
  rewrite (run_comments_once acts (init_r b) u H). reflexivity.
Qed.

(* Decorations that are neither comments nor "\n" are silently not rendered: the statement
   of the property is about comment and newline decorations. *)
Example C04_other_strings_dropped :
  comments (run_acts 1 [ADecs 1 "Ident" "Start" false [DOther 5 7]]) = [].
Proof. reflexivity. Qed.

(* A "\n" as the first thing emitted in a file is rendered as a line break (before fix 3dd4b07 it
   duplicated line offset 0 and SetLines failed: finding first-emission-newline). *)
Example C04_first_emission_newline :
  exists r, finish (run_acts 1 [AEnter 1; ASpace false false SNone; ADecs 1 "File" "Start" false [DNl]; AAdv 7]) = Ok r
            /\ r_lines r = [0%Z; 1%Z].
Proof. eexists. split; [vm_compute; reflexivity|reflexivity]. Qed.

Example C04_nonvacuous :
  let acts := [AEnter 1; ADecs 1 "Field" "Start" false [DBlock 5 [] 11]; AAdv 3;
               ADecs 1 "Field" "End" true [DLine 4 12; DLine 4 13]] in
  panic (run_acts 1 acts) = None /\
  map (fun g => (g_owner g, map (fun c => snd c) (g_list g))) (rev (comments (run_acts 1 acts)))
  = [(0%N, [11%N]); (1%N, [12%N]); (0%N, [13%N])].
Proof. vm_compute. split; reflexivity. Qed.


(* applyDecorations (decorator/restorer.go) is not transcribed by hand only: the translator renders its
   body into a cursor program (Gen/CursorSrc.v: block-scoped locals, loops over the decorations and over
   the line breaks inside a comment) and the program is proved to compute Model/Restore.apply_decs for
   EVERY state, node kind, decoration name, end flag and decoration list (Proofs/CursorProofs.v: the loop
   body is run symbolically on all 80 shapes of (decoration, end, firstLine, has Comment field, cursor at
   line start), the loop by induction with the exact environment as invariant) *)
Theorem C04_applyDecorations_source_computes_the_model :
  forall s id kind name isend ds,
    let env' := exec_list applyDecorations_src (decs_env s kind id name isend ds) in
    e_rs env' = apply_decs s id kind name isend ds /\ e_stuck env' = false.
Proof. exact applyDecorations_source_is_model. Qed.

(* the node kinds with a Comment field: hasCommentField's list and the cases of addCommentField are the
   model's four kinds, and every case of addCommentField has the one transcribed body (create the group
   on first use and register it with the file's comments, then append) *)
Definition comment_field_body : string :=
  "if n.Comment == nil { n.Comment = &ast.CommentGroup{} r.comments = append(r.comments, n.Comment) }; n.Comment.List = append(n.Comment.List, c)".

Theorem C04_comment_field_kinds_are_the_models :
  forallb has_comment_field has_comment_field_kinds
  && Nat.eqb (List.length (nodup string_dec has_comment_field_kinds)) 4
  && forallb (fun c => has_comment_field (fst c) && String.eqb (snd c) comment_field_body) add_comment_field_cases
  && Nat.eqb (List.length (nodup string_dec (map fst add_comment_field_cases))) 4 = true.
Proof. vm_compute. reflexivity. Qed.


(* ... hence: running the translated source of applyDecorations adds every comment of the list to the
   file's comments exactly once and no other comment *)
Theorem C04_translated_applyDecorations_renders_each_comment_once :
  forall s id kind name isend ds u,
  cnt u (all_uids (comments (e_rs (exec_list applyDecorations_src (decs_env s kind id name isend ds))))) =
  (cnt u (all_uids (comments s)) + cnt u (comment_uids ds))%nat.
Proof.
  intros. rewrite (proj1 (applyDecorations_source_is_model s id kind name isend ds)). apply apply_decs_cnt.
Qed.

Print Assumptions C04_points_exact.
Print Assumptions C04_render_order_is_documented_order.
Print Assumptions C04_funcdecl_signature_points.
Print Assumptions C04_listing_exact.
Print Assumptions C04_node_segments.
Print Assumptions C04_dec_segment.
Print Assumptions C04_comments_rendered_once.
Print Assumptions C04_applyDecorations_source_computes_the_model.
Print Assumptions C04_comment_field_kinds_are_the_models.
Print Assumptions C04_translated_applyDecorations_renders_each_comment_once.
