(* C01 -- Decorate then print reproduces gofmt-canonical source byte for byte (partial at the
   theorem level: the statements below are about comments, line breaks and positions; that equal
   comments, line breaks and tokens print as equal bytes is go/printer's business -- assumption P
   -- and the byte comparison itself is made on the implementation by the oracle).
   Tables are regenerated from the generated decorator / restorer sources on every run; the hand
   models of link() and of the restorer state machine are corresponded against the real code. *)
From Coq Require Import List String ZArith NArith Bool Lia.
Import ListNotations.
From DV Require Import Model.Decision Gen.EntrySrc.
From DV Require Import Model.Tree Model.Tables Model.Skeleton Model.FragSkel Model.Link Model.Restore
     Proofs.LinkProofs Proofs.LinkPanic Proofs.LinkChunk Proofs.RestoreProofs Proofs.RelocProofs
     Model.Fragment Model.Decorate Proofs.FragReach Proofs.DecReach Proofs.Pipeline Proofs.RestReach Proofs.EndToEnd Gen.DecTbl
     Gen.Universe Gen.DataTbl Gen.FragTbl Gen.RestTbl Gen.RestoreSrc.
Local Open Scope string_scope.
Local Open Scope list_scope.
Local Open Scope Z_scope.

(* Table obligations: the decorator emits every part of every construct in the documented
   order, and the restorer walks the same parts in the same order. *)
Theorem C01_fragments_cover_every_part : frag_matches_data data_tbl frag_tbl universe && frag_frame_ok = true.
Proof. vm_compute. reflexivity. Qed.

Theorem C01_restorer_mirrors_decorator : frag_rest_coherent frag_tbl rest_tbl universe = true.
Proof. vm_compute. reflexivity. Qed.

(* Every entry point: the string helpers create a fresh FileSet (base 1), an explicit Decorator /
   Restorer works on the caller's (any base), ParseDir adds files one after another.  For every
   action list, the restored file has the same line table and size in a FileSet with base b and
   one with base b + d, its comments and positions are shifted by d (NoPos stays NoPos), and one
   run panics iff the other does. *)
Theorem C01_entry_points_differ_only_in_base :
  forall acts b d,
  1 <= b -> 1 <= b + d -> Forall act_ok acts ->
  match finish (run_acts b acts), finish (run_acts (b + d) acts) with
  | Ok r1, Ok r2 =>
    r_lines r2 = r_lines r1 /\ r_size r2 = r_size r1 /\
    r_comments r2 = map (shiftg d) (r_comments r1) /\ Forall2 (relp d) (r_poss r1) (r_poss r2)
  | Panic w1, Panic w2 => w1 = w2
  | _, _ => False
  end.
Proof. exact base_invariance. Qed.

(* Comments: link attaches every comment (or panics), keeps it in a decoration list, and the
   restorer renders every decoration list entry exactly once (C03, C04). *)
Theorem C01_every_comment_kept :
  forall fs,
  (forall k fr, nth_error fs k = Some fr -> attached fr = false \/ (match fr with FCom _ _ _ | FNl _ _ => False | _ => True end)) ->
  l_panic (link fs) = false ->
  forall k d ind a, nth_error fs k = Some (FCom d ind a) -> in_decs (l_decs (link fs)) d.
Proof. exact link_keeps_every_comment. Qed.

(* Line breaks between two nodes: gofmt output has at most one blank line in a row, i.e. one
   newline fragment (empty or not) between an End point and the next Start point.  link records
   it as After of the one node and Before of the other ... *)
Theorem C01_separator_becomes_spacing :
  forall s i e na ca sa ea nb cb sb eb,
  l_panic s = false ->
  nth_error (l_frags s) (S i) = Some (FNl e None) ->
  nth_error (l_frags s) i = Some (FDec na ca "End" sa ea) ->
  nth_error (l_frags s) (S (S i)) = Some (FDec nb cb "Start" sb eb) ->
  let s' := pass2_step s (S i) in
  let sp := if e then SEmptyLine else SNewLine in
  (sget (l_after s') na = Some sp \/ sget (l_after s') na = Some SEmptyLine) /\
  (sget (l_before s') nb = Some sp \/ sget (l_before s') nb = Some SEmptyLine) /\
  l_decs s' = l_decs s /\ l_panic s' = false.
Proof. exact separator_becomes_spacing. Qed.

(* ... and the restorer renders After = Before = sp between two siblings as exactly that many
   line breaks, capped at two: one for NewLine, two (a blank line) for EmptyLine. *)
Theorem C01_spacing_renders_the_same_breaks :
  forall s sp, cursor s <> atnl s ->
  let s2 := apply_space (apply_space s false true sp) false false sp in
  Z.min 2 (nlines s2 - nlines s) = newlines_of sp.
Proof.
  intros s sp Hne. cbn zeta. destruct (sibling_spacing s sp sp Hne) as [_ H]. cbn zeta in H. rewrite H. apply Z.max_id.
Qed.

(* Through the whole pipeline on the regenerated tables: for every go/ast tree and every node of it
   the fragment emitter reaches, the Before / After spacing link recorded for that node is the
   spacing the restorer applies at that node (its applySpace actions are part of the file's
   actions) -- for every attachment state.  With C01_separator_becomes_spacing and
   C01_spacing_renders_the_same_breaks this carries one line break or blank line between two nodes
   from the source to the restored file. *)
Theorem C01_link_spacing_is_applied :
  forall (att : lstate) t t',
  (forall f, FragReach.desc t f -> tkind f = "File" -> imports_aliased f) ->
  reach (frag_paths frag_tbl) t t' -> tkind t' <> "Package" ->
  (exists stmts, lookup dec_tbl (tkind t') = Some stmts) ->
  let acts := flatten rest_tbl false (fun _ => None) (decorateD dec_universe dec_tbl att t) in
  In (ASpace (is_bad_kind (tkind t')) false (space_of (l_before att) (tid t'))) acts /\
  In (ASpace (is_bad_kind (tkind t')) true (space_of (l_after att) (tid t'))) acts.
Proof.
  intros att t t'.
  assert (H : frag_dec_coherent frag_tbl dec_tbl dec_universe && tbl_wf dec_tbl && dec_rest_coherent dec_tbl rest_tbl
              && spacing_coherent dec_tbl rest_tbl = true) by (vm_compute; reflexivity).
  apply andb_true_iff in H. destruct H as [H C4]. apply andb_true_iff in H. destruct H as [H C3]. apply andb_true_iff in H. destruct H as [C1 C2].
  apply (pipeline_applies_link_spacing frag_tbl dec_tbl rest_tbl dec_universe att t t' C1 C2 C3 C4).
Qed.

(* A comment on the same line after a node goes to that node's End point; comment lines directly
   before a node go to its Start point, in order (C02 states both in full). *)
Theorem C01_trailing_comment_goes_to_end :
  forall s i d ind nid cls name st en,
  l_panic s = false ->
  nth_error (l_frags s) (S i) = Some (FCom d ind None) ->
  nth_error (l_frags s) i = Some (FDec nid cls name st en) ->
  let s' := pass1_step s (S i) in
  dget (l_decs s') (nid, name) = dget (l_decs s) (nid, name) ++ [d] /\
  nth_error (l_frags s') (S i) = Some (FCom d ind (Some i)) /\
  (forall k, dkey_eqb k (nid, name) = false -> dget (l_decs s') k = dget (l_decs s) k).
Proof. exact trailing_comment_goes_to_end. Qed.

(* non-vacuity: two statements separated by a blank line, the first with a trailing comment *)
Example C01_nonvacuous :
  let st := mkNC true false false false in
  let fs := [FDec 1 st "Start" 1 1; FTok; FDec 1 st "End" 1 1; FCom (DLine 4 7) 1 None; FNl true None;
             FDec 2 st "Start" 1 1; FTok; FDec 2 st "End" 1 1; FNl false None] in
  seg_ok fs = true /\ l_panic (link fs) = false /\
  dget (l_decs (link fs)) (1%N, "End") = [DLine 4 7] /\
  sget (l_after (link fs)) 1%N = Some SEmptyLine /\ sget (l_before (link fs)) 2%N = Some SEmptyLine /\
  sget (l_after (link fs)) 2%N = Some SNewLine.
Proof. vm_compute. repeat split; reflexivity. Qed.

(* FileRestorer.RestoreFile re-initialises the state the model starts from before every file
   (lines = [0] in a fresh array, no comments, cursorAtNewLine = 0, base = cursor = Fset.Base()):
   a reused FileRestorer behaves like a new one. *)
Theorem C01_restorer_starts_from_init_state : restorefile_starts_from_init_state = true.
Proof. vm_compute. reflexivity. Qed.

(* Decorator.DecorateNode fragments and links the files of a package one at a time on an emptied
   fragment list (directory parsing): what the models say about a File root holds for each file of
   a package; no comment or line break of one file can reach a node of another. *)
Theorem C01_package_files_decorated_one_at_a_time : package_files_decorated_one_at_a_time = true.
Proof. vm_compute. reflexivity. Qed.



(* "all entry points": the package-level helpers and the Print / Fprint / RestoreFile methods are wrappers, translated on every run (bindings inlined, the error check as a guard, the returned expression as a symbol): every parse helper is the Decorator method on a fresh Decorator over the given FileSet; every Print is Fprint to os.Stdout; every Fprint returns the error of its own RestoreFile or format.Node of the restored file over the restorer's FileSet; Restorer.RestoreFile is FileRestorer().RestoreFile -- so the theorems about RestoreFile and the assumption P about format.Node cover every way of printing *)
Theorem C01_every_entry_point_is_the_one_pipeline :
  entry_points_src =
  [("Parse", [DRet (DVal "NewDecorator(token.NewFileSet()).Parse(src)")]);
   ("ParseFile", [DRet (DVal "NewDecorator(fset).ParseFile(filename,src,mode)")]);
   ("ParseDir", [DRet (DVal "NewDecorator(fset).ParseDir(dir,filter,mode)")]);
   ("Decorate", [DRet (DVal "NewDecorator(fset).DecorateNode(n)")]);
   ("DecorateFile", [DRet (DVal "NewDecorator(fset).DecorateFile(f)")]);
   ("Print", [DRet (DVal "Fprint(os.Stdout,f)")]);
   ("Fprint", [DGuard "fails(RestoreFile(f))" false DErr; DRet (DVal "format.Node(w,RestoreFile(f).0,RestoreFile(f).1)")]);
   ("RestoreFile", [DGuard "fails(NewRestorer().RestoreFile(file))" false DErr;
                    DRet (DVal "NewRestorer().Fset , NewRestorer().RestoreFile(file) , nil")]);
   ("Restorer.Print", [DRet (DVal "pr.Fprint(os.Stdout,f)")]);
   ("Restorer.Fprint", [DGuard "fails(pr.RestoreFile(f))" false DErr; DRet (DVal "format.Node(w,pr.Fset,pr.RestoreFile(f))")]);
   ("Restorer.RestoreFile", [DRet (DVal "pr.FileRestorer().RestoreFile(file)")]);
   ("FileRestorer.Print", [DRet (DVal "r.Fprint(os.Stdout,f)")]);
   ("FileRestorer.Fprint", [DGuard "fails(r.RestoreFile(f))" false DErr; DRet (DVal "format.Node(w,r.Fset,r.RestoreFile(f))")])].
Proof. vm_compute. reflexivity. Qed.

Print Assumptions C01_fragments_cover_every_part.
Print Assumptions C01_restorer_mirrors_decorator.
Print Assumptions C01_entry_points_differ_only_in_base.
Print Assumptions C01_every_comment_kept.
Print Assumptions C01_separator_becomes_spacing.
Print Assumptions C01_spacing_renders_the_same_breaks.
Print Assumptions C01_link_spacing_is_applied.
Print Assumptions C01_trailing_comment_goes_to_end.
Print Assumptions C01_restorer_starts_from_init_state.
Print Assumptions C01_package_files_decorated_one_at_a_time.
Print Assumptions C01_every_entry_point_is_the_one_pipeline.
