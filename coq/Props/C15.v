(* C15 -- No input makes parsing or printing panic (partial: go/parser's envelope for partial
   trees is an assumption validated by the malformed stream of the harness).
   The panic sites of the decorate and restore paths are: link's "no decoration found" (two
   sites), the restorer's duplicate-node check, a "\n" decoration before anything was emitted /
   SetLines failure, and the statements the translator could not recognise (none: UNKNOWN.txt is
   empty for the files this property is anchored in). *)
From Coq Require Import List String ZArith NArith Bool Lia.
Import ListNotations.
From DV Require Import Model.Decision Gen.DecisionSrc Proofs.ParseFileProofs.
From DV Require Import Model.Tree Model.Tables Model.Skeleton Model.FragSkel Model.Link Model.Restore
     Model.Fragment Proofs.LinkProofs Proofs.LinkPanic Proofs.RestoreProofs Proofs.DupProofs Proofs.FragSafe
     Gen.Universe Gen.DataTbl Gen.FragTbl Gen.RestTbl Gen.ImportsSrc Gen.ErrProp Gen.PanicSites.
Local Open Scope string_scope.
Local Open Scope list_scope.
Local Open Scope Z_scope.

(* link: on every fragment list in which each comment and newline can reach a decoration
   fragment without crossing a token (evaluated on every real fragment list: mismatch_seg),
   neither "no decoration found" panic is reached. *)
Theorem C15_link_does_not_panic : forall fs, seg_ok fs = true -> l_panic (link fs) = false.
Proof. exact link_no_panic. Qed.

(* Every node kind offers a point before its first and after its last token, so a comment can
   only lack a point between two tokens of one node with no point in between. *)
Theorem C15_every_node_bracketed_by_points :
  forallb (fun e => String.eqb (fst e) "Package" ||
                    (starts_with_dec (frag_skeleton (snd e)) &&
                     ends_with_dec (if String.eqb (fst e) "File"
                                    then filter (fun s => match s with SkList _ => false | _ => true end) (frag_skeleton (snd e))
                                    else frag_skeleton (snd e)))) frag_tbl = true.
Proof. vm_compute. reflexivity. Qed.

(* addNodeFragments dereferences no nil child: for every tree inside the envelope -- every node
   offers the children its kind's case descends into without a nil check, and values of the right
   shape for tokens, strings and conditions -- the interpreter of the regenerated fragment table
   keeps its error flag clear.  The envelope is a boolean; it is evaluated on every tree go/parser
   produced in the run, including the partial trees of truncated and corrupted sources
   (mismatch_envelope, mismatch_envelope_malformed), and the interpreter is corresponded against the
   real fragment() on the same trees. *)
Theorem C15_fragment_dereferences_no_nil_child :
  forall t, frag_envelope frag_tbl t = true -> f_err (node_frags frag_tbl t) = false.
Proof. exact (fragment_no_nil_dereference frag_tbl). Qed.

(* restorer: for every action list with non-negative lengths, if no explicit panic action is executed (duplicate
   node, unrecognised statement) then SetLines succeeds: the restored file is produced. *)
Theorem C15_restore_produces_a_file :
  forall b acts,
  1 <= b -> Forall act_ok acts -> safe 0 acts ->
  panic (run_acts b acts) = None ->
  exists r, finish (run_acts b acts) = Ok r.
Proof.
  intros b acts Hb Hok Hs Hp. destruct (run_coherent b acts Hb Hok Hs Hp) as [r [H _]]. exists r. exact H.
Qed.

(* The explicit panic sites of the decorate / restore path are exactly the audited ones:
   - DecorateNode / RestoreFile: configuration errors (Path without Resolver and vice versa), raised
     before any input is looked at; resolvePath without resolver: unreachable behind the same check;
   - "unsupported parentName" / "Path set on illegal Ident": the avoid table is complete for every
     identifier field of the universe (C09_avoid_table_complete);
   - decorateObject / restoreObject "o.Decl is", "o.Data is": go/parser fills Decl and Data with the
     listed types only (C18 oracle);
   - mergeDecorations "%T": called with strings and SpaceTypes only (Model/Merge.v, C08);
   - link "no decoration found" (two sites): C15_link_does_not_panic;
   - "ff.SetLines failed", "duplicate node": C15_restore_produces_a_file, C06_distinct_nodes_do_not_panic;
   - mustUnquote: import paths the parser accepted unquote (oracle: malformed stream);
   - restoreNode "%T": the type switch covers the universe (C11_restorer_cases_record_both_maps).
   A new panic site changes this list and is reported. *)
Theorem C15_panic_sites_are_the_audited_ones :
  map (fun e => (fst (fst e), snd (fst e))) panic_sites =
  [("decorator.go", "Decorator.DecorateNode"); ("decorator.go", "Decorator.DecorateNode");
   ("decorator.go", "fileDecorator.resolvePath"); ("decorator.go", "fileDecorator.resolvePath");
   ("decorator.go", "fileDecorator.decorateObject"); ("decorator.go", "fileDecorator.decorateObject");
   ("decorator.go", "mergeDecorations");
   ("decorator-fragment.go", "fileDecorator.link"); ("decorator-fragment.go", "fileDecorator.link");
   ("restorer.go", "FileRestorer.RestoreFile"); ("restorer.go", "FileRestorer.RestoreFile"); ("restorer.go", "FileRestorer.RestoreFile");
   ("restorer.go", "FileRestorer.restoreIdent"); ("restorer.go", "FileRestorer.restoreIdent");
   ("restorer.go", "FileRestorer.restoreObject"); ("restorer.go", "FileRestorer.restoreObject");
   ("restorer.go", "mustUnquote");
   ("restorer-generated.go", "FileRestorer.restoreNode"); ("restorer-generated.go", "FileRestorer.restoreNode")].
Proof. vm_compute. reflexivity. Qed.

(* Decorator.ParseFile returns the parser's error without decorating when the parser produced no
   registered file (nil, or the placeholder without a valid position that it returns for empty
   input or a broken package clause), and next to the decorated partial tree otherwise; the
   functions on the decorate / restore path return the errors they receive (C17's lint), and the
   import manager resolves before it mutates and wraps resolver errors. *)
Theorem C15_errors_are_returned :
  parsefile_returns_parser_error && forallb (fun e => snd e) err_propagation
  && imports_resolve_before_mutation && imports_error_wrapped = true.
Proof. vm_compute. reflexivity. Qed.

(* a hand-built tree whose first emission is a "\n" decoration used to make SetLines fail; it is
   restored since fix 3dd4b07 *)
Example C15_first_emission_newline_is_restored :
  exists r, finish (run_acts 1 [AEnter 1; ASpace false false SNone; ADecs 1 "File" "Start" false [DNl]; AAdv 7]) = Ok r.
Proof. eexists. vm_compute. reflexivity. Qed.

Example C15_nonvacuous :
  let st := mkNC true false false false in
  let fs := [FDec 1 st "Start" 1 1; FTok; FDec 1 st "End" 1 1; FCom (DLine 4 7) 1 None; FNl false None] in
  seg_ok fs = true /\ l_panic (link fs) = false.
Proof. vm_compute. split; reflexivity. Qed.


(* Decorator.ParseFile (and Parse, ParseDir's per-file use) is translated on every run (functions with several
   results: "return a, b" as one symbol, "a, b := CALL" as the two components of the call) and proved to
   compute, for every answer of the parser and of the decoration: nothing and the parser's error when the
   parser returned no file or a placeholder without a position; else nothing and the decoration's error (a
   failing resolver) whatever the parser reported; else the decorated file together with the parser's error *)
Theorem C15_parsefile_source_computes_the_model :
  (forall perr_nil file_nil pos_valid dec_fails,
    pf_outcome (run (pf_val perr_nil file_nil pos_valid dec_fails) parsefile_src)
    = Some (parsefile_spec perr_nil file_nil pos_valid dec_fails)) /\
  (forall perr_nil, parsefile_spec perr_nil false true true = NothingWithDecorationError).
Proof. split; [exact parsefile_source_is_model | exact decoration_error_wins]. Qed.

Theorem C15_parsefile_source_is_within_the_vocabulary : parsefile_vocabulary_ok = true.
Proof. vm_compute. reflexivity. Qed.

Print Assumptions C15_link_does_not_panic.
Print Assumptions C15_every_node_bracketed_by_points.
Print Assumptions C15_fragment_dereferences_no_nil_child.
Print Assumptions C15_restore_produces_a_file.
Print Assumptions C15_panic_sites_are_the_audited_ones.
Print Assumptions C15_errors_are_returned.
Print Assumptions C15_parsefile_source_computes_the_model.
Print Assumptions C15_parsefile_source_is_within_the_vocabulary.
