(* C03 -- Tokens and comments survive decorate + print for any parseable source.
   The fragment table is regenerated from decorator/decorator-fragment-generated.go, the
   restorer table from decorator/restorer-generated.go, the decorator table from
   decorator/decorator-node-generated.go and the reference order from gendst/data/data.go on
   every run; Model/Link.v is a hand model of fileDecorator.link, tied to the real link() by
   correspondence on the fragment lists the real fragment() produced (verif hook). *)
From Coq Require Import List String ZArith NArith Bool.
Import ListNotations.
From DV Require Import Model.Decision Gen.EntrySrc.
From DV Require Import Gen.RestoreSrc.
From DV Require Import Model.Tree Model.Tables Model.Skeleton Model.FragSkel Model.Values Model.Link Model.Fragment Model.Decorate Model.Restore
     Proofs.LinkProofs Proofs.LinkPanic Proofs.LinkLocal Proofs.LinkOrder Proofs.LinkCount Proofs.FragProofs Proofs.RestoreProofs
     Proofs.FragReach Proofs.DecReach Proofs.Pipeline Proofs.RestReach Proofs.EndToEnd
     Gen.Universe Gen.DataTbl Gen.FragTbl Gen.RestTbl Gen.DecTbl.
Local Open Scope string_scope.
Local Open Scope list_scope.

(* Table obligations ---------------------------------------------------------------------- *)

(* Per node kind the decorator emits, in the order data.go documents, a fragment for every
   decoration point that is not disabled, every token, every string, every Bad span, and
   descends into every child node and child list: no token, literal or child of any construct
   is missing from the fragment list (and the frame of addNodeFragments is the expected one). *)
Theorem C03_fragments_cover_every_part : frag_matches_data data_tbl frag_tbl universe && frag_frame_ok = true.
Proof. vm_compute. reflexivity. Qed.

(* The restorer walks the same points, tokens, strings and children in the same order as the
   decorator emitted them (up to File.End, File.Imports and the FuncDecl signature points, which
   exist on one side only): what is attached to point p of node n is rendered at point p of n. *)
Theorem C03_restorer_mirrors_decorator : frag_rest_coherent frag_tbl rest_tbl universe = true.
Proof. vm_compute. reflexivity. Qed.

(* Identifier text, literal text and tokens survive both conversions: every string, token.Token
   and ChanDir field of every dst kind is assigned exactly once by the decorator, as a plain copy
   of the go/ast field of the same name, and copied back by the restorer (Ident.Path, which the
   resolver computes, is the one exception); bool fields are copies, position-validity tests of the
   field of the same name, or constants. *)
Theorem C03_token_values_survive_both_conversions :
  values_roundtrip universe dec_tbl rest_tbl && bools_derived universe dec_tbl = true.
Proof. vm_compute. reflexivity. Qed.

(* What link attaches reaches the dst node: every decoration point the fragment emitter offers
   for a kind is stored by that kind's decorateNode case, after every other statement of the case,
   and both spacings are stored.  (Model/Decorate.v, the interpreter of this table, composed with
   the fragment and link models reproduces the dst tree of the real Decorator on every file of the
   correspondence: values, children, decorations at every point, Before / After.) *)
Theorem C03_decorate_stores_what_link_attaches : decorate_stores_what_link_attaches frag_tbl dec_tbl universe = true.
Proof. vm_compute. reflexivity. Qed.

(* Every case starts and ends with a decoration point: a node always offers a point before its
   first and after its last token.  (File: its End point is disabled; after its last token come
   the Name point and the declarations, each of which ends with a point.) *)
Theorem C03_every_node_bracketed_by_points :
  forallb (fun e => String.eqb (fst e) "Package" ||
                    (starts_with_dec (frag_skeleton (snd e)) &&
                     ends_with_dec (if String.eqb (fst e) "File"
                                    then filter (fun s => match s with SkList _ => false | _ => true end) (frag_skeleton (snd e))
                                    else frag_skeleton (snd e)))) frag_tbl = true.
Proof. vm_compute. reflexivity. Qed.

(* Generic theorems (every fragment list) --------------------------------------------------- *)

(* link either panics or leaves no comment fragment unattached. *)
Theorem C03_every_comment_attached :
  forall fs, l_panic (link fs) = false -> all_comments_attached (l_frags (link fs)).
Proof. exact link_attaches_every_comment. Qed.

(* ... and an attached comment is in the decoration list of its (node, point): for every
   fragment list in which nothing is attached yet, every comment of the list ends up in some
   decoration list. *)
Theorem C03_every_comment_kept :
  forall fs,
  (forall k fr, nth_error fs k = Some fr -> attached fr = false \/ (match fr with FCom _ _ _ | FNl _ _ => False | _ => True end)) ->
  l_panic (link fs) = false ->
  forall k d ind a, nth_error fs k = Some (FCom d ind a) -> in_decs (l_decs (link fs)) d.
Proof. exact link_keeps_every_comment. Qed.

(* No comment crosses a token or another decoration point: for every fragment list in which no
   comment is attached yet, after link every comment sits next to the decoration fragment it is
   attached to -- between the two there are only comments, line breaks and bad spans.  (The
   restorer renders a decoration at its point: C04; so a comment stays between the same two
   tokens.) *)
Theorem C03_no_comment_crosses_a_token :
  forall fs,
  (forall c d ind a, nth_error fs c = Some (FCom d ind a) -> a = None) ->
  forall c d ind j, nth_error (l_frags (link fs)) c = Some (FCom d ind (Some j)) -> adjacent (l_frags (link fs)) c j.
Proof. exact link_attaches_locally. Qed.

(* Comments are stored in order: for every fragment list in which no comment is attached yet and
   any two comments c1 < c2 that link attaches to the decoration fragments j1 and j2, j1 <= j2.
   With the locality theorem above: within a run of comments between two decoration points, a
   prefix goes to the point on the left and the rest to the point on the right -- nothing is
   reordered across points.  (Within one point the order, and exactly-once, are validated on
   every fragment list of the run: mismatch_order.) *)
Theorem C03_comments_are_attached_in_order :
  forall fs,
  (forall c d ind a, nth_error fs c = Some (FCom d ind a) -> a = None) ->
  forall c1 c2 j1 j2, (c1 < c2)%nat -> att (link fs) c1 j1 -> att (link fs) c2 j2 -> (j1 <= j2)%nat.
Proof. exact link_attaches_in_order. Qed.

(* ... and exactly once: for every fragment list in which no comment is attached yet, if link does
   not panic, every comment text occurs in the decoration lists exactly as often as among the comment
   fragments -- no comment is duplicated, none is lost. *)
Theorem C03_each_comment_stored_exactly_once :
  forall fs,
  (forall c d ind a, nth_error fs c = Some (FCom d ind a) -> a = None) ->
  l_panic (link fs) = false ->
  forall u, cnt u (decs_uids (l_decs (link fs))) = cnt u (comment_frag_uids fs).
Proof. exact link_stores_each_comment_once. Qed.

(* link does not panic when every comment and newline fragment lies in a token-delimited
   segment that holds a decoration fragment (seg_ok is evaluated on every fragment list of the
   correspondence: mismatch_seg). *)
Theorem C03_link_does_not_panic : forall fs, seg_ok fs = true -> l_panic (link fs) = false.
Proof. exact link_no_panic. Qed.

(* fragment() ; link(), for every positioned go/ast tree, every comment list and every line
   table (Model/Fragment.v: the interpreter of the fragment table with the cursor arithmetic,
   comment fragments, newline discovery, the stable sort and the indent pass -- corresponded
   against the real fragment() on every run): the sort neither loses nor invents a fragment, and
   if link does not panic every comment of the file is in the decoration list of some
   (node, point). *)
Theorem C03_sort_keeps_every_fragment : forall l, Permutation.Permutation (stable_sort l) l.
Proof. exact stable_sort_perm. Qed.

Theorem C03_decorate_keeps_every_comment :
  forall tbl stmts decls fi t comments frs err,
  fragment tbl stmts decls fi t comments = (frs, err) ->
  l_panic (link (map snd frs)) = false ->
  forall pos d, In (pos, d) comments -> in_decs (l_decs (link (map snd frs))) d.
Proof. exact decorate_keeps_every_comment. Qed.

(* The whole pipeline on the regenerated tables -- fragment ; link ; decorate ; restore -- for every
   positioned go/ast tree, every comment list, every line table and every FileSet base: if no stage
   panics, every comment of the file is among the comments of the restored file.  Nothing is
   dropped.  The three table conditions relate the tables to each other: every child and point of
   the fragment emitter is a child / stored point of the decorator, the decorator assigns each
   field once, the restorer descends into every child the decorator assigned and renders every
   point it stored.  The one hypothesis about the tree: File.Imports is an alias list -- its
   elements are specs of the file's declarations (go/parser builds it that way; evaluated on every
   tree of the correspondence: mismatch_alias). *)
Theorem C03_tables_fit_together :
  frag_dec_coherent frag_tbl dec_tbl dec_universe && tbl_wf dec_tbl && dec_rest_coherent dec_tbl rest_tbl = true.
Proof. vm_compute. reflexivity. Qed.

Theorem C03_pipeline_keeps_every_comment :
  forall fi t coms frs err b,
  (forall f, FragReach.desc t f -> tkind f = "File" -> imports_aliased f) ->
  fragment frag_tbl ast_stmt_kinds ast_decl_kinds fi t coms = (frs, err) ->
  let att := link (map snd frs) in
  l_panic att = false ->
  let acts := flatten rest_tbl false (fun _ => None) (decorateD dec_universe dec_tbl att t) in
  panic (run_acts b acts) = None ->
  forall pos d u, In (pos, d) coms -> In u (comment_uids [d]) ->
  In u (all_uids (comments (run_acts b acts))).
Proof.
  intros fi t coms frs err b. pose proof C03_tables_fit_together as H.
  apply andb_true_iff in H. destruct H as [H C3]. apply andb_true_iff in H. destruct H as [C1 C2].
  apply (pipeline_keeps_every_comment _ _ _ _ _ _ fi t coms frs err b C1 C2 C3).
Qed.

(* The restorer's state machine renders each comment decoration exactly as often as it occurs
   in the decoration lists it is given (C04): nothing is dropped or duplicated on the way out. *)
Theorem C03_restorer_renders_each_comment_once :
  forall b acts u,
  panic (run_acts b acts) = None ->
  cnt u (all_uids (comments (run_acts b acts))) = cnt u (acts_comment_uids acts).
Proof.
  intros b acts u H. unfold run_acts in *. rewrite (run_comments_once acts (init_r b) u H). reflexivity.
Qed.

(* the hypothesis of C03_link_does_not_panic is needed *)
Example C03_no_point_between_tokens_panics :
  let fs := [FDec 1 (mkNC false false false false) "Start" 0 0; FTok; FCom (DLine 3 1) 0 None; FTok; FDec 1 (mkNC false false false false) "End" 0 0] in
  seg_ok fs = false /\ l_panic (link fs) = true.
Proof. exact link_panics_without_decoration. Qed.

(* non-vacuity: x := 1 // c  with the comment between the statement's End point and a newline *)
Example C03_nonvacuous :
  let st := mkNC true false false false in
  let fs := [FDec 1 st "Start" 1 1; FTok; FDec 1 st "End" 1 1; FCom (DLine 4 7) 1 None; FNl false None;
             FDec 2 st "Start" 1 1; FTok; FDec 2 st "End" 1 1] in
  seg_ok fs = true /\ l_panic (link fs) = false /\
  dget (l_decs (link fs)) (1%N, "End") = [DLine 4 7] /\
  sget (l_before (link fs)) 2%N = Some SNewLine.
Proof. vm_compute. repeat split; reflexivity. Qed.

(* RestoreFile after updateImports, statement by statement (pinned text, regenerated on every run):
   every comment group the restorer recorded is appended, once and in order, to a fresh Comments list of the restored file, before the file is registered *)
Theorem C03_restorefile_hands_every_comment_group_to_the_file : restorefile_finishes_as_the_model = true.
Proof. vm_compute. reflexivity. Qed.


(* every print entry point hands exactly the file RestoreFile returned, with its FileSet, to format.Node -- none prints through another configuration, none skips go/format (translated wrappers, see C01) *)
Theorem C03_every_print_entry_point_formats_the_restored_file :
  entry_points_src =
  [("Parse", [DRet (DVal "NewDecorator(token.NewFileSet()).Parse(src)")]);
   ("ParseFile", [DRet (DVal "NewDecorator(fset).ParseFile(filename,src,mode)")]);
   ("ParseDir", [DRet (DVal "NewDecorator(fset).ParseDir(dir,filter,mode)")]);
   ("Decorate", [DRet (DVal "NewDecorator(fset).DecorateNode(n)")]);
   ("DecorateFile", [DRet (DVal "NewDecorator(fset).DecorateFile(f)")]);
   ("Print", [DRet (DVal "Fprint(os.Stdout,f)")]);
   ("Fprint", [DGuard "fails(RestoreFile(f))" false DErr; DRet (DVal "format.Node(w,RestoreFile(f).0,RestoreFile(f).1)")]);
   ("RestoreFile", [DGuard "fails(NewRestorer().RestoreFile(file))" false DErr;
                    DRet (DVal "NewRestorer().Fset , NewRestorer().RestoreFile(file) , nil")]);
   ("Restorer.Print", [DRet (DVal "pr.Fprint(os.Stdout,f)")]);
   ("Restorer.Fprint", [DGuard "fails(pr.RestoreFile(f))" false DErr; DRet (DVal "format.Node(w,pr.Fset,pr.RestoreFile(f))")]);
   ("Restorer.RestoreFile", [DRet (DVal "pr.FileRestorer().RestoreFile(file)")]);
   ("FileRestorer.Print", [DRet (DVal "r.Fprint(os.Stdout,f)")]);
   ("FileRestorer.Fprint", [DGuard "fails(r.RestoreFile(f))" false DErr; DRet (DVal "format.Node(w,r.Fset,r.RestoreFile(f))")])].
Proof. vm_compute. reflexivity. Qed.

Print Assumptions C03_fragments_cover_every_part.
Print Assumptions C03_restorer_mirrors_decorator.
Print Assumptions C03_token_values_survive_both_conversions.
Print Assumptions C03_decorate_stores_what_link_attaches.
Print Assumptions C03_every_node_bracketed_by_points.
Print Assumptions C03_every_comment_attached.
Print Assumptions C03_every_comment_kept.
Print Assumptions C03_no_comment_crosses_a_token.
Print Assumptions C03_comments_are_attached_in_order.
Print Assumptions C03_each_comment_stored_exactly_once.
Print Assumptions C03_link_does_not_panic.
Print Assumptions C03_sort_keeps_every_fragment.
Print Assumptions C03_decorate_keeps_every_comment.
Print Assumptions C03_tables_fit_together.
Print Assumptions C03_pipeline_keeps_every_comment.
Print Assumptions C03_restorer_renders_each_comment_once.
Print Assumptions C03_restorefile_hands_every_comment_group_to_the_file.
Print Assumptions C03_every_print_entry_point_formats_the_restored_file.
