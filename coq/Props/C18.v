(* C18 -- Object and scope graphs survive decoration and optional restoration.
   Model/ObjGraph.v: the memoised copy of decorateObject / decorateScope (hand model) and the
   isomorphism check; both are evaluated on the real graphs of every run (Cases/C18_cases.v:
   the real copy passes the check; the model's copy of the same graph passes it and covers the
   same objects and scopes).  Gen/ResolveSrc.v (regenerated every run): dst.NewPackage and the
   Scope / Object helpers against go/ast's own source. *)
From Coq Require Import List String ZArith NArith Bool.
Import ListNotations.
From DV Require Import Model.ObjGraph Proofs.GraphProofs Proofs.CopyProofs Gen.ResolveSrc.
Local Open Scope string_scope.
Local Open Scope list_scope.

(* The isomorphism check is sound: when it accepts (source graph, copy, object map, scope map,
   node map), the maps are injective -- two identifiers share an object exactly when their
   counterparts do -- every object keeps kind, name and data, its declaration link points to the
   counterpart of the declaring node or scope, and every scope keeps its nesting and its
   membership, member by member.  For all graphs, including cyclic ones. *)
Theorem C18_isomorphism_check_is_sound :
  forall g g' mo ms mn, iso_check g g' mo ms mn = true ->
  (forall a1 a2 d, nget mo a1 = Some d -> nget mo a2 = Some d -> a1 = a2) /\
  (forall s1 s2 d, nget ms s1 = Some d -> nget ms s2 = Some d -> s1 = s2) /\
  (forall a d, In (a, d) mo ->
     exists oa od, nget (g_objs g) a = Some oa /\ nget (g_objs g') d = Some od /\
       o_kind oa = o_kind od /\ o_name oa = o_name od /\
       ref_mapped mo ms mn (o_decl oa) (o_decl od) /\ ref_mapped mo ms mn (o_data oa) (o_data od)) /\
  (forall s d, In (s, d) ms ->
     exists sa sd, nget (g_scopes g) s = Some sa /\ nget (g_scopes g') d = Some sd /\
       (match s_outer sa, s_outer sd with
        | None, None => True
        | Some u, Some u' => nget ms u = Some u'
        | _, _ => False
        end) /\
       map fst (s_objs sa) = map fst (s_objs sd) /\
       (forall i n o n' o', nth_error (s_objs sa) i = Some (n, o) -> nth_error (s_objs sd) i = Some (n', o') -> nget mo o = Some o')).
Proof. exact iso_check_sound. Qed.

(* The memoised copy (decorateObject / decorateScope, restoreObject / restoreScope: allocate the copy,
   record it in the map, then copy the fields) of EVERY well-formed graph -- any size, any cycles,
   any roots -- terminates within fuel = number of objects and scopes + 1, is accepted by the check
   above, and contains a copy of every root.  (Cases/C18_cases.v: mismatch_graph_wf = [] -- the
   parser's and the decorator's real graphs are well formed; mismatch_graph = [] -- the model's copy
   covers the same objects and scopes as the real one.) *)
Theorem C18_memoised_copy_is_accepted :
  forall src mn fuel roots,
  wf_srcb src = true -> (List.length (g_objs src) + List.length (g_scopes src) < fuel)%nat ->
  let st := copy_all src mn fuel roots in
  iso_check src (c_out st) (c_mo st) (c_ms st) mn = true /\
  forall w, In w roots -> root_copied src st w.
Proof. intros src mn fuel roots H. apply memoised_copy_accepted. apply wf_srcb_sound. exact H. Qed.

(* hence the copy is an isomorphism in the sense of the first theorem: shared objects stay shared,
   distinct ones stay distinct *)
Corollary C18_memoised_copy_keeps_sharing :
  forall src mn fuel roots,
  wf_srcb src = true -> (List.length (g_objs src) + List.length (g_scopes src) < fuel)%nat ->
  let st := copy_all src mn fuel roots in
  forall a1 a2 d, nget (c_mo st) a1 = Some d -> nget (c_mo st) a2 = Some d -> a1 = a2.
Proof.
  intros src mn fuel roots H Hf st. destruct (C18_memoised_copy_is_accepted src mn fuel roots H Hf) as [Hc _].
  exact (proj1 (iso_check_sound _ _ _ _ _ Hc)).
Qed.

(* dst.NewPackage, resolve, declare and the Scope / Object helpers are go/ast's text with the
   package renamed and positions removed (the position argument of p.error / p.errorf dropped;
   error, errorf and declare pinned to their position-free text): same package scope, same
   redeclaration and undeclared-name reports, positions aside. *)
Theorem C18_newpackage_is_goasts : forallb (fun e => snd e) resolve_same_as_goast = true.
Proof. vm_compute. reflexivity. Qed.

(* The memoised copy on a graph with cycles (a function whose scope declares an object whose
   declaration is that scope; a package-level variable): terminates within fuel = number of
   objects and scopes + 1 and is accepted by the check. *)
Example C18_copy_of_a_cyclic_graph :
  let g := mkGraph [(1%N, mkObj 4 "x" (RNode 10) (RInt 0)); (2%N, mkObj 5 "f" (RNode 11) (RScope 2)); (3%N, mkObj 4 "y" (RScope 2) RNil)]
                   [(1%N, mkScope None [("x", 1%N); ("f", 2%N)]); (2%N, mkScope (Some 1%N) [("y", 3%N)])] in
  let st := copy_all g (fun n => n + 100)%N 6 [WScope 1] in
  iso_check g (c_out st) (c_mo st) (c_ms st) (fun n => n + 100)%N = true /\
  List.length (c_mo st) = 3 /\ List.length (c_ms st) = 2.
Proof. vm_compute. repeat split. Qed.

(* a copy that shares one object for two sources, or drops a scope member, is rejected *)
Example C18_check_rejects_non_isomorphic_copies :
  let g := mkGraph [(1%N, mkObj 4 "x" RNil RNil); (2%N, mkObj 4 "y" RNil RNil)] [(1%N, mkScope None [("x", 1%N); ("y", 2%N)])] in
  iso_check g (mkGraph [(5%N, mkObj 4 "x" RNil RNil)] [(6%N, mkScope None [("x", 5%N); ("y", 5%N)])]) [(1%N, 5%N); (2%N, 5%N)] [(1%N, 6%N)] (fun n => n) = false /\
  iso_check g (mkGraph [(5%N, mkObj 4 "x" RNil RNil); (7%N, mkObj 4 "y" RNil RNil)] [(6%N, mkScope None [("x", 5%N)])]) [(1%N, 5%N); (2%N, 7%N)] [(1%N, 6%N)] (fun n => n) = false.
Proof. vm_compute. split; reflexivity. Qed.

Print Assumptions C18_isomorphism_check_is_sound.
Print Assumptions C18_newpackage_is_goasts.
Print Assumptions C18_memoised_copy_is_accepted.
Print Assumptions C18_memoised_copy_keeps_sharing.
