(* C02 -- Comments and spacing travel with their node when sibling lists are edited (partial at
   the theorem level: byte equality with gofmt of the chunk-edited text needs go/printer --
   assumption P -- and is checked on the implementation by the chunk-edit oracle).
   Three links, each proved for all inputs of its model:
   (a) attachment: the comments of an element's chunk are stored on the element (link model);
   (b) editing: the restorer's actions for a list are the concatenation of per-element segments,
       each a function of the element's subtree only, and Clone copies that subtree exactly;
   (c) relocation: a segment contributes the same comments, line breaks and positions wherever
       it runs, up to the offset (restorer state machine). *)
From Coq Require Import List String ZArith NArith Bool Lia.
Import ListNotations.
From DV Require Import Gen.RestoreSrc.
From DV Require Import Model.Tree Model.Tables Model.Link Model.Restore Model.Clone
     Proofs.LinkProofs Proofs.LinkChunk Proofs.LinkLocal Proofs.LinkOrder Proofs.RestoreProofs Proofs.RelocProofs Proofs.EditProofs Proofs.CloneProofs
     Gen.Universe Gen.CloneTbl Gen.RestTbl.
Local Open Scope string_scope.
Local Open Scope list_scope.
Local Open Scope Z_scope.

(* (a) attachment ------------------------------------------------------------------------------ *)

(* the trailing same-line comment of a chunk is stored at the End point of the node it follows,
   and in no other decoration list *)
Theorem C02_trailing_comment_goes_to_end :
  forall s i d ind nid cls name st en,
  l_panic s = false ->
  nth_error (l_frags s) (S i) = Some (FCom d ind None) ->
  nth_error (l_frags s) i = Some (FDec nid cls name st en) ->
  let s' := pass1_step s (S i) in
  dget (l_decs s') (nid, name) = dget (l_decs s) (nid, name) ++ [d] /\
  nth_error (l_frags s') (S i) = Some (FCom d ind (Some i)) /\
  (forall k, dkey_eqb k (nid, name) = false -> dget (l_decs s') k = dget (l_decs s) k).
Proof. exact trailing_comment_goes_to_end. Qed.

(* the directly preceding comment lines of a chunk (any number, no blank line before the
   element) are stored, in source order, at the Start point of the element, and in no other
   decoration list *)
Theorem C02_leading_comments_go_to_start :
  forall s i n d ind e a nid cls st en,
  l_panic s = false ->
  nth_error (l_frags s) (S i) = Some (FCom d ind None) ->
  nth_error (l_frags s) i = Some (FNl e a) ->
  leading_run (l_frags s) (S i) n ->
  nth_error (l_frags s) (S i + n) = Some (FDec nid cls "Start" st en) ->
  let s' := pass1_step s (S i) in
  dget (l_decs s') (nid, "Start") = swept_decs (l_frags s) (dget (l_decs s) (nid, "Start")) (seq (S i) n) /\
  (forall k, dkey_eqb k (nid, "Start") = false -> dget (l_decs s') k = dget (l_decs s) k).
Proof. exact leading_comments_go_to_start. Qed.

(* the separator between two elements is stored as After of the one and Before of the other:
   it travels with the elements, not with the list position *)
Theorem C02_separator_becomes_spacing :
  forall s i e na ca sa ea nb cb sb eb,
  l_panic s = false ->
  nth_error (l_frags s) (S i) = Some (FNl e None) ->
  nth_error (l_frags s) i = Some (FDec na ca "End" sa ea) ->
  nth_error (l_frags s) (S (S i)) = Some (FDec nb cb "Start" sb eb) ->
  let s' := pass2_step s (S i) in
  let sp := if e then SEmptyLine else SNewLine in
  (sget (l_after s') na = Some sp \/ sget (l_after s') na = Some SEmptyLine) /\
  (sget (l_before s') nb = Some sp \/ sget (l_before s') nb = Some SEmptyLine) /\
  l_decs s' = l_decs s /\ l_panic s' = false.
Proof. exact separator_becomes_spacing. Qed.

(* whatever the layout: a comment is attached to the decoration point directly before or directly
   after it (only comments, line breaks and bad spans in between) -- it can only belong to the
   element that ends just before it or the one that starts just after it, never to a third *)
Theorem C02_comment_stays_with_a_neighbour :
  forall fs,
  (forall c d ind a, nth_error fs c = Some (FCom d ind a) -> a = None) ->
  forall c d ind j, nth_error (l_frags (link fs)) c = Some (FCom d ind (Some j)) -> adjacent (l_frags (link fs)) c j.
Proof. exact link_attaches_locally. Qed.

(* ... and in order: of two comments, the later one is never stored at an earlier point.  So the
   comments between two elements split into a first part that stays with the element before them
   and a second part that stays with the element after them. *)
Theorem C02_comments_are_attached_in_order :
  forall fs,
  (forall c d ind a, nth_error fs c = Some (FCom d ind a) -> a = None) ->
  forall c1 c2 j1 j2, (c1 < c2)%nat -> att (link fs) c1 j1 -> att (link fs) c2 j2 -> (j1 <= j2)%nat.
Proof. exact link_attaches_in_order. Qed.

(* (b) editing --------------------------------------------------------------------------------- *)

(* any edit given by an index list (permutation, deletion, duplication) of a sibling list does
   the same to the per-element action segments *)
Theorem C02_edit_commutes_with_rendering :
  forall tbl managed pkg idxs (l : list tree),
  kid_acts (Many (map (build tbl managed pkg) (select idxs l))) =
  List.concat (select idxs (map (flatten tbl managed pkg) l)).
Proof. exact edit_commutes_with_rendering. Qed.

(* moving an element into another list: its segment is the same in both lists *)
Theorem C02_segment_depends_on_subtree_only :
  forall tbl managed pkg (before after before' after' : list tree) (x : tree),
  exists seg,
    kid_acts (Many (map (build tbl managed pkg) (before ++ x :: after))) =
      flat_map (flatten tbl managed pkg) before ++ seg ++ flat_map (flatten tbl managed pkg) after /\
    kid_acts (Many (map (build tbl managed pkg) (before' ++ x :: after'))) =
      flat_map (flatten tbl managed pkg) before' ++ seg ++ flat_map (flatten tbl managed pkg) after'.
Proof. exact segment_depends_on_subtree_only. Qed.

(* (c) relocation ------------------------------------------------------------------------------ *)

(* Two runs of the same segment from states of one file that agree on the "directly after a line
   break" flag (which uniform separators guarantee: every element is entered after the same
   Before spacing) advance the cursor by the same amount, leave the same flag, and add the same
   line breaks, comments and positions up to the offset between the two cursors. *)
Theorem C02_segment_relocatable :
  forall acts s1 s2,
  base s1 = base s2 -> atnl s1 <= cursor s1 -> atnl s2 <= cursor s2 ->
  Z.eqb (cursor s1) (atnl s1) = Z.eqb (cursor s2) (atnl s2) -> panic s1 = panic s2 ->
  Forall (fun a => Forall (id_free s1 s2) (act_ids a)) acts -> Forall act_ok acts ->
  let d := cursor s2 - cursor s1 in
  let t1 := fold_left rstep acts s1 in
  let t2 := fold_left rstep acts s2 in
  cursor t2 - cursor s2 = cursor t1 - cursor s1 /\
  Z.eqb (cursor t1) (atnl t1) = Z.eqb (cursor t2) (atnl t2) /\
  panic t1 = panic t2 /\
  (exists L, lines t1 = L ++ lines s1 /\ lines t2 = map (Z.add d) L ++ lines s2) /\
  (exists G, comments t1 = G ++ comments s1 /\ comments t2 = map (shiftg d) G ++ comments s2) /\
  (exists P1 P2, poss t1 = P1 ++ poss s1 /\ poss t2 = P2 ++ poss s2 /\ Forall2 (relp d) P1 P2).
Proof. exact segment_relocatable. Qed.

(* after a NewLine or EmptyLine spacing the flag is set whatever came before: elements entered
   through the same non-empty Before spacing start in related states *)
Theorem C02_uniform_separator_sets_the_flag :
  forall s isbad after sp, 0 < newlines_of (if isbad && after then SEmptyLine else sp) - (if Z.eqb (cursor s) (atnl s) then 1 else 0) ->
  cursor (apply_space s isbad after sp) = atnl (apply_space s isbad after sp).
Proof.
  intros s isbad after sp H. destruct (apply_space_count s isbad after sp) as [_ [A _]]. cbn zeta in A. apply A. lia.
Qed.

(* non-vacuity: a two-element list, reversed *)
Example C02_nonvacuous :
  select [1%nat; 0%nat] [10; 20] = [20; 10] /\ select [0%nat; 0%nat] [10; 20] = [10; 10] /\ select [1%nat] [10; 20] = [20].
Proof. repeat split; reflexivity. Qed.

Example C02_nonvacuous_attachment :
  let st := mkNC true false false false in
  (* // about b      (line of its own)
     b()  // tail
     and before it:  a()  *)
  let fs := [FDec 1 st "Start" 1 1; FTok; FDec 1 st "End" 1 1; FNl false None;
             FCom (DLine 10 5) 1 None; FNl false None;
             FDec 2 st "Start" 1 1; FTok; FDec 2 st "End" 1 1; FCom (DLine 7 6) 1 None; FNl false None] in
  dget (l_decs (link fs)) (2%N, "Start") = [DLine 10 5] /\
  dget (l_decs (link fs)) (2%N, "End") = [DLine 7 6] /\
  dget (l_decs (link fs)) (1%N, "End") = [] /\
  sget (l_after (link fs)) 1%N = Some SNewLine /\ sget (l_before (link fs)) 2%N = Some SNewLine.
Proof. vm_compute. repeat split; reflexivity. Qed.

(* RestoreFile after updateImports, statement by statement (pinned text, regenerated on every run):
   the comments of the file are collected before the deferred Extras pass, so what that pass restores outside the tree (a deleted declaring element) contributes no comment *)
Theorem C02_restorefile_collects_comments_before_the_extras_pass : restorefile_finishes_as_the_model = true.
Proof. vm_compute. reflexivity. Qed.

Print Assumptions C02_trailing_comment_goes_to_end.
Print Assumptions C02_leading_comments_go_to_start.
Print Assumptions C02_separator_becomes_spacing.
Print Assumptions C02_comment_stays_with_a_neighbour.
Print Assumptions C02_comments_are_attached_in_order.
Print Assumptions C02_edit_commutes_with_rendering.
Print Assumptions C02_segment_depends_on_subtree_only.
Print Assumptions C02_segment_relocatable.
Print Assumptions C02_uniform_separator_sets_the_flag.
Print Assumptions C02_restorefile_collects_comments_before_the_extras_pass.
