(* C19 -- Decoration lists behave as plain ordered lists without aliasing.
   Model: Model/SliceHeap.v (Go slices, append, histories); the five method bodies are
   Gen/DecsIR.v, regenerated from /repo/decorations.go on every run. *)
From Coq Require Import List Arith.
Import ListNotations.
From DV Require Model.Tree Proofs.RestoreProofs.
From DV Require Import Model.Tree Model.Restore Model.Cursor Gen.CursorSrc Proofs.CursorProofs.
From DV Require Import Model.SliceHeap Proofs.SliceProofs Gen.DecsIR.

(* Table obligation: every translated method is a safe chain with the right atoms. *)
Theorem C19_methods_ok : forall m, method_ok m (decs_ir m) = true.
Proof. intros m; destruct m; vm_compute; reflexivity. Qed.

(* For every reallocation policy, every initial heap of caller arrays and every finite
   history of Append/Prepend/Replace/Clear/All calls (argument slices of any length,
   offset and spare capacity, in caller-owned arrays), caller allocations and caller
   writes into caller arrays: the contents of the list equal the abstract list. *)
Theorem C19_refine_list :
  forall grow, (forall l n, l + n <= grow l n) ->
  forall ops s, Inv s -> ops_ok grow decs_ir s ops = true ->
  exists s' dv', run_both grow decs_ir s (contents (sheap s) (sd s)) ops = Some (s', dv') /\
    Inv s' /\ contents (sheap s') (sd s') = dv'.
Proof. intros grow Hg. exact (refine_list grow Hg decs_ir C19_methods_ok). Qed.

(* Frame: a caller array (all of it, spare capacity included) changes only by the
   caller's own writes -- the methods never modify an argument's backing array. *)
Theorem C19_frame :
  forall grow, (forall l n, l + n <= grow l n) ->
  forall ops s a, Inv s -> ops_ok grow decs_ir s ops = true ->
  a < length (sheap s) -> ~ In a (owned s) ->
  exists s', run grow decs_ir s ops = Some s' /\
    read_arr (sheap s') a = replay_writes a ops (read_arr (sheap s) a).
Proof. intros grow Hg. exact (frame_history grow Hg decs_ir C19_methods_ok). Qed.

(* All returns exactly the list and leaves it unchanged. *)
Theorem C19_all_returns_list :
  forall grow, (forall l n, l + n <= grow l n) ->
  forall s arg, Inv s -> op_ok s (Call MAll arg) = true ->
  exists h' d' rv, call grow (decs_ir MAll) (sheap s) (sd s) arg = Some (h', d', rv) /\
    contents h' rv = contents (sheap s) (sd s) /\ contents h' d' = contents (sheap s) (sd s).
Proof. intros grow Hg. exact (all_returns_list grow Hg decs_ir C19_methods_ok). Qed.

(* Non-vacuity: a history with spare capacity in the argument and a later caller write
   satisfies the hypotheses, and the caller's write is invisible to the list. *)
Example C19_nonvacuous :
  let grow := fun l n => 2 * (l + n) in
  let h0 : heap := [[1; 2; 99; 99]; [7; 8; 9]] in
  let a1 := Some (mkSlice 0 0 2 4) in       (* len 2, cap 4: spare capacity holds 99s *)
  let a2 := Some (mkSlice 1 1 2 2) in
  let ops := [Call MAppend a1; Call MPrepend a2; CallerWrite 0 0 55; Call MAppend a1;
              CallerWrite 1 1 66; Call MAll None] in
  Inv (init_st h0) /\ ops_ok grow decs_ir (init_st h0) ops = true /\
  option_map (fun p => snd p) (run_both grow decs_ir (init_st h0) [] ops) = Some [8; 9; 1; 2; 55; 2] /\
  option_map (fun s => (contents (sheap s) (sd s), read_arr (sheap s) 0)) (run grow decs_ir (init_st h0) ops)
    = Some ([8; 9; 1; 2; 55; 2], [55; 2; 99; 99]).
Proof. split; [apply Inv_init|]. vm_compute. repeat split. Qed.


(* "what All returns is what is rendered": the loop that renders a decoration list
   (FileRestorer.applyDecorations) is translated on every run and proved to compute the model's
   apply_decs -- element by element, in list order, each "\n" one line break, each // or /* comment
   once at the cursor, anything else nothing *)
Theorem C19_applyDecorations_source_computes_the_model :
  forall s id kind name isend ds,
    let env' := exec_list applyDecorations_src (decs_env s kind id name isend ds) in
    e_rs env' = apply_decs s id kind name isend ds /\ e_stuck env' = false.
Proof. exact applyDecorations_source_is_model. Qed.


(* ... hence: rendering the list through the translated source records every comment element exactly
   once, whatever the list operations left in it *)
Theorem C19_translated_rendering_records_each_comment_once :
  forall s id kind name isend ds u,
  Proofs.RestoreProofs.cnt u (Proofs.RestoreProofs.all_uids (comments (e_rs (exec_list applyDecorations_src (decs_env s kind id name isend ds))))) =
  (Proofs.RestoreProofs.cnt u (Proofs.RestoreProofs.all_uids (comments s)) + Proofs.RestoreProofs.cnt u (Proofs.RestoreProofs.comment_uids ds))%nat.
Proof.
  intros. rewrite (proj1 (applyDecorations_source_is_model s id kind name isend ds)).
  apply Proofs.RestoreProofs.apply_decs_cnt.
Qed.

Print Assumptions C19_methods_ok.
Print Assumptions C19_refine_list.
Print Assumptions C19_frame.
Print Assumptions C19_all_returns_list.
Print Assumptions C19_applyDecorations_source_computes_the_model.
Print Assumptions C19_translated_rendering_records_each_comment_once.
