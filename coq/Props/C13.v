(* C13 -- Walk and Inspect visit every node exactly once, in source order.
   Gen/WalkTbl.v is re-extracted from /repo/walk.go (and go/ast's walk.go) on every run;
   Gen/Universe.v from /repo/dst.go. *)
From Coq Require Import List String ZArith NArith Bool.
Import ListNotations.
From DV Require Import Model.Tree Model.Tables Proofs.TreeInd Proofs.WalkProofs Gen.Universe Gen.WalkTbl.
Local Open Scope string_scope.
Local Open Scope list_scope.

(* Table obligations (finite; vm_compute is a proof) ------------------------------------ *)

(* for every kind of dst.go the Walk case lists exactly the Node-typed fields of the
   struct, each once, in struct (= source) order, single nodes as Walk, slices as loops *)
Theorem C13_walk_table_complete : walk_tbl_ok universe walk_tbl = true.
Proof. vm_compute. reflexivity. Qed.

(* Walk has the frame  if v = v.Visit(node); v == nil {return}; switch...; v.Visit(nil)
   and Inspect is Walk with the visitor that continues iff f returns true *)
Theorem C13_frames : walk_frame_ok && inspect_shape_ok && ast_walk_frame_ok = true.
Proof. vm_compute. reflexivity. Qed.

(* field by field, in order, dst.Walk walks what go/ast's Walk walks, comments removed *)
Theorem C13_matches_goast :
  walk_tbls_agree ["Doc"; "Comment"; "Comments"] (map fst universe) ast_walk_tbl walk_tbl = true.
Proof. vm_compute. reflexivity. Qed.

(* Generic theorems (all trees, all pruning predicates) ---------------------------------- *)

(* the visit sequence is: the node, then (unless the visitor declines) the sequences of its
   children in struct order, then the nil call *)
Theorem C13_walk_is_preorder :
  forall prune t, conformsb universe t = true -> mandatory_okb walk_tbl t = true ->
  walk walk_tbl prune t = spec_walk prune t.
Proof. exact (walk_eq_spec universe walk_tbl C13_walk_table_complete). Qed.

(* every node exactly once (the sequence of visited ids is the preorder enumeration) *)
Theorem C13_each_node_once :
  forall t, conformsb universe t = true -> mandatory_okb walk_tbl t = true ->
  visited (walk walk_tbl (fun _ => false) t) = ids t.
Proof.
  intros t Hc Hm. rewrite (walk_eq_spec universe walk_tbl C13_walk_table_complete _ t Hc Hm).
  apply spec_walk_visits_ids.
Qed.

(* a declined node contributes its own visit only; nil calls balance entered nodes;
   Walk is never called on nil *)
Theorem C13_declined_subtree_skipped :
  forall prune t, conformsb universe t = true -> mandatory_okb walk_tbl t = true ->
  (prune (tid t) = true -> walk walk_tbl prune t = [EVisit (tid t)]) /\
  count_nil (walk walk_tbl prune t) = count_entered prune (walk walk_tbl prune t) /\
  ~ In EBad (walk walk_tbl prune t).
Proof.
  intros prune t Hc Hm. rewrite (walk_eq_spec universe walk_tbl C13_walk_table_complete prune t Hc Hm).
  split; [apply spec_walk_pruned|]. split; [apply spec_walk_nil_balanced|apply spec_walk_no_bad].
Qed.

(* A Field whose Type is nil (dst.go documents "or nil"; go/ast checks it) used to make Walk call
   itself on nil (fixed: acc6b40); it is now skipped like in go/ast.  The hypothesis mandatory_okb
   only speaks of children that go/ast's Walk does not check either. *)
Example C13_nil_field_type_is_skipped :
  let t := Node 1 "Field" [] [("Names", Many []); ("Type", One None); ("Tag", One None)] [] SNone SNone in
  conformsb universe t = true /\ mandatory_okb walk_tbl t = true /\ walk walk_tbl (fun _ => false) t = [EVisit 1; ENil].
Proof. vm_compute. repeat split. Qed.

(* Non-vacuity *)
Example C13_nonvacuous :
  let t := Node 1 "BinaryExpr" [] [("X", One (Some (Node 2 "Ident" [] [] [] SNone SNone)));
                                   ("Y", One (Some (Node 3 "CallExpr" [] [("Fun", One (Some (Node 4 "Ident" [] [] [] SNone SNone))); ("Args", Many [Node 5 "Ident" [] [] [] SNone SNone])] [] SNone SNone)))] [] SNone SNone in
  conformsb universe t = true /\ mandatory_okb walk_tbl t = true /\
  walk walk_tbl (fun id => N.eqb id 3) t = [EVisit 1; EVisit 2; ENil; EVisit 3; ENil].
Proof. vm_compute. repeat split. Qed.

Print Assumptions C13_walk_table_complete.
Print Assumptions C13_frames.
Print Assumptions C13_matches_goast.
Print Assumptions C13_walk_is_preorder.
Print Assumptions C13_each_node_once.
Print Assumptions C13_declined_subtree_skipped.
