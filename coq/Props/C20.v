(* C20 -- Saving a package writes exactly its files, unchanged unless edited.
   Model/Save.v transcribes Package.save (decorator/load.go); Gen/SaveSrc.v, regenerated on
   every run, states whether save / Save / SaveWithResolver and the statements of DecorateNode
   that record a file's name still have the transcribed text; Gen/ErrProp.v the error
   propagation of save.  "Contents = import-managed print" is the print function of the model
   (C07/C08 say what it prints; C17 that a resolver failure is its error). *)
From Coq Require Import List String ZArith NArith Bool.
Import ListNotations.
From DV Require Import Model.Save Proofs.SaveProofs Model.Decision Gen.SaveSrc Proofs.SaveSrcProofs Gen.ErrProp.
Local Open Scope list_scope.

(* the source is what the model transcribes: save prints each file of p.Syntax in order with
   one import-managing restorer and hands the bytes to writeFile under
   p.Decorator.Filenames[file]; Save and SaveWithResolver call it with ioutil.WriteFile; the
   name recorded for a decorated file is the path it was parsed from; save returns the first
   error *)
Theorem C20_save_is_the_transcribed_loop :
  save_shape_ok && save_entry_points_ok && filenames_recorded_ok
  && (match List.find (fun e => String.eqb (fst e) "Package.save") err_propagation with Some (_, b) => b | None => false end) = true.
Proof. vm_compute. reflexivity. Qed.

(* ... and the body of save itself is not pinned by text but translated (Gen/SaveSrc.v: save_src, a loop
   program of bindings, calls whose error ends the function, one loop over p.Syntax and return nil;
   anything else is LUnknown) and proved to compute the model: for every file list, print function,
   file-name map and write-failure pattern the successful writeFile calls of the translated source
   are, in order, the model's log, and it ends in "return nil" exactly when the model reports no error *)
Theorem C20_save_source_computes_the_model :
  forall (file bytes name err : Type) (print : file -> bytes + err) (filename : file -> name)
         (write : nat -> name -> bytes -> option err) (nobytes : bytes) (files : list file),
  let '(acc, _, e) := lrun file (save_fails file bytes name err print filename write nobytes) save_src files 0 [] in
  let '(log, res) := save print filename write 0 files [] in
  writes_of file bytes name err print filename nobytes acc = log /\ (e = LDone <-> res = None) /\ e <> LStuck /\ e <> LFell.
Proof. exact save_source_is_model. Qed.

(* For every file list, every print function (files may fail to print: a resolver failure),
   every file-name map and every writeFile behaviour: what is written is exactly, in order and
   once each, (name f, print f) for the files before the first failure -- to the file's own
   path and nowhere else, with its own print. *)
Theorem C20_writes_exactly_the_files_before_the_first_failure :
  forall (file bytes name err : Type) (print : file -> bytes + err) (filename : file -> name)
         (write : nat -> name -> bytes -> option err) files,
  fst (save print filename write 0 files []) = flat_map (entry print filename) (ok_prefix print filename write 0 files).
Proof. intros. rewrite save_writes_exactly. reflexivity. Qed.

(* A failure (print or write) at some file: no later file is written; and Save reports an
   error exactly when not every file was written. *)
Theorem C20_nothing_is_written_after_a_failure :
  forall (file bytes name err : Type) (print : file -> bytes + err) (filename : file -> name)
         (write : nat -> name -> bytes -> option err) pre f post,
  ok_prefix print filename write 0 pre = pre ->
  (match print f with inr _ => True | inl b => write (0 + List.length pre) (filename f) b <> None end) ->
  ok_prefix print filename write 0 (pre ++ f :: post) = pre.
Proof. intros. apply save_stops_at_first_failure; assumption. Qed.

Theorem C20_error_iff_not_everything_written :
  forall (file bytes name err : Type) (print : file -> bytes + err) (filename : file -> name)
         (write : nat -> name -> bytes -> option err) files,
  snd (save print filename write 0 files []) = None <-> ok_prefix print filename write 0 files = files.
Proof. intros. apply save_error_iff_incomplete. Qed.

Example C20_nonvacuous :
  let print := fun f : nat => if Nat.eqb f 3 then inr 99 else inl (f * 10) in
  save print (fun f => f + 100) (fun _ _ _ => None) 0 [1; 2; 3; 4] [] = ([(101, 10); (102, 20)], Some 99).
Proof. vm_compute. reflexivity. Qed.

Print Assumptions C20_save_is_the_transcribed_loop.
Print Assumptions C20_save_source_computes_the_model.
Print Assumptions C20_writes_exactly_the_files_before_the_first_failure.
Print Assumptions C20_nothing_is_written_after_a_failure.
Print Assumptions C20_error_iff_not_everything_written.
