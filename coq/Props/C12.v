(* C12 -- Restored ASTs carry a coherent position space.
   For arbitrary action lists run on the hand model of restorer.go (Model/Restore.v,
   corresponded against the real restorer on every run). *)
From Coq Require Import List String ZArith NArith Bool Lia.
Import ListNotations.
From DV Require Import Model.Cursor Gen.CursorSrc Proofs.CursorProofs.
From DV Require Import Model.Tree Model.Tables Model.Restore Proofs.RestoreProofs Gen.RestTbl Gen.RestoreSrc.
Local Open Scope string_scope.
Local Open Scope Z_scope.
Local Open Scope list_scope.

(* For every base >= 1 and every action list with non-negative lengths in which a raw
   string's line offsets are followed (after position assignments only) by the advance over
   the string (no carve-out is left: a "\n" decoration as the first thing of a file used to duplicate
   line offset 0 -- finding first-emission-newline, fixed by 3dd4b07): if the restorer does
   not panic, SetLines succeeds -- the line table is strictly increasing and inside the file
   -- every assigned position is NoPos or inside [base, base+size], and every comment lies
   inside the file. *)
Theorem C12_position_space_coherent :
  forall b acts,
  1 <= b -> Forall act_ok acts -> safe 0 acts ->
  panic (run_acts b acts) = None ->
  exists r, finish (run_acts b acts) = Ok r /\
    strictly_increasing (r_lines r) = true /\ Forall (fun o => 0 <= o < r_size r) (r_lines r) /\
    0 <= r_size r /\
    (forall id f p, In (id, f, p) (r_poss r) -> p = 0 \/ b <= p <= b + r_size r) /\
    (forall g p l u, In g (r_comments r) -> In (p, l, u) (g_list g) -> b <= p /\ p + l <= b + r_size r).
Proof. exact run_coherent. Qed.

(* The cursor never moves backwards and the base never changes: positions are assigned in
   emission order. *)
Theorem C12_cursor_monotone :
  forall acts s k,
  J s k -> Forall act_ok acts -> safe k acts ->
  panic (fold_left rstep acts s) = None ->
  cursor s <= cursor (fold_left rstep acts s) /\ base (fold_left rstep acts s) = base s.
Proof. intros acts s k HJ Hok Hs Hp. destruct (run_J acts s k HJ Hok Hs Hp) as [_ H]. exact H. Qed.

(* Files restored one after another into one FileSet do not overlap: FileSet.AddFile(name,
   base, size) with base = fset.Base() leaves fset.Base() = base + size + 1 (the FileSet is
   modelled by this counter; its behaviour is corresponded, not proved). *)
Theorem C12_files_disjoint :
  forall b1 acts1 acts2 r1 r2,
  1 <= b1 -> finish (run_acts b1 acts1) = Ok r1 -> 0 <= r_size r1 ->
  let b2 := b1 + r_size r1 + 1 in
  finish (run_acts b2 acts2) = Ok r2 ->
  b1 + r_size r1 < b2 /\ 1 <= b2.
Proof. intros. cbn zeta. split; lia. Qed.

(* A "\n" as the first thing emitted in a file starts line 2 at offset 1 (before 3dd4b07 it
   duplicated line offset 0 and SetLines failed). *)
Example C12_first_emission_newline :
  let acts := [AEnter 1; ASpace false false SNone; ADecs 1 "File" "Start" false [DNl]; AAdv 7] in
  exists r, finish (run_acts 1 acts) = Ok r /\ r_lines r = [0; 1].
Proof. eexists. split; [vm_compute; reflexivity|reflexivity]. Qed.

Example C12_nonvacuous :
  let acts := [AEnter 1; ASpace false false SNone; ADecs 1 "File" "Start" false [DLine 5 1];
               ASetPos 1 ["Package"]; AAdv 7; ALit 9 [3; 5]; ASetPos 2 ["ValuePos"]; AAdv 9;
               ASpace false true SEmptyLine] in
  Forall act_ok acts /\ safe 0 acts /\
  finish (run_acts 1 acts) =
    Ok (mkRestored [0; 5; 17; 19; 24; 26] 27 [mkGroup 0 [(1, 5, 1%N)]] [(1%N, ["Package"], 8); (2%N, ["ValuePos"], 15)]).
Proof.
  cbn zeta. split; [|split].
  - repeat constructor; cbn; lia.
  - cbn. repeat split; lia.
  - vm_compute. reflexivity.
Qed.

(* FileRestorer.RestoreFile re-initialises the state the model starts from before every file
   (lines = [0] in a fresh array, no comments, cursorAtNewLine = 0, base = cursor = Fset.Base()):
   a reused FileRestorer behaves like a new one. *)
Theorem C12_restorer_starts_from_init_state : restorefile_starts_from_init_state = true.
Proof. vm_compute. reflexivity. Qed.

(* ... and after updateImports RestoreFile does what Model/Restore.finish does, in this order: restore the
   tree, append every recorded comment group to the file's own Comments, register the file under the base
   with the size fileSize computes, install the line table (panic when SetLines refuses); the Extras pass
   comes after that and the restored file is returned *)
Theorem C12_restorefile_finishes_as_the_model : restorefile_finishes_as_the_model = true.
Proof. vm_compute. reflexivity. Qed.



(* The four position-assigning functions of decorator/restorer.go are translated on every run into
   cursor programs (Gen/CursorSrc.v) and proved to compute the hand model Model/Restore.v, for every
   input: applySpace, applyDecorations, applyLiteral (line offsets of a multi-line raw string), fileSize
   (the end position covering cursor, comment groups and line offsets).  A statement outside the
   language is SUnknown and fails the last obligation. *)
Theorem C12_applySpace_source_computes_the_model :
  forall s kind id pos sp,
    let env' := exec_list applySpace_src (space_env s kind id pos sp) in
    e_rs env' = apply_space s (is_bad_kind kind) (String.eqb pos "After") sp /\ e_stuck env' = false.
Proof. exact applySpace_source_is_model. Qed.

(* applyDecorations (decorator/restorer.go) is not transcribed by hand only: the translator renders its
   body into a cursor program (Gen/CursorSrc.v: block-scoped locals, loops over the decorations and over
   the line breaks inside a comment) and the program is proved to compute Model/Restore.apply_decs for
   EVERY state, node kind, decoration name, end flag and decoration list (Proofs/CursorProofs.v: the loop
   body is run symbolically on all 80 shapes of (decoration, end, firstLine, has Comment field, cursor at
   line start), the loop by induction with the exact environment as invariant) *)
Theorem C12_applyDecorations_source_computes_the_model :
  forall s id kind name isend ds,
    let env' := exec_list applyDecorations_src (decs_env s kind id name isend ds) in
    e_rs env' = apply_decs s id kind name isend ds /\ e_stuck env' = false.
Proof. exact applyDecorations_source_is_model. Qed.

Theorem C12_applyLiteral_source_computes_the_model :
  forall s id text, panic s = None ->
    e_rs (exec_list applyLiteral_src (lit_env s id text))
    = rstep s (ALit (f_len text) (if f_raw text then f_nls text else []))
    /\ e_stuck (exec_list applyLiteral_src (lit_env s id text)) = false.
Proof.
  intros s id text Hp. split; [apply applyLiteral_source_is_rstep; exact Hp|].
  exact (proj2 (applyLiteral_source_is_model s id text)).
Qed.

Theorem C12_fileSize_source_computes_the_model :
  forall s id,
    let env' := exec_list fileSize_src (start_env s id SNone [] [] false [] [] []) in
    e_ret env' = Some (file_end s - base s)%Z /\ e_rs env' = s /\ e_stuck env' = false.
Proof. exact fileSize_source_is_model. Qed.

Theorem C12_cursor_sources_are_within_the_language :
  program_known applySpace_src && program_known applyDecorations_src
  && program_known applyLiteral_src && program_known fileSize_src = true.
Proof. vm_compute. reflexivity. Qed.

(* non-vacuity: the translated applyDecorations run on a concrete list (line comment, line break,
   two-line block comment, a string that is no comment, line comment) at the End of a Field *)
Example C12_cursor_sources_run :
  let s0 := mkR 10 25 25 [3%Z; 0%Z] [] [] [] None in
  let ds := [DLine 5 1; DNl; DBlock 12 [3%Z; 7%Z] 2; DOther 3 9; DLine 4 3] in
  let e := exec_list applyDecorations_src (decs_env s0 "Field" 7 "End" true ds) in
  e_stuck e = false /\ cursor (e_rs e) = 53%Z /\ rev (lines (e_rs e)) = [0%Z; 3%Z; 21%Z; 24%Z; 29%Z; 33%Z; 42%Z]
  /\ List.length (comments (e_rs e)) = 3%nat.
Proof. vm_compute. repeat split; reflexivity. Qed.


(* ... hence the invariant of the position space (line table strictly increasing and inside the file so
   far, every recorded position and comment between base and cursor) is kept by the translated sources
   themselves, and they never move the cursor back *)
Theorem C12_translated_sources_keep_the_position_invariant :
  forall s kind id pos sp name isend ds,
  J s 0 -> Forall dec_ok ds ->
  let s1 := e_rs (exec_list applySpace_src (space_env s kind id pos sp)) in
  let s2 := e_rs (exec_list applyDecorations_src (decs_env s kind id name isend ds)) in
  (J s1 0 /\ cursor s <= cursor s1) /\ (J s2 0 /\ cursor s <= cursor s2).
Proof.
  intros s kind id pos sp name isend ds HJ Hok. cbv zeta.
  rewrite (proj1 (applySpace_source_is_model s kind id pos sp)).
  rewrite (proj1 (applyDecorations_source_is_model s id kind name isend ds)).
  split; [split; [apply apply_space_J; exact HJ | apply apply_space_cursor] | apply apply_decs_J; assumption].
Qed.

Print Assumptions C12_position_space_coherent.
Print Assumptions C12_cursor_monotone.
Print Assumptions C12_files_disjoint.
Print Assumptions C12_restorer_starts_from_init_state.
Print Assumptions C12_applySpace_source_computes_the_model.
Print Assumptions C12_applyDecorations_source_computes_the_model.
Print Assumptions C12_applyLiteral_source_computes_the_model.
Print Assumptions C12_fileSize_source_computes_the_model.
Print Assumptions C12_cursor_sources_are_within_the_language.
Print Assumptions C12_cursor_sources_run.
Print Assumptions C12_restorefile_finishes_as_the_model.
Print Assumptions C12_translated_sources_keep_the_position_invariant.
