(* Where decoration fragments come from: every decoration fragment the interpreter of the fragment
   table emits for a tree belongs to a node of that tree -- one reachable from the root through
   the child paths the table descends into -- carries that node's identity and kind, and names a
   decoration point of the kind's case. *)
From Coq Require Import List String ZArith NArith Bool Lia.
Import ListNotations.
From DV Require Import Model.Tree Model.Tables Model.FragSkel Model.Link Model.Fragment Proofs.TreeInd.
Local Open Scope string_scope.
Local Open Scope list_scope.

(* ---- children along a path, reachability through a table's paths ------------------------------- *)
(* child_at lst t p c: c is the node (lst = false) or an element of the list (lst = true) at path p *)
Inductive child_at : bool -> tree -> path -> tree -> Prop :=
| ca_one t f c : lookup (tkids t) f = Some (One (Some c)) -> child_at false t [f] c
| ca_many t f l c : lookup (tkids t) f = Some (Many l) -> In c l -> child_at true t [f] c
| ca_nest b t f m g rest c : lookup (tkids t) f = Some (One (Some m)) -> child_at b m (g :: rest) c -> child_at b t (f :: g :: rest) c.

Inductive reach (paths : string -> list (path * bool)) : tree -> tree -> Prop :=
| r_refl t : reach paths t t
| r_step t p b c t' : In (p, b) (paths (tkind t)) -> child_at b t p c -> reach paths c t' -> reach paths t t'.

(* any descendant *)
Inductive desc : tree -> tree -> Prop :=
| d_refl t : desc t t
| d_one t f c t' : lookup (tkids t) f = Some (One (Some c)) -> desc c t' -> desc t t'
| d_many t f l c t' : lookup (tkids t) f = Some (Many l) -> In c l -> desc c t' -> desc t t'.

Lemma child_at_desc b t p c : child_at b t p c -> desc t c.
Proof.
  induction 1.
  - eapply d_one; [eassumption|apply d_refl].
  - eapply d_many; [eassumption|eassumption|apply d_refl].
  - eapply d_one; eassumption.
Qed.

Lemma desc_trans a b c : desc a b -> desc b c -> desc a c.
Proof. induction 1; intros H'; [exact H'|eapply d_one; eauto|eapply d_many; eauto]. Qed.

Lemma reach_mono (p1 p2 : string -> list (path * bool)) :
  (forall k p, In p (p1 k) -> In p (p2 k)) -> forall t t', reach p1 t t' -> reach p2 t t'.
Proof. intros Hsub t t' H. induction H; [apply r_refl|eapply r_step; eauto]. Qed.

(* ---- the paths and points of a fragment case ---------------------------------------------------- *)
Fixpoint gstmt_paths (s : gstmt) : list (path * bool) :=
  match s with
  | GNode p _ => [(p, false)]
  | GList p => [(p, true)]
  | GIf _ body => (fix go (l : list gstmt) : list (path * bool) := match l with [] => [] | x :: r => gstmt_paths x ++ go r end) body
  | _ => []
  end.

Fixpoint gstmt_points (s : gstmt) : list string :=
  match s with
  | GDec [] n => [n]
  | GIf _ body => (fix go (l : list gstmt) : list string := match l with [] => [] | x :: r => gstmt_points x ++ go r end) body
  | _ => []
  end.

Definition frag_paths (tbl : list (string * list gstmt)) (k : string) : list (path * bool) :=
  match lookup tbl k with Some l => flat_map gstmt_paths l | None => [] end.
Definition frag_points (tbl : list (string * list gstmt)) (k : string) : list string :=
  match lookup tbl k with Some l => flat_map gstmt_points l | None => [] end.

(* ---- the closure tree mirrors the tree --------------------------------------------------------- *)
Definition fmap_kid (tbl : list (string * list gstmt)) (k : kid tree) : kid ftree :=
  match k with
  | One (Some c) => One (Some (fbuild tbl c))
  | One None => One None
  | Many l => Many (map (fbuild tbl) l)
  end.

Lemma fbuild_unfold tbl t :
  fbuild tbl t = FT t (fnode tbl t (map (fun p => (fst p, fmap_kid tbl (snd p))) (tkids t)))
                      (map (fun p => (fst p, fmap_kid tbl (snd p))) (tkids t)).
Proof. destruct t. reflexivity. Qed.

Lemma lookup_map_kids {A B} (f : A -> B) (l : list (string * A)) k :
  lookup (map (fun p => (fst p, f (snd p))) l) k = option_map f (lookup l k).
Proof. induction l as [|[k' v] r IH]; cbn; [reflexivity|]. destruct (String.eqb k k'); [reflexivity|exact IH]. Qed.

Lemma ft_kids_fbuild tbl t : ft_kids (fbuild tbl t) = map (fun p => (fst p, fmap_kid tbl (snd p))) (tkids t).
Proof. rewrite fbuild_unfold. reflexivity. Qed.

Lemma ft_tree_fbuild tbl t : ft_tree (fbuild tbl t) = t.
Proof. rewrite fbuild_unfold. reflexivity. Qed.

(* a child closure selected by a path is the closure of a child of the tree along that path *)
Lemma fsub_child tbl : forall p t c,
  fsub (ft_kids (fbuild tbl t)) p = Some (One (Some c)) -> exists c0, child_at false t p c0 /\ c = fbuild tbl c0.
Proof.
  induction p as [|f rest IH]; intros t c H; [discriminate|].
  rewrite ft_kids_fbuild in H. destruct rest as [|g rest].
  - cbn [fsub] in H. rewrite lookup_map_kids in H. destruct (lookup (tkids t) f) as [[[c0|]|l]|] eqn:E; cbn in H; try discriminate.
    inversion H; subst. exists c0. split; [apply ca_one; exact E|reflexivity].
  - cbn [fsub] in H. rewrite lookup_map_kids in H. destruct (lookup (tkids t) f) as [[[m|]|l]|] eqn:E; cbn in H; try discriminate.
    destruct (IH m c H) as [c0 [A B]]. exists c0. split; [eapply ca_nest; eauto|exact B].
Qed.

Lemma fsub_children tbl : forall p t l,
  fsub (ft_kids (fbuild tbl t)) p = Some (Many l) ->
  forall c, In c l -> exists c0, child_at true t p c0 /\ c = fbuild tbl c0.
Proof.
  induction p as [|f rest IH]; intros t l H c Hc; [discriminate|].
  rewrite ft_kids_fbuild in H. destruct rest as [|g rest].
  - cbn [fsub] in H. rewrite lookup_map_kids in H. destruct (lookup (tkids t) f) as [[[c0|]|l0]|] eqn:E; cbn in H; try discriminate.
    inversion H; subst. apply in_map_iff in Hc. destruct Hc as [c0 [<- Hin]]. exists c0. split; [eapply ca_many; eauto|reflexivity].
  - cbn [fsub] in H. rewrite lookup_map_kids in H. destruct (lookup (tkids t) f) as [[[m|]|l0]|] eqn:E; cbn in H; try discriminate.
    destruct (IH m l H c Hc) as [c0 [A B]]. exists c0. split; [eapply ca_nest; eauto|exact B].
Qed.

(* ---- origin of decoration fragments -------------------------------------------------------------- *)
Definition is_pdec (x : pitem) : Prop := exists nid k n, snd x = PDec nid k n.

(* where a decoration fragment of the output of one statement comes from *)
Inductive emitted (tbl : list (string * list gstmt)) (t : tree) : gstmt -> pitem -> Prop :=
| em_dec name pos : emitted tbl t (GDec [] name) (pos, PDec (tid t) (tkind t) name)
| em_node p chk c cur x : child_at false t p c -> In x (f_out (ft_fn (fbuild tbl c) cur)) -> emitted tbl t (GNode p chk) x
| em_list p c cur x : child_at true t p c -> In x (f_out (ft_fn (fbuild tbl c) cur)) -> emitted tbl t (GList p) x
| em_if cnd body s x : In s body -> emitted tbl t s x -> emitted tbl t (GIf cnd body) x.

Lemma femit_out r pos f cur x : In x (f_out (femit r pos f cur)) -> In x (f_out r) \/ x = (pos, f).
Proof. cbn. intros H. apply in_app_or in H. destruct H as [H|[<-|[]]]; auto. Qed.

Lemma fthen_out r fn x : In x (f_out (fthen r fn)) -> In x (f_out r) \/ In x (f_out (fn (f_cur r))).
Proof. cbn. intros H. apply in_app_or in H. exact H. Qed.

Lemma fold_fthen_out l : forall r x,
  In x (f_out (fold_left (fun r c => fthen r (ft_fn c)) l r)) ->
  In x (f_out r) \/ exists c cur, In c l /\ In x (f_out (ft_fn c cur)).
Proof.
  induction l as [|c l IH]; intros r x H; cbn [fold_left] in H; [left; exact H|].
  destruct (IH _ _ H) as [H1|[c' [cur [A B]]]].
  - destruct (fthen_out _ _ _ H1) as [H2|H2]; [left; exact H2|right; exists c, (f_cur r); split; [left; reflexivity|exact H2]].
  - right. exists c', cur. split; [right; exact A|exact B].
Qed.

Lemma fstmt_out tbl t : forall s r x,
  is_pdec x -> In x (f_out (fstmt t (ft_kids (fbuild tbl t)) r s)) -> In x (f_out r) \/ emitted tbl t s x.
Proof.
  set (fk := ft_kids (fbuild tbl t)).
  fix IH 1. intros s r x Hp H. destruct s as [owner name|tok p|v p|from|p chk|p|cnd body|u]; cbn [fstmt] in H.
  - destruct owner; [|left; exact H]. destruct (femit_out _ _ _ _ _ H) as [H1| ->]; [left; exact H1|right; constructor].
  - destruct (ftok_len _ _ _); [|left; exact H]. destruct (femit_out _ _ _ _ _ H) as [H1| ->]; [left; exact H1|].
    destruct Hp as [? [? [? Hp]]]; discriminate.
  - destruct (fval _ _ _) as [[]|]; try (left; exact H). destruct (femit_out _ _ _ _ _ H) as [H1| ->]; [left; exact H1|].
    destruct Hp as [? [? [? Hp]]]; discriminate.
  - destruct (fval t fk from) as [[]|]; try (left; exact H). destruct (fval t fk ["To"]) as [[]|]; try (left; exact H).
    destruct (femit_out _ _ _ _ _ H) as [H1| ->]; [left; exact H1|]. destruct Hp as [? [? [? Hp]]]; discriminate.
  - destruct (fsub fk p) as [[[c|]|l]|] eqn:E; try (destruct chk; left; exact H); try (left; exact H).
    destruct (fthen_out _ _ _ H) as [H1|H1]; [left; exact H1|]. right.
    destruct (fsub_child tbl p t c E) as [c0 [A ->]]. eapply em_node; eauto.
  - destruct (fsub fk p) as [[[c|]|l]|] eqn:E; try (left; exact H).
    destruct (fold_fthen_out _ _ _ H) as [H1|[c [cur [A B]]]]; [left; exact H1|]. right.
    destruct (fsub_children tbl p t l E c A) as [c0 [C ->]]. eapply em_list; eauto.
  - destruct (feval_cond t fk cnd) as [[|]|]; try (left; exact H).
    (* the body, statement by statement *)
    assert (Hgo : forall l r0, In x (f_out ((fix go (l : list gstmt) (r : fres) : fres :=
                                               match l with [] => r | y :: rest => go rest (fstmt t fk r y) end) l r0)) ->
                       In x (f_out r0) \/ exists s', In s' l /\ emitted tbl t s' x).
    { induction l as [|y l IHl]; intros r0 H0; [left; exact H0|].
      destruct (IHl _ H0) as [H1|[s' [A B]]].
      - destruct (IH y r0 x Hp H1) as [H2|H2]; [left; exact H2|right; exists y; split; [left; reflexivity|exact H2]].
      - right. exists s'. split; [right; exact A|exact B]. }
    destruct (Hgo body r H) as [H1|[s' [A B]]]; [left; exact H1|right; eapply em_if; eauto].
  - left. exact H.
Qed.

Lemma fnode_out tbl t cur x :
  is_pdec x -> In x (f_out (ft_fn (fbuild tbl t) cur)) ->
  exists stmts s, lookup tbl (tkind t) = Some stmts /\ In s stmts /\ emitted tbl t s x.
Proof.
  intros Hp H. rewrite fbuild_unfold in H. cbn [ft_fn] in H. unfold fnode in H.
  destruct (lookup tbl (tkind t)) as [stmts|] eqn:E; [|destruct H].
  exists stmts.
  assert (Hfold : forall l r, In x (f_out (fold_left (fstmt t (ft_kids (fbuild tbl t))) l r)) ->
                    In x (f_out r) \/ exists s, In s l /\ emitted tbl t s x).
  { induction l as [|y l IHl]; intros r H0; cbn [fold_left] in H0; [left; exact H0|].
    destruct (IHl _ H0) as [H1|[s [A B]]].
    - destruct (fstmt_out tbl t y r x Hp H1) as [H2|H2]; [left; exact H2|right; exists y; split; [left; reflexivity|exact H2]].
    - right. exists s. split; [right; exact A|exact B]. }
  rewrite <- ft_kids_fbuild in H.
  destruct (Hfold stmts _ H) as [[]|[s [A B]]]. exists s. auto.
Qed.

Lemma emitted_paths_points tbl t s x :
  emitted tbl t s x ->
  (exists name pos, x = (pos, PDec (tid t) (tkind t) name) /\ In name (gstmt_points s)) \/
  (exists p b c cur, In (p, b) (gstmt_paths s) /\ child_at b t p c /\ In x (f_out (ft_fn (fbuild tbl c) cur))).
Proof.
  induction 1.
  - left. exists name, pos. split; [reflexivity|left; reflexivity].
  - right. exists p, false, c, cur. split; [left; reflexivity|auto].
  - right. exists p, true, c, cur. split; [left; reflexivity|auto].
  - assert (Hsub1 : forall n, In n (gstmt_points s) -> In n (gstmt_points (GIf cnd body))).
    { intros n Hn. cbn [gstmt_points]. clear -H Hn. induction body as [|y l IHl]; [destruct H|].
      destruct H as [->|H]; apply in_or_app; [left; exact Hn|right; apply IHl; exact H]. }
    assert (Hsub2 : forall p : path * bool, In p (gstmt_paths s) -> In p (gstmt_paths (GIf cnd body))).
    { intros p Hp. cbn [gstmt_paths]. clear -H Hp. induction body as [|y l IHl]; [destruct H|].
      destruct H as [->|H]; apply in_or_app; [left; exact Hp|right; apply IHl; exact H]. }
    destruct IHemitted as [[name [pos [A B]]]|[p [b [c [cur [A [B C]]]]]]].
    + left. exists name, pos. split; [exact A|apply Hsub1; exact B].
    + right. exists p, b, c, cur. split; [apply Hsub2; exact A|auto].
Qed.

(* a child is smaller than its parent *)
Definition kid_size (x : kid tree) : nat :=
  match x with One (Some c) => size c | One None => 0 | Many l => fold_right (fun c a => size c + a) 0 l end.

Definition kids_size (kids : list (string * kid tree)) : nat :=
  fold_right (fun p acc => match snd p with
                           | One (Some c) => size c + acc
                           | One None => acc
                           | Many l => fold_right (fun c a => size c + a) 0 l + acc
                           end) 0 kids.

Lemma size_node id k vals kids decs b a : size (Node id k vals kids decs b a) = S (kids_size kids).
Proof. reflexivity. Qed.

Lemma kids_size_lookup kids f x : lookup kids f = Some x -> (kid_size x <= kids_size kids)%nat.
Proof.
  induction kids as [|[f' y] r IH]; cbn [lookup]; [discriminate|].
  destruct (String.eqb f f').
  - intros H. injection H as ->. cbn [kids_size fold_right snd]. destruct x as [[c|]|l]; cbn [kid_size]; lia.
  - intros H. specialize (IH H). cbn [kids_size fold_right snd]. fold (kids_size r). destruct y as [[c|]|l]; lia.
Qed.

Lemma in_list_size (l : list tree) c : In c l -> (size c <= fold_right (fun c a => size c + a) 0 l)%nat.
Proof. induction l as [|y l IH]; [intros []|]. intros [->|H]; cbn; [lia|specialize (IH H); lia]. Qed.

Lemma child_at_size bb t p c : child_at bb t p c -> (size c < size t)%nat.
Proof.
  induction 1.
  - destruct t as [id k vals kids decs sb sa]. cbn [tkids] in H. rewrite size_node. pose proof (kids_size_lookup _ _ _ H) as Hk. cbn [kid_size] in Hk. lia.
  - destruct t as [id k vals kids decs sb sa]. cbn [tkids] in H. rewrite size_node. pose proof (kids_size_lookup _ _ _ H) as Hk. cbn [kid_size] in Hk.
    pose proof (in_list_size _ _ H0). lia.
  - destruct t as [id k vals kids decs sb sa]. cbn [tkids] in H. rewrite size_node. pose proof (kids_size_lookup _ _ _ H) as Hk. cbn [kid_size] in Hk. lia.
Qed.

(* The statement for one node, given it for every proper descendant. *)
Definition origin_ok (tbl : list (string * list gstmt)) (t : tree) : Prop :=
  forall cur pos nid k name,
    In (pos, PDec nid k name) (f_out (ft_fn (fbuild tbl t) cur)) ->
    exists t', reach (frag_paths tbl) t t' /\ tid t' = nid /\ tkind t' = k /\ In name (frag_points tbl k).

Lemma origin_step tbl t : (forall c, desc t c -> c <> t -> origin_ok tbl c) -> origin_ok tbl t.
Proof.
  intros Hsub cur pos nid k name H.
  assert (Hpd : is_pdec (pos, PDec nid k name)) by (exists nid, k, name; reflexivity).
  destruct (fnode_out tbl t cur _ Hpd H) as [stmts [s [E [Hs He]]]].
  destruct (emitted_paths_points _ _ _ _ He) as [[n0 [p0 [A B]]]|[p [b [c [cur' [A [B C]]]]]]].
  - inversion A; subst. exists t. split; [apply r_refl|]. split; [reflexivity|]. split; [reflexivity|].
    unfold frag_points. rewrite E. apply in_flat_map. exists s. auto.
  - (* from a child: the child is a proper descendant *)
    assert (Hne : c <> t) by (intros ->; pose proof (child_at_size _ _ _ _ B); lia).
    destruct (Hsub c (child_at_desc _ _ _ _ B) Hne cur' pos nid k name C) as [t' [R [I1 [I2 I3]]]].
    exists t'. split; [|auto]. eapply r_step; [|exact B|exact R].
    unfold frag_paths. rewrite E. apply in_flat_map. exists s. auto.
Qed.

Lemma desc_size t c : desc t c -> c = t \/ (size c < size t)%nat.
Proof.
  induction 1 as [t|t f c t' Hl Hd IH|t f l c t' Hl Hin Hd IH]; [left; reflexivity| |].
  - right. assert (size c < size t)%nat by (apply (child_at_size false t [f] c); apply ca_one; exact Hl). destruct IH as [->|IH]; lia.
  - right. assert (size c < size t)%nat by (apply (child_at_size true t [f] c); eapply ca_many; eauto). destruct IH as [->|IH]; lia.
Qed.

(* Every decoration fragment emitted for a tree belongs to a node reachable through the fragment
   table's child paths, carries that node's identity and kind, and names a point of the kind's
   case -- for every table and every tree. *)
Theorem frag_dec_origin tbl : forall t, origin_ok tbl t.
Proof.
  assert (H : forall n t, (size t <= n)%nat -> origin_ok tbl t).
  { induction n as [|n IH]; intros t Hs.
    - destruct t; cbn in Hs; lia.
    - apply origin_step. intros c Hd Hne. apply IH. destruct (desc_size _ _ Hd) as [->|Hlt]; [contradiction|lia]. }
  intros t. apply (H (size t)). lia.
Qed.

Corollary node_frags_dec_origin tbl t pos nid k name :
  In (pos, PDec nid k name) (f_out (node_frags tbl t)) ->
  exists t', reach (frag_paths tbl) t t' /\ tid t' = nid /\ tkind t' = k /\ In name (frag_points tbl k).
Proof. apply frag_dec_origin. Qed.
