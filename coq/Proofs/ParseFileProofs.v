(* C17 / C15: Decorator.ParseFile, translated on every run (Gen/DecisionSrc.v: parsefile_src), decides which
   error is reported: nothing is decorated when the parser returned no usable file; otherwise a failure of
   the decoration (a resolver error) wins over the parser's error, and a successful decoration is returned
   together with the parser's error. *)
From Coq Require Import List String Bool.
Import ListNotations.
From DV Require Import Model.Decision Gen.DecisionSrc.
Local Open Scope string_scope.
Local Open Scope list_scope.

Definition PF := "parser.ParseFile(d.Fset,filename,src,mode|parser.ParseComments)".

Definition P_PERR_NIL := String.append "nil(" (String.append PF ".1)").
Definition P_FILE_NIL := String.append "nil(" (String.append PF ".0)").
Definition P_POS_VALID := String.append "true(" (String.append PF ".0.Pos().IsValid())").
Definition P_DEC_FAILS := String.append "fails(d.DecorateFile(" (String.append PF ".0))").
Definition S_NIL_PERR := String.append "nil , " (String.append PF ".1").
Definition S_FILE_PERR := String.append "d.DecorateFile(" (String.append PF (String.append ".0) , " (String.append PF ".1"))).

Inductive parse_result :=
| NothingWithParserError          (* nil, perr *)
| NothingWithDecorationError      (* nil, err of DecorateFile *)
| FileWithParserError.            (* the decorated file, perr (nil when the source parsed) *)

Definition parsefile_spec (perr_nil file_nil pos_valid dec_fails : bool) : parse_result :=
  if negb perr_nil && (file_nil || negb pos_valid) then NothingWithParserError
  else if dec_fails then NothingWithDecorationError
  else FileWithParserError.

Definition pf_val (perr_nil file_nil pos_valid dec_fails : bool) (q : string) : bool :=
  if String.eqb q P_PERR_NIL then perr_nil
  else if String.eqb q P_FILE_NIL then file_nil
  else if String.eqb q P_POS_VALID then pos_valid
  else if String.eqb q P_DEC_FAILS then dec_fails
  else false.

Definition pf_outcome (o : dout) : option parse_result :=
  match o with
  | OReturn DErr => Some NothingWithDecorationError
  | OReturn (DVal s) => if String.eqb s S_NIL_PERR then Some NothingWithParserError
                        else if String.eqb s S_FILE_PERR then Some FileWithParserError else None
  | _ => None
  end.

Definition parsefile_vocabulary_ok : bool :=
  vocabulary_ok [P_PERR_NIL; P_FILE_NIL; P_POS_VALID; P_DEC_FAILS] [S_NIL_PERR; S_FILE_PERR] parsefile_src.

Theorem parsefile_source_is_model :
  forall perr_nil file_nil pos_valid dec_fails,
    pf_outcome (run (pf_val perr_nil file_nil pos_valid dec_fails) parsefile_src)
    = Some (parsefile_spec perr_nil file_nil pos_valid dec_fails).
Proof.
  intros a b c d. destruct a, b, c, d; vm_compute; reflexivity.
Qed.

(* the clause of C17: when the decoration fails on a file the parser did return, that failure is what the
   caller sees -- whatever the parser reported *)
Corollary decoration_error_wins :
  forall perr_nil, parsefile_spec perr_nil false true true = NothingWithDecorationError.
Proof. intros []; reflexivity. Qed.
