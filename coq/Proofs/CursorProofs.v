(* The translated sources of applySpace, applyDecorations, applyLiteral and fileSize
   (Gen/CursorSrc.v, regenerated from decorator/restorer.go on every run) compute the hand model of
   the restorer's state machine (Model/Restore.v) -- for every state, node kind, spacing,
   decoration list and literal.  Proofs run the program statement by statement on a symbolic
   state (integers of the state stay variables; tests on them are decided by case analysis);
   loops over a symbolic list are discharged by induction with the exact environment as
   invariant, which block scoping makes possible. *)
From Coq Require Import List String ZArith NArith Bool Lia.
Import ListNotations.
From DV Require Import Model.Tree Model.Tables Model.Restore Model.Cursor Gen.CursorSrc.
Local Open Scope string_scope.
Local Open Scope list_scope.
Local Open Scope Z_scope.

(* ---------- equations of the evaluator ---------- *)

Lemma exec_list_done l : forall env, e_done env = true -> exec_list l env = env.
Proof.
  induction l as [|s r IH]; intros env H; cbn [exec_list]; [reflexivity|].
  assert (exec s env = env) as ->; [|apply IH; exact H].
  destruct s; cbn; rewrite H; reflexivity.
Qed.

Lemma exec_list_app a : forall b env, exec_list (a ++ b) env = exec_list b (exec_list a env).
Proof. induction a as [|s a IH]; intros b env; cbn [app exec_list]; [reflexivity|apply IH]. Qed.

Lemma exec_pop env : exec SPop env = pop env.
Proof. destruct (e_done env) eqn:H; cbn; unfold pop; rewrite ?H; reflexivity. Qed.

Lemma push_done env : e_done (push env) = e_done env.
Proof. reflexivity. Qed.

Lemma scoped_flat pre l r env :
  e_done env = false ->
  exec_list r (scoped pre l env) = exec_list (l ++ SPop :: r) (pre (push env)).
Proof.
  intros H. unfold scoped. rewrite H, exec_list_app. cbn [exec_list]. rewrite exec_pop. reflexivity.
Qed.

Lemma step_if c t e r env :
  e_done env = false -> bexp_ok env c = true ->
  exec_list (SIf c t e :: r) env = exec_list ((if beval env c then t else e) ++ SPop :: r) (push env).
Proof.
  intros Hd Hk. cbn [exec_list].
  assert (exec (SIf c t e) env = if beval env c then block t env else block e env) as ->.
  { cbn. unfold block, scoped. rewrite ?Hd, ?Hk. reflexivity. }
  unfold block. destruct (beval env c); apply (scoped_flat (fun x => x)); exact Hd.
Qed.

Fixpoint rep (k : nat) (l : list cstmt) : list cstmt :=
  match k with O => [] | S k' => SPush :: l ++ SPop :: rep k' l end.

Lemma iter_block_flat body k : forall r env,
  exec_list r (iter k (block body) env) = exec_list (rep k body ++ r) env.
Proof.
  induction k as [|k IH]; intros r env; cbn [iter rep app]; [reflexivity|].
  rewrite IH. destruct (e_done env) eqn:Hd.
  - unfold block, scoped. rewrite Hd. rewrite !exec_list_done by exact Hd. reflexivity.
  - unfold block. rewrite (scoped_flat (fun x => x)) by exact Hd.
    cbn [exec_list]. replace (exec SPush env) with (push env) by (cbn; rewrite Hd; reflexivity).
    rewrite <- app_assoc. reflexivity.
Qed.

Lemma step_count n body r env :
  e_done env = false -> cexp_ok env (EVar n) = true ->
  exec_list (SCount n body :: r) env = exec_list (rep (Z.to_nat (int_of env n)) body ++ r) env.
Proof.
  intros Hd Hk. cbn [exec_list].
  assert (exec (SCount n body) env = iter (Z.to_nat (int_of env n)) (block body) env) as ->.
  { cbn [cexp_ok] in Hk. cbn. unfold block, scoped. rewrite ?Hd, ?Hk. reflexivity. }
  apply iter_block_flat.
Qed.

(* ---------- the loop over the line breaks inside a string ---------- *)

Local Notation nl_body :=
  [SDeclInt "lineOffset" (EAdd (ESub ECursor EBase) (EVar "charIndex")); SLine (EVar "lineOffset")].

Definition add_nls (s : rstate) (nls : list Z) : rstate :=
  fold_left (fun s off => add_line s (cursor s - base s + off)) nls s.

Lemma nl_iteration off env :
  e_done env = false ->
  scoped (decl_int "charIndex" off) nl_body env
  = with_rs env (add_line (e_rs env) (cursor (e_rs env) - base (e_rs env) + off)).
Proof.
  destruct env as [rs ints bools strs streq sp kin hcf id decs ret done stuck]; cbn [e_done]; intros ->.
  destruct rs. lazy -[Z.add Z.sub]. reflexivity.
Qed.

Lemma each_nl nls : forall env,
  e_done env = false ->
  fold_left (fun env off => scoped (decl_int "charIndex" off) nl_body env) nls env
  = with_rs env (add_nls (e_rs env) nls).
Proof.
  induction nls as [|off nls IH]; intros env Hd; cbn [fold_left].
  - destruct env; reflexivity.
  - rewrite nl_iteration by exact Hd. rewrite IH by exact Hd. destruct env; reflexivity.
Qed.

Lemma step_each_nl sv r env :
  e_done env = false -> cexp_ok env (ELen sv) = true ->
  exec_list (SEachNl sv "charIndex" nl_body :: r) env
  = exec_list r (with_rs env (add_nls (e_rs env) (f_nls (lookup nofacts sv (e_strs env))))).
Proof.
  intros Hd Hk. cbn [exec_list]. f_equal.
  rewrite <- each_nl by exact Hd.
  cbn [exec]. rewrite Hd. cbn [cexp_ok] in Hk |- *. rewrite Hk. reflexivity.
Qed.

Lemma scoped_run pre l env :
  e_done env = false -> scoped pre l env = exec_list (l ++ [SPop]) (pre (push env)).
Proof.
  intros H. change (scoped pre l env) with (exec_list [] (scoped pre l env)).
  rewrite scoped_flat by exact H. reflexivity.
Qed.

(* ---------- symbolic execution, one statement at a time ---------- *)

Ltac ev t := eval lazy -[Z.add Z.sub Z.eqb Z.leb Z.ltb String.eqb is_bad_kind has_comment_field fold_left add_nls] in t.

Ltac is_poslit p := lazymatch p with xH => idtac | xO ?q => is_poslit q | xI ?q => is_poslit q end.
Ltac is_zlit z := lazymatch z with Z0 => idtac | Zpos ?p => is_poslit p | Zneg ?p => is_poslit p end.
Ltac ground_arith :=
  repeat match goal with
         | |- context[Z.sub ?a ?b] => is_zlit a; is_zlit b; let v := eval vm_compute in (Z.sub a b) in change (Z.sub a b) with v
         | |- context[Z.add ?a ?b] => is_zlit a; is_zlit b; let v := eval vm_compute in (Z.add a b) in change (Z.add a b) with v
         end.

Ltac use_tests :=
  repeat match goal with
         | H : Z.eqb ?a ?b = _ |- context[Z.eqb ?a ?b] => rewrite H
         | H : Z.leb ?a ?b = _ |- context[Z.leb ?a ?b] => rewrite H
         | H : Z.ltb ?a ?b = _ |- context[Z.ltb ?a ?b] => rewrite H
         end.

Lemma exec_list_cons s r env : exec_list (s :: r) env = exec_list r (exec s env).
Proof. reflexivity. Qed.

(* replace a closed-enough subterm by its value; the equation is proved by computation *)
Ltac subst_value t :=
  let v := ev t in
  let H := fresh "Hv" in
  assert (H : t = v) by (lazy -[Z.add Z.sub Z.eqb Z.leb Z.ltb String.eqb is_bad_kind has_comment_field fold_left add_nls]; reflexivity);
  rewrite H; clear H.

Ltac step :=
  lazymatch goal with
  | |- context[exec_list (?s :: ?r) ?env] =>
    let d := eval vm_compute in (e_done env) in
    lazymatch d with
    | true => rewrite (exec_list_done (s :: r) env) by (vm_compute; reflexivity)
    | false =>
    lazymatch s with
    | SEachNl ?sv _ _ =>
      let H1 := fresh "Hd" in let H2 := fresh "Hk" in
      assert (H1 : e_done env = false) by (vm_compute; reflexivity);
      assert (H2 : cexp_ok env (ELen sv) = true) by (vm_compute; reflexivity);
      rewrite (step_each_nl sv r env H1 H2); clear H1 H2;
      match goal with |- context[with_rs env ?x] => subst_value (with_rs env x) end
    | SIf ?c ?t ?e =>
      let H1 := fresh "Hd" in let H2 := fresh "Hk" in
      assert (H1 : e_done env = false) by (vm_compute; reflexivity);
      assert (H2 : bexp_ok env c = true) by (vm_compute; reflexivity);
      rewrite (step_if c t e r env H1 H2); clear H1 H2;
      subst_value (beval env c);
      use_tests;
      subst_value (push env);
      cbv beta iota; cbn [app]
    | SCount ?n ?body =>
      let H1 := fresh "Hd" in let H2 := fresh "Hk" in
      assert (H1 : e_done env = false) by (vm_compute; reflexivity);
      assert (H2 : cexp_ok env (EVar n) = true) by (vm_compute; reflexivity);
      rewrite (step_count n body r env H1 H2); clear H1 H2;
      let k := eval vm_compute in (Z.to_nat (int_of env n)) in
      let H := fresh "Hv" in
      assert (H : Z.to_nat (int_of env n) = k) by (vm_compute; reflexivity);
      rewrite H; clear H;
      cbn [rep app]
    | _ =>
      rewrite (exec_list_cons s r env);
      subst_value (exec s env);
      ground_arith
    end
    end
  end.

Ltac run := repeat step; cbn [exec_list].

(* ---------- applySpace ---------- *)

Definition space_env (s : rstate) (kind : string) (id : N) (pos : string) (sp : space) : cenv :=
  start_env s id sp [(("position", "After"), String.eqb pos "After")]
            [(["BadDecl"; "BadExpr"; "BadStmt"], is_bad_kind kind)] (has_comment_field kind) [] [] [].

Theorem applySpace_source_is_model :
  forall s kind id pos sp,
    let env' := exec_list applySpace_src (space_env s kind id pos sp) in
    e_rs env' = apply_space s (is_bad_kind kind) (String.eqb pos "After") sp /\ e_stuck env' = false.
Proof.
  intros s kind id pos sp.
  destruct s as [b c a l cm p se pa].
  unfold space_env, start_env, applySpace_src.
  destruct (is_bad_kind kind), (String.eqb pos "After"), sp; destruct (Z.eqb c a) eqn:Hca;
    cbv zeta; run; unfold apply_space, space_nl; cbn; rewrite ?Hca; cbn; split; reflexivity.
Qed.

(* ---------- applyLiteral ---------- *)

Definition lit_env (s : rstate) (id : N) (text : sfacts) : cenv :=
  start_env s id SNone [] [] false [] [("text", text)] [].

Theorem applyLiteral_source_is_model :
  forall s id text,
    let env' := exec_list applyLiteral_src (lit_env s id text) in
    e_rs env' = (if f_raw text then add_nls s (f_nls text) else s) /\ e_stuck env' = false.
Proof.
  intros s id text.
  destruct s as [b c a l cm p se pa]. destruct text as [len nls isnl line blk raw uid].
  unfold lit_env, start_env, applyLiteral_src.
  destruct raw, nls as [|n nls]; cbv zeta; run; cbn; split; reflexivity.
Qed.

Corollary applyLiteral_source_is_rstep :
  forall s id text, panic s = None ->
    e_rs (exec_list applyLiteral_src (lit_env s id text))
    = rstep s (ALit (f_len text) (if f_raw text then f_nls text else [])).
Proof.
  intros s id text Hp. rewrite (proj1 (applyLiteral_source_is_model s id text)).
  unfold rstep. rewrite Hp. destruct (f_raw text); [|reflexivity].
  destruct (f_nls text); reflexivity.
Qed.

(* ---------- fileSize ---------- *)

Local Notation group_body :=
  [SIf (BGe (EVar "cg") (EVar "end")) [SSetInt "end" (EAdd (EVar "cg") (EConst 1))] []].
Local Notation line_body :=
  [SDeclInt "pos" (EAdd (EVar "lineOffset") EBase);
   SIf (BGe (EVar "pos") (EVar "end")) [SSetInt "end" (EAdd (EVar "pos") (EConst 1))] []].

Definition bump (e x : Z) : Z := if Z.leb e x then x + 1 else e.

Lemma group_iteration rs e ge bools strs streq sp kin hcf id decs ret stuck :
  scoped (decl_int "cg" ge) group_body (mkE rs [[("end", e)]] bools strs streq sp kin hcf id decs ret false stuck)
  = mkE rs [[("end", bump e ge)]] bools strs streq sp kin hcf id decs ret false stuck.
Proof.
  rewrite scoped_run by reflexivity. destruct rs as [b c a l cm p se pa]. unfold bump.
  destruct (Z.leb e ge) eqn:Hle; cbn [app];
    match goal with |- context[decl_int ?x ?v (push ?env)] => subst_value (decl_int x v (push env)) end;
    run; reflexivity.
Qed.

Lemma each_group gs : forall rs e bools strs streq sp kin hcf id decs ret stuck,
  fold_left (fun env x => scoped (decl_int "cg" (group_end x)) group_body env) gs
            (mkE rs [[("end", e)]] bools strs streq sp kin hcf id decs ret false stuck)
  = mkE rs [[("end", fold_left (fun e g => bump e (group_end g)) gs e)]] bools strs streq sp kin hcf id decs ret false stuck.
Proof.
  induction gs as [|g gs IH]; intros; cbn [fold_left]; [reflexivity|].
  rewrite group_iteration. apply IH.
Qed.

Lemma line_iteration rs e off bools strs streq sp kin hcf id decs ret stuck :
  scoped (decl_int "lineOffset" off) line_body (mkE rs [[("end", e)]] bools strs streq sp kin hcf id decs ret false stuck)
  = mkE rs [[("end", bump e (off + base rs))]] bools strs streq sp kin hcf id decs ret false stuck.
Proof.
  rewrite scoped_run by reflexivity. destruct rs as [b c a l cm p se pa]. unfold bump. cbn [base].
  destruct (Z.leb e (off + b)) eqn:Hle; cbn [app];
    match goal with |- context[decl_int ?x ?v (push ?env)] => subst_value (decl_int x v (push env)) end;
    run; reflexivity.
Qed.

Lemma each_line ls : forall rs e bools strs streq sp kin hcf id decs ret stuck,
  fold_left (fun env off => scoped (decl_int "lineOffset" off) line_body env) ls
            (mkE rs [[("end", e)]] bools strs streq sp kin hcf id decs ret false stuck)
  = mkE rs [[("end", fold_left (fun e off => bump e (off + base rs)) ls e)]] bools strs streq sp kin hcf id decs ret false stuck.
Proof.
  induction ls as [|off ls IH]; intros; cbn [fold_left]; [reflexivity|].
  rewrite line_iteration. apply IH.
Qed.

Lemma step_each_group r rs e bools strs streq sp kin hcf id decs ret stuck :
  exec_list (SEachGroup "cg" group_body :: r) (mkE rs [[("end", e)]] bools strs streq sp kin hcf id decs ret false stuck)
  = exec_list r (mkE rs [[("end", fold_left (fun e g => bump e (group_end g)) (rev (comments rs)) e)]]
                     bools strs streq sp kin hcf id decs ret false stuck).
Proof. cbn [exec_list]. f_equal. rewrite <- each_group. reflexivity. Qed.

Lemma step_each_line r rs e bools strs streq sp kin hcf id decs ret stuck :
  exec_list (SEachLine "lineOffset" line_body :: r) (mkE rs [[("end", e)]] bools strs streq sp kin hcf id decs ret false stuck)
  = exec_list r (mkE rs [[("end", fold_left (fun e off => bump e (off + base rs)) (rev (lines rs)) e)]]
                     bools strs streq sp kin hcf id decs ret false stuck).
Proof. cbn [exec_list]. f_equal. rewrite <- each_line. reflexivity. Qed.

Lemma file_end_as_left_folds s :
  file_end s
  = fold_left (fun e off => bump e (off + base s)) (rev (lines s))
              (fold_left (fun e g => bump e (group_end g)) (rev (comments s)) (cursor s)).
Proof.
  unfold file_end, bump.
  rewrite <- (rev_involutive (lines s)) at 1. rewrite fold_left_rev_right.
  rewrite <- (rev_involutive (comments s)) at 1. rewrite fold_left_rev_right.
  reflexivity.
Qed.

Theorem fileSize_source_is_model :
  forall s id,
    let env' := exec_list fileSize_src (start_env s id SNone [] [] false [] [] []) in
    e_ret env' = Some (file_end s - base s) /\ e_rs env' = s /\ e_stuck env' = false.
Proof.
  intros s id. rewrite file_end_as_left_folds.
  destruct s as [b c a l cm p se pa].
  unfold start_env, fileSize_src. cbv zeta.
  step. rewrite step_each_group. rewrite step_each_line. run.
  cbn. repeat split; reflexivity.
Qed.

(* ---------- applyDecorations ---------- *)

Lemma exec_each_dec d body env :
  exec (SEachDec d body) env
  = if e_done env then env
    else fold_left (fun env x => with_strs (scoped (decl_str d (facts_of_dec x)) body env) (e_strs env)) (e_decs env) env.
Proof. reflexivity. Qed.

Lemma step_each_dec_gen d body r env env' :
  e_done env = false ->
  fold_left (fun env x => with_strs (scoped (decl_str d (facts_of_dec x)) body env) (e_strs env)) (e_decs env) env = env' ->
  exec_list (SEachDec d body :: r) env = exec_list r env'.
Proof. intros Hd H. rewrite exec_list_cons, exec_each_dec, Hd, H. reflexivity. Qed.

Lemma fold_left_sim {A B S} (F : A -> B -> A) (G : S -> B -> S) (R : S -> A) :
  (forall s b, F (R s) b = R (G s b)) -> forall l s, fold_left F l (R s) = R (fold_left G l s).
Proof. intros H l. induction l as [|b l IH]; intros s; cbn [fold_left]; [reflexivity|]. rewrite H. apply IH. Qed.

(* the body of the loop over the decorations, as the translator renders it today; when the source
   changes the statement [step_each_dec] no longer rewrites and the theorem below fails *)
Local Notation dec_body :=
  [SDeclBool "isNewline" (BStrIs "d" "
"); SDeclBool "isLineComment" (BPrefix "d" "//"); SDeclBool "isInlineComment" (BPrefix "d" "/*"); SDeclBool "isComment" (BOr (BVar "isLineComment") (BVar "isInlineComment")); SDeclBool "isMultiLineComment" (BAnd (BVar "isInlineComment") (BContains "d" "
")); SIf (BAnd (BVar "end") (BEq EAtNl ECursor)) [SCursor (EAdd ECursor (EConst 1))] []; SIf (BVar "isMultiLineComment") [SEachNl "d" "charIndex" [SDeclInt "lineOffset" (EAdd (ESub ECursor EBase) (EVar "charIndex")); SLine (EVar "lineOffset")]] []; SIf (BVar "isComment") [SIf (BAnd (BAnd (BVar "firstLine") (BVar "end")) (BHasCommentField "node")) [SFieldComment "node" ECursor "d"] [SComment ECursor "d"]; SCursor (EAdd ECursor (ELen "d"))] []; SIf (BOr (BVar "isLineComment") (BVar "isNewline")) [SIf (BVar "isNewline") [SCursor (EAdd ECursor (EConst 1))] []; SDeclInt "lineOffset" (ESub ECursor EBase); SLine (EVar "lineOffset"); SCursor (EAdd ECursor (EConst 1)); SAtNl ECursor] []; SIf (BOr (BVar "isNewline") (BVar "isLineComment")) [SSetBool "firstLine" (BLit false)] []].

Section Decs.
  Variables (id : N) (kind : string) (isend : bool) (ipc inf : bool).
  Variables (strs : list (string * sfacts)) (streq : list ((string * string) * bool)) (sp : space)
            (kin : list (list string * bool)) (decs : list dec) (ret : option Z) (stuck : bool).

  Local Notation ENV rs fl :=
    (mkE rs [[]] [[("isPackageComment", ipc); ("isNodeFile", inf); ("firstLine", fl); ("end", isend)]]
         strs streq sp kin (has_comment_field kind) id decs ret false stuck).

  Lemma dec_iteration d rs fl :
    with_strs (scoped (decl_str "d" (facts_of_dec d)) dec_body (ENV rs fl)) strs
    = ENV (fst (dec_step id kind isend (rs, fl) d)) (snd (dec_step id kind isend (rs, fl) d)).
  Proof.
    rewrite scoped_run by reflexivity. destruct rs as [b c a l cm p se pa].
    destruct (has_comment_field kind) eqn:Hh.
    all: destruct (Z.eqb a c) eqn:Hac.
    all: destruct isend, fl.
    all: destruct d as [|len uid|len nls uid|len uid]; [ | |destruct nls as [|n nls]| ].
    all: cbn [app facts_of_dec];
      match goal with |- context[decl_str ?x ?v (push ?env)] => subst_value (decl_str x v (push env)) end;
      run; unfold dec_step; cbn [atnl cursor andb fst snd]; rewrite ?Hac; cbn [andb]; rewrite ?Hh; reflexivity.
  Qed.

  Lemma each_dec ds : forall rs fl,
    fold_left (fun env x => with_strs (scoped (decl_str "d" (facts_of_dec x)) dec_body env) (e_strs env)) ds (ENV rs fl)
    = ENV (fst (fold_left (dec_step id kind isend) ds (rs, fl))) (snd (fold_left (dec_step id kind isend) ds (rs, fl))).
  Proof.
    intros rs fl.
    refine (fold_left_sim (fun env x => with_strs (scoped (decl_str "d" (facts_of_dec x)) dec_body env) (e_strs env))
                          (dec_step id kind isend) (fun st => ENV (fst st) (snd st)) _ ds (rs, fl)).
    intros [rs0 fl0] d. exact (dec_iteration d rs0 fl0).
  Qed.

  Lemma step_each_dec r rs fl :
    exec_list (SEachDec "d" dec_body :: r) (ENV rs fl)
    = exec_list r (ENV (fst (fold_left (dec_step id kind isend) decs (rs, fl)))
                       (snd (fold_left (dec_step id kind isend) decs (rs, fl)))).
  Proof.
    exact (step_each_dec_gen "d" dec_body r (ENV rs fl) _ eq_refl (each_dec decs rs fl)).
  Qed.
End Decs.

Definition decs_env (s : rstate) (kind : string) (id : N) (name : string) (isend : bool) (ds : list dec) : cenv :=
  start_env s id SNone [(("name", "Start"), String.eqb name "Start")]
            [(["File"], String.eqb kind "File")] (has_comment_field kind) [("end", isend)] [] ds.

Theorem applyDecorations_source_is_model :
  forall s id kind name isend ds,
    let env' := exec_list applyDecorations_src (decs_env s kind id name isend ds) in
    e_rs env' = apply_decs s id kind name isend ds /\ e_stuck env' = false.
Proof.
  intros s id kind name isend ds.
  unfold decs_env, start_env, applyDecorations_src, apply_decs. cbv zeta.
  destruct (String.eqb kind "File"), (String.eqb name "Start").
  all: step; step; step; rewrite step_each_dec;
    generalize (fold_left (dec_step id kind isend) ds (s, true)); intros [S fl]; cbn [fst snd];
    destruct S as [b c a l cm p se pa]; run; cbn; split; reflexivity.
Qed.
