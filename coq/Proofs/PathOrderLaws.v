(* packagePathOrderLess (model Model.Imports.path_less, proved equal to the translated source in
   PathOrderProofs.v) is a strict total order on import paths.  Hence the sorted arrangement of a
   duplicate-free list of paths is UNIQUE: whatever algorithm sort.Slice uses (it is neither stable
   nor specified), its result is the model's insertion sort -- the order in which updateImports
   resolves conflicts and writes added imports is a function of the set of paths alone. *)
From Coq Require Import List String Bool Ascii Sorted Permutation OrderedTypeEx.
Import ListNotations.
From DV Require Import Model.Imports.
Local Open Scope string_scope.

Lemma ltb_lt a b : String.ltb a b = true <-> String_as_OT.lt a b.
Proof.
  unfold String.ltb. rewrite <- String_as_OT.cmp_lt. unfold String_as_OT.cmp.
  destruct (String.compare a b); split; intros H; try reflexivity; discriminate.
Qed.

Lemma ltb_irrefl a : String.ltb a a = false.
Proof.
  destruct (String.ltb a a) eqn:H; [|reflexivity]. apply ltb_lt in H.
  exfalso. apply (String_as_OT.lt_not_eq _ _ H). reflexivity.
Qed.

Lemma ltb_trans a b c : String.ltb a b = true -> String.ltb b c = true -> String.ltb a c = true.
Proof. rewrite !ltb_lt. apply String_as_OT.lt_trans. Qed.

Lemma ltb_total a b : a <> b -> String.ltb a b = true \/ String.ltb b a = true.
Proof.
  intros Hne. unfold String.ltb. rewrite (String.compare_antisym b a).
  destruct (String.compare a b) eqn:Hc; cbn; auto.
  apply String.compare_eq_iff in Hc. contradiction.
Qed.

Theorem path_less_irrefl a : path_less a a = false.
Proof. unfold path_less. rewrite Bool.eqb_reflx. apply ltb_irrefl. Qed.

Theorem path_less_trans a b c : path_less a b = true -> path_less b c = true -> path_less a c = true.
Proof.
  unfold path_less. destruct (has_dot a), (has_dot b), (has_dot c); cbn [Bool.eqb]; intros H1 H2;
    try discriminate; try reflexivity; eapply ltb_trans; eassumption.
Qed.

Theorem path_less_total a b : a <> b -> path_less a b = true \/ path_less b a = true.
Proof.
  intros Hne. unfold path_less. destruct (has_dot a), (has_dot b); cbn [Bool.eqb]; auto; apply ltb_total; assumption.
Qed.

Theorem path_less_asym a b : path_less a b = true -> path_less b a = false.
Proof.
  intros H. destruct (path_less b a) eqn:H2; [|reflexivity].
  pose proof (path_less_trans _ _ _ H H2) as H3. rewrite path_less_irrefl in H3. discriminate.
Qed.

Definition pl (a b : string) : Prop := path_less a b = true.

(* a sorted list's head is below everything in it *)
Lemma sorted_unique : forall l l', StronglySorted pl l -> StronglySorted pl l' -> Permutation l l' -> l = l'.
Proof.
  induction l as [|x r IH]; intros l' Hs Hs' Hp.
  - apply Permutation_nil in Hp. subst. reflexivity.
  - destruct l' as [|y r']; [apply Permutation_sym, Permutation_nil in Hp; discriminate|].
    inversion Hs as [|? ? Hsr Hxr]; subst. inversion Hs' as [|? ? Hsr' Hyr']; subst.
    assert (Hxy : x = y).
    { destruct (string_dec x y) as [|Hne]; [assumption|exfalso].
      assert (Hx : In x r').
      { assert (In x (y :: r')) as [Hc|Hc] by (eapply Permutation_in; [exact Hp|left; reflexivity]); [congruence|assumption]. }
      assert (Hy : In y r).
      { assert (In y (x :: r)) as [Hc|Hc] by (eapply Permutation_in; [apply Permutation_sym; exact Hp|left; reflexivity]); [congruence|assumption]. }
      rewrite Forall_forall in Hxr, Hyr'. pose proof (Hxr y Hy) as H1. pose proof (Hyr' x Hx) as H2.
      unfold pl in *. rewrite (path_less_asym _ _ H1) in H2. discriminate. }
    subst y. f_equal. apply IH; try assumption. eapply Permutation_cons_inv; exact Hp.
Qed.

Lemma insert_sorted_forall (P : string -> Prop) x l : P x -> Forall P l -> Forall P (insert_sorted (fun s => s) x l).
Proof.
  intros Hx Hl. induction l as [|y r IH]; cbn [insert_sorted]; [constructor; auto|].
  inversion Hl; subst. destruct (path_less x y); constructor; auto.
Qed.

Lemma insert_sorted_sorted x l : ~ In x l -> StronglySorted pl l -> StronglySorted pl (insert_sorted (fun s => s) x l).
Proof.
  intros Hn Hs. induction l as [|y r IH]; cbn [insert_sorted]; [constructor; constructor|].
  inversion Hs as [|? ? Hsr Hyr]; subst.
  destruct (path_less x y) eqn:Hxy.
  - constructor; [exact Hs|]. constructor; [exact Hxy|].
    rewrite Forall_forall in *. intros z Hz. eapply path_less_trans; [exact Hxy|apply Hyr; exact Hz].
  - constructor.
    + apply IH; [intros Hc; apply Hn; right; exact Hc|exact Hsr].
    + apply insert_sorted_forall; [|exact Hyr].
      destruct (path_less_total y x) as [H|H]; [intros ->; apply Hn; left; reflexivity|exact H|].
      rewrite H in Hxy. discriminate.
Qed.

Lemma insert_sorted_in x y l : In y (insert_sorted (fun s => s) x l) <-> y = x \/ In y l.
Proof.
  induction l as [|z r IH]; cbn [insert_sorted In]; [intuition|].
  destruct (path_less x z); cbn [In]; [intuition|]. rewrite IH. intuition.
Qed.

Lemma sort_by_in y l : In y (sort_by (fun s => s) l) <-> In y l.
Proof.
  unfold sort_by. induction l as [|x r IH]; cbn [fold_right In]; [tauto|].
  rewrite insert_sorted_in, IH. intuition.
Qed.

Lemma insert_sorted_perm' x l : Permutation (x :: l) (insert_sorted (fun s => s) x l).
Proof.
  induction l as [|y r IH]; cbn [insert_sorted]; [apply Permutation_refl|].
  destruct (path_less x y); [apply Permutation_refl|].
  eapply Permutation_trans; [apply perm_swap|]. apply perm_skip. exact IH.
Qed.

Lemma sort_by_perm l : Permutation l (sort_by (fun s => s) l).
Proof.
  unfold sort_by. induction l as [|x r IH]; cbn [fold_right]; [constructor|].
  eapply Permutation_trans; [apply perm_skip; exact IH|apply insert_sorted_perm'].
Qed.

Theorem sort_by_sorted l : NoDup l -> StronglySorted pl (sort_by (fun s => s) l).
Proof.
  unfold sort_by. induction l as [|x r IH]; intros Hnd; cbn [fold_right]; [constructor|].
  inversion Hnd; subst. apply insert_sorted_sorted; [|apply IH; assumption].
  intros Hc. apply (sort_by_in x r) in Hc. contradiction.
Qed.

(* ANY sorted rearrangement of a duplicate-free list of paths is the model's *)
Theorem any_sort_is_the_models l l' :
  NoDup l -> Permutation l l' -> StronglySorted pl l' -> l' = sort_by (fun s => s) l.
Proof.
  intros Hnd Hp Hs. apply sorted_unique; [exact Hs|apply sort_by_sorted; exact Hnd|].
  eapply Permutation_trans; [apply Permutation_sym; exact Hp|apply sort_by_perm].
Qed.

(* ... in particular it does not depend on the order in which the paths were collected (Go map
   iteration order) *)
Theorem sort_by_ignores_collection_order l l' :
  NoDup l -> Permutation l l' -> sort_by (fun s => s) l' = sort_by (fun s => s) l.
Proof.
  intros Hnd Hp. apply any_sort_is_the_models; [exact Hnd| |].
  - eapply Permutation_trans; [exact Hp|apply sort_by_perm].
  - apply sort_by_sorted. eapply Permutation_NoDup; eassumption.
Qed.

Example path_order_laws_nonvacuous :
  sort_by (fun s => s) ["golang.org/x/b"; "fmt"; "a.b/c"; "os"] = ["fmt"; "os"; "a.b/c"; "golang.org/x/b"] /\
  sort_by (fun s => s) ["os"; "a.b/c"; "golang.org/x/b"; "fmt"] = ["fmt"; "os"; "a.b/c"; "golang.org/x/b"].
Proof. vm_compute. split; reflexivity. Qed.

(* ---- the same for lists sorted BY a key (import specs sorted by their path: the rearrangement of
        the first import block after an addition, sort.Slice over blocks[0].Specs) ---------------- *)
Section Keyed.
Context {A : Type} (key : A -> string).
Definition plk (a b : A) : Prop := path_less (key a) (key b) = true.

Lemma sorted_unique_k : forall l l', StronglySorted plk l -> StronglySorted plk l' -> Permutation l l' -> l = l'.
Proof.
  induction l as [|x r IH]; intros l' Hs Hs' Hp.
  - apply Permutation_nil in Hp. subst. reflexivity.
  - destruct l' as [|y r']; [apply Permutation_sym, Permutation_nil in Hp; discriminate|].
    inversion Hs as [|? ? Hsr Hxr]; subst. inversion Hs' as [|? ? Hsr' Hyr']; subst.
    assert (Hin1 : In x (y :: r')) by (eapply Permutation_in; [exact Hp|left; reflexivity]).
    assert (Hin2 : In y (x :: r)) by (eapply Permutation_in; [apply Permutation_sym; exact Hp|left; reflexivity]).
    assert (Hxy : x = y).
    { destruct Hin1 as [Hc|Hx]; [congruence|]. destruct Hin2 as [Hc|Hy]; [congruence|]. exfalso.
      rewrite Forall_forall in Hxr, Hyr'. pose proof (Hxr y Hy) as H1. pose proof (Hyr' x Hx) as H2.
      unfold plk in *. rewrite (path_less_asym _ _ H1) in H2. discriminate. }
    subst y. f_equal. apply IH; try assumption. eapply Permutation_cons_inv; exact Hp.
Qed.

Lemma insert_sorted_forall_k (P : A -> Prop) x l : P x -> Forall P l -> Forall P (insert_sorted key x l).
Proof.
  intros Hx Hl. induction l as [|y r IH]; cbn [insert_sorted]; [constructor; auto|].
  inversion Hl; subst. destruct (path_less (key x) (key y)); constructor; auto.
Qed.

Lemma insert_sorted_sorted_k x l : ~ In (key x) (map key l) -> StronglySorted plk l -> StronglySorted plk (insert_sorted key x l).
Proof.
  intros Hn Hs. induction l as [|y r IH]; cbn [insert_sorted]; [constructor; constructor|].
  inversion Hs as [|? ? Hsr Hyr]; subst.
  destruct (path_less (key x) (key y)) eqn:Hxy.
  - constructor; [exact Hs|]. constructor; [exact Hxy|].
    rewrite Forall_forall in *. intros z Hz. unfold plk. eapply path_less_trans; [exact Hxy|apply Hyr; exact Hz].
  - constructor.
    + apply IH; [intros Hc; apply Hn; right; exact Hc|exact Hsr].
    + apply insert_sorted_forall_k; [|exact Hyr]. unfold plk.
      destruct (path_less_total (key y) (key x)) as [H|H]; [intros Heq; apply Hn; left; exact Heq|exact H|].
      rewrite H in Hxy. discriminate.
Qed.

Lemma insert_sorted_perm_k x l : Permutation (x :: l) (insert_sorted key x l).
Proof.
  induction l as [|y r IH]; cbn [insert_sorted]; [apply Permutation_refl|].
  destruct (path_less (key x) (key y)); [apply Permutation_refl|].
  eapply Permutation_trans; [apply perm_swap|]. apply perm_skip. exact IH.
Qed.

Lemma sort_by_perm_k l : Permutation l (sort_by key l).
Proof.
  unfold sort_by. induction l as [|x r IH]; cbn [fold_right]; [constructor|].
  eapply Permutation_trans; [apply perm_skip; exact IH|apply insert_sorted_perm_k].
Qed.

Theorem sort_by_sorted_k l : NoDup (map key l) -> StronglySorted plk (sort_by key l).
Proof.
  unfold sort_by. induction l as [|x r IH]; intros Hnd; cbn [fold_right]; [constructor|].
  cbn [map] in Hnd. inversion Hnd as [|? ? Hx Hr]; subst. apply insert_sorted_sorted_k; [|apply IH; assumption].
  intros Hc. apply Hx. eapply Permutation_in; [|exact Hc].
  apply Permutation_map, Permutation_sym, sort_by_perm_k.
Qed.

Theorem any_sort_is_the_models_k l l' :
  NoDup (map key l) -> Permutation l l' -> StronglySorted plk l' -> l' = sort_by key l.
Proof.
  intros Hnd Hp Hs. apply sorted_unique_k; [exact Hs|apply sort_by_sorted_k; exact Hnd|].
  eapply Permutation_trans; [apply Permutation_sym; exact Hp|apply sort_by_perm_k].
Qed.
End Keyed.
