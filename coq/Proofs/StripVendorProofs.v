(* stripVendor (decorator/decorator.go), model Model.Resolvers.strip_vendor: what the function
   guarantees for EVERY path, not only for the recorded ones.
     - the result is a suffix of the argument (only a prefix is ever removed);
     - the result contains no "/vendor/" and does not start with "vendor/": nothing of a vendor
       directory is left, so the function is idempotent -- which is what resolvePath relies on when
       it compares stripVendor(path) with stripVendor(f.Path);
     - a path without a vendor directory is returned unchanged;
     - the LAST "/vendor/" decides: whatever precedes a vendor directory is irrelevant. *)
From Coq Require Import List String Bool Ascii Arith Lia.
Import ListNotations.
From DV Require Import Model.Resolvers.
Local Open Scope string_scope.
Local Arguments drop : simpl never.

Lemma prefixb_split p s : prefixb p s = true -> s = p ++ drop (String.length p) s.
Proof.
  revert s. induction p as [|a p IH]; intros s H; cbn in *; [reflexivity|].
  destruct s as [|b s]; [discriminate|]. apply andb_true_iff in H. destruct H as [Hab Hp].
  apply Ascii.eqb_eq in Hab. subst b. f_equal. apply IH. exact Hp.
Qed.

Lemma prefixb_app p t : prefixb p (p ++ t) = true.
Proof. induction p as [|a p IH]; cbn; [reflexivity|]. rewrite Ascii.eqb_refl. exact IH. Qed.

Lemma drop_app_length p t : drop (String.length p) (p ++ t) = t.
Proof. induction p as [|a p IH]; cbn; [destruct t; reflexivity|exact IH]. Qed.

Lemma prefixb_slash_vendor u : prefixb "/vendor/" (String "/" u) = prefixb "vendor/" u.
Proof. reflexivity. Qed.

Lemma drop_empty n : drop n "" = "".
Proof. destruct n; reflexivity. Qed.

Lemma drop_S n c r : drop (S n) (String c r) = drop n r.
Proof. reflexivity. Qed.

(* no "/vendor/" anywhere: every suffix fails the prefix test *)
Lemma alv_none_cons c r : after_last_vendor (String c r) = None ->
  after_last_vendor r = None /\ prefixb "/vendor/" (String c r) = false.
Proof.
  cbn [after_last_vendor]. destruct (after_last_vendor r); [discriminate|].
  destruct (prefixb "/vendor/" (String c r)); [discriminate|]. auto.
Qed.

Lemma alv_none_drop n : forall s, after_last_vendor s = None -> after_last_vendor (drop n s) = None.
Proof.
  induction n as [|n IH]; intros s H; [destruct s; exact H|].
  destruct s as [|c r]; [reflexivity|]. rewrite drop_S. apply IH. apply (alv_none_cons c r H).
Qed.

Lemma alv_none_prefix n : forall s, after_last_vendor s = None -> prefixb "/vendor/" (drop n s) = false.
Proof.
  intros s H. pose proof (alv_none_drop n s H) as Hd.
  destruct (drop n s) as [|c r]; [reflexivity|]. apply (alv_none_cons c r Hd).
Qed.

(* the result of the "/vendor/" case is a suffix and is free of vendor directories *)
Lemma alv_some s : forall t, after_last_vendor s = Some t ->
  (exists pre, s = pre ++ "/vendor/" ++ t) /\ after_last_vendor t = None /\ prefixb "vendor/" t = false.
Proof.
  induction s as [|c r IH]; intros t H; [discriminate|].
  cbn [after_last_vendor] in H. destruct (after_last_vendor r) as [t'|] eqn:Hr.
  - injection H as <-. destruct (IH t' eq_refl) as [[pre Hpre] Hrest]. split; [|exact Hrest].
    exists (String c pre). cbn. rewrite Hpre. reflexivity.
  - destruct (prefixb "/vendor/" (String c r)) eqn:Hp; [|discriminate].
    assert (Ht : t = drop 7 r) by (injection H; intros <-; reflexivity). clear H. subst t.
    pose proof (prefixb_split _ _ Hp) as Hs.
    change (drop (String.length "/vendor/") (String c r)) with (drop 7 r) in Hs.
    split; [exists ""; exact Hs|]. split; [exact (alv_none_drop 7 r Hr)|].
    destruct (prefixb "vendor/" (drop 7 r)) eqn:Hv; [|reflexivity]. exfalso.
    (* then "/vendor/" would start at offset 7 of s, i.e. at offset 6 of r *)
    pose proof (alv_none_prefix 6 r Hr) as Hno.
    assert (Hd : drop 6 r = String "/" (drop 7 r)).
    { injection Hs as _ Hs'. rewrite Hs' at 1. generalize (drop 7 r). intros u. reflexivity. }
    rewrite Hd, prefixb_slash_vendor in Hno.
    rewrite Hno in Hv. discriminate.
Qed.

Theorem strip_vendor_leaves_no_vendor p :
  after_last_vendor (strip_vendor p) = None /\ prefixb "vendor/" (strip_vendor p) = false.
Proof.
  unfold strip_vendor. destruct (after_last_vendor p) as [t|] eqn:Hp.
  - apply (alv_some p t Hp).
  - destruct (prefixb "vendor/" p) eqn:Hv; [|auto]. split; [apply alv_none_drop; exact Hp|].
    destruct (prefixb "vendor/" (drop 7 p)) eqn:Hv2; [|reflexivity]. exfalso.
    pose proof (prefixb_split _ _ Hv) as Hs. cbn [String.length] in Hs.
    pose proof (alv_none_prefix 6 p Hp) as Hno.
    assert (Hd : drop 6 p = String "/" (drop 7 p)).
    { rewrite Hs at 1. generalize (drop 7 p). intros u. reflexivity. }
    rewrite Hd, prefixb_slash_vendor in Hno.
    rewrite Hno in Hv2. discriminate.
Qed.

Theorem strip_vendor_idempotent p : strip_vendor (strip_vendor p) = strip_vendor p.
Proof.
  destruct (strip_vendor_leaves_no_vendor p) as [Ha Hb].
  unfold strip_vendor at 1. rewrite Ha, Hb. reflexivity.
Qed.

Theorem strip_vendor_is_suffix p : exists pre, p = pre ++ strip_vendor p.
Proof.
  unfold strip_vendor. destruct (after_last_vendor p) as [t|] eqn:Hp.
  - destruct (alv_some p t Hp) as [[pre Hpre] _]. exists (pre ++ "/vendor/"). rewrite Hpre.
    clear. induction pre as [|a pre IH]; cbn; [reflexivity|]. f_equal. exact IH.
  - destruct (prefixb "vendor/" p) eqn:Hv; [|exists ""; reflexivity].
    exists "vendor/". exact (prefixb_split _ _ Hv).
Qed.

Theorem strip_vendor_unvendored_unchanged p :
  after_last_vendor p = None -> prefixb "vendor/" p = false -> strip_vendor p = p.
Proof. intros Ha Hb. unfold strip_vendor. rewrite Ha, Hb. reflexivity. Qed.

Lemma alv_cons_nonslash c r : Ascii.eqb "/" c = false -> after_last_vendor r = None ->
  after_last_vendor (String c r) = None.
Proof.
  intros Hc Hr. cbn [after_last_vendor]. rewrite Hr.
  change (prefixb "/vendor/" (String c r)) with (Ascii.eqb "/" c && prefixb "vendor/" r).
  rewrite Hc. reflexivity.
Qed.

Lemma alv_cons_slash r : after_last_vendor r = None -> prefixb "vendor/" r = false ->
  after_last_vendor (String "/" r) = None.
Proof.
  intros Hr Hp. cbn [after_last_vendor]. rewrite Hr, prefixb_slash_vendor, Hp. reflexivity.
Qed.

(* the last vendor directory decides: a vendor-free import path t placed under any vendor directory
   (whatever comes before, other vendor directories included) resolves to t *)
Lemma alv_app_vendor pre t : after_last_vendor t = None -> prefixb "vendor/" t = false ->
  after_last_vendor (pre ++ "/vendor/" ++ t) = Some t.
Proof.
  intros Ha Hb. induction pre as [|a pre IH].
  - change ("" ++ "/vendor/" ++ t) with (String "/" ("vendor/" ++ t)).
    cbn [after_last_vendor].
    assert (Hin : after_last_vendor ("vendor/" ++ t) = None).
    { (* no "/vendor/" can start inside "vendor/" ++ t: the only offset with a '/' is 6 *)
      change ("vendor/" ++ t) with
        (String "v" (String "e" (String "n" (String "d" (String "o" (String "r" (String "/" t))))))).
      repeat (apply alv_cons_nonslash; [reflexivity|]).
      apply alv_cons_slash; assumption. }
    rewrite Hin. change (String "/" ("vendor/" ++ t)) with ("/vendor/" ++ t).
    rewrite prefixb_app. exact (f_equal Some (drop_app_length "/vendor/" t)).
  - change (String a pre ++ "/vendor/" ++ t) with (String a (pre ++ "/vendor/" ++ t)).
    cbn [after_last_vendor]. rewrite IH. reflexivity.
Qed.

Theorem strip_vendor_last_vendor_decides pre t :
  after_last_vendor t = None -> prefixb "vendor/" t = false ->
  strip_vendor (pre ++ "/vendor/" ++ t) = t /\ strip_vendor ("vendor/" ++ t) = t.
Proof.
  intros Ha Hb. split.
  - unfold strip_vendor. rewrite (alv_app_vendor pre t Ha Hb). reflexivity.
  - pose proof (alv_app_vendor "" t Ha Hb) as H.
    change ("" ++ "/vendor/" ++ t) with (String "/" ("vendor/" ++ t)) in H.
    cbn [after_last_vendor] in H.
    unfold strip_vendor. destruct (after_last_vendor ("vendor/" ++ t)) as [u|] eqn:Hu.
    + injection H as <-. reflexivity.
    + rewrite prefixb_app. apply (drop_app_length "vendor/" t).
Qed.

(* the hypotheses are satisfiable, and the conclusions are not trivially so *)
Example strip_vendor_laws_nonvacuous :
  after_last_vendor "golang.org/x/net/idna" = None /\ prefixb "vendor/" "golang.org/x/net/idna" = false /\
  strip_vendor "a/vendor/b/vendor/golang.org/x/net/idna" = "golang.org/x/net/idna" /\
  strip_vendor "vendorx/y" = "vendorx/y" /\ strip_vendor "x/vendor" = "x/vendor".
Proof. vm_compute. repeat split. Qed.

(* ---- consequences for fileDecorator.resolvePath (Model.Resolvers.resolve_path), all inputs ---- *)

(* the path stored on an identifier never contains a vendor directory *)
Theorem resolve_path_is_vendor_free force local rl pf raw :
  strip_vendor (resolve_path force local rl pf raw) = resolve_path force local rl pf raw.
Proof.
  unfold resolve_path. destruct (negb force && in_avoid pf); [reflexivity|]. cbv zeta.
  destruct (negb rl && String.eqb (strip_vendor raw) (strip_vendor local)); [reflexivity|].
  apply strip_vendor_idempotent.
Qed.

(* vendoring the decorated package, or the package referred to, changes no assignment *)
Theorem resolve_path_is_vendor_blind force local rl pf raw :
  resolve_path force local rl pf raw = resolve_path force (strip_vendor local) rl pf (strip_vendor raw).
Proof. unfold resolve_path. rewrite !strip_vendor_idempotent. reflexivity. Qed.

(* without ResolveLocalPath the decorated package's own path is never stored *)
Theorem resolve_path_never_stores_the_local_path force local pf raw :
  resolve_path force local false pf raw = strip_vendor local -> resolve_path force local false pf raw = "".
Proof.
  unfold resolve_path. destruct (negb force && in_avoid pf); [reflexivity|]. cbv zeta. cbn [negb andb].
  destruct (String.eqb_spec (strip_vendor raw) (strip_vendor local)) as [_|Hne]; [reflexivity|].
  intros H. contradiction.
Qed.

(* with ResolveLocalPath every resolved reference keeps its (vendor-free) path, local or not *)
Theorem resolve_path_with_local_paths force local pf raw :
  (negb force && in_avoid pf) = false -> resolve_path force local true pf raw = strip_vendor raw.
Proof. intros H. unfold resolve_path. rewrite H. reflexivity. Qed.

Example resolve_path_laws_nonvacuous :
  resolve_path false "root/vendor/root/a" false "CallExpr.Fun" "root/a" = "" /\
  resolve_path false "root/a" false "CallExpr.Fun" "root/vendor/golang.org/x/b" = "golang.org/x/b" /\
  resolve_path false "root/a" true "CallExpr.Fun" "root/a" = "root/a".
Proof. vm_compute. repeat split. Qed.

(* ---- moving code (C10): with ResolveLocalPath what is stored does not depend on the package the
        code was decorated in; without it, it does (a reference to the package's own objects) ---- *)
Theorem resolve_path_independent_of_source_package force l1 l2 pf raw :
  resolve_path force l1 true pf raw = resolve_path force l2 true pf raw.
Proof. unfold resolve_path. destruct (negb force && in_avoid pf); reflexivity. Qed.

Example resolve_path_depends_on_source_package_without_local_paths :
  exists l1 l2 pf raw, resolve_path false l1 false pf raw <> resolve_path false l2 false pf raw.
Proof. exists "root/a", "root/b", "CallExpr.Fun", "root/a". vm_compute. discriminate. Qed.
