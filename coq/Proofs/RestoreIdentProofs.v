(* C08 / C10 / C07: the decision part of FileRestorer.restoreIdent -- which identifiers are restored as
   package.Name and under which name -- translated on every run (Gen/DecisionSrc.v: restoreident_src; the
   conditional assignments to `name` are rendered by forking the rest of the function under them; the
   statements that build the selector are one outcome, pinned against the model's selector_acts) computes
   the specification below for every input. *)
From Coq Require Import List String Bool.
Import ListNotations.
From DV Require Import Model.Decision Gen.DecisionSrc.
Local Open Scope string_scope.
Local Open Scope list_scope.

Inductive ident_mode := IPanic | IBare | ISelector (name : string).

(* resolver_nil: r.Resolver == nil; path_empty: n.Path == ""; avoid_hit: avoid[parentName.parentField];
   same_path: n.Path == r.Path; pname: r.packageNames[n.Path], the name updateImports chose ("" for a
   dot-import or a path it does not know, "." never -- the source still guards against it) *)
Definition restore_ident_mode (resolver_nil path_empty avoid_hit same_path : bool) (pname : string) : ident_mode :=
  if resolver_nil then (if path_empty then IBare else IPanic)
  else if path_empty then IBare
  else if avoid_hit then IPanic
  else if same_path then IBare
  else if String.eqb pname "." || String.eqb pname "" then IBare
  else ISelector pname.

Definition P_RES_NIL := "nil(r.Resolver)".
Definition P_PATH_EMPTY := "eq(n.Path,"""")".
Definition P_AVOID := "true(avoid[parentName+"".""+parentField])".
Definition P_SAME := "eq(n.Path,r.Path)".
Definition P_NAME_DOT := "eq(r.packageNames[n.Path],""."")".
Definition P_NAME_EMPTY := "eq(r.packageNames[n.Path],"""")".
Definition P_EMPTY_EMPTY := "eq("""","""")".
Definition P_EMPTY_DOT := "eq("""",""."")".
Definition S_NIL := "nil".
Definition S_SEL_NAME := "selector:r.packageNames[n.Path]".
Definition S_SEL_EMPTY := "selector:""""".

Definition ident_val (resolver_nil path_empty avoid_hit same_path : bool) (pname : string) (q : string) : bool :=
  if String.eqb q P_RES_NIL then resolver_nil
  else if String.eqb q P_PATH_EMPTY then path_empty
  else if String.eqb q P_AVOID then avoid_hit
  else if String.eqb q P_SAME then same_path
  else if String.eqb q P_NAME_DOT then String.eqb pname "."
  else if String.eqb q P_NAME_EMPTY then String.eqb pname ""
  else if String.eqb q P_EMPTY_EMPTY then true      (* "" == "" *)
  else if String.eqb q P_EMPTY_DOT then false       (* "" == "." *)
  else false.

Definition ident_outcome (pname : string) (o : dout) : option ident_mode :=
  match o with
  | OReturn DPanic => Some IPanic
  | OReturn (DVal s) => if String.eqb s S_NIL then Some IBare
                        else if String.eqb s S_SEL_NAME then Some (ISelector pname)
                        else if String.eqb s S_SEL_EMPTY then Some (ISelector "")
                        else None
  | _ => None
  end.

Definition restoreident_vocabulary_ok : bool :=
  vocabulary_ok [P_RES_NIL; P_PATH_EMPTY; P_AVOID; P_SAME; P_NAME_DOT; P_NAME_EMPTY; P_EMPTY_EMPTY; P_EMPTY_DOT]
                [S_NIL; S_SEL_NAME; S_SEL_EMPTY] restoreident_src.

Theorem restoreident_source_is_model :
  forall resolver_nil path_empty avoid_hit same_path pname,
    ident_outcome pname (run (ident_val resolver_nil path_empty avoid_hit same_path pname) restoreident_src)
    = Some (restore_ident_mode resolver_nil path_empty avoid_hit same_path pname).
Proof.
  intros rn pe ah sp pname. unfold restore_ident_mode.
  set (v := ident_val rn pe ah sp pname).
  assert (H1 : v P_RES_NIL = rn) by reflexivity.
  assert (H2 : v P_PATH_EMPTY = pe) by reflexivity.
  assert (H3 : v P_AVOID = ah) by reflexivity.
  assert (H4 : v P_SAME = sp) by reflexivity.
  assert (H5 : v P_NAME_DOT = String.eqb pname ".") by reflexivity.
  assert (H6 : v P_NAME_EMPTY = String.eqb pname "") by reflexivity.
  assert (H7 : v P_EMPTY_EMPTY = true) by reflexivity.
  assert (H8 : v P_EMPTY_DOT = false) by reflexivity.
  unfold restoreident_src. cbn [run run_stmt].
  change "nil(r.Resolver)" with P_RES_NIL. change "eq(n.Path,"""")" with P_PATH_EMPTY.
  change "true(avoid[parentName+"".""+parentField])" with P_AVOID. change "eq(n.Path,r.Path)" with P_SAME.
  change "eq(r.packageNames[n.Path],""."")" with P_NAME_DOT. change "eq(r.packageNames[n.Path],"""")" with P_NAME_EMPTY.
  change "eq("""","""")" with P_EMPTY_EMPTY. change "eq("""",""."")" with P_EMPTY_DOT.
  rewrite H1, H2, H3, H4, H5, H6, H7, H8. clear.
  destruct rn, pe, ah, sp; cbn [xorb run run_stmt]; try reflexivity;
    destruct (String.eqb pname "."); cbn [xorb orb run run_stmt]; try reflexivity;
    destruct (String.eqb pname ""); reflexivity.
Qed.

(* ... and that specification is the choice Model/Restore.node_acts makes at an identifier: [managed] = a
   resolver is set, [pu_zero] = the identifier carries no path, [pk] = what the model is given as the length
   of the chosen name -- None exactly when the path is the restorer's own or the chosen name is empty (a
   dot-import) -- on trees whose paths sit at legal positions (no avoid hit) *)
Inductive model_mode := MPanic | MBare | MSelector.

Definition node_acts_mode (managed pu_zero : bool) (pk : option nat) : model_mode :=
  if pu_zero then MBare
  else if managed then match pk with Some _ => MSelector | None => MBare end
  else MPanic.

Definition pk_of (same_path : bool) (pname : string) : option nat :=
  if same_path || String.eqb pname "." || String.eqb pname "" then None else Some (String.length pname).

Definition erase (m : ident_mode) : model_mode :=
  match m with IPanic => MPanic | IBare => MBare | ISelector _ => MSelector end.

Theorem restore_ident_mode_is_the_models_choice :
  forall managed pu_zero same_path pname,
    erase (restore_ident_mode (negb managed) pu_zero false same_path pname)
    = node_acts_mode managed pu_zero (pk_of same_path pname).
Proof.
  intros managed pu_zero same_path pname. unfold restore_ident_mode, node_acts_mode, pk_of.
  destruct managed, pu_zero, same_path; cbn [negb orb erase]; try reflexivity.
  destruct (String.eqb pname "."); cbn [orb]; [reflexivity|].
  destruct (String.eqb pname ""); reflexivity.
Qed.
