(* C08: merging spacing into decorations preserves comments and line breaks. *)
From Coq Require Import List String ZArith NArith Bool Lia.
Import ListNotations.
From DV Require Import Model.Tree Model.Tables Model.Restore Model.Merge Proofs.RestoreProofs.
Local Open Scope list_scope.
Local Open Scope Z_scope.

(* every comment of every slot, in slot order, exactly once; nothing else but "\n" *)
Fixpoint item_comments (items : list mitem) : list N :=
  match items with
  | [] => []
  | MDecs ds :: r => comment_uids ds ++ item_comments r
  | MSpace _ :: r => item_comments r
  end.

Lemma comment_uids_app a b : comment_uids (a ++ b) = comment_uids a ++ comment_uids b.
Proof. unfold comment_uids. apply flat_map_app. Qed.

Theorem merge_keeps_comments items : forall e, comment_uids (merge e items) = item_comments items.
Proof.
  induction items as [|[ds|sp] r IH]; intros e; cbn [merge item_comments]; [reflexivity| |].
  - destruct ds as [|d ds]; [cbn; apply IH|]. rewrite comment_uids_app, IH. reflexivity.
  - destruct sp; [apply IH| |]; rewrite comment_uids_app, IH; destruct e; reflexivity.
Qed.

(* ---- line breaks ------------------------------------------------------------------------ *)
Definition W (s : rstate) : Prop := atnl s <= cursor s.
Definition isfresh (s : rstate) : bool := Z.eqb (cursor s) (atnl s).

Definition dec_breaks (d : dec) : Z :=
  match d with DNl | DLine _ _ => 1 | DBlock _ nls _ => Z.of_nat (List.length nls) | DOther _ _ => 0 end.

Definition rendered (d : dec) : Prop :=
  match d with DNl => True | DLine l _ => 0 < l | DBlock l _ _ => 0 < l | DOther _ _ => False end.

Lemma add_lines_nlines nls : forall s,
  nlines (fold_left (fun s off => add_line s (cursor s - base s + off)) nls s) = nlines s + Z.of_nat (List.length nls)
  /\ cursor (fold_left (fun s off => add_line s (cursor s - base s + off)) nls s) = cursor s
  /\ atnl (fold_left (fun s off => add_line s (cursor s - base s + off)) nls s) = atnl s.
Proof.
  induction nls as [|o r IH]; intros s; cbn [fold_left List.length]; [split; [lia|split; reflexivity]|].
  destruct (IH (add_line s (cursor s - base s + o))) as [A [B C]]. rewrite A, B, C.
  unfold nlines, add_line. cbn [lines cursor atnl List.length]. split; [lia|split; reflexivity].
Qed.

Lemma dec_step_breaks id kind isend s f d :
  W s -> rendered d ->
  let s' := fst (dec_step id kind isend (s, f) d) in
  nlines s' = nlines s + dec_breaks d /\ W s' /\ isfresh s' = is_nl_dec d.
Proof.
  intros HW Hr. unfold dec_step.
  set (s1 := if isend && (atnl s =? cursor s) then set_cursor s (cursor s + 1) else s).
  assert (H1 : nlines s1 = nlines s /\ atnl s1 <= cursor s1 /\ atnl s1 = atnl s).
  { subst s1. unfold W in HW. destruct (isend && (atnl s =? cursor s)); cbn; unfold nlines; cbn; lia. }
  destruct H1 as [N1 [W1 A1]].
  destruct d as [|l u|l nls u|l u]; cbn [rendered] in Hr; try contradiction.
  - cbn. unfold nlines, W, isfresh. cbn. split; [unfold nlines in N1; lia|split; [lia|apply Z.eqb_refl]].
  - unfold add_field_comment.
    destruct (f && isend && has_comment_field kind); [destruct (add_to_group (comments s1) id (cursor s1, l, u))|];
      cbn; unfold nlines, W, isfresh; cbn; (split; [unfold nlines in N1; lia|split; [lia|apply Z.eqb_refl]]).
  - destruct (add_lines_nlines nls s1) as [A [B C]].
    set (s2 := fold_left (fun s off => add_line s (cursor s - base s + off)) nls s1) in *.
    unfold add_field_comment.
    destruct (f && isend && has_comment_field kind); [destruct (add_to_group (comments s2) id (cursor s2, l, u))|];
      cbn; unfold nlines, W, isfresh in *; cbn; (split; [lia|split; [lia|apply Z.eqb_neq; lia]]).
Qed.

Fixpoint sum_breaks (ds : list dec) : Z := match ds with [] => 0 | d :: r => dec_breaks d + sum_breaks r end.

Lemma fold_decs_breaks id kind isend ds : forall s f,
  W s -> Forall rendered ds ->
  let s' := fst (fold_left (dec_step id kind isend) ds (s, f)) in
  nlines s' = nlines s + sum_breaks ds /\ W s' /\
  isfresh s' = match rev ds with d :: _ => is_nl_dec d | [] => isfresh s end.
Proof.
  induction ds as [|d r IH]; intros s f HW Hr; cbn zeta.
  - cbn. split; [lia|split; [exact HW|reflexivity]].
  - inversion Hr as [|? ? Hd Hr']; subst. cbn [fold_left sum_breaks].
    destruct (dec_step id kind isend (s, f) d) as [s1 f1] eqn:E.
    pose proof (dec_step_breaks id kind isend s f d HW Hd) as H. cbn zeta in H. rewrite E in H. cbn [fst] in H.
    destruct H as [N1 [W1 F1]].
    destruct (IH s1 f1 W1 Hr') as [N2 [W2 F2]]. cbn zeta in N2, W2, F2.
    split; [lia|split; [exact W2|]]. rewrite F2.
    cbn [rev]. destruct (rev r) as [|d' r'] eqn:Er; cbn; [exact F1|reflexivity].
Qed.

Lemma apply_decs_breaks s id kind name isend ds :
  (String.eqb kind "File" && String.eqb name "Start" = false) -> W s -> Forall rendered ds ->
  let s' := apply_decs s id kind name isend ds in
  nlines s' = nlines s + sum_breaks ds /\ W s' /\
  isfresh s' = match rev ds with d :: _ => is_nl_dec d | [] => isfresh s end.
Proof. intros Hf HW Hr. unfold apply_decs. rewrite Hf. apply fold_decs_breaks; assumption. Qed.

Lemma apply_space_W s isbad after sp : W s -> W (apply_space s isbad after sp).
Proof.
  unfold W, apply_space. intros H. destruct (Z.leb _ 0); [exact H|]. destruct (Z.eqb _ 1); unfold space_nl; cbn; lia.
Qed.

Lemma apply_space_fresh s sp :
  isfresh (apply_space s false false sp) = isfresh s || negb (Z.eqb (newlines_of sp) 0).
Proof.
  destruct (apply_space_count s false false sp) as [A [B C]]. cbn [andb] in A, B, C. unfold isfresh in *.
  destruct (Z.eqb (cursor s) (atnl s)) eqn:E; destruct sp; cbn in *.
  - rewrite (C eq_refl). exact E.
  - rewrite (C eq_refl). exact E.
  - rewrite (B ltac:(lia)). apply Z.eqb_refl.
  - rewrite (C eq_refl). exact E.
  - rewrite (B ltac:(lia)). apply Z.eqb_refl.
  - rewrite (B ltac:(lia)). apply Z.eqb_refl.
Qed.

(* restoring the items one after the other *)
Definition run_item (id : N) (kind name : string) (isend : bool) (s : rstate) (i : mitem) : rstate :=
  match i with
  | MDecs ds => apply_decs s id kind name isend ds
  | MSpace sp => apply_space s false false sp
  end.

Definition items_rendered (items : list mitem) : Prop :=
  Forall (fun i => match i with MDecs ds => Forall rendered ds | MSpace _ => True end) items.

(* line breaks and resulting freshness of a sequence of items, as a function of the initial
   freshness only *)
Fixpoint item_breaks (e : bool) (items : list mitem) : Z * bool :=
  match items with
  | [] => (0, e)
  | MDecs [] :: r => item_breaks e r
  | MDecs ds :: r => let '(n, e') := item_breaks (last_is_nl ds) r in (sum_breaks ds + n, e')
  | MSpace sp :: r =>
    let k := Z.max 0 (newlines_of sp - (if e then 1 else 0)) in
    let '(n, e') := item_breaks (e || negb (Z.eqb (newlines_of sp) 0)) r in (k + n, e')
  end.

Definition final_fresh (e : bool) (l : list dec) : bool := match rev l with d :: _ => is_nl_dec d | [] => e end.

Lemma final_fresh_app e a b : final_fresh e (a ++ b) = final_fresh (final_fresh e a) b.
Proof.
  unfold final_fresh. rewrite rev_app_distr. destruct (rev b) as [|d r]; cbn; [|reflexivity].
  destruct (rev a); reflexivity.
Qed.

Lemma final_fresh_nonempty e d ds : final_fresh e (d :: ds) = last_is_nl (d :: ds).
Proof.
  unfold final_fresh, last_is_nl. destruct (rev (d :: ds)) eqn:Er; [|reflexivity].
  exfalso. apply (f_equal (@List.length dec)) in Er. rewrite rev_length in Er. cbn in Er. lia.
Qed.

Lemma sum_breaks_app a b : sum_breaks (a ++ b) = sum_breaks a + sum_breaks b.
Proof. induction a; cbn; lia. Qed.

(* pure list fact: the merged list has the breaks and the final freshness of the items *)
Lemma merge_breaks_pure items : forall e,
  sum_breaks (merge e items) = fst (item_breaks e items) /\ final_fresh e (merge e items) = snd (item_breaks e items).
Proof.
  induction items as [|[ds|sp] r IH]; intros e; cbn [merge item_breaks].
  - cbn. split; reflexivity.
  - destruct ds as [|d ds]; [apply IH|].
    destruct (IH (last_is_nl (d :: ds))) as [A B]. destruct (item_breaks (last_is_nl (d :: ds)) r) as [n e'].
    cbn [fst snd] in *. rewrite sum_breaks_app, final_fresh_app, final_fresh_nonempty. split; [lia|exact B].
  - destruct sp; cbn [newlines_of].
    + replace (e || negb (0 =? 0)) with e by (destruct e; reflexivity).
      destruct (IH e) as [A B]. destruct (item_breaks e r) as [n e']. cbn [fst snd] in *.
      split; [destruct e; lia|exact B].
    + replace (e || negb (1 =? 0)) with true by (destruct e; reflexivity).
      destruct (IH true) as [A B]. destruct (item_breaks true r) as [n e']. cbn [fst snd] in *.
      rewrite sum_breaks_app, final_fresh_app. split; [destruct e; cbn [sum_breaks dec_breaks]; lia|].
      replace (final_fresh e (if e then [] else [DNl])) with true by (destruct e; reflexivity). exact B.
    + replace (e || negb (2 =? 0)) with true by (destruct e; reflexivity).
      destruct (IH true) as [A B]. destruct (item_breaks true r) as [n e']. cbn [fst snd] in *.
      rewrite sum_breaks_app, final_fresh_app. split; [destruct e; cbn [sum_breaks dec_breaks]; lia|].
      replace (final_fresh e (if e then [DNl] else [DNl; DNl])) with true by (destruct e; reflexivity). exact B.
Qed.

Lemma merge_rendered items : items_rendered items -> forall e, Forall rendered (merge e items).
Proof.
  induction items as [|[ds|sp] r IH]; intros H e; cbn [merge]; [constructor| |];
    inversion H as [|? ? Hi Hr]; subst.
  - destruct ds as [|d ds]; [apply IH; exact Hr|]. apply Forall_app. split; [exact Hi|apply IH; exact Hr].
  - destruct sp; [apply IH; exact Hr| |]; apply Forall_app; (split; [destruct e; repeat constructor|apply IH; exact Hr]).
Qed.

(* the restorer run item by item follows item_breaks *)
Lemma run_items_breaks id kind name isend : forall items s,
  (String.eqb kind "File" && String.eqb name "Start" = false) -> W s -> items_rendered items ->
  let t := fold_left (run_item id kind name isend) items s in
  nlines t = nlines s + fst (item_breaks (isfresh s) items) /\ isfresh t = snd (item_breaks (isfresh s) items) /\ W t.
Proof.
  induction items as [|[ds|sp] r IH]; intros s Hf HW Hr; cbn zeta; cbn [fold_left item_breaks run_item].
  - cbn. split; [lia|split; [reflexivity|exact HW]].
  - inversion Hr as [|? ? Hd Hr']; subst.
    destruct (apply_decs_breaks s id kind name isend ds Hf HW Hd) as [A [B C]]. cbn zeta in A, B, C.
    destruct (IH (apply_decs s id kind name isend ds) Hf B Hr') as [X [Y Z]]. cbn zeta in X, Y, Z.
    destruct ds as [|d ds].
    + cbn in A, C. rewrite C in X, Y. split; [lia|split; [exact Y|exact Z]].
    + assert (Hfr : isfresh (apply_decs s id kind name isend (d :: ds)) = last_is_nl (d :: ds)).
      { rewrite C. unfold last_is_nl. destruct (rev (d :: ds)) eqn:Er; [|reflexivity].
        exfalso. apply (f_equal (@List.length dec)) in Er. rewrite rev_length in Er. cbn in Er. lia. }
      rewrite Hfr in X, Y. destruct (item_breaks (last_is_nl (d :: ds)) r) as [n e']. cbn [fst snd] in *.
      split; [lia|split; [exact Y|exact Z]].
  - inversion Hr as [|? ? _ Hr']; subst.
    destruct (apply_space_count s false false sp) as [A _]. cbn [andb] in A.
    pose proof (apply_space_fresh s sp) as F. pose proof (apply_space_W s false false sp HW) as HW'.
    destruct (IH (apply_space s false false sp) Hf HW' Hr') as [X [Y Z]]. cbn zeta in X, Y, Z.
    rewrite F in X, Y. unfold isfresh in *.
    destruct (item_breaks ((cursor s =? atnl s) || negb (newlines_of sp =? 0)) r) as [n e']. cbn [fst snd] in *.
    split; [lia|split; [exact Y|exact Z]].
Qed.

(* The number of line breaks emitted by restoring decoration lists and spacings one after the
   other (applyDecorations / applySpace with its non-additive rule) equals the number emitted
   by the single merged decoration list, and both leave the cursor in the same relation to the
   last line break -- provided endsWithNewLine starts out describing the restorer's state. *)
Theorem merge_keeps_line_breaks id kind name isend items s1 s2 :
  (String.eqb kind "File" && String.eqb name "Start" = false) ->
  W s1 -> W s2 -> isfresh s1 = isfresh s2 -> items_rendered items ->
  let t1 := fold_left (run_item id kind name isend) items s1 in
  let t2 := apply_decs s2 id kind name isend (merge (isfresh s2) items) in
  nlines t1 - nlines s1 = nlines t2 - nlines s2 /\ isfresh t1 = isfresh t2.
Proof.
  intros Hf W1 W2 Hfr Hr. cbn zeta.
  destruct (run_items_breaks id kind name isend items s1 Hf W1 Hr) as [A [B _]]. cbn zeta in A, B.
  destruct (apply_decs_breaks s2 id kind name isend (merge (isfresh s2) items) Hf W2 (merge_rendered items Hr _)) as [C [_ D]].
  cbn zeta in C, D.
  destruct (merge_breaks_pure items (isfresh s2)) as [P Q]. unfold final_fresh in Q.
  rewrite Hfr in A, B. split; [lia|]. rewrite B, D. symmetry. exact Q.
Qed.
