(* C18: the isomorphism check is sound. *)
From Coq Require Import List String ZArith NArith Bool Lia.
Import ListNotations.
From DV Require Import Model.ObjGraph.
Local Open Scope list_scope.

Lemma nodupN_NoDup l : nodupN l = true -> NoDup l.
Proof.
  induction l as [|x r IH]; cbn; intros H; [constructor|].
  apply andb_true_iff in H. destruct H as [H1 H2]. constructor; [|auto].
  intros Hin. apply negb_true_iff in H1.
  assert (E : existsb (N.eqb x) r = true) by (apply existsb_exists; exists x; split; [exact Hin|apply N.eqb_refl]).
  congruence.
Qed.

Lemma nget_In {A} (l : list (N * A)) k v : nget l k = Some v -> In (k, v) l.
Proof.
  induction l as [|[k' v'] r IH]; cbn; [discriminate|].
  destruct (N.eqb_spec k k') as [->|Hne]; intros H; [inversion H; left; reflexivity|right; auto].
Qed.

Lemma In_nget {A} (l : list (N * A)) k v : NoDup (map fst l) -> In (k, v) l -> nget l k = Some v.
Proof.
  induction l as [|[k' v'] r IH]; cbn; intros Hnd Hin; [destruct Hin|].
  inversion Hnd as [|? ? Hn Hnd']; subst. destruct Hin as [Heq|Hin].
  - inversion Heq; subst. rewrite N.eqb_refl. reflexivity.
  - destruct (N.eqb_spec k k') as [->|Hne]; [|auto]. exfalso. apply Hn. apply (in_map fst _ _ Hin).
Qed.

(* injectivity: two source objects have the same copy only if they are the same object *)
Lemma map_injective (m : list (N * N)) a1 a2 d :
  NoDup (map snd m) -> In (a1, d) m -> In (a2, d) m -> a1 = a2.
Proof.
  induction m as [|[a0 d0] r IH]; cbn; intros Hnd H1 H2; [destruct H1|].
  inversion Hnd as [|? ? Hn Hnd']; subst.
  destruct H1 as [E1|H1], H2 as [E2|H2].
  - congruence.
  - inversion E1; subst. exfalso. apply Hn. apply (in_map snd _ _ H2).
  - inversion E2; subst. exfalso. apply Hn. apply (in_map snd _ _ H1).
  - auto.
Qed.

Definition ref_mapped (mo ms : list (N * N)) (mn : N -> N) (a d : ref) : Prop :=
  match a, d with
  | RNil, RNil => True
  | RInt x, RInt y => x = y
  | RNode n, RNode n' => n' = mn n
  | RScope s, RScope s' => nget ms s = Some s'
  | _, _ => False
  end.

Lemma oref_eqb_mapped mo ms mn a d : oref_eqb (map_ref mo ms mn a) d = true -> ref_mapped mo ms mn a d.
Proof.
  destruct a as [|n|s|z]; cbn.
  - destruct d; cbn; try discriminate; auto.
  - destruct d; cbn; try discriminate. intros H. apply N.eqb_eq in H. auto.
  - destruct (nget ms s) eqn:E; cbn; [|discriminate]. destruct d; cbn; try discriminate.
    intros H. apply N.eqb_eq in H. subst. reflexivity.
  - destruct d; cbn; try discriminate. intros H. apply Z.eqb_eq in H. auto.
Qed.

(* If the check succeeds then: the object map and the scope map are injective partial
   functions (two identifiers share an object exactly when their counterparts do); every
   mapped object keeps kind and name, its declaration and data links point to the counterparts
   (node through the node map, scope through the scope map, iota value unchanged); every mapped
   scope keeps its nesting (outer scope mapped) and its membership (same names, each member
   mapped). *)
Theorem iso_check_sound g g' mo ms mn :
  iso_check g g' mo ms mn = true ->
  (forall a1 a2 d, nget mo a1 = Some d -> nget mo a2 = Some d -> a1 = a2) /\
  (forall s1 s2 d, nget ms s1 = Some d -> nget ms s2 = Some d -> s1 = s2) /\
  (forall a d, In (a, d) mo ->
     exists oa od, nget (g_objs g) a = Some oa /\ nget (g_objs g') d = Some od /\
       o_kind oa = o_kind od /\ o_name oa = o_name od /\
       ref_mapped mo ms mn (o_decl oa) (o_decl od) /\ ref_mapped mo ms mn (o_data oa) (o_data od)) /\
  (forall s d, In (s, d) ms ->
     exists sa sd, nget (g_scopes g) s = Some sa /\ nget (g_scopes g') d = Some sd /\
       (match s_outer sa, s_outer sd with
        | None, None => True
        | Some u, Some u' => nget ms u = Some u'
        | _, _ => False
        end) /\
       map fst (s_objs sa) = map fst (s_objs sd) /\
       (forall i n o n' o', nth_error (s_objs sa) i = Some (n, o) -> nth_error (s_objs sd) i = Some (n', o') -> nget mo o = Some o')).
Proof.
  unfold iso_check. intros H.
  repeat (apply andb_true_iff in H; destruct H as [H ?]).
  match goal with H : forallb (scope_ok _ _ _ _) _ = true |- _ => rename H into Hs end.
  match goal with H : forallb (obj_ok _ _ _ _ _) _ = true |- _ => rename H into Ho end.
  match goal with H : nodupN (map snd ms) = true |- _ => apply nodupN_NoDup in H; rename H into Ns2 end.
  match goal with H : nodupN (map fst ms) = true |- _ => apply nodupN_NoDup in H; rename H into Ns1 end.
  match goal with H : nodupN (map snd mo) = true |- _ => apply nodupN_NoDup in H; rename H into No2 end.
  apply nodupN_NoDup in H. rename H into No1.
  split; [|split; [|split]].
  - intros a1 a2 d H1 H2. apply (map_injective mo a1 a2 d No2); apply nget_In; assumption.
  - intros s1 s2 d H1 H2. apply (map_injective ms s1 s2 d Ns2); apply nget_In; assumption.
  - intros a d Hin. rewrite forallb_forall in Ho. specialize (Ho (a, d) Hin). unfold obj_ok in Ho. cbn [fst snd] in Ho.
    destruct (nget (g_objs g) a) as [oa|]; [|discriminate]. destruct (nget (g_objs g') d) as [od|]; [|discriminate].
    repeat (apply andb_true_iff in Ho; destruct Ho as [Ho ?]).
    exists oa, od. repeat split; auto.
    + apply N.eqb_eq. exact Ho.
    + apply String.eqb_eq. assumption.
    + apply oref_eqb_mapped. assumption.
    + apply oref_eqb_mapped. assumption.
  - intros s d Hin. rewrite forallb_forall in Hs. specialize (Hs (s, d) Hin). unfold scope_ok in Hs. cbn [fst snd] in Hs.
    destruct (nget (g_scopes g) s) as [sa|]; [|discriminate]. destruct (nget (g_scopes g') d) as [sd|]; [|discriminate].
    apply andb_true_iff in Hs. destruct Hs as [Hout Hmem].
    exists sa, sd. split; [reflexivity|split; [reflexivity|]]. split; [|split].
    + destruct (s_outer sa), (s_outer sd); try discriminate; auto.
      destruct (nget ms n) eqn:E; [|discriminate]. apply N.eqb_eq in Hout. subst. reflexivity.
    + clear - Hmem. revert Hmem. generalize (s_objs sd). induction (s_objs sa) as [|[n o] r IH]; intros [|[n' o'] r']; cbn; try discriminate; auto.
      intros H. repeat (apply andb_true_iff in H; destruct H as [H ?]). apply String.eqb_eq in H. subst. f_equal. apply IH. assumption.
    + clear - Hmem. revert Hmem. generalize (s_objs sd). induction (s_objs sa) as [|[n o] r IH]; intros [|[n' o'] r']; cbn; try discriminate.
      * intros _ i n o n' o' H. destruct i; discriminate.
      * intros H i n0 o0 n1 o1 H1 H2. repeat (apply andb_true_iff in H; destruct H as [H ?]).
        destruct i as [|i]; cbn in H1, H2.
        -- inversion H1; inversion H2; subst. destruct (nget mo o0) eqn:E; [|discriminate].
           match goal with H : N.eqb _ _ = true |- _ => apply N.eqb_eq in H; subst end. reflexivity.
        -- apply (IH r' ltac:(assumption) i n0 o0 n1 o1 H1 H2).
Qed.
