(* The whole pipeline, for every positioned go/ast tree, every comment list and every line table:
   fragment ; link ; decorate ; restore loses no comment -- every comment of the file is among the
   comments of the restored file (if no stage panics).  The tables are parameters; the conditions
   on them are evaluated on the regenerated tables in Props/C03.v.  File.Imports is an alias list
   (Proofs/Pipeline.v): the one hypothesis about the tree is that its elements are specs of the
   file's declarations, which go/parser guarantees and the harness checks on every tree. *)
From Coq Require Import List String ZArith NArith Bool Lia.
Import ListNotations.
From DV Require Import Model.Tree Model.Tables Model.Skeleton Model.FragSkel Model.Link Model.Fragment Model.Decorate Model.Restore
     Proofs.TreeInd Proofs.LinkProofs Proofs.FragProofs Proofs.FragReach Proofs.DecReach Proofs.Pipeline
     Proofs.RestoreProofs Proofs.RestReach.
Local Open Scope string_scope.
Local Open Scope list_scope.

(* the restorer descends into every child the decorator assigned and renders every point it stored *)
Definition dec_rest_coherent (dtbl : list (string * list nstmt)) (rtbl : list (string * list rstmt)) : bool :=
  forallb (fun e =>
    let k := fst e in
    forallb (fun pb => existsb (pb_eqb pb) (rest_in_paths rtbl k)) (dec_out_paths dtbl keep_n k) &&
    forallb (fun n => existsb (String.eqb n) (rest_points rtbl k)) (nd_points (snd e)) &&
    Nat.eqb (List.length (filter (fun e' => String.eqb (fst e') k) dtbl)) 1) dtbl
  && forallb (fun e => plain_case rtbl (fst e)) rtbl.

Lemma lookup_unique {A} (l : list (string * A)) k v :
  In (k, v) l -> List.length (filter (fun e' => String.eqb (fst e') k) l) = 1%nat -> lookup l k = Some v.
Proof.
  induction l as [|[k' v'] r IH]; [intros []|]. cbn [filter lookup fst].
  destruct (String.eqb_spec k' k) as [->|Hne].
  - rewrite String.eqb_refl. intros [H|H] Hlen; [inversion H; reflexivity|].
    exfalso. cbn in Hlen. assert (Hpos : (1 <= List.length (filter (fun e' => String.eqb (fst e') k) r))%nat).
    { clear -H. induction r as [|[k2 v2] r IHr]; [destruct H|]. cbn [filter fst]. destruct H as [H|H].
      - inversion H; subst. rewrite String.eqb_refl. cbn. lia.
      - destruct (String.eqb k2 k); cbn; [lia|apply IHr; exact H]. }
    lia.
  - assert (E : String.eqb k k' = false) by (apply String.eqb_neq; intros ->; apply Hne; reflexivity). rewrite E.
    intros [H|H] Hlen; [inversion H; subst; contradiction|apply IH; assumption].
Qed.

Lemma coherent_out_paths dtbl rtbl : dec_rest_coherent dtbl rtbl = true ->
  forall k pb, In pb (dec_out_paths dtbl keep_n k) -> In pb (rest_in_paths rtbl k).
Proof.
  intros H k pb Hin. apply andb_true_iff in H. destruct H as [H _]. rewrite forallb_forall in H.
  assert (Hl : exists l, lookup dtbl k = Some l).
  { unfold dec_out_paths in Hin. destruct (lookup dtbl k) as [l|]; [eauto|destruct Hin]. }
  destruct Hl as [l E].
  specialize (H (k, l) (lookup_In _ _ _ E)). cbn [fst snd] in H.
  apply andb_true_iff in H. destruct H as [H _]. apply andb_true_iff in H. destruct H as [H _]. rewrite forallb_forall in H.
  specialize (H pb Hin). apply existsb_exists in H. destruct H as [pb' [A B]]. apply pb_eqb_eq in B. subst. exact A.
Qed.

Lemma coherent_rest_points dtbl rtbl : dec_rest_coherent dtbl rtbl = true ->
  forall k stmts n, lookup dtbl k = Some stmts -> In n (nd_points stmts) -> In n (rest_points rtbl k).
Proof.
  intros H k stmts n E Hin. apply andb_true_iff in H. destruct H as [H _]. rewrite forallb_forall in H.
  specialize (H (k, stmts) (lookup_In _ _ _ E)). cbn [fst snd] in H.
  apply andb_true_iff in H. destruct H as [H _]. apply andb_true_iff in H. destruct H as [_ H]. rewrite forallb_forall in H.
  specialize (H n Hin). apply existsb_exists in H. destruct H as [x [A B]]. apply String.eqb_eq in B. subst. exact A.
Qed.

Lemma coherent_plain dtbl rtbl : dec_rest_coherent dtbl rtbl = true -> forall k, plain_case rtbl k = true.
Proof.
  intros H k. apply andb_true_iff in H. destruct H as [_ H]. rewrite forallb_forall in H.
  unfold plain_case. destruct (lookup rtbl k) as [l|] eqn:E; [|reflexivity].
  specialize (H (k, l) (lookup_In _ _ _ E)). cbn [fst] in H. unfold plain_case in H. rewrite E in H. exact H.
Qed.

(* an explicit panic action makes the run panic *)
Lemma apanic_panics acts : forall s w, In (APanic w) acts -> panic (fold_left rstep acts s) <> None.
Proof.
  induction acts as [|a r IH]; intros s w Hin; [destruct Hin|]. cbn [fold_left]. destruct Hin as [->|Hin].
  - assert (Hp : exists w', panic (rstep s (APanic w)) = Some w').
    { unfold rstep. destruct (panic s) as [w0|] eqn:E; [exists w0; exact E|]. unfold set_panic. cbn. rewrite E. eauto. }
    destruct Hp as [w' Hp]. rewrite (panic_sticky r _ w' Hp). discriminate.
  - apply (IH _ w Hin).
Qed.

Theorem pipeline_keeps_every_comment ftbl dtbl rtbl du stmtk declk fi t coms frs err b :
  frag_dec_coherent ftbl dtbl du = true -> tbl_wf dtbl = true -> dec_rest_coherent dtbl rtbl = true ->
  (forall f, FragReach.desc t f -> tkind f = "File" -> imports_aliased f) ->
  fragment ftbl stmtk declk fi t coms = (frs, err) ->
  let att := link (map snd frs) in
  l_panic att = false ->
  let acts := flatten rtbl false (fun _ => None) (decorateD du dtbl att t) in
  panic (run_acts b acts) = None ->
  forall pos d u, In (pos, d) coms -> In u (comment_uids [d]) ->
  In u (all_uids (comments (run_acts b acts))).
Proof.
  intros C1 C2 C3 Hal Hfrag att Hp acts Hnp pos d u Hin Hu.
  destruct (decorated_tree_has_every_comment ftbl dtbl du stmtk declk fi t coms frs err C1 C2 Hal Hfrag Hp pos d Hin)
    as [t' [point [ds [stmts [_ [Hr [E [Hpt [Hl Hd]]]]]]]]].
  fold att in Hr, Hl.
  (* the restorer reaches the node and renders the point *)
  assert (Hr2 : reach (rest_in_paths rtbl) (decorateD du dtbl att t) (dres du dtbl att t'))
    by (eapply reach_mono; [apply (coherent_out_paths _ _ C3)|exact Hr]).
  pose proof (reach_acts_included rtbl false (fun _ => None) (coherent_plain _ _ C3) _ _ Hr2) as Hincl.
  destruct (dres_id_kind du dtbl att t' stmts E) as [_ [Hk _]].
  assert (Hrp : In point (rest_points rtbl (tkind (dres du dtbl att t')))) by (rewrite Hk; apply (coherent_rest_points _ _ C3 _ stmts); assumption).
  destruct (point_action rtbl false (fun _ => None) (dres du dtbl att t') point ds eq_refl Hrp Hl) as [[name [isend Ha]]|[w Hw]].
  - apply Hincl in Ha. fold acts in Ha.
    assert (Hau : In u (acts_comment_uids acts)).
    { unfold acts_comment_uids. apply in_flat_map. eexists. split; [exact Ha|]. cbn.
      unfold comment_uids in *. apply in_flat_map in Hu. destruct Hu as [d0 [[<-|[]] Hu]]. apply in_flat_map. exists d. split; assumption. }
    unfold run_acts in *. pose proof (run_comments_once acts (init_r b) u Hnp) as Hc. cbn [comments init_r all_uids flat_map] in Hc.
    assert (Hge : (1 <= cnt u (acts_comment_uids acts))%nat).
    { unfold cnt. apply (count_occ_In N.eq_dec). exact Hau. }
    assert (Hpos : (0 < cnt u (all_uids (comments (fold_left rstep acts (init_r b)))))%nat) by (cbn in Hc; lia).
    unfold cnt in Hpos. apply (count_occ_In N.eq_dec). exact Hpos.
  - exfalso. apply Hincl in Hw. fold acts in Hw. apply (apanic_panics acts (init_r b) w Hw). exact Hnp.
Qed.

(* ---- spacing ------------------------------------------------------------------------------------- *)
(* every decorator case stores both spacings and assigns no path; every restorer case applies both
   spacings *)
Definition spacing_coherent (dtbl : list (string * list nstmt)) (rtbl : list (string * list rstmt)) : bool :=
  forallb (fun e => String.eqb (fst e) "Package" || (stores_spacing (snd e) && sets_no_path (snd e) &&
     match lookup rtbl (fst e) with
     | Some l => existsb (fun s => match s with RSpace a => negb a | _ => false end) (case_body l) &&
                 existsb (fun s => match s with RSpace a => a | _ => false end) (case_body l)
     | None => false
     end)) dtbl.

(* The Before / After spacing link computed for a node reachable through the fragment table is the
   spacing the restorer applies at that node. *)
Theorem pipeline_applies_link_spacing ftbl dtbl rtbl du (att : lstate) t t' :
  frag_dec_coherent ftbl dtbl du = true -> tbl_wf dtbl = true -> dec_rest_coherent dtbl rtbl = true ->
  spacing_coherent dtbl rtbl = true ->
  (forall f, FragReach.desc t f -> tkind f = "File" -> imports_aliased f) ->
  reach (frag_paths ftbl) t t' -> tkind t' <> "Package" ->
  (exists stmts, lookup dtbl (tkind t') = Some stmts) ->
  let acts := flatten rtbl false (fun _ => None) (decorateD du dtbl att t) in
  In (ASpace (is_bad_kind (tkind t')) false (space_of (l_before att) (tid t'))) acts /\
  In (ASpace (is_bad_kind (tkind t')) true (space_of (l_after att) (tid t'))) acts.
Proof.
  intros C1 C2 C3 C4 Hal Hr Hnp [stmts E] acts.
  destruct (coherent_decls_specs _ _ _ C1) as [HD HS].
  assert (Hr2 : reach (dec_in_paths dtbl keep_n) t t').
  { eapply reach_mono; [apply (coherent_paths _ _ _ C1)|]. apply (reach_without_alias ftbl HD HS t t' Hr Hal). }
  pose proof (reach_stored du dtbl att keep_n C2 t t' Hr2) as Hr3.
  assert (Hr4 : reach (rest_in_paths rtbl) (decorateD du dtbl att t) (dres du dtbl att t'))
    by (eapply reach_mono; [apply (coherent_out_paths _ _ C3)|exact Hr3]).
  pose proof (reach_acts_included rtbl false (fun _ => None) (coherent_plain _ _ C3) _ _ Hr4) as Hincl.
  unfold spacing_coherent in C4. rewrite forallb_forall in C4. specialize (C4 (tkind t', stmts) (lookup_In _ _ _ E)). cbn [fst snd] in C4.
  apply orb_true_iff in C4. destruct C4 as [C4|C4]; [apply String.eqb_eq in C4; contradiction|].
  apply andb_true_iff in C4. destruct C4 as [C4 Hrs]. apply andb_true_iff in C4. destruct C4 as [Hsp Hnp2].
  destruct (dres_id_kind du dtbl att t' stmts E) as [Hid [Hk _]].
  destruct (spacing_stored du dtbl att t' stmts E Hsp) as [Hb Ha].
  pose proof (no_path_val du dtbl att t' stmts E Hnp2) as Hpath.
  assert (Hpu : ident_path_uid (dres du dtbl att t') = 0%N) by (unfold ident_path_uid; rewrite Hpath; reflexivity).
  rewrite <- Hk in Hrs. destruct (lookup rtbl (tkind (dres du dtbl att t'))) as [l|] eqn:El; [|discriminate].
  apply andb_true_iff in Hrs. destruct Hrs as [R1 R2].
  split.
  - pose proof (space_action rtbl (dres du dtbl att t') false l El) as Hact.
    rewrite Hk, Hb in Hact. apply Hincl. apply Hact; [|intros _; exact Hpu].
    clear -R1. induction (case_body l) as [|s r IH]; [discriminate|]. cbn [existsb] in *. apply orb_true_iff in R1. apply orb_true_iff.
    destruct R1 as [R1|R1]; [left; destruct s; try discriminate; destruct after; [discriminate|reflexivity]|right; apply IH; exact R1].
  - pose proof (space_action rtbl (dres du dtbl att t') true l El) as Hact.
    rewrite Hk, Ha in Hact. apply Hincl. apply Hact; [|intros _; exact Hpu].
    clear -R2. induction (case_body l) as [|s r IH]; [discriminate|]. cbn [existsb] in *. apply orb_true_iff in R2. apply orb_true_iff.
    destruct R2 as [R2|R2]; [left; destruct s; try discriminate; destruct after; [reflexivity|discriminate]|right; apply IH; exact R2].
Qed.
