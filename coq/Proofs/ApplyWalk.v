(* C14 / C13: with callbacks that never decline, Apply makes its pre calls for exactly the nodes
   Walk visits, in the same order -- for the two child tables re-extracted from rewrite.go and
   walk.go, on every tree whose nodes have aligned table cases and children of the shapes the
   tables expect. *)
From Coq Require Import List String ZArith NArith Bool Lia.
Import ListNotations.
From DV Require Import Model.Tree Model.Tables Model.ApplyTree Proofs.TreeInd Proofs.ApplyTreeProofs.
Local Open Scope string_scope.
Local Open Scope list_scope.

Definition pre_ids (l : list aev) : list N :=
  flat_map (fun e => match e with APre (KNode id) _ _ _ => [id] | _ => [] end) l.
Definition visit_ids (l : list ev) : list N :=
  flat_map (fun e => match e with EVisit id => [id] | _ => [] end) l.

(* a walk part and an apply part name the same field, and the field of the node has the shape both expect *)
Definition part_rel (kids : list (string * kid tree)) (w : wpart) (a : apart) : bool :=
  match w, a with
  | WOne f _, AOne lit f' | WOne f _, AOneG lit f' =>
    String.eqb f f' && String.eqb lit f' && match lookup kids f with Some (One _) => true | _ => false end
  | WMany f, AMany lit => String.eqb f lit && match lookup kids f with Some (Many _) => true | _ => false end
  | WMany f, APkgFiles => String.eqb f "Files" && match lookup kids f with Some (Many _) => true | _ => false end
  | _, _ => false
  end.

Fixpoint aligned_tree (wt : wtable) (at_ : list (string * list apart)) (t : tree) : bool :=
  match t with
  | Node _ k _ kids _ _ _ =>
    match lookup wt k, lookup at_ k with
    | Some ws, Some asx => all2 (part_rel kids) ws asx
    | _, _ => false
    end
    && forallb (fun p => match snd p with
                         | One (Some c) => aligned_tree wt at_ c
                         | One None => true
                         | Many l => forallb (aligned_tree wt at_) l
                         end) kids
  end.

Definition always : acb := mkCB (fun _ => true) (fun _ => true).

Lemma pre_ids_app a b : pre_ids (a ++ b) = pre_ids a ++ pre_ids b.
Proof. unfold pre_ids. apply flat_map_app. Qed.
Lemma visit_ids_app a b : visit_ids (a ++ b) = visit_ids a ++ visit_ids b.
Proof. unfold visit_ids. apply flat_map_app. Qed.

(* steps that do not abort are simply concatenated *)
Lemma seq_until_all_run : forall steps, Forall (fun s : ares => snd s = false) steps ->
  seq_until steps = (List.concat (map fst steps), false).
Proof.
  induction steps as [|[e ab] r IH]; intros H; cbn [seq_until map List.concat]; [reflexivity|].
  inversion H as [|? ? H1 Hr]; subst. cbn [snd] in H1. subst ab. rewrite (IH Hr). reflexivity.
Qed.

Lemma pre_ids_concat l : pre_ids (List.concat l) = List.concat (map pre_ids l).
Proof. induction l as [|x r IH]; cbn [List.concat map]; [reflexivity|]. rewrite pre_ids_app, IH. reflexivity. Qed.
Lemma visit_ids_concat l : visit_ids (List.concat l) = List.concat (map visit_ids l).
Proof. induction l as [|x r IH]; cbn [List.concat map]; [reflexivity|]. rewrite visit_ids_app, IH. reflexivity. Qed.

Definition agrees (wt : wtable) (at_ : list (string * list apart)) (c : tree) : Prop :=
  forall parent name index,
    snd (apply_tree at_ always c parent name index) = false /\
    pre_ids (fst (apply_tree at_ always c parent name index)) = visit_ids (walk wt (fun _ => false) c).

Lemma number_agrees wt at_ id lit : forall (l : list tree) i,
  Forall (agrees wt at_) l ->
  Forall (fun s : ares => snd s = false) (number i (map (fun r : string -> Z -> ares => r lit) (map (fun c => apply_tree at_ always c id) l))) /\
  List.concat (map pre_ids (map fst (number i (map (fun r : string -> Z -> ares => r lit) (map (fun c => apply_tree at_ always c id) l))))) =
  visit_ids (List.concat (map (walk wt (fun _ => false)) l)).
Proof.
  induction l as [|c r IH]; intros i H; cbn [map number List.concat]; [split; [constructor|reflexivity]|].
  inversion H as [|? ? Hc Hr]; subst. destruct (IH (i + 1)%Z Hr) as [A B]. destruct (Hc id lit i) as [C D].
  split; [constructor; [exact C|exact A]|]. rewrite visit_ids_app, <- D, B. reflexivity.
Qed.

Theorem apply_pre_calls_follow_walk wt at_ : forall t, aligned_tree wt at_ t = true -> agrees wt at_ t.
Proof.
  induction t as [id k vals kids decs b a IH] using tree_ind'. intros Hal parent name index.
  cbn [aligned_tree] in Hal. apply andb_true_iff in Hal. destruct Hal as [Hparts Hkids].
  destruct (lookup wt k) as [ws|] eqn:Ew; [|discriminate]. destruct (lookup at_ k) as [asx|] eqn:Ea; [|discriminate].
  assert (Hch : forall f v, lookup kids f = Some v -> kid_all (agrees wt at_) v).
  { intros f v Hl. apply lookup_In in Hl. rewrite Forall_forall in IH. pose proof (IH (f, v) Hl) as Hk. cbn [snd] in Hk.
    rewrite forallb_forall in Hkids. specialize (Hkids (f, v) Hl). cbn [snd] in Hkids.
    destruct v as [[c|]|l]; cbn [kid_all] in *; [apply Hk; exact Hkids|exact I|].
    rewrite Forall_forall in *. intros c Hc. apply Hk; [exact Hc|]. rewrite forallb_forall in Hkids. apply Hkids. exact Hc. }
  cbn [apply_tree walk]. change (cb_pre always (KNode id)) with true. cbn [negb]. unfold tbl_parts. rewrite Ew, Ea.
  set (convA := fun kk : kid tree => match kk with
                                    | One (Some c) => One (Some (apply_tree at_ always c id))
                                    | One None => One None
                                    | Many l => Many (map (fun c => apply_tree at_ always c id) l)
                                    end).
  set (convW := fun kk : kid tree => match kk with
                                    | One (Some c) => One (Some (walk wt (fun _ => false) c))
                                    | One None => One None
                                    | Many l => Many (map (walk wt (fun _ => false)) l)
                                    end).
  set (rsA := map (fun p : string * kid tree => (fst p, convA (snd p))) kids).
  set (rsW := map (fun p : string * kid tree => (fst p, convW (snd p))) kids).
  assert (HgA : forall f, lookup rsA f = match lookup kids f with Some v => Some (convA v) | None => None end) by (intros; apply lookup_map_kids).
  assert (HgW : forall f, lookup rsW f = match lookup kids f with Some v => Some (convW v) | None => None end) by (intros; apply lookup_map_kids).
  (* the parts, pairwise *)
  assert (Hpair : Forall (fun s : ares => snd s = false) (flat_map (part_steps always id rsA) asx) /\
                  List.concat (map pre_ids (map fst (flat_map (part_steps always id rsA) asx))) =
                  visit_ids (flat_map (fun w => wpart_events w (lookup rsW (wfield w))) ws)).
  { clear Ew Ea. revert asx Hparts. induction ws as [|w ws IHw]; intros asx Hparts; destruct asx as [|a0 asx]; cbn [all2] in Hparts; try discriminate.
    - split; [constructor|reflexivity].
    - apply andb_true_iff in Hparts. destruct Hparts as [Hrel Hrest]. destruct (IHw asx Hrest) as [A B].
      cbn [flat_map]. rewrite map_app, map_app, concat_app, visit_ids_app, <- B.
      assert (Hone : Forall (fun s : ares => snd s = false) (part_steps always id rsA a0) /\
                     List.concat (map pre_ids (map fst (part_steps always id rsA a0))) = visit_ids (wpart_events w (lookup rsW (wfield w)))).
      { destruct w as [f chk|f|src]; destruct a0 as [lit f'|lit f'|lit| |src']; cbn [part_rel] in Hrel; try discriminate.
        - apply andb_true_iff in Hrel. destruct Hrel as [Hrel Hshape]. apply andb_true_iff in Hrel. destruct Hrel as [E1 E2].
          apply String.eqb_eq in E1, E2. subst f' lit. cbn [part_steps wfield wpart_events]. rewrite HgA, HgW.
          destruct (lookup kids f) as [[[c|]|l]|] eqn:El; try discriminate; cbn [convA convW].
          + destruct (Hch _ _ El id f (-1)%Z) as [C D]. split; [repeat constructor; exact C|]. cbn [map List.concat]. rewrite app_nil_r. exact D.
          + split; [repeat constructor|]. cbn. destruct chk; reflexivity.
        - apply andb_true_iff in Hrel. destruct Hrel as [Hrel Hshape]. apply andb_true_iff in Hrel. destruct Hrel as [E1 E2].
          apply String.eqb_eq in E1, E2. subst f' lit. cbn [part_steps wfield wpart_events]. rewrite HgA, HgW.
          destruct (lookup kids f) as [[[c|]|l]|] eqn:El; try discriminate; cbn [convA convW].
          + destruct (Hch _ _ El id f (-1)%Z) as [C D]. split; [repeat constructor; exact C|]. cbn [map List.concat]. rewrite app_nil_r. exact D.
          + split; [constructor|]. cbn. destruct chk; reflexivity.
        - apply andb_true_iff in Hrel. destruct Hrel as [E1 Hshape]. apply String.eqb_eq in E1. subst lit.
          cbn [part_steps wfield wpart_events]. rewrite HgA, HgW.
          destruct (lookup kids f) as [[[c|]|l]|] eqn:El; try discriminate; cbn [convA convW].
          apply (number_agrees wt at_ id f l 0%Z). apply (Hch _ _ El).
        - apply andb_true_iff in Hrel. destruct Hrel as [E1 Hshape]. apply String.eqb_eq in E1. subst f.
          cbn [part_steps wfield wpart_events]. rewrite HgA, HgW.
          destruct (lookup kids "Files") as [[[c|]|l]|] eqn:El; try discriminate; cbn [convA convW].
          pose proof (Hch _ _ El) as Hl. cbn [kid_all] in Hl. clear - Hl.
          induction l as [|c r IHl]; cbn [map List.concat]; [split; [constructor|reflexivity]|].
          inversion Hl as [|? ? Hc Hr]; subst. destruct (IHl Hr) as [A B]. destruct (Hc id "Files" (-1)%Z) as [C D].
          split; [constructor; [exact C|exact A]|]. rewrite visit_ids_app, <- D, B. reflexivity. }
      destruct Hone as [H1 H2]. split; [apply Forall_app; split; assumption|]. f_equal. exact H2. }
  destruct Hpair as [Hrun Heq]. unfold rsA, rsW, convA, convW in Hrun, Heq. cbv beta in Hrun, Heq. rewrite (seq_until_all_run _ Hrun). cbn [frame]. change (cb_post always (KNode id)) with true. cbn [fst snd].
  split; [reflexivity|]. cbn [pre_ids flat_map app]. fold (pre_ids (List.concat (map fst (flat_map (part_steps always id rsA) asx)) ++ [APost (KNode id)])).
  rewrite pre_ids_app, pre_ids_concat. cbn [visit_ids flat_map app].
  fold (visit_ids (flat_map (fun w => wpart_events w (lookup rsW (wfield w))) ws ++ [ENil])). rewrite visit_ids_app.
  rewrite Heq. cbn. rewrite !app_nil_r. reflexivity.
Qed.
