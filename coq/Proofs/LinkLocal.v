(* Locality of link(): every comment is attached to a decoration fragment that is adjacent to it --
   between the comment and the decoration there are only comments, line breaks and bad spans.
   A comment therefore never crosses a token or another decoration point: it stays between the
   same two tokens (C03), and it is stored at the nearest point before or after it. *)
From Coq Require Import List String ZArith NArith Bool Lia.
Import ListNotations.
From DV Require Import Model.Tree Model.Link Proofs.LinkProofs.
Local Open Scope list_scope.

Definition soft (fr : frag) : Prop := match fr with FCom _ _ _ | FNl _ _ | FBad => True | _ => False end.
Definition is_dec (fs : list frag) (j : nat) : Prop := exists n c m s e, nth_error fs j = Some (FDec n c m s e).

(* only comments, line breaks and bad spans in [a, b) *)
Definition soft_range (fs : list frag) (a b : nat) : Prop :=
  forall k, a <= k < b -> exists fr, nth_error fs k = Some fr /\ soft fr.

Definition adjacent (fs : list frag) (c j : nat) : Prop :=
  is_dec fs j /\ ((j < c /\ soft_range fs (S j) c) \/ (c < j /\ soft_range fs (S c) j)).

Lemma soft_same_kind a b : same_kind a b -> soft a -> soft b.
Proof. destruct a, b; cbn; tauto. Qed.

Lemma soft_same_kind_rev a b : same_kind a b -> soft b -> soft a.
Proof. destruct a, b; cbn; tauto. Qed.

Lemma is_dec_extends fs fs' j : extends fs fs' -> is_dec fs j -> is_dec fs' j.
Proof.
  intros [_ H] [n [c [m [s [e E]]]]]. destruct (H j _ E) as [fr' [A [B _]]].
  destruct fr'; cbn in B; try contradiction. destruct B as [-> [-> [-> [-> ->]]]]. repeat eexists. exact A.
Qed.

Lemma soft_range_extends fs fs' a b : extends fs fs' -> soft_range fs a b -> soft_range fs' a b.
Proof.
  intros [_ H] Hr k Hk. destruct (Hr k Hk) as [fr [A B]]. destruct (H k fr A) as [fr' [C [D _]]].
  exists fr'. split; [exact C|eapply soft_same_kind; eauto].
Qed.

Lemma adjacent_extends fs fs' c j : extends fs fs' -> adjacent fs c j -> adjacent fs' c j.
Proof.
  intros He [Hd [[A B]|[A B]]]; (split; [eapply is_dec_extends; eauto|]); [left|right];
    (split; [exact A|eapply soft_range_extends; eauto]).
Qed.

Lemma soft_range_sub fs a b a' b' : a <= a' -> b' <= b -> soft_range fs a b -> soft_range fs a' b'.
Proof. intros H1 H2 Hr k Hk. apply Hr. lia. Qed.

(* ---- strong specifications of the searches --------------------------------------------------- *)
Lemma scan_cont_soft sn se fr sw : scan_step sn se (Some fr) = RCont sw -> soft fr.
Proof.
  destruct fr as [| | |d i a|e a]; cbn; try discriminate; try (intros; exact I).
Qed.

Lemma find_dec_fwd_local sn se fs : forall fuel i acc sw j,
  find_dec_fwd sn se fs i fuel acc = Some (sw, j) ->
  i <= j /\ is_dec fs j /\ soft_range fs i j /\ (forall x, In x sw -> In x acc \/ i <= x < j).
Proof.
  induction fuel as [|f IH]; intros i acc sw j H; cbn [find_dec_fwd] in H; [discriminate|].
  destruct (nth_error fs i) as [fr|] eqn:E; [|cbn in H; discriminate].
  destruct (scan_step sn se (Some fr)) as [| |sweep] eqn:Es.
  - inversion H; subst. split; [lia|]. split.
    + destruct fr as [n c m s e| | |? ? ?|? ?]; cbn in Es; try discriminate.
      * repeat eexists. exact E.
      * destruct sn; [discriminate|]. destruct (se && _); discriminate.
    + split; [intros k Hk; lia|intros x Hx; left; exact Hx].
  - discriminate.
  - destruct (IH _ _ _ _ H) as [A [B [C D]]]. split; [lia|]. split; [exact B|]. split.
    + intros k Hk. destruct (Nat.eq_dec k i) as [->|Hne].
      * exists fr. split; [exact E|eapply scan_cont_soft; exact Es].
      * apply C. lia.
    + intros x Hx. destruct (D x Hx) as [Hin|Hr]; [|right; lia].
      destruct sweep; [|left; exact Hin].
      apply in_app_or in Hin. destruct Hin as [Hin|[<-|[]]]; [left; exact Hin|right; lia].
Qed.

Lemma find_dec_bwd_local sn se fs : forall i acc sw j,
  find_dec_bwd sn se fs i acc = Some (sw, j) ->
  j <= i /\ is_dec fs j /\ soft_range fs (S j) (S i) /\ (forall x, In x sw -> In x acc \/ j < x <= i).
Proof.
  induction i as [|i IH]; intros acc sw j H; cbn [find_dec_bwd] in H.
  - destruct (nth_error fs 0) as [fr|] eqn:E; [|cbn in H; discriminate].
    destruct (scan_step sn se (Some fr)) as [| |sweep] eqn:Es; try discriminate.
    inversion H; subst. split; [lia|]. split.
    + destruct fr as [n c m s e| | |? ? ?|? ?]; cbn in Es; try discriminate.
      * repeat eexists. exact E.
      * destruct sn; [discriminate|]. destruct (se && _); discriminate.
    + split; [intros k Hk; lia|intros x Hx; left; exact Hx].
  - destruct (nth_error fs (S i)) as [fr|] eqn:E; [|cbn in H; discriminate].
    destruct (scan_step sn se (Some fr)) as [| |sweep] eqn:Es.
    + inversion H; subst. split; [lia|]. split.
      * destruct fr as [n c m s e| | |? ? ?|? ?]; cbn in Es; try discriminate.
        -- repeat eexists. exact E.
        -- destruct sn; [discriminate|]. destruct (se && _); discriminate.
      * split; [intros k Hk; lia|intros x Hx; left; exact Hx].
    + discriminate.
    + destruct (IH _ _ _ H) as [A [B [C D]]]. split; [lia|]. split; [exact B|]. split.
      * intros k Hk. destruct (Nat.eq_dec k (S i)) as [->|Hne].
        -- exists fr. split; [exact E|eapply scan_cont_soft; exact Es].
        -- apply C. lia.
      * intros x Hx. destruct (D x Hx) as [Hin|Hr]; [|right; lia].
        destruct sweep; [|left; exact Hin].
        destruct Hin as [<-|Hin]; [right; lia|left; exact Hin].
Qed.

(* findIndentedComments: both groups lie in a soft range that ends at the decoration found *)
Lemma find_indented_local fs : forall fuel i ind0 ind1 stage past f0 f1 g0 g1 next,
  find_indented fs i fuel ind0 ind1 stage past f0 f1 = (g0, g1, next) ->
  exists e, i <= e /\ soft_range fs i e /\
    (forall x, In x g0 -> In x f0 \/ i <= x < e) /\ (forall x, In x g1 -> In x f1 \/ i <= x < e) /\
    (forall j, next = Some j -> j = e /\ is_dec fs j).
Proof.
  induction fuel as [|f IH]; intros i ind0 ind1 stage past f0 f1 g0 g1 next H; cbn [find_indented] in H.
  - inversion H; subst. exists i. split; [lia|]. split; [intros k Hk; lia|].
    split; [auto|]. split; [auto|intros; discriminate].
  - destruct (nth_error fs i) as [fr|] eqn:E.
    2:{ inversion H; subst. exists i. split; [lia|]. split; [intros k Hk; lia|]. split; [auto|]. split; [auto|intros; discriminate]. }
    assert (Hstop : forall h0 h1 nx, (h0, h1, nx) = (g0, g1, next) -> h0 = f0 -> h1 = f1 ->
                      (forall j, nx = Some j -> j = i /\ is_dec fs j) ->
                      exists e, i <= e /\ soft_range fs i e /\
                        (forall x, In x g0 -> In x f0 \/ i <= x < e) /\ (forall x, In x g1 -> In x f1 \/ i <= x < e) /\
                        (forall j, next = Some j -> j = e /\ is_dec fs j)).
    { intros h0 h1 nx Heq -> -> Hn. inversion Heq; subst. exists i. split; [lia|]. split; [intros k Hk; lia|].
      split; [auto|]. split; [auto|exact Hn]. }
    assert (Hcont : forall st ps h0 h1,
                      find_indented fs (S i) f ind0 ind1 st ps h0 h1 = (g0, g1, next) -> soft fr ->
                      (forall x, In x h0 -> In x f0 \/ x = i) -> (forall x, In x h1 -> In x f1 \/ x = i) ->
                      exists e, i <= e /\ soft_range fs i e /\
                        (forall x, In x g0 -> In x f0 \/ i <= x < e) /\ (forall x, In x g1 -> In x f1 \/ i <= x < e) /\
                        (forall j, next = Some j -> j = e /\ is_dec fs j)).
    { intros st ps h0 h1 Hrec Hsoft H0 H1. destruct (IH _ _ _ _ _ _ _ _ _ _ Hrec) as [e [A [B [C [D F]]]]].
      exists e. split; [lia|]. split.
      - intros k Hk. destruct (Nat.eq_dec k i) as [->|Hne]; [exists fr; split; [exact E|exact Hsoft]|apply B; lia].
      - split; [|split; [|exact F]].
        + intros x Hx. destruct (C x Hx) as [Hin|Hr]; [|right; lia]. destruct (H0 x Hin) as [Hq|Hq]; [left; exact Hq|right; lia].
        + intros x Hx. destruct (D x Hx) as [Hin|Hr]; [|right; lia]. destruct (H1 x Hin) as [Hq|Hq]; [left; exact Hq|right; lia]. }
    assert (Happ : forall (l : list nat) x, In x (l ++ [i]) -> In x l \/ x = i).
    { intros l x Hx. apply in_app_or in Hx. destruct Hx as [Hq|[Hq|[]]]; [left; exact Hq|right; symmetry; exact Hq]. }
    destruct fr as [n c m s e| | |d indc a|em a].
    + apply (Hstop _ _ _ H eq_refl eq_refl). intros j Hj. inversion Hj; subst. split; [reflexivity|repeat eexists; exact E].
    + apply (Hstop _ _ _ H eq_refl eq_refl). intros; discriminate.
    + apply (Hcont _ _ _ _ H I); auto.
    + destruct (negb past).
      * destruct stage; apply (Hcont _ _ _ _ H I); auto.
      * destruct (negb stage).
        -- destruct (Z.eqb indc ind0); [apply (Hcont _ _ _ _ H I); auto|].
           destruct (Z.eqb indc ind1); [apply (Hcont _ _ _ _ H I); auto|].
           apply (Hstop _ _ _ H eq_refl eq_refl). intros; discriminate.
        -- destruct (Z.eqb indc ind1); [apply (Hcont _ _ _ _ H I); auto|].
           apply (Hstop _ _ _ H eq_refl eq_refl). intros; discriminate.
    + destruct stage; apply (Hcont _ _ _ _ H I); auto.
Qed.

(* ---- the invariant ---------------------------------------------------------------------------- *)
Definition local (s : lstate) : Prop :=
  forall c d ind j, nth_error (l_frags s) c = Some (FCom d ind (Some j)) -> adjacent (l_frags s) c j.

Lemma attach_one_local j s i :
  local s -> (forall d ind a, nth_error (l_frags s) i = Some (FCom d ind a) -> adjacent (l_frags s) i j) ->
  local (attach_one j s i).
Proof.
  intros Hl Hadj c d ind j0 Hc.
  pose proof (attach_one_extends j s i) as Hext.
  unfold attach_one in Hc |- *. destruct (dec_key (l_frags s) j) as [key|] eqn:Ek; [|apply Hl in Hc; exact Hc].
  destruct (nth_error (l_frags s) i) as [fr|] eqn:Ei; [|apply Hl in Hc; exact Hc].
  unfold attach_one in Hext. rewrite Ek, Ei in Hext.
  destruct fr as [| | |d0 ind0 a0|e0 a0]; try (apply Hl in Hc; exact Hc); cbn [l_frags] in *.
  - destruct (Nat.eq_dec c i) as [->|Hne].
    + rewrite nth_set_nth_same in Hc by (apply nth_error_Some; congruence). inversion Hc; subst.
      eapply adjacent_extends; [exact Hext|]. eapply Hadj. reflexivity.
    + rewrite nth_set_nth_other in Hc by (intros E; apply Hne; symmetry; exact E).
      eapply adjacent_extends; [exact Hext|]. apply (Hl _ _ _ _ Hc).
  - destruct (Nat.eq_dec c i) as [->|Hne].
    + rewrite nth_set_nth_same in Hc by (apply nth_error_Some; congruence). discriminate.
    + rewrite nth_set_nth_other in Hc by (intros E; apply Hne; symmetry; exact E).
      eapply adjacent_extends; [exact Hext|]. apply (Hl _ _ _ _ Hc).
Qed.

Lemma attach_local sw : forall s j,
  local s -> (forall x, In x sw -> forall d ind a, nth_error (l_frags s) x = Some (FCom d ind a) -> adjacent (l_frags s) x j) ->
  local (attach s sw j).
Proof.
  induction sw as [|x r IH]; intros s j Hl Hadj; [exact Hl|].
  rewrite attach_cons. apply IH.
  - apply attach_one_local; [exact Hl|]. intros d ind a Hx. apply (Hadj x (or_introl eq_refl) d ind a Hx).
  - intros y Hy d ind a Hn.
    pose proof (attach_one_extends j s x) as Hext.
    (* the fragment at y was a comment before this step too *)
    destruct Hext as [L He].
    destruct (nth_error (l_frags s) y) as [fr|] eqn:Ey.
    + destruct (He y fr Ey) as [fr' [A [B _]]]. rewrite A in Hn. inversion Hn; subst fr'.
      destruct fr as [| | |d1 i1 a1|]; cbn in B; try contradiction. destruct B as [-> ->].
      eapply adjacent_extends; [split; [exact L|exact He]|]. apply (Hadj y (or_intror Hy) d ind a1 Ey).
    + assert (nth_error (l_frags (attach_one j s x)) y = None) by (apply nth_error_None; rewrite L; apply nth_error_None; exact Ey).
      congruence.
Qed.

Lemma adjacent_of_bwd fs j i x : is_dec fs j -> soft_range fs (S j) (S i) -> j < x <= i -> adjacent fs x j.
Proof. intros Hd Hr Hx. split; [exact Hd|]. left. split; [lia|]. eapply soft_range_sub; [| |exact Hr]; lia. Qed.

Lemma adjacent_of_fwd fs j i x : is_dec fs j -> soft_range fs i j -> i <= x < j -> adjacent fs x j.
Proof. intros Hd Hr Hx. split; [exact Hd|]. right. split; [lia|]. eapply soft_range_sub; [| |exact Hr]; lia. Qed.

Lemma pass1_step_local s i : local s -> local (pass1_step s i).
Proof.
  intros Hl. unfold pass1_step. destruct (l_panic s); [exact Hl|].
  destruct (nth_error (l_frags s) i) as [fr|] eqn:E; [|exact Hl].
  destruct fr as [nid cls name st en| | |d ind [a|]|e a]; try exact Hl.
  - (* the hanging-indent case at an End decoration *)
    destruct (negb (String.eqb name "End")); [exact Hl|].
    destruct (negb (nc_stmt cls || nc_decl cls)); [exact Hl|].
    destruct (nc_labeled cls); [exact Hl|].
    destruct (negb _); [exact Hl|].
    destruct (find_indented _ _ _ _ _ _ _ _ _) as [[f0 f1] next] eqn:Ef.
    destruct (find_indented_local _ _ _ _ _ _ _ _ _ _ _ _ Ef) as [e [He [Hr [H0 [H1 Hn]]]]].
    assert (Hdi : is_dec (l_frags s) i) by (repeat eexists; exact E).
    assert (Hadj0 : forall x, In x f0 -> adjacent (l_frags s) x i).
    { intros x Hx. destruct (H0 x Hx) as [[]|Hx']. split; [exact Hdi|]. left. split; [lia|].
      eapply soft_range_sub; [| |exact Hr]; lia. }
    set (s1 := match rev f0 with [] => s | l :: _ => if is_nl_frag (l_frags s) l then attach s (removelast f0) i else attach s f0 i end).
    assert (Hl1 : local s1).
    { subst s1. destruct (rev f0) as [|l r] eqn:Er; [exact Hl|]. destruct (is_nl_frag _ _).
      - apply attach_local; [exact Hl|]. intros x Hx d0 i0 a0 _. apply Hadj0.
        clear -Hx. induction f0 as [|y f0 IH]; [destruct Hx|]. destruct f0 as [|z f0]; [destruct Hx|].
        cbn [removelast] in Hx. destruct Hx as [<-|Hx]; [left; reflexivity|right; apply IH; exact Hx].
      - apply attach_local; [exact Hl|]. intros x Hx d0 i0 a0 _. apply Hadj0. exact Hx. }
    assert (He1 : extends (l_frags s) (l_frags s1)).
    { subst s1. destruct (rev f0); [apply extends_refl|]. destruct (is_nl_frag _ _); apply attach_extends. }
    destruct f1 as [|x f1]; [exact Hl1|]. destruct next as [j|]; [|exact Hl1].
    destruct (nth_error (l_frags s) j) as [[? cls' ? st' ?| | | |]|]; try exact Hl1.
    destruct ((nc_stmt cls' || nc_decl cls') && Z.eqb st' st); [|exact Hl1].
    destruct (Hn j eq_refl) as [-> Hdj].
    apply attach_local; [exact Hl1|]. intros y Hy d0 i0 a0 _.
    eapply adjacent_extends; [exact He1|].
    destruct (H1 y Hy) as [[]|Hy']. apply (adjacent_of_fwd _ _ (S i)); [exact Hdj|exact Hr|lia].
  - (* an unattached comment: whichever search succeeds, the swept fragments are adjacent to its result *)
    assert (Hb : forall sn se sw j, find_decoration sn se (l_frags s) i false = Some (sw, j) -> local (attach s sw j)).
    { intros sn se sw j F. unfold find_decoration in F. destruct (find_dec_bwd_local _ _ _ _ _ _ _ F) as [A [B [C D]]].
      apply attach_local; [exact Hl|]. intros x Hx d0 i0 a0 _. destruct (D x Hx) as [[]|Hx'].
      apply (adjacent_of_bwd _ _ i); assumption. }
    assert (Hf : forall sn se sw j, find_decoration sn se (l_frags s) i true = Some (sw, j) -> local (attach s sw j)).
    { intros sn se sw j F. unfold find_decoration in F. destruct (find_dec_fwd_local _ _ _ _ _ _ _ _ F) as [A [B [C D]]].
      apply attach_local; [exact Hl|]. intros x Hx d0 i0 a0 _. destruct (D x Hx) as [[]|Hx'].
      apply (adjacent_of_fwd _ _ i); assumption. }
    destruct (find_decoration true true (l_frags s) i false) as [[sw j]|] eqn:F1; [eapply Hb; exact F1|].
    destruct (find_decoration false true (l_frags s) i true) as [[sw j]|] eqn:F2; [eapply Hf; exact F2|].
    destruct (find_decoration false true (l_frags s) i false) as [[sw j]|] eqn:F3; [eapply Hb; exact F3|].
    destruct (find_decoration false false (l_frags s) i true) as [[sw j]|] eqn:F4; [eapply Hf; exact F4|].
    destruct (find_decoration false false (l_frags s) i false) as [[sw j]|] eqn:F5; [eapply Hb; exact F5|].
    exact Hl.
Qed.

Lemma fold_local (step : lstate -> nat -> lstate) (Hs : forall s i, local s -> local (step s i)) idxs :
  forall s, local s -> local (fold_left step idxs s).
Proof. induction idxs as [|i r IH]; intros s H; cbn; [exact H|]. apply IH. apply Hs. exact H. Qed.

Lemma pass2_step_local s i : local s -> local (pass2_step s i).
Proof. intros H c d ind j Hc. rewrite pass2_step_frags in *. apply (H c d ind j Hc). Qed.

(* For every fragment list in which no comment is attached yet: after link, every attached
   comment sits next to its decoration point -- nothing but comments, line breaks and bad spans
   lies between them.  No comment crosses a token or another decoration point. *)
Theorem link_attaches_locally fs :
  (forall c d ind a, nth_error fs c = Some (FCom d ind a) -> a = None) ->
  forall c d ind j, nth_error (l_frags (link fs)) c = Some (FCom d ind (Some j)) -> adjacent (l_frags (link fs)) c j.
Proof.
  intros Hinit. unfold link, pass2, pass1.
  apply (fold_local pass2_step pass2_step_local). apply (fold_local pass1_step pass1_step_local).
  intros c d ind j Hc. cbn [l_frags] in Hc. specialize (Hinit _ _ _ _ Hc). discriminate.
Qed.
