(* Monotonicity of link(): comments are attached to decoration fragments in order -- for two
   comments c1 < c2 attached to j1 and j2, j1 <= j2.  Together with locality (LinkLocal.v) this is
   the run lemma of DESIGN section 2: within a run of comments between two decoration points a
   prefix goes to the left point and the rest to the right point. *)
From Coq Require Import List String ZArith NArith Bool Lia.
Import ListNotations.
From DV Require Import Model.Tree Model.Link Proofs.LinkProofs Proofs.LinkLocal.
Local Open Scope list_scope.

Definition com_at (fs : list frag) (x : nat) (a : option nat) : Prop := exists d ind, nth_error fs x = Some (FCom d ind a).
Definition is_com (fs : list frag) (x : nat) : Prop := exists a, com_at fs x a.

Lemma com_at_fun fs x a b : com_at fs x a -> com_at fs x b -> a = b.
Proof. intros [d [i H]] [d' [i' H']]. rewrite H in H'. inversion H'. reflexivity. Qed.

Lemma com_not_soft_dec fs x a : com_at fs x a -> ~ is_dec fs x.
Proof. intros [d [i H]] [n [c [m [s [e H']]]]]. rewrite H in H'. discriminate. Qed.

(* ---- what attach does to the fragment list ---------------------------------------------------- *)
Definition retarget (j : nat) (fr : frag) : frag :=
  match fr with
  | FCom d ind _ => FCom d ind (Some j)
  | FNl e _ => FNl e (Some j)
  | fr => fr
  end.

Lemma attach_one_frags j s i key :
  dec_key (l_frags s) j = Some key ->
  forall x, nth_error (l_frags (attach_one j s i)) x =
            if Nat.eqb x i then option_map (retarget j) (nth_error (l_frags s) x) else nth_error (l_frags s) x.
Proof.
  intros Hk x. unfold attach_one. rewrite Hk.
  destruct (Nat.eqb_spec x i) as [->|Hne].
  - destruct (nth_error (l_frags s) i) as [fr|] eqn:E; [|rewrite E; reflexivity].
    destruct fr; cbn [l_frags option_map retarget]; rewrite ?E; try reflexivity;
      rewrite nth_set_nth_same by (apply nth_error_Some; congruence); reflexivity.
  - destruct (nth_error (l_frags s) i) as [[| | |? ? ?|? ?]|]; cbn [l_frags]; try reflexivity;
      apply nth_set_nth_other; intros E; apply Hne; symmetry; exact E.
Qed.

Lemma retarget_idem j fr : retarget j (retarget j fr) = retarget j fr.
Proof. destruct fr; reflexivity. Qed.

Lemma attach_frags sw : forall s j key,
  dec_key (l_frags s) j = Some key ->
  forall x, nth_error (l_frags (attach s sw j)) x =
            if existsb (Nat.eqb x) sw then option_map (retarget j) (nth_error (l_frags s) x) else nth_error (l_frags s) x.
Proof.
  induction sw as [|i r IH]; intros s j key Hk x; [reflexivity|].
  rewrite attach_cons.
  pose proof (dec_key_extends _ _ j key (attach_one_extends j s i) Hk) as Hk'.
  rewrite (IH _ _ _ Hk' x), (attach_one_frags j s i key Hk x). cbn [existsb].
  destruct (Nat.eqb x i); cbn [orb].
  - destruct (existsb (Nat.eqb x) r); [|reflexivity].
    destruct (nth_error (l_frags s) x); cbn; [rewrite retarget_idem|]; reflexivity.
  - reflexivity.
Qed.

Lemma existsb_eqb_In x l : existsb (Nat.eqb x) l = true <-> In x l.
Proof.
  rewrite existsb_exists. split.
  - intros [y [Hy He]]. apply Nat.eqb_eq in He. subst. exact Hy.
  - intros H. exists x. split; [exact H|apply Nat.eqb_refl].
Qed.

Lemma is_dec_key fs j : is_dec fs j -> exists key, dec_key fs j = Some key.
Proof. intros [n [c [m [s [e H]]]]]. unfold dec_key. rewrite H. eauto. Qed.

(* comments after attach *)
Lemma attach_com sw s j x a' :
  is_dec (l_frags s) j ->
  (com_at (l_frags (attach s sw j)) x a' <->
   exists a, com_at (l_frags s) x a /\ a' = (if existsb (Nat.eqb x) sw then Some j else a)).
Proof.
  intros Hd. destruct (is_dec_key _ _ Hd) as [key Hk]. unfold com_at. rewrite (attach_frags sw s j key Hk x).
  destruct (existsb (Nat.eqb x) sw).
  - destruct (nth_error (l_frags s) x) as [fr|]; cbn [option_map].
    + destruct fr as [| | |d ind a|e a]; cbn [retarget]; split.
      all: try (intros [d0 [i0 H]]; discriminate).
      all: try (intros [a0 [[d0 [i0 H]] _]]; discriminate).
      * intros [d0 [i0 H]]. inversion H; subst. exists a. split; [eauto|reflexivity].
      * intros [a0 [[d0 [i0 H]] ->]]. inversion H; subst. eauto.
    + split; [intros [d0 [i0 H]]; discriminate|intros [a0 [[d0 [i0 H]] _]]; discriminate].
  - split.
    + intros [d0 [i0 H]]. exists a'. split; [eauto|reflexivity].
    + intros [a0 [[d0 [i0 H]] ->]]. eauto.
Qed.

Lemma attach_is_com sw s j x : is_dec (l_frags s) j -> (is_com (l_frags (attach s sw j)) x <-> is_com (l_frags s) x).
Proof.
  intros Hd. unfold is_com. split.
  - intros [a' H]. apply (attach_com sw s j x a' Hd) in H. destruct H as [a [H _]]. eauto.
  - intros [a H]. eexists. apply (attach_com sw s j x _ Hd). exists a. split; [exact H|reflexivity].
Qed.

(* ---- the sweeps: only unattached comments, all of them ------------------------------------------ *)
Lemma find_dec_fwd_unatt sn se fs : forall fuel i acc sw j,
  find_dec_fwd sn se fs i fuel acc = Some (sw, j) ->
  forall x a, In x sw -> com_at fs x a -> In x acc \/ a = None.
Proof.
  induction fuel as [|f IH]; intros i acc sw j H x a Hx Hc; cbn [find_dec_fwd] in H; [discriminate|].
  destruct (nth_error fs i) as [fr|] eqn:E; [|cbn in H; discriminate].
  destruct (scan_step sn se (Some fr)) as [| |sweep] eqn:Es.
  - inversion H; subst. left. exact Hx.
  - discriminate.
  - destruct (IH _ _ _ _ H x a Hx Hc) as [Hin|Hn]; [|right; exact Hn].
    destruct sweep; [|left; exact Hin].
    apply in_app_or in Hin. destruct Hin as [Hin|[<-|[]]]; [left; exact Hin|].
    right. destruct Hc as [d [ind Hc]]. rewrite E in Hc. inversion Hc; subst fr. cbn in Es.
    destruct a as [a|]; [inversion Es|reflexivity].
Qed.

Lemma find_dec_bwd_unatt sn se fs : forall i acc sw j,
  find_dec_bwd sn se fs i acc = Some (sw, j) ->
  forall x a, In x sw -> com_at fs x a -> In x acc \/ a = None.
Proof.
  induction i as [|i IH]; intros acc sw j H x a Hx Hc; cbn [find_dec_bwd] in H.
  - destruct (nth_error fs 0) as [fr|] eqn:E; [|cbn in H; discriminate].
    destruct (scan_step sn se (Some fr)) as [| |sweep] eqn:Es; try discriminate.
    inversion H; subst. left. exact Hx.
  - destruct (nth_error fs (S i)) as [fr|] eqn:E; [|cbn in H; discriminate].
    destruct (scan_step sn se (Some fr)) as [| |sweep] eqn:Es.
    + inversion H; subst. left. exact Hx.
    + discriminate.
    + destruct (IH _ _ _ H x a Hx Hc) as [Hin|Hn]; [|right; exact Hn].
      destruct sweep; [|left; exact Hin].
      destruct Hin as [<-|Hin]; [|left; exact Hin].
      right. destruct Hc as [d [ind Hc]]. rewrite E in Hc. inversion Hc; subst fr. cbn in Es.
      destruct a as [a|]; [inversion Es|reflexivity].
Qed.

Lemma find_dec_fwd_complete sn se fs : forall fuel i acc sw j,
  find_dec_fwd sn se fs i fuel acc = Some (sw, j) ->
  forall x, i <= x < j -> com_at fs x None -> In x sw.
Proof.
  induction fuel as [|f IH]; intros i acc sw j H x Hx Hc; cbn [find_dec_fwd] in H; [discriminate|].
  destruct (nth_error fs i) as [fr|] eqn:E; [|cbn in H; discriminate].
  destruct (scan_step sn se (Some fr)) as [| |sweep] eqn:Es.
  - inversion H; subst. lia.
  - discriminate.
  - destruct (Nat.eq_dec x i) as [->|Hne].
    + destruct Hc as [d [ind Hc]]. rewrite E in Hc. inversion Hc; subst fr. cbn in Es. inversion Es; subst sweep.
      destruct (find_dec_fwd_spec _ _ _ _ _ _ _ _ H) as [_ [Hincl _]]. apply Hincl. apply in_or_app. right. left. reflexivity.
    + apply (IH _ _ _ _ H x); [lia|exact Hc].
Qed.

Lemma find_dec_bwd_complete sn se fs : forall i acc sw j,
  find_dec_bwd sn se fs i acc = Some (sw, j) ->
  forall x, j < x <= i -> com_at fs x None -> In x sw.
Proof.
  induction i as [|i IH]; intros acc sw j H x Hx Hc; cbn [find_dec_bwd] in H.
  - destruct (nth_error fs 0) as [fr|] eqn:E; [|cbn in H; discriminate].
    destruct (scan_step sn se (Some fr)) as [| |sweep] eqn:Es; try discriminate.
    inversion H; subst. lia.
  - destruct (nth_error fs (S i)) as [fr|] eqn:E; [|cbn in H; discriminate].
    destruct (scan_step sn se (Some fr)) as [| |sweep] eqn:Es.
    + inversion H; subst. lia.
    + discriminate.
    + destruct (Nat.eq_dec x (S i)) as [->|Hne].
      * destruct Hc as [d [ind Hc]]. rewrite E in Hc. inversion Hc; subst fr. cbn in Es. inversion Es; subst sweep.
        destruct (find_dec_bwd_spec _ _ _ _ _ _ _ H) as [_ [Hincl _]]. apply Hincl. left. reflexivity.
      * apply (IH _ _ _ H x); [lia|exact Hc].
Qed.

(* ---- findIndentedComments ----------------------------------------------------------------------- *)
Lemma fi_acc fs : forall fuel i i0 i1 st ps f0 f1,
  find_indented fs i fuel i0 i1 st ps f0 f1 =
  let '(a0, a1, n) := find_indented fs i fuel i0 i1 st ps [] [] in (f0 ++ a0, f1 ++ a1, n).
Proof.
  induction fuel as [|f IH]; intros i i0 i1 st ps f0 f1; cbn [find_indented]; [rewrite !app_nil_r; reflexivity|].
  destruct (nth_error fs i) as [fr|]; [|rewrite !app_nil_r; reflexivity].
  assert (R0 : forall st' ps', find_indented fs (S i) f i0 i1 st' ps' (f0 ++ [i]) f1 =
                 let '(a0, a1, n) := find_indented fs (S i) f i0 i1 st' ps' ([] ++ [i]) [] in (f0 ++ a0, f1 ++ a1, n)).
  { intros st' ps'. rewrite (IH (S i) i0 i1 st' ps' (f0 ++ [i]) f1), (IH (S i) i0 i1 st' ps' ([] ++ [i]) []).
    destruct (find_indented fs (S i) f i0 i1 st' ps' [] []) as [[a0 a1] n]. cbn [app]. rewrite <- app_assoc. reflexivity. }
  assert (R1 : forall st' ps', find_indented fs (S i) f i0 i1 st' ps' f0 (f1 ++ [i]) =
                 let '(a0, a1, n) := find_indented fs (S i) f i0 i1 st' ps' [] ([] ++ [i]) in (f0 ++ a0, f1 ++ a1, n)).
  { intros st' ps'. rewrite (IH (S i) i0 i1 st' ps' f0 (f1 ++ [i])), (IH (S i) i0 i1 st' ps' [] ([] ++ [i])).
    destruct (find_indented fs (S i) f i0 i1 st' ps' [] []) as [[a0 a1] n]. cbn [app]. rewrite <- app_assoc. reflexivity. }
  destruct fr as [| | |d ind a|e a]; try (rewrite !app_nil_r; reflexivity).
  - apply IH.
  - destruct (negb ps).
    + destruct st; [apply R1|apply R0].
    + destruct (negb st).
      * destruct (Z.eqb ind i0); [apply R0|]. destruct (Z.eqb ind i1); [apply R1|rewrite !app_nil_r; reflexivity].
      * destruct (Z.eqb ind i1); [apply R1|rewrite !app_nil_r; reflexivity].
  - destruct st; [apply R1|apply R0].
Qed.

Record fi_ok (fs : list frag) (i : nat) (st : bool) (a0 a1 : list nat) (next : option nat) (e : nat) : Prop := mkFiOk {
  fi_le : i <= e;
  fi_soft : soft_range fs i e;
  fi_range : forall x, In x a0 \/ In x a1 -> i <= x < e;
  fi_complete : forall x, i <= x < e -> is_com fs x -> In x a0 \/ In x a1;
  fi_order : forall x y, In x a0 -> In y a1 -> x < y;
  fi_stage : st = true -> a0 = [];
  fi_next : forall j, next = Some j -> j = e /\ is_dec fs j
}.

Lemma fi0_spec fs : forall fuel i i0 i1 st ps a0 a1 next,
  find_indented fs i fuel i0 i1 st ps [] [] = (a0, a1, next) -> exists e, fi_ok fs i st a0 a1 next e.
Proof.
  induction fuel as [|f IH]; intros i i0 i1 st ps a0 a1 next H; cbn [find_indented] in H.
  { inversion H; subst. exists i. constructor; try (intros; cbn in *; tauto); try lia; try (intros; discriminate).
    intros k Hk; lia. }
  assert (Hstop : forall nx, ([] : list nat, [] : list nat, nx) = (a0, a1, next) ->
                    (forall j, nx = Some j -> j = i /\ is_dec fs j) -> exists e, fi_ok fs i st a0 a1 next e).
  { intros nx Heq Hn. inversion Heq; subst. exists i. constructor; try (intros; cbn in *; tauto); try lia; try exact Hn.
    intros k Hk; lia. }
  destruct (nth_error fs i) as [fr|] eqn:E; [|apply (Hstop None H); intros; discriminate].
  (* the three ways of continuing *)
  assert (Hskip : forall st' ps', (st = true -> st' = true) -> soft fr -> ~ is_com fs i ->
                    find_indented fs (S i) f i0 i1 st' ps' [] [] = (a0, a1, next) -> exists e, fi_ok fs i st a0 a1 next e).
  { intros st' ps' Hst Hsoft Hnc Hrec. destruct (IH _ _ _ _ _ _ _ _ Hrec) as [e [A B C D F G K]].
    exists e. constructor; try assumption; try lia.
    - intros k Hk. destruct (Nat.eq_dec k i) as [->|Hne]; [exists fr; split; [exact E|exact Hsoft]|apply B; lia].
    - intros x Hx. specialize (C x Hx). lia.
    - intros x Hx Hc. destruct (Nat.eq_dec x i) as [->|Hne]; [contradiction|apply D; [lia|exact Hc]].
    - intros Hs. apply G. apply Hst. exact Hs. }
  assert (Hg0 : forall st' ps', st = false -> soft fr ->
                    find_indented fs (S i) f i0 i1 st' ps' ([] ++ [i]) [] = (a0, a1, next) -> exists e, fi_ok fs i st a0 a1 next e).
  { intros st' ps' Hst Hsoft Hrec. rewrite fi_acc in Hrec.
    destruct (find_indented fs (S i) f i0 i1 st' ps' [] []) as [[b0 b1] n] eqn:Er. inversion Hrec; subst a0 a1 next. clear Hrec.
    destruct (IH _ _ _ _ _ _ _ _ Er) as [e [A B C D F G K]].
    exists e. constructor; try assumption; try lia.
    - intros k Hk. destruct (Nat.eq_dec k i) as [->|Hne]; [exists fr; split; [exact E|exact Hsoft]|apply B; lia].
    - cbn [app]. intros x [[<-|Hx]|Hx]; [lia| |]; [specialize (C x (or_introl Hx))|specialize (C x (or_intror Hx))]; lia.
    - cbn [app]. intros x Hx Hc. destruct (Nat.eq_dec x i) as [->|Hne]; [left; left; reflexivity|].
      destruct (D x ltac:(lia) Hc) as [Hd|Hd]; [left; right; exact Hd|right; exact Hd].
    - cbn [app]. intros x y [<-|Hx] Hy; [specialize (C y (or_intror Hy)); lia|apply F; assumption].
    - intros Hs. congruence. }
  assert (Hg1 : forall st' ps', (st' = true) -> soft fr ->
                    find_indented fs (S i) f i0 i1 st' ps' [] ([] ++ [i]) = (a0, a1, next) -> exists e, fi_ok fs i st a0 a1 next e).
  { intros st' ps' Hst Hsoft Hrec. rewrite fi_acc in Hrec.
    destruct (find_indented fs (S i) f i0 i1 st' ps' [] []) as [[b0 b1] n] eqn:Er. inversion Hrec; subst a0 a1 next. clear Hrec.
    destruct (IH _ _ _ _ _ _ _ _ Er) as [e [A B C D F G K]].
    pose proof (G Hst) as Hb0. subst b0.
    exists e. constructor; try assumption; try lia.
    - intros k Hk. destruct (Nat.eq_dec k i) as [->|Hne]; [exists fr; split; [exact E|exact Hsoft]|apply B; lia].
    - cbn [app]. intros x [[]|[<-|Hx]]; [lia|specialize (C x (or_intror Hx)); lia].
    - cbn [app]. intros x Hx Hc. destruct (Nat.eq_dec x i) as [->|Hne]; [right; left; reflexivity|].
      destruct (D x ltac:(lia) Hc) as [[]|Hd]. right. right. exact Hd.
    - cbn [app]. intros x y [].
    - intros _. reflexivity. }
  destruct fr as [n c m s e| | |d ind a|em a].
  - apply (Hstop (Some i) H). intros j Hj. inversion Hj; subst. split; [reflexivity|repeat eexists; exact E].
  - apply (Hstop None H). intros; discriminate.
  - apply (Hskip st ps (fun h => h) I); [|exact H]. intros [a [d [ind Hc]]]. rewrite E in Hc. discriminate.
  - destruct (negb ps).
    + destruct st eqn:Est; [apply (Hg1 true ps eq_refl I H)|apply (Hg0 false ps eq_refl I H)].
    + destruct st eqn:Est; cbn [negb] in H.
      * destruct (Z.eqb ind i1); [apply (Hg1 true ps eq_refl I H)|apply (Hstop None H); intros; discriminate].
      * destruct (Z.eqb ind i0); [apply (Hg0 false ps eq_refl I H)|].
        destruct (Z.eqb ind i1); [apply (Hg1 true ps eq_refl I H)|apply (Hstop None H); intros; discriminate].
  - destruct st eqn:Est.
    + (* a line break in stage 1 goes to group 1 *)
      assert (Hg1' : exists e, fi_ok fs i true a0 a1 next e).
      { rewrite fi_acc in H.
        destruct (find_indented fs (S i) f i0 i1 true true [] []) as [[b0 b1] n] eqn:Er. inversion H; subst a0 a1 next. clear H.
        destruct (IH _ _ _ _ _ _ _ _ Er) as [e [A B C D F G K]].
        pose proof (G eq_refl) as Hb0. subst b0.
        exists e. constructor; try assumption; try lia.
        - intros k Hk. destruct (Nat.eq_dec k i) as [->|Hne]; [exists (FNl em a); split; [exact E|exact I]|apply B; lia].
        - cbn [app]. intros x [[]|[<-|Hx]]; [lia|specialize (C x (or_intror Hx)); lia].
        - cbn [app]. intros x Hx Hc. destruct (Nat.eq_dec x i) as [->|Hne].
          + exfalso. destruct Hc as [a' [d [ind Hc]]]. rewrite E in Hc. discriminate.
          + destruct (D x ltac:(lia) Hc) as [[]|Hd]. right. right. exact Hd.
        - cbn [app]. intros x y []. }
      exact Hg1'.
    + rewrite fi_acc in H.
      destruct (find_indented fs (S i) f i0 i1 false true [] []) as [[b0 b1] n] eqn:Er. inversion H; subst a0 a1 next. clear H.
      destruct (IH _ _ _ _ _ _ _ _ Er) as [e [A B C D F G K]].
      exists e. constructor; try assumption; try lia.
      * intros k Hk. destruct (Nat.eq_dec k i) as [->|Hne]; [exists (FNl em a); split; [exact E|exact I]|apply B; lia].
      * cbn [app]. intros x [[<-|Hx]|Hx]; [lia| |]; [specialize (C x (or_introl Hx))|specialize (C x (or_intror Hx))]; lia.
      * cbn [app]. intros x Hx Hc. destruct (Nat.eq_dec x i) as [->|Hne].
        -- exfalso. destruct Hc as [a' [d [ind Hc]]]. rewrite E in Hc. discriminate.
        -- destruct (D x ltac:(lia) Hc) as [Hd|Hd]; [left; right; exact Hd|right; exact Hd].
      * cbn [app]. intros x y [<-|Hx] Hy; [specialize (C y (or_intror Hy)); lia|apply F; assumption].
Qed.

(* ---- the order invariants ------------------------------------------------------------------------ *)
Definition att (s : lstate) (x j : nat) : Prop := com_at (l_frags s) x (Some j).

(* once a comment goes to the point on its right, every later comment before that point does *)
Definition inv_S (s : lstate) : Prop :=
  forall c1 j1 c2, att s c1 j1 -> c1 < j1 -> c1 < c2 < j1 -> is_com (l_frags s) c2 -> att s c2 j1.

(* if a comment goes to the point on its left, every earlier comment after that point does *)
Definition inv_L (s : lstate) : Prop :=
  forall c2 j2 c1, att s c2 j2 -> j2 < c2 -> j2 < c1 < c2 -> is_com (l_frags s) c1 -> att s c1 j2.

Lemma soft_range_extends_rev fs fs' a b : extends fs fs' -> soft_range fs' a b -> soft_range fs a b.
Proof.
  intros [L H] Hr k Hk. destruct (Hr k Hk) as [fr' [A B]].
  destruct (nth_error fs k) as [fr|] eqn:E.
  - destruct (H k fr E) as [fr2 [C [D _]]]. rewrite A in C. inversion C; subst fr2.
    exists fr. split; [reflexivity|eapply soft_same_kind_rev; eauto].
  - assert (nth_error fs' k = None) by (apply nth_error_None; rewrite L; apply nth_error_None; exact E). congruence.
Qed.

Lemma is_dec_extends_rev fs fs' j : extends fs fs' -> is_dec fs' j -> is_dec fs j.
Proof.
  intros [L H] [n [c [m [s [e E']]]]]. destruct (nth_error fs j) as [fr|] eqn:E.
  - destruct (H j fr E) as [fr2 [C [D _]]]. rewrite E' in C. inversion C; subst fr2.
    destruct fr; cbn in D; try contradiction. unfold is_dec. repeat eexists. exact E.
  - assert (nth_error fs' j = None) by (apply nth_error_None; rewrite L; apply nth_error_None; exact E). congruence.
Qed.

Section AttachEvent.
  Variables (s : lstate) (sw : list nat) (j : nat).
  Hypothesis Hd : is_dec (l_frags s) j.
  Hypothesis Hloc : local s.
  Hypothesis HS : inv_S s.
  Hypothesis HL : inv_L s.
  (* the swept comments are unattached *)
  Hypothesis Hun : forall x a, In x sw -> com_at (l_frags s) x a -> a = None.

  Let s' := attach s sw j.

  Lemma ev_att x t : att s' x t <-> (In x sw /\ is_com (l_frags s) x /\ t = j) \/ (~ In x sw /\ att s x t).
  Proof.
    unfold att, s'. rewrite (attach_com sw s j x (Some t) Hd). split.
    - intros [a [Ha Heq]]. destruct (existsb (Nat.eqb x) sw) eqn:Ex.
      + left. apply existsb_eqb_In in Ex. inversion Heq; subst. split; [exact Ex|]. split; [exists a; exact Ha|reflexivity].
      + right. split; [intros Hin; apply existsb_eqb_In in Hin; congruence|]. subst a. exact Ha.
    - intros [[Hin [[a Ha] ->]]|[Hn Ha]].
      + exists a. split; [exact Ha|]. apply existsb_eqb_In in Hin. rewrite Hin. reflexivity.
      + exists (Some t). split; [exact Ha|]. destruct (existsb (Nat.eqb x) sw) eqn:Ex; [|reflexivity].
        apply existsb_eqb_In in Ex. contradiction.
  Qed.

  Lemma ev_attached_not_swept x t : att s x t -> ~ In x sw.
  Proof. intros Ha Hin. specialize (Hun x (Some t) Hin Ha). discriminate. Qed.

  Lemma ev_is_com x : is_com (l_frags s') x <-> is_com (l_frags s) x.
  Proof. unfold s'. apply attach_is_com. exact Hd. Qed.

  (* attaching to the point on the left *)
  Lemma attach_left_inv :
    (forall x, In x sw -> is_com (l_frags s) x -> j < x /\ soft_range (l_frags s) (S j) x) ->
    (forall x c1, In x sw -> is_com (l_frags s) x -> j < c1 < x -> is_com (l_frags s) c1 -> In c1 sw \/ att s c1 j) ->
    local s' /\ inv_S s' /\ inv_L s'.
  Proof.
    intros Hadj Hclosed. split; [|split].
    - apply attach_local; [exact Hloc|]. intros x Hx d ind a Hc.
      destruct (Hadj x Hx (ex_intro _ a (ex_intro _ d (ex_intro _ ind Hc)))) as [A B].
      split; [exact Hd|]. left. split; [exact A|exact B].
    - intros c1 j1 c2 Ha Hlt Hbt Hc. apply ev_att in Ha. apply ev_is_com in Hc. apply ev_att.
      destruct Ha as [[Hin [Hc1 ->]]|[Hn Ha]].
      + destruct (Hadj c1 Hin Hc1) as [A _]. lia.
      + pose proof (HS c1 j1 c2 Ha Hlt Hbt Hc) as Ha2. right. split; [eapply ev_attached_not_swept; exact Ha2|exact Ha2].
    - intros c2 j2 c1 Ha Hlt Hbt Hc. apply ev_att in Ha. apply ev_is_com in Hc. apply ev_att.
      destruct Ha as [[Hin [Hc2 ->]]|[Hn Ha]].
      + destruct (Hclosed c2 c1 Hin Hc2 Hbt Hc) as [Hin1|Ha1].
        * left. split; [exact Hin1|]. split; [exact Hc|reflexivity].
        * right. split; [eapply ev_attached_not_swept; exact Ha1|exact Ha1].
      + pose proof (HL c2 j2 c1 Ha Hlt Hbt Hc) as Ha1. right. split; [eapply ev_attached_not_swept; exact Ha1|exact Ha1].
  Qed.

  (* attaching to the point on the right *)
  Lemma attach_right_inv :
    (forall x, In x sw -> is_com (l_frags s) x -> x < j /\ soft_range (l_frags s) (S x) j) ->
    (forall x c2, In x sw -> is_com (l_frags s) x -> x < c2 < j -> is_com (l_frags s) c2 -> In c2 sw \/ att s c2 j) ->
    local s' /\ inv_S s' /\ inv_L s'.
  Proof.
    intros Hadj Hclosed. split; [|split].
    - apply attach_local; [exact Hloc|]. intros x Hx d ind a Hc.
      destruct (Hadj x Hx (ex_intro _ a (ex_intro _ d (ex_intro _ ind Hc)))) as [A B].
      split; [exact Hd|]. right. split; [exact A|exact B].
    - intros c1 j1 c2 Ha Hlt Hbt Hc. apply ev_att in Ha. apply ev_is_com in Hc. apply ev_att.
      destruct Ha as [[Hin [Hc1 ->]]|[Hn Ha]].
      + destruct (Hclosed c1 c2 Hin Hc1 Hbt Hc) as [Hin2|Ha2].
        * left. split; [exact Hin2|]. split; [exact Hc|reflexivity].
        * right. split; [eapply ev_attached_not_swept; exact Ha2|exact Ha2].
      + pose proof (HS c1 j1 c2 Ha Hlt Hbt Hc) as Ha2. right. split; [eapply ev_attached_not_swept; exact Ha2|exact Ha2].
    - intros c2 j2 c1 Ha Hlt Hbt Hc. apply ev_att in Ha. apply ev_is_com in Hc. apply ev_att.
      destruct Ha as [[Hin [Hc2 ->]]|[Hn Ha]].
      + destruct (Hadj c2 Hin Hc2) as [A _]. lia.
      + pose proof (HL c2 j2 c1 Ha Hlt Hbt Hc) as Ha1. right. split; [eapply ev_attached_not_swept; exact Ha1|exact Ha1].
  Qed.
End AttachEvent.

(* ---- the invariant of pass 1 ---------------------------------------------------------------------- *)
Record pinv (s : lstate) (i : nat) : Prop := mkPinv {
  p_loc : local s;
  p_S : inv_S s;
  p_L : inv_L s;
  (* what is attached lies before the current index or in the soft range that starts at it *)
  p_U : forall x j, att s x j -> x < i \/ soft_range (l_frags s) i (S x)
}.

Lemma pinv_next s i : pinv s i -> pinv s (S i).
Proof.
  intros [A B C D]. constructor; try assumption.
  intros x j Ha. destruct (D x j Ha) as [H|H]; [left; lia|].
  destruct (Nat.eq_dec x i) as [->|Hne]; [left; lia|].
  destruct (Nat.lt_ge_cases x i) as [Hlt|Hge]; [left; lia|]. right. eapply soft_range_sub; [| |exact H]; lia.
Qed.

Lemma dec_not_soft fs j : is_dec fs j -> forall a b, a <= j < b -> ~ soft_range fs a b.
Proof.
  intros [n [c [m [s [e H]]]]] a b Hj Hr. destruct (Hr j Hj) as [fr [A B]]. rewrite H in A. inversion A; subst. exact B.
Qed.

(* two decoration points that are both the nearest one on the same side are the same *)
Lemma nearest_left_unique fs c j t :
  is_dec fs j -> is_dec fs t -> j < c -> t < c -> soft_range fs (S j) c -> soft_range fs (S t) c -> j = t.
Proof.
  intros Hj Ht Hjc Htc Rj Rt. destruct (Nat.lt_trichotomy j t) as [H|[H|H]]; [|exact H|].
  - exfalso. apply (dec_not_soft fs t Ht (S j) c); [lia|exact Rj].
  - exfalso. apply (dec_not_soft fs j Hj (S t) c); [lia|exact Rt].
Qed.

Lemma nearest_right_unique fs c j t :
  is_dec fs j -> is_dec fs t -> c < j -> c < t -> soft_range fs (S c) j -> soft_range fs (S c) t -> j = t.
Proof.
  intros Hj Ht Hjc Htc Rj Rt. destruct (Nat.lt_trichotomy j t) as [H|[H|H]]; [|exact H|].
  - exfalso. apply (dec_not_soft fs j Hj (S c) t); [lia|exact Rt].
  - exfalso. apply (dec_not_soft fs t Ht (S c) j); [lia|exact Rj].
Qed.

Lemma removelast_In {A} (l : list A) x d : In x l -> x <> last l d -> In x (removelast l).
Proof.
  induction l as [|y l IH]; intros Hin Hne; [destruct Hin|].
  destruct l as [|z l]; cbn [last removelast] in *.
  - destruct Hin as [->|[]]. contradiction.
  - destruct Hin as [->|Hin]; [left; reflexivity|right; apply IH; assumption].
Qed.

Lemma In_removelast {A} (l : list A) x : In x (removelast l) -> In x l.
Proof.
  induction l as [|y l IH]; intros H; [destruct H|]. destruct l as [|z l]; [destruct H|].
  cbn [removelast] in H. destruct H as [->|H]; [left; reflexivity|right; apply IH; exact H].
Qed.

Lemma rev_head_last {A} (l : list A) x r d : rev l = x :: r -> last l d = x.
Proof.
  intros H. assert (l = rev r ++ [x]) by (rewrite <- (rev_involutive l), H; reflexivity). subst l.
  apply last_last.
Qed.

(* -- the step at an unattached comment -- *)
Lemma own_step_left s i d ind sn se sw j :
  pinv s i -> nth_error (l_frags s) i = Some (FCom d ind None) ->
  find_decoration sn se (l_frags s) i false = Some (sw, j) -> pinv (attach s sw j) (S i).
Proof.
  intros [Hloc HS HL HU] E F. unfold find_decoration in F.
  destruct (find_dec_bwd_local _ _ _ _ _ _ _ F) as [Hji [Hd [Hr Hsw]]].
  assert (Hlt : j < i).
  { destruct (Nat.eq_dec j i) as [->|]; [|lia]. destruct Hd as [n [c [m [s0 [e H]]]]]. rewrite E in H. discriminate. }
  assert (Hi : com_at (l_frags s) i None) by (exists d, ind; exact E).
  assert (Hun : forall x a, In x sw -> com_at (l_frags s) x a -> a = None).
  { intros x a Hx Hc. destruct (find_dec_bwd_unatt _ _ _ _ _ _ _ F x a Hx Hc) as [[]|H]. exact H. }
  destruct (attach_left_inv s sw j Hd Hloc HS HL Hun) as [A [B C]].
  - intros x Hx _. destruct (Hsw x Hx) as [[]|Hx']. split; [lia|]. eapply soft_range_sub; [| |exact Hr]; lia.
  - intros x c1 Hx _ Hbt [a Hc1]. destruct (Hsw x Hx) as [[]|Hx'].
    destruct a as [t|]; [|left; apply (find_dec_bwd_complete _ _ _ _ _ _ _ F c1); [lia|exact Hc1]].
    right. destruct Hc1 as [d1 [i1 Hn1]]. destruct (Hloc c1 d1 i1 t Hn1) as [Ht [[Htl Rt]|[Htr Rt]]].
    + assert (j = t) by (apply (nearest_left_unique (l_frags s) c1 j t Hd Ht); try lia; [eapply soft_range_sub; [| |exact Hr]; lia|exact Rt]).
      subst t. exists d1, i1. exact Hn1.
    + (* attached to the point on the right, which lies beyond i: then i would be attached too *)
      exfalso. assert (Hti : i < t).
      { destruct (Nat.lt_ge_cases i t) as [H|H]; [exact H|]. exfalso.
        apply (dec_not_soft (l_frags s) t Ht (S j) (S i)); [lia|exact Hr]. }
      assert (Ha : att s i t) by (apply (HS c1 t i); [exists d1, i1; exact Hn1|lia|lia|exists None; exact Hi]).
      pose proof (com_at_fun _ _ _ _ Ha Hi). discriminate.
  - constructor; try assumption.
    intros x t Ha. apply (ev_att s sw j Hd) in Ha. destruct Ha as [[Hin _]|[_ Ha]].
    + destruct (Hsw x Hin) as [[]|Hx']. left. lia.
    + destruct (HU x t Ha) as [H|H]; [left; lia|].
      destruct (Nat.lt_ge_cases x (S i)) as [Hl|Hg]; [left; exact Hl|]. right.
      eapply soft_range_extends; [apply attach_extends|]. eapply soft_range_sub; [| |exact H]; lia.
Qed.

Lemma own_step_right s i d ind sn se sw j :
  pinv s i -> nth_error (l_frags s) i = Some (FCom d ind None) ->
  find_decoration sn se (l_frags s) i true = Some (sw, j) -> pinv (attach s sw j) (S i).
Proof.
  intros [Hloc HS HL HU] E F. unfold find_decoration in F.
  destruct (find_dec_fwd_local _ _ _ _ _ _ _ _ F) as [Hij [Hd [Hr Hsw]]].
  assert (Hlt : i < j).
  { destruct (Nat.eq_dec j i) as [->|]; [|lia]. destruct Hd as [n [c [m [s0 [e H]]]]]. rewrite E in H. discriminate. }
  assert (Hi : com_at (l_frags s) i None) by (exists d, ind; exact E).
  assert (Hun : forall x a, In x sw -> com_at (l_frags s) x a -> a = None).
  { intros x a Hx Hc. destruct (find_dec_fwd_unatt _ _ _ _ _ _ _ _ F x a Hx Hc) as [[]|H]. exact H. }
  destruct (attach_right_inv s sw j Hd Hloc HS HL Hun) as [A [B C]].
  - intros x Hx _. destruct (Hsw x Hx) as [[]|Hx']. split; [lia|]. eapply soft_range_sub; [| |exact Hr]; lia.
  - intros x c2 Hx _ Hbt [a Hc2]. destruct (Hsw x Hx) as [[]|Hx'].
    destruct a as [t|]; [|left; apply (find_dec_fwd_complete _ _ _ _ _ _ _ _ F c2); [lia|exact Hc2]].
    right. destruct Hc2 as [d2 [i2 Hn2]]. destruct (Hloc c2 d2 i2 t Hn2) as [Ht [[Htl Rt]|[Htr Rt]]].
    + (* attached to the point on the left, which lies before i: then i would be attached too *)
      exfalso. assert (Hti : t < i).
      { destruct (Nat.lt_ge_cases t i) as [H|H]; [exact H|]. exfalso.
        apply (dec_not_soft (l_frags s) t Ht i j); [lia|exact Hr]. }
      assert (Ha : att s i t) by (apply (HL c2 t i); [exists d2, i2; exact Hn2|lia|lia|exists None; exact Hi]).
      pose proof (com_at_fun _ _ _ _ Ha Hi). discriminate.
    + assert (j = t) by (apply (nearest_right_unique (l_frags s) c2 j t Hd Ht); try lia; [eapply soft_range_sub; [| |exact Hr]; lia|exact Rt]).
      subst t. exists d2, i2. exact Hn2.
  - constructor; try assumption.
    intros x t Ha. apply (ev_att s sw j Hd) in Ha. destruct Ha as [[Hin _]|[_ Ha]].
    + destruct (Hsw x Hin) as [[]|Hx']. destruct (Nat.eq_dec x i) as [->|Hne]; [left; lia|]. right.
      eapply soft_range_extends; [apply attach_extends|]. eapply soft_range_sub; [| |exact Hr]; lia.
    + destruct (HU x t Ha) as [H|H]; [left; lia|].
      destruct (Nat.lt_ge_cases x (S i)) as [Hl|Hg]; [left; exact Hl|]. right.
      eapply soft_range_extends; [apply attach_extends|]. eapply soft_range_sub; [| |exact H]; lia.
Qed.

(* -- the hanging-indent step at an End decoration -- *)
Lemma hanging_step s e nid cls name st en i0 i1 f0 f1 next :
  pinv s e -> nth_error (l_frags s) e = Some (FDec nid cls name st en) ->
  find_indented (l_frags s) (S e) (S (List.length (l_frags s))) i0 i1 false false [] [] = (f0, f1, next) ->
  forall (do_next : bool),
  let s1 := match rev f0 with
            | [] => s
            | l :: _ => if is_nl_frag (l_frags s) l then attach s (removelast f0) e else attach s f0 e
            end in
  let s2 := match f1, next with
            | _ :: _, Some j => if do_next then attach s1 f1 j else s1
            | _, _ => s1
            end in
  pinv s2 (S e).
Proof.
  intros [Hloc HS HL HU] E Hf do_next s1 s2.
  destruct (fi0_spec _ _ _ _ _ _ _ _ _ _ Hf) as [p [Hle Hsoft Hrange Hcompl Horder _ Hnext]].
  assert (Hde : is_dec (l_frags s) e) by (repeat eexists; exact E).
  (* nothing after e is attached yet *)
  assert (Hfree : forall x t, att s x t -> x < e).
  { intros x t Ha. destruct (HU x t Ha) as [H|H]; [exact H|].
    destruct (Nat.lt_ge_cases x e) as [Hl|Hg]; [exact Hl|]. exfalso. apply (dec_not_soft _ e Hde e (S x)); [lia|exact H]. }
  assert (Hun0 : forall x a, In x f0 \/ In x f1 -> com_at (l_frags s) x a -> a = None).
  { intros x a Hx Hc. destruct a as [t|]; [|reflexivity]. specialize (Hfree x t Hc). specialize (Hrange x Hx). lia. }
  (* event 1: a prefix of the run goes to the End point on the left *)
  assert (Hev1 : forall sw1, (forall x, In x sw1 -> In x f0) ->
                   (forall x, In x f0 -> is_com (l_frags s) x -> In x sw1) ->
                   local (attach s sw1 e) /\ inv_S (attach s sw1 e) /\ inv_L (attach s sw1 e)).
  { intros sw1 Hsub Hcom. apply (attach_left_inv s sw1 e Hde Hloc HS HL).
    - intros x a Hx Hc. apply (Hun0 x a (or_introl (Hsub x Hx)) Hc).
    - intros x Hx _. specialize (Hrange x (or_introl (Hsub x Hx))). split; [lia|]. eapply soft_range_sub; [| |exact Hsoft]; lia.
    - intros x c1 Hx _ Hbt Hc1. left. apply Hcom; [|exact Hc1].
      specialize (Hrange x (or_introl (Hsub x Hx))).
      destruct (Hcompl c1 ltac:(lia) Hc1) as [H|H]; [exact H|]. specialize (Horder x c1 (Hsub x Hx) H). lia. }
  assert (H1 : local s1 /\ inv_S s1 /\ inv_L s1 /\ extends (l_frags s) (l_frags s1) /\
               (forall x t, att s1 x t -> (In x f0 /\ t = e) \/ att s x t)).
  { subst s1. destruct (rev f0) as [|l r] eqn:Er.
    - split; [exact Hloc|]. split; [exact HS|]. split; [exact HL|]. split; [apply extends_refl|]. intros x t Ha. right. exact Ha.
    - destruct (is_nl_frag (l_frags s) l) eqn:Enl.
      + destruct (Hev1 (removelast f0)) as [A [B C]].
        * intros x Hx. apply In_removelast. exact Hx.
        * intros x Hx Hc. apply (removelast_In f0 x 0 Hx). rewrite (rev_head_last f0 l r 0 Er). intros ->.
          unfold is_nl_frag in Enl. destruct Hc as [a [d [ind Hc]]]. rewrite Hc in Enl. discriminate.
        * split; [exact A|]. split; [exact B|]. split; [exact C|]. split; [apply attach_extends|].
          intros x t Ha. apply (ev_att s _ e Hde) in Ha. destruct Ha as [[Hin [_ ->]]|[_ Ha]]; [left; split; [apply In_removelast; exact Hin|reflexivity]|right; exact Ha].
      + destruct (Hev1 f0) as [A [B C]]; [auto|auto|].
        split; [exact A|]. split; [exact B|]. split; [exact C|]. split; [apply attach_extends|].
        intros x t Ha. apply (ev_att s _ e Hde) in Ha. destruct Ha as [[Hin [_ ->]]|[_ Ha]]; [left; split; [exact Hin|reflexivity]|right; exact Ha]. }
  destruct H1 as [Hloc1 [HS1 [HL1 [Hext1 Hatt1]]]].
  (* the invariant U after event 1 *)
  assert (HU1 : forall x t, att s1 x t -> x < S e \/ soft_range (l_frags s1) (S e) (S x)).
  { intros x t Ha. destruct (Hatt1 x t Ha) as [[Hin _]|Ha0].
    - right. specialize (Hrange x (or_introl Hin)). eapply soft_range_extends; [exact Hext1|]. eapply soft_range_sub; [| |exact Hsoft]; lia.
    - left. specialize (Hfree x t Ha0). lia. }
  subst s2. destruct f1 as [|y f1']; [constructor; assumption|].
  destruct next as [j|]; [|constructor; assumption]. destruct do_next; [|constructor; assumption].
  destruct (Hnext j eq_refl) as [-> Hdp].
  set (f1 := y :: f1') in *.
  assert (Hdp1 : is_dec (l_frags s1) p) by (eapply is_dec_extends; eauto).
  assert (Hcom1 : forall x, is_com (l_frags s1) x <-> is_com (l_frags s) x).
  { intros x. subst s1. destruct (rev f0) as [|l r]; [reflexivity|]. destruct (is_nl_frag _ _); apply attach_is_com; exact Hde. }
  assert (Hun1 : forall x a, In x f1 -> com_at (l_frags s1) x a -> a = None).
  { intros x a Hx Hc. destruct a as [t|]; [|reflexivity]. exfalso. destruct (Hatt1 x t Hc) as [[Hin _]|Ha0].
    - specialize (Horder x x Hin Hx). lia.
    - specialize (Hfree x t Ha0). specialize (Hrange x (or_intror Hx)). lia. }
  destruct (attach_right_inv s1 f1 p Hdp1 Hloc1 HS1 HL1 Hun1) as [A [B C]].
  - intros x Hx _. specialize (Hrange x (or_intror Hx)). split; [lia|].
    eapply soft_range_extends; [exact Hext1|]. eapply soft_range_sub; [| |exact Hsoft]; lia.
  - intros x c2 Hx _ Hbt Hc2. left. apply Hcom1 in Hc2. specialize (Hrange x (or_intror Hx)).
    destruct (Hcompl c2 ltac:(lia) Hc2) as [H|H]; [|exact H]. specialize (Horder c2 x H Hx). lia.
  - constructor; try assumption.
    intros x t Ha. apply (ev_att s1 f1 p Hdp1) in Ha. destruct Ha as [[Hin _]|[_ Ha]].
    + right. specialize (Hrange x (or_intror Hin)). eapply soft_range_extends; [apply attach_extends|].
      eapply soft_range_extends; [exact Hext1|]. eapply soft_range_sub; [| |exact Hsoft]; lia.
    + destruct (HU1 x t Ha) as [H|H]; [left; exact H|right]. eapply soft_range_extends; [apply attach_extends|exact H].
Qed.

Theorem pass1_step_pinv s i : pinv s i -> pinv (pass1_step s i) (S i).
Proof.
  intros Hp. unfold pass1_step. destruct (l_panic s); [apply pinv_next; exact Hp|].
  destruct (nth_error (l_frags s) i) as [fr|] eqn:E; [|apply pinv_next; exact Hp].
  destruct fr as [nid cls name st en| | |d ind [a|]|e a]; try (apply pinv_next; exact Hp).
  - destruct (negb (String.eqb name "End")); [apply pinv_next; exact Hp|].
    destruct (negb (nc_stmt cls || nc_decl cls)); [apply pinv_next; exact Hp|].
    destruct (nc_labeled cls); [apply pinv_next; exact Hp|].
    destruct (negb _); [apply pinv_next; exact Hp|].
    destruct (find_indented _ _ _ _ _ _ _ _ _) as [[f0 f1] next] eqn:Ef.
    pose proof (hanging_step s i nid cls name st en _ _ f0 f1 next Hp E Ef) as Hh.
    destruct f1 as [|y f1']; [exact (Hh false)|]. destruct next as [j|]; [|exact (Hh false)].
    destruct (nth_error (l_frags s) j) as [[? cls' ? st' ?| | | |]|]; try exact (Hh false).
    destruct ((nc_stmt cls' || nc_decl cls') && Z.eqb st' st); [exact (Hh true)|exact (Hh false)].
  - destruct (find_decoration true true (l_frags s) i false) as [[sw j]|] eqn:F1; [eapply own_step_left; eauto|].
    destruct (find_decoration false true (l_frags s) i true) as [[sw j]|] eqn:F2; [eapply own_step_right; eauto|].
    destruct (find_decoration false true (l_frags s) i false) as [[sw j]|] eqn:F3; [eapply own_step_left; eauto|].
    destruct (find_decoration false false (l_frags s) i true) as [[sw j]|] eqn:F4; [eapply own_step_right; eauto|].
    destruct (find_decoration false false (l_frags s) i false) as [[sw j]|] eqn:F5; [eapply own_step_left; eauto|].
    apply pinv_next. destruct Hp as [A B C D]. constructor; assumption.
Qed.

Lemma pass1_fold_pinv : forall n s i, pinv s i -> exists k, pinv (fold_left pass1_step (seq i n) s) k.
Proof.
  induction n as [|n IH]; intros s i H; cbn [seq fold_left]; [exists i; exact H|].
  apply (IH _ (S i)). apply pass1_step_pinv. exact H.
Qed.

(* For every fragment list in which no comment is attached yet: after link, comments are attached
   to decoration fragments in order -- for comments c1 < c2 attached to j1 and j2, j1 <= j2. *)
Theorem link_attaches_in_order fs :
  (forall c d ind a, nth_error fs c = Some (FCom d ind a) -> a = None) ->
  forall c1 c2 j1 j2, c1 < c2 -> att (link fs) c1 j1 -> att (link fs) c2 j2 -> j1 <= j2.
Proof.
  intros Hinit.
  assert (H0 : pinv (mkL fs [] [] [] false) 0).
  { constructor.
    - intros c d ind j Hc. cbn [l_frags] in Hc. specialize (Hinit _ _ _ _ Hc). discriminate.
    - intros c1 j1 c2 [d [ind Ha]]. cbn [l_frags] in Ha. specialize (Hinit _ _ _ _ Ha). discriminate.
    - intros c2 j2 c1 [d [ind Ha]]. cbn [l_frags] in Ha. specialize (Hinit _ _ _ _ Ha). discriminate.
    - intros x j [d [ind Ha]]. cbn [l_frags] in Ha. specialize (Hinit _ _ _ _ Ha). discriminate. }
  destruct (pass1_fold_pinv (List.length fs) _ 0 H0) as [k [Hloc HS HL _]].
  set (s1 := fold_left pass1_step (seq 0 (List.length fs)) (mkL fs [] [] [] false)) in *.
  assert (Hfr : l_frags (link fs) = l_frags s1).
  { unfold link, pass2, pass1. cbn [l_frags]. fold s1. apply (pass2_fold (seq 0 (List.length (l_frags s1))) s1). }
  unfold att. rewrite Hfr. intros c1 c2 j1 j2 Hlt [d1 [i1 H1]] [d2 [i2 H2]].
  destruct (Hloc c1 d1 i1 j1 H1) as [Hd1 [[L1 R1]|[L1 R1]]]; destruct (Hloc c2 d2 i2 j2 H2) as [Hd2 [[L2 R2]|[L2 R2]]]; try lia.
  - (* both to the left *)
    destruct (Nat.le_gt_cases j1 j2) as [H|H]; [exact H|]. exfalso.
    apply (dec_not_soft _ j1 Hd1 (S j2) c2); [lia|exact R2].
  - (* c1 to the right, c2 to the left *)
    destruct (Nat.le_gt_cases j1 j2) as [H|H]; [exact H|]. exfalso.
    destruct (Nat.lt_trichotomy c2 j1) as [Hc|[Hc|Hc]].
    + assert (Ha : att s1 c2 j1) by (apply (HS c1 j1 c2); [exists d1, i1; exact H1|lia|lia|exists (Some j2), d2, i2; exact H2]).
      assert (Heq : Some j1 = Some j2) by (eapply com_at_fun; [exact Ha|exists d2, i2; exact H2]). inversion Heq. lia.
    + subst c2. destruct Hd1 as [n [c [m [s0 [e Hd]]]]]. rewrite H2 in Hd. discriminate.
    + apply (dec_not_soft _ j1 Hd1 (S j2) c2); [lia|exact R2].
  - (* both to the right *)
    destruct (Nat.le_gt_cases j1 j2) as [H|H]; [exact H|]. exfalso.
    apply (dec_not_soft _ j2 Hd2 (S c1) j1); [lia|exact R1].
Qed.
