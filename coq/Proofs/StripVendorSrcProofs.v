(* the program the translator reads off stripVendor computes the model, for every path *)
From Coq Require Import List String Bool Ascii ZArith Lia.
Import ListNotations.
From DV Require Import Model.Resolvers Model.StripProg Gen.StripVendorSrc Proofs.StripVendorProofs.
Local Open Scope string_scope.
Local Arguments drop : simpl never.

Lemma prefixb_length p : forall s, prefixb p s = true -> String.length p <= String.length s.
Proof.
  induction p as [|a p IH]; intros s H; cbn in *; [lia|].
  destruct s as [|b s]; [discriminate|]. apply andb_true_iff in H. destruct H as [_ H].
  apply IH in H. cbn. lia.
Qed.

Lemma last_index_bound sep : forall s i, last_index sep s = Some i -> i + String.length sep <= String.length s.
Proof.
  induction s as [|c r IH]; intros i H; [discriminate|]. cbn [last_index] in H.
  destruct (last_index sep r) as [j|] eqn:Hr.
  - injection H as <-. specialize (IH j eq_refl). cbn [String.length]. lia.
  - destruct (prefixb sep (String c r)) eqn:Hp; [|discriminate]. injection H as <-.
    apply prefixb_length in Hp. lia.
Qed.

(* the model's search for the last "/vendor/" is strings.LastIndex *)
Lemma alv_is_last_index : forall s,
  after_last_vendor s = option_map (fun i => drop (i + 8) s) (last_index "/vendor/" s).
Proof.
  induction s as [|c r IH]; [reflexivity|].
  cbn [after_last_vendor last_index]. rewrite IH.
  destruct (last_index "/vendor/" r) as [j|]; [reflexivity|]. cbn [option_map].
  destruct (prefixb "/vendor/" (String c r)); reflexivity.
Qed.

Theorem strip_vendor_source_is_model : forall path, run_sv strip_vendor_src path = Some (strip_vendor path).
Proof.
  intros path. unfold strip_vendor_src, run_sv. cbn [find_vendor].
  unfold go_contains, go_last_index, go_has_prefix, strip_vendor. rewrite alv_is_last_index.
  destruct (last_index "/vendor/" path) as [i|] eqn:Hi; cbn [option_map].
  - pose proof (last_index_bound _ _ _ Hi) as Hb. cbn [String.length] in Hb.
    unfold go_slice_from. cbn [String.length].
    replace (Z.of_nat i + 1 + Z.of_nat 7)%Z with (Z.of_nat (i + 8)) by lia.
    destruct (Z.ltb_spec (Z.of_nat (i + 8)) 0); [lia|].
    destruct (Z.ltb_spec (Z.of_nat (String.length path)) (Z.of_nat (i + 8))); [lia|].
    cbn [orb]. rewrite Nat2Z.id. reflexivity.
  - destruct (prefixb "vendor/" path) eqn:Hp; [|reflexivity].
    apply prefixb_length in Hp. cbn [String.length] in Hp.
    unfold go_slice_from. cbn [String.length].
    change (0 + Z.of_nat 7)%Z with 7%Z.
    destruct (Z.ltb_spec 7 0); [lia|].
    destruct (Z.ltb_spec (Z.of_nat (String.length path)) 7); [lia|]. reflexivity.
Qed.
