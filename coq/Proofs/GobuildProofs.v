(* C16: gobuild.RestorerResolver.ResolvePackage, translated on every run (Gen/DecisionSrc.v:
   gobuild_resolvepackage_src; the two defaulted locals fp and bc are conditional assignments, rendered by
   forking), is a function of the resolver's fields and the finder's answer: a hint wins; otherwise exactly one
   call is made -- the FindPackage field if set, else the Import method of build.Context, with the Context field if set,
   else &build.Default -- its error is returned, a nil package is an error, else the package's name. *)
From Coq Require Import List String Bool.
Import ListNotations.
From DV Require Import Model.Decision Gen.DecisionSrc.
Local Open Scope string_scope.
Local Open Scope list_scope.

Definition fp_text (fp_nil : bool) : string := if fp_nil then "(*build.Context).Import" else "r.FindPackage".
Definition ctx_text (ctx_nil : bool) : string := if ctx_nil then "&build.Default" else "r.Context".
Definition call_text (fp_nil ctx_nil : bool) : string :=
  String.append (fp_text fp_nil) (String.append "(" (String.append (ctx_text ctx_nil) ",importPath,r.Dir,0)")).

Inductive gb_result := GBHint | GBError | GBName (fp_nil ctx_nil : bool).

Definition gobuild_spec (hint fp_nil ctx_nil : bool) (fails nilp : bool -> bool -> bool) : gb_result :=
  if hint then GBHint
  else if fails fp_nil ctx_nil then GBError
  else if nilp fp_nil ctx_nil then GBError
  else GBName fp_nil ctx_nil.

Definition all_choices : list (bool * bool) := [(true, true); (true, false); (false, true); (false, false)].

Definition gb_val (hint fp_nil ctx_nil : bool) (fails nilp : bool -> bool -> bool) (q : string) : bool :=
  if String.eqb q "has(r.Hints,importPath)" then hint
  else if String.eqb q "nil(r.FindPackage)" then fp_nil
  else if String.eqb q "nil(r.Context)" then ctx_nil
  else
    match List.find (fun c => String.eqb q (String.append "fails(" (String.append (call_text (fst c) (snd c)) ")"))) all_choices with
    | Some c => fails (fst c) (snd c)
    | None =>
      match List.find (fun c => String.eqb q (String.append "nil(" (String.append (call_text (fst c) (snd c)) ")"))) all_choices with
      | Some c => nilp (fst c) (snd c)
      | None => false
      end
    end.

Definition gb_outcome (o : dout) : option gb_result :=
  match o with
  | OReturn DErr => Some GBError
  | OReturn (DVal s) =>
    if String.eqb s "r.Hints[importPath]" then Some GBHint
    else match List.find (fun c => String.eqb s (String.append (call_text (fst c) (snd c)) ".Name")) all_choices with
         | Some c => Some (GBName (fst c) (snd c))
         | None => None
         end
  | _ => None
  end.

Theorem gobuild_source_is_model :
  forall hint fp_nil ctx_nil fails nilp,
    gb_outcome (run (gb_val hint fp_nil ctx_nil fails nilp) gobuild_resolvepackage_src)
    = Some (gobuild_spec hint fp_nil ctx_nil fails nilp).
Proof.
  intros hint fp_nil ctx_nil fails nilp. unfold gobuild_spec.
  destruct hint, fp_nil, ctx_nil; vm_compute; try reflexivity;
    match goal with |- context[fails ?a ?b] => destruct (fails a b); [reflexivity|] end;
    match goal with |- context[nilp ?a ?b] => destruct (nilp a b); reflexivity end.
Qed.
