(* fragment() ; link(): no comment of the file is lost on the way from the positioned go/ast
   tree to the decoration lists -- for every tree, every comment list, every line table. *)
From Coq Require Import List String ZArith NArith Bool Lia Permutation.
Import ListNotations.
From DV Require Import Model.Tree Model.Tables Model.FragSkel Model.Link Model.Fragment Proofs.LinkProofs.
Local Open Scope list_scope.

(* ---- the stable sort neither loses nor invents fragments ----------------------------------- *)
Lemma ins_rev_perm x rl : Permutation (ins_rev x rl) (x :: rl).
Proof.
  induction rl as [|y r IH]; cbn; [apply Permutation_refl|].
  destruct (Z.leb (fst y) (fst x)); [apply Permutation_refl|].
  eapply Permutation_trans; [apply perm_skip; exact IH|apply perm_swap].
Qed.

Lemma fold_ins_perm l : forall acc, Permutation (fold_left (fun acc x => ins_rev x acc) l acc) (rev l ++ acc).
Proof.
  induction l as [|x r IH]; intros acc; cbn [fold_left rev]; [apply Permutation_refl|].
  eapply Permutation_trans; [apply IH|]. rewrite <- app_assoc. cbn [app].
  apply Permutation_app_head. apply ins_rev_perm.
Qed.

Lemma stable_sort_perm l : Permutation (stable_sort l) l.
Proof.
  unfold stable_sort. eapply Permutation_trans; [apply Permutation_sym, Permutation_rev|].
  eapply Permutation_trans; [apply fold_ins_perm|]. rewrite app_nil_r. apply Permutation_sym, Permutation_rev.
Qed.

(* ... and leaves the list sorted by position, equal positions in their order of arrival *)
Fixpoint sorted_desc (rl : list pitem) : Prop :=
  match rl with
  | [] => True
  | x :: r => (match r with y :: _ => (fst y <= fst x)%Z | [] => True end) /\ sorted_desc r
  end.

Lemma ins_rev_sorted x rl : sorted_desc rl -> sorted_desc (ins_rev x rl).
Proof.
  induction rl as [|y r IH]; intros Hs; cbn [ins_rev]; [cbn; auto|].
  destruct (Z.leb_spec (fst y) (fst x)) as [Hle|Hgt].
  - cbn [sorted_desc]. split; [exact Hle|exact Hs].
  - cbn [sorted_desc] in Hs. destruct Hs as [Hy Hr]. specialize (IH Hr).
    cbn [sorted_desc]. split; [|exact IH].
    destruct r as [|z r']; cbn [ins_rev]; [lia|].
    destruct (Z.leb (fst z) (fst x)); [lia|exact Hy].
Qed.

Lemma fold_ins_sorted l : forall acc, sorted_desc acc -> sorted_desc (fold_left (fun acc x => ins_rev x acc) l acc).
Proof. induction l as [|x r IH]; intros acc H; cbn [fold_left]; [exact H|]. apply IH. apply ins_rev_sorted. exact H. Qed.

Lemma stable_sort_sorted l : sorted_desc (rev (stable_sort l)).
Proof. unfold stable_sort. rewrite rev_involutive. apply fold_ins_sorted. exact I. Qed.

(* ---- the indent pass keeps the list ---------------------------------------------------------- *)
Lemma indent_pass_keeps fi l : forall first prev cur st en acc,
  let '(_, _, out) := indent_pass fi l first prev cur st en acc in
  map (fun x => (fst (fst x), snd (fst x))) out = map (fun x => (fst (fst x), snd (fst x))) (rev acc) ++ l.
Proof.
  induction l as [|[pos f] r IH]; intros first prev cur st en acc; cbn [indent_pass].
  - rewrite app_nil_r. reflexivity.
  - match goal with |- context [indent_pass fi r false ?p ?c ?s ?e ?a] => specialize (IH false p c s e a) end.
    destruct (indent_pass fi r false _ _ _ _ _) as [[st' en'] out].
    rewrite IH. cbn [rev]. rewrite map_app, <- app_assoc. reflexivity.
Qed.

Lemma to_link_comment stmts decls st en pos d ind :
  to_link stmts decls st en (pos, PCom d, ind) = (pos, FCom d ind None).
Proof. reflexivity. Qed.

Lemma to_link_unattached stmts decls st en x :
  match snd (to_link stmts decls st en x) with
  | FCom _ _ a | FNl _ a => a = None
  | _ => True
  end.
Proof. destruct x as [[pos f] ind]. destruct f; cbn; auto. Qed.

(* Every comment of the file is a fragment of the sorted list, with some indent, unattached. *)
Lemma fragment_has_every_comment tbl stmts decls fi t comments frs err :
  fragment tbl stmts decls fi t comments = (frs, err) ->
  forall pos d, In (pos, d) comments -> exists ind, In (pos, FCom d ind None) frs.
Proof.
  unfold fragment, all_frags. intros H pos d Hin.
  set (nodes := f_out (node_frags tbl t)) in *.
  set (sorted := stable_sort (nodes ++ map (fun c => (fst c, PCom (snd c))) comments ++
                              newlines fi (avoid_of fi comments nodes) (tl (fi_lines fi)) 2)) in *.
  pose proof (indent_pass_keeps fi sorted true false 0%Z [] [] []) as Hk.
  destruct (indent_pass fi sorted true false 0%Z [] [] []) as [[st en] withind] eqn:E.
  inversion H; subst frs err. clear H.
  cbn [rev map app] in Hk.
  assert (Hs : In (pos, PCom d) sorted).
  { unfold sorted. eapply Permutation_in; [apply Permutation_sym, stable_sort_perm|].
    apply in_or_app. right. apply in_or_app. left.
    apply in_map_iff. exists (pos, d). split; [reflexivity|exact Hin]. }
  rewrite <- Hk in Hs. apply in_map_iff in Hs. destruct Hs as [[[p f] ind] [Heq Hx]].
  cbn in Heq. inversion Heq; subst p f.
  exists ind. apply in_map_iff. exists (pos, PCom d, ind). split; [reflexivity|exact Hx].
Qed.

Lemma fragment_all_unattached tbl stmts decls fi t comments frs err :
  fragment tbl stmts decls fi t comments = (frs, err) ->
  forall k fr, nth_error (map snd frs) k = Some fr ->
  attached fr = false \/ (match fr with FCom _ _ _ | FNl _ _ => False | _ => True end).
Proof.
  unfold fragment. intros H k fr Hk.
  destruct (all_frags tbl fi t comments) as [sorted err0].
  destruct (indent_pass fi sorted true false 0%Z [] [] []) as [[st en] withind].
  inversion H; subst frs err. clear H.
  rewrite map_map in Hk. apply nth_error_In in Hk. apply in_map_iff in Hk. destruct Hk as [x [Hx _]].
  pose proof (to_link_unattached stmts decls st en x) as Hu. rewrite Hx in Hu.
  destruct fr as [| | |d i a|e a]; auto; subst a; left; reflexivity.
Qed.

(* For every positioned tree, every comment list and every line table: if link does not panic on
   the fragment list fragment() builds, every comment of the file is in the decoration list of
   some (node, point). *)
Theorem decorate_keeps_every_comment tbl stmts decls fi t comments frs err :
  fragment tbl stmts decls fi t comments = (frs, err) ->
  l_panic (link (map snd frs)) = false ->
  forall pos d, In (pos, d) comments -> in_decs (l_decs (link (map snd frs))) d.
Proof.
  intros H Hp pos d Hin.
  destruct (fragment_has_every_comment _ _ _ _ _ _ _ _ H pos d Hin) as [ind Hf].
  assert (Hm : In (FCom d ind None) (map snd frs)) by (apply in_map_iff; exists (pos, FCom d ind None); split; [reflexivity|exact Hf]).
  destruct (In_nth_error _ _ Hm) as [k Hk].
  apply (link_keeps_every_comment (map snd frs) (fragment_all_unattached _ _ _ _ _ _ _ _ H) Hp k d ind None Hk).
Qed.

(* ---- newline discovery ------------------------------------------------------------------------- *)
Local Open Scope Z_scope.
(* line breaks a newline fragment stands for *)
Definition nl_weight (it : pitem) : Z := match snd it with PNl true => 2 | PNl false => 1 | _ => 0 end.
Definition breaks (l : list pitem) : Z := fold_right (fun it acc => nl_weight it + acc) 0 l.

(* With nothing to avoid, the newline fragments account for every line start after the first:
   an empty-line fragment for two adjacent line starts, a newline fragment otherwise. *)
Lemma newlines_counts_fuel fi : forall n rest k,
  (List.length rest <= n)%nat ->
  Forall (fun o => o < fi_size fi - 1) rest ->
  breaks (newlines fi [] rest k) = Z.of_nat (List.length rest).
Proof.
  induction n as [|n IH]; intros rest k Hn Hall.
  - destruct rest; [reflexivity|cbn in Hn; lia].
  - destruct rest as [|o r]; [reflexivity|].
    inversion Hall as [|? ? Ho Hr]; subst.
    cbn [newlines existsb].
    assert (E1 : Z.ltb o (fi_size fi) = true) by (apply Z.ltb_lt; lia). rewrite E1. cbn [negb].
    destruct r as [|o2 r2].
    + reflexivity.
    + assert (E2 : Z.ltb o (fi_size fi - 1) = true) by (apply Z.ltb_lt; lia). rewrite E2, andb_true_r.
      destruct (Z.eqb o2 (o + 1)).
      * cbn [breaks fold_right nl_weight snd]. fold (breaks (newlines fi [] r2 (k + 2))).
        inversion Hr; subst. rewrite IH; [cbn [List.length]; lia|cbn [List.length] in Hn; lia|assumption].
      * cbn [breaks fold_right nl_weight snd]. fold (breaks (newlines fi [] (o2 :: r2) (k + 1))).
        rewrite IH; [cbn [List.length]; lia|cbn [List.length] in *; lia|assumption].
Qed.

Theorem newlines_count_every_line_break fi rest k :
  Forall (fun o => o < fi_size fi - 1) rest ->
  breaks (newlines fi [] rest k) = Z.of_nat (List.length rest).
Proof. apply (newlines_counts_fuel fi (List.length rest)). lia. Qed.
