(* What the decorator stores: for every go/ast node reachable through the child statements of the
   decorator table, the dst tree (declarative reading, Model/Decorate.v decorateD) has a node --
   reachable through the out paths of the same statements -- with the same identity and kind whose
   decoration points hold what link attached to (node, point). *)
From Coq Require Import List String ZArith NArith Bool Lia.
Import ListNotations.
From DV Require Import Model.Tree Model.Tables Model.Skeleton Model.FragSkel Model.Link Model.Decorate
     Proofs.TreeInd Proofs.FragReach.
Local Open Scope string_scope.
Local Open Scope list_scope.

(* ---- the closure tree mirrors the tree ----------------------------------------------------------- *)
Section Dec.
Variables (du : list (string * list string)) (tbl : list (string * list nstmt)) (att : lstate).
(* which child statements of a kind's case count (all of them, or all but an alias list) *)
Variable keep : string -> nstmt -> bool.

Definition dmap_kid (k : kid tree) : kid dtree :=
  match k with
  | One (Some c) => One (Some (dbuildD du tbl att c))
  | One None => One None
  | Many l => Many (map (dbuildD du tbl att) l)
  end.

Definition dkids (t : tree) : list (string * kid dtree) := map (fun p => (fst p, dmap_kid (snd p))) (tkids t).

Lemma dbuildD_unfold t : dbuildD du tbl att t = DT t (dnodeD du tbl att t (dkids t)) (dkids t).
Proof. destruct t. reflexivity. Qed.

Lemma dt_kids_dbuildD t : dt_kids (dbuildD du tbl att t) = dkids t.
Proof. rewrite dbuildD_unfold. reflexivity. Qed.

Lemma dt_res_dbuildD t : dt_res (dbuildD du tbl att t) = dnodeD du tbl att t (dkids t).
Proof. rewrite dbuildD_unfold. reflexivity. Qed.

Lemma dt_tree_dbuildD t : dt_tree (dbuildD du tbl att t) = t.
Proof. rewrite dbuildD_unfold. reflexivity. Qed.

(* a child of the tree along a path is found by dsub in the closure tree *)
Lemma dsub_one : forall p t c, child_at false t p c -> dsub (dkids t) p = Some (One (Some (dbuildD du tbl att c))).
Proof.
  intros p t c H. remember false as b eqn:Hb. induction H; try discriminate.
  - unfold dkids. cbn [dsub]. rewrite lookup_map_kids, H. reflexivity.
  - specialize (IHchild_at Hb). unfold dkids. cbn [dsub]. rewrite lookup_map_kids, H. cbn [option_map dmap_kid].
    rewrite dt_kids_dbuildD. exact IHchild_at.
Qed.

Lemma dsub_many : forall p t c, child_at true t p c ->
  exists l, dsub (dkids t) p = Some (Many (map (dbuildD du tbl att) l)) /\ In c l.
Proof.
  intros p t c H. remember true as b eqn:Hb. induction H; try discriminate.
  - exists l. unfold dkids. cbn [dsub]. rewrite lookup_map_kids, H. split; [reflexivity|exact H0].
  - destruct (IHchild_at Hb) as [l [A B]]. exists l. unfold dkids. cbn [dsub]. rewrite lookup_map_kids, H. cbn [option_map dmap_kid].
    rewrite dt_kids_dbuildD. split; [exact A|exact B].
Qed.

(* ---- the child statements of a case ------------------------------------------------------------- *)
Definition nstmt_in (s : nstmt) : list (path * bool) :=
  match s with NNode p _ _ _ _ _ => [(p, false)] | NList p _ _ _ _ _ => [(p, true)] | NMapNodes p _ _ _ => [(p, true)] | _ => [] end.
Definition nstmt_out (s : nstmt) : list (path * bool) :=
  match s with NNode _ o _ _ _ _ => [(o, false)] | NList _ o _ _ _ _ => [(o, true)] | NMapNodes p _ _ _ => [(p, true)] | _ => [] end.

Definition dec_in_paths (k : string) : list (path * bool) :=
  match lookup tbl k with Some l => flat_map nstmt_in (filter (keep k) l) | None => [] end.
Definition dec_out_paths (k : string) : list (path * bool) :=
  match lookup tbl k with Some l => flat_map nstmt_out (filter (keep k) l) | None => [] end.

(* the fields a case assigns children to, at the top level and under an NInit child *)
Definition top_field (s : nstmt) : list string :=
  match s with
  | NInit [f] _ => [f]
  | NNode _ [f] _ _ _ _ | NList _ [f] _ _ _ _ => [f]
  | NMapNodes [f] _ _ _ => [f]
  | _ => []
  end.
Definition nested_field (g : string) (s : nstmt) : list string :=
  match s with
  | NNode _ [g'; f] _ _ _ _ | NList _ [g'; f] _ _ _ _ => if String.eqb g' g then [f] else []
  | _ => []
  end.

Definition out_shape_ok (stmts : list nstmt) (s : nstmt) : bool :=
  match s with
  | NNode _ o _ _ _ _ | NList _ o _ _ _ _ =>
    match o with
    | [_] => true
    | [g; _] => existsb (fun s' => match s' with NInit [g'] _ => String.eqb g' g | _ => false end) stmts &&
                nodup_string (flat_map (nested_field g) stmts)
    | _ => false
    end
  | NInit p _ | NMapNodes p _ _ _ => match p with [_] => true | _ => false end
  | _ => true
  end.

(* well-formedness of a case: the fields children are assigned to are pairwise distinct *)
Definition case_wf (stmts : list nstmt) : bool :=
  nodup_string (flat_map top_field stmts) && forallb (out_shape_ok stmts) stmts.

Definition tbl_wf : bool := forallb (fun e => case_wf (snd e)) tbl.

(* ---- lookups in the children built in statement order -------------------------------------------- *)
Lemma NoDup_app_l_r {A} (l1 l2 : list A) : NoDup (l1 ++ l2) -> NoDup l2 /\ (forall x, In x l1 -> ~ In x l2).
Proof.
  induction l1 as [|y l IH]; cbn [app]; intros H; [split; [exact H|intros x []]|].
  inversion H; subst. destruct (IH H3) as [HA HB]. split; [exact HA|].
  intros x [->|Hx]; [intros Hin; apply H2; apply in_or_app; right; exact Hin|apply HB; exact Hx].
Qed.

Lemma lookup_flat_map_entry {A} (entry : nstmt -> list (string * A)) (key : nstmt -> list string) :
  (forall s f x, In (f, x) (entry s) -> In f (key s)) ->
  (forall s, (List.length (entry s) <= 1)%nat) ->
  forall stmts, NoDup (flat_map key stmts) ->
  forall s f x, In s stmts -> entry s = [(f, x)] -> lookup (flat_map entry stmts) f = Some x.
Proof.
  intros Hkey Hone. induction stmts as [|s0 r IH]; intros Hnd s f x Hin He; [destruct Hin|].
  cbn [flat_map] in *. destruct (NoDup_app_l_r _ _ Hnd) as [Hr Hdis].
  destruct Hin as [->|Hin].
  - rewrite He. cbn [app lookup]. rewrite String.eqb_refl. reflexivity.
  - specialize (Hone s0). destruct (entry s0) as [|[f0 x0] [|? ?]] eqn:E0; cbn [List.length] in Hone; try lia.
    + cbn [app]. apply (IH Hr s f x Hin He).
    + cbn [app lookup]. destruct (String.eqb_spec f f0) as [->|Hne]; [|apply (IH Hr s f x Hin He)].
      exfalso. apply (Hdis f0).
      * apply (Hkey s0 f0 x0). rewrite E0. left. reflexivity.
      * apply in_flat_map. exists s. split; [exact Hin|apply (Hkey s f0 x); rewrite He; left; reflexivity].
Qed.

Ltac split_entry :=
  repeat match goal with
         | |- context [match ?p with [] => _ | _ :: _ => _ end] => destruct p
         | |- context [match dsub ?a ?b with Some _ => _ | None => _ end] => destruct (dsub a b) as [[[?|]|?]|]
         end.

Lemma top_entry_key t stmts s f x : In (f, x) (top_entry du t (dkids t) stmts s) -> In f (top_field s).
Proof.
  unfold top_entry, top_field. destruct s; cbn [kid_of_stmt]; try (intros []); split_entry; cbn;
    try (intros [H|[]]; inversion H; subst; left; reflexivity); try (intros []).
Qed.

Lemma top_entry_len t stmts s : (List.length (top_entry du t (dkids t) stmts s) <= 1)%nat.
Proof.
  unfold top_entry. destruct s; cbn [kid_of_stmt List.length]; try lia; split_entry; cbn; lia.
Qed.

(* the dst node built for an ast node *)
Definition dres (t : tree) : tree := dt_res (dbuildD du tbl att t).

Lemma dres_eq t : dres t = dnodeD du tbl att t (dkids t).
Proof. apply dt_res_dbuildD. Qed.

Lemma dres_id_kind t stmts : lookup tbl (tkind t) = Some stmts -> tid (dres t) = tid t /\ tkind (dres t) = tkind t /\
  tkids (dres t) = kids_top du t (dkids t) stmts.
Proof. intros E. rewrite dres_eq. unfold dnodeD. rewrite E. repeat split. Qed.

Definition under_entry (t : tree) (g : string) (s : nstmt) : list (string * kid tree) :=
  match kid_of_stmt (dkids t) s with
  | Some ([g'; f], x) => if String.eqb g' g then [(f, x)] else []
  | _ => []
  end.

Lemma kids_under_entry t g stmts : kids_under (dkids t) [g] stmts = flat_map (under_entry t g) stmts.
Proof.
  unfold kids_under. apply flat_map_ext. intros s. unfold under_entry.
  destruct (kid_of_stmt (dkids t) s) as [[o x]|]; [|reflexivity].
  destruct o as [|a [|b [|? ?]]]; reflexivity.
Qed.

Lemma under_entry_key t g s f x : In (f, x) (under_entry t g s) -> In f (nested_field g s).
Proof.
  unfold under_entry, nested_field. destruct s; cbn [kid_of_stmt]; try (intros []); split_entry; cbn;
    try (destruct (String.eqb _ g); cbn; try (intros [H|[]]; inversion H; subst; left; reflexivity)); try (intros []).
Qed.

Lemma under_entry_len t g s : (List.length (under_entry t g s) <= 1)%nat.
Proof.
  unfold under_entry. destruct s; cbn [kid_of_stmt List.length]; try lia; split_entry; cbn; try lia;
    destruct (String.eqb _ g); cbn; lia.
Qed.

(* the children the decorator descends into are the children of the dst node at the out paths *)
Lemma child_stored t stmts s p o b c :
  lookup tbl (tkind t) = Some stmts -> case_wf stmts = true -> In s stmts ->
  In (p, b) (nstmt_in s) -> In (o, b) (nstmt_out s) -> child_at b t p c -> child_at b (dres t) o (dres c).
Proof.
  intros E Hwf Hs Hin Hout Hc.
  destruct (dres_id_kind t stmts E) as [_ [_ Hk]].
  apply andb_true_iff in Hwf. destruct Hwf as [Hnd Hshape].
  apply nodup_string_NoDup in Hnd. rewrite forallb_forall in Hshape. specialize (Hshape s Hs).
  (* the value stored for this statement *)
  assert (Hval : exists x, kid_of_stmt (dkids t) s = Some (o, x) /\
                           ((b = false /\ x = One (Some (dres c))) \/ (b = true /\ exists l, x = Many l /\ In (dres c) l))).
  { destruct s; cbn [nstmt_in nstmt_out] in Hin, Hout; try (destruct Hin; fail).
    - destruct Hin as [Hi|[]]. destruct Hout as [Ho|[]]. inversion Hi; inversion Ho; subst.
      cbn [kid_of_stmt]. rewrite (dsub_one _ _ _ Hc). eexists. split; [reflexivity|left; split; reflexivity].
    - destruct Hin as [Hi|[]]. destruct Hout as [Ho|[]]. inversion Hi; inversion Ho; subst.
      cbn [kid_of_stmt]. destruct (dsub_many _ _ _ Hc) as [l [A B]]. rewrite A. eexists. split; [reflexivity|].
      right. split; [reflexivity|]. eexists. split; [reflexivity|]. rewrite map_map. apply in_map_iff. exists c. split; [reflexivity|exact B].
    - destruct Hin as [Hi|[]]. destruct Hout as [Ho|[]]. inversion Hi; inversion Ho; subst.
      cbn [out_shape_ok] in Hshape. destruct o as [|fo [|? ?]]; try discriminate.
      cbn [kid_of_stmt]. destruct (dsub_many _ _ _ Hc) as [l [A B]]. rewrite A. eexists. split; [reflexivity|].
      right. split; [reflexivity|]. eexists. split; [reflexivity|]. rewrite map_map. apply in_map_iff. exists c. split; [reflexivity|exact B]. }
  destruct Hval as [x [Hkid Hx]].
  assert (Hol : (exists f, o = [f]) \/ (exists g f, o = [g; f])).
  { destruct s; cbn [nstmt_in nstmt_out] in Hin, Hout; try (destruct Hin; fail);
      destruct Hout as [Ho|[]]; inversion Ho; subst; cbn [out_shape_ok] in Hshape;
      destruct o as [|a [|b0 [|? ?]]]; try discriminate; eauto. }
  assert (Hfinish : forall kids f, lookup kids f = Some x -> forall nd, tkids nd = kids -> child_at b nd [f] (dres c)).
  { intros kids f Hl nd Hnk. destruct Hx as [[-> ->]|[-> [l [-> Hl2]]]].
    - apply ca_one. rewrite Hnk. exact Hl.
    - eapply ca_many; [rewrite Hnk; exact Hl|exact Hl2]. }
  destruct Hol as [[f ->]|[g [f ->]]].
  - apply (Hfinish (kids_top du t (dkids t) stmts) f); [|exact Hk].
    unfold kids_top. apply (lookup_flat_map_entry (top_entry du t (dkids t) stmts) top_field
                             (top_entry_key t stmts) (top_entry_len t stmts) stmts Hnd s f x Hs).
    unfold top_entry. rewrite Hkid. destruct s; cbn [nstmt_in] in Hin; try (destruct Hin; fail); reflexivity.
  - (* through the NInit child g *)
    assert (Hsh : existsb (fun s' => match s' with NInit [g'] _ => String.eqb g' g | _ => false end) stmts = true /\
                  nodup_string (flat_map (nested_field g) stmts) = true).
    { destruct s; cbn [nstmt_in nstmt_out] in Hin, Hout; try (destruct Hin; fail);
        destruct Hout as [Ho|[]]; inversion Ho; subst; cbn [out_shape_ok] in Hshape; try discriminate; apply andb_true_iff in Hshape; exact Hshape. }
    destruct Hsh as [Hinit Hnd2]. apply existsb_exists in Hinit. destruct Hinit as [si [Hsi Hmi]].
    destruct si as [| | | | |pi ty| | | | | | | | | |]; try discriminate. destruct pi as [|g' [|? ?]]; try discriminate.
    apply String.eqb_eq in Hmi. subst g'.
    set (id := match dsub (dkids t) [g] with Some (One (Some c0)) => tid (dt_tree c0) | _ => 0%N end).
    set (m := Node id ty (vals_under t (dkids t) [g] stmts) (kids_under (dkids t) [g] stmts)
                   (match lookup du ty with Some ps => map (fun p => (p, [])) ps | None => [] end) SNone SNone).
    assert (Hm : lookup (kids_top du t (dkids t) stmts) g = Some (One (Some m))).
    { unfold kids_top. apply (lookup_flat_map_entry (top_entry du t (dkids t) stmts) top_field
                               (top_entry_key t stmts) (top_entry_len t stmts) stmts Hnd (NInit [g] ty) g _ Hsi). reflexivity. }
    eapply ca_nest; [rewrite Hk; exact Hm|].
    apply (Hfinish (kids_under (dkids t) [g] stmts) f); [|reflexivity].
    rewrite kids_under_entry. apply nodup_string_NoDup in Hnd2.
    apply (lookup_flat_map_entry (under_entry t g) (nested_field g) (under_entry_key t g) (under_entry_len t g) stmts Hnd2 s f x Hs).
    unfold under_entry. rewrite Hkid, String.eqb_refl. reflexivity.
Qed.

(* the decoration points of the dst node *)
Lemma lookup_map_self (g : string -> list dec) ps p : In p ps -> lookup (map (fun p => (p, g p)) ps) p = Some (g p).
Proof.
  induction ps as [|q r IH]; [intros []|]. cbn [map lookup]. destruct (String.eqb_spec p q) as [->|Hne]; [reflexivity|].
  intros [->|H]; [contradiction|apply IH; exact H].
Qed.

Lemma decs_stored t stmts ps p :
  lookup tbl (tkind t) = Some stmts -> lookup du (tkind t) = Some ps -> In p ps -> In p (nd_points stmts) ->
  lookup (tdecs (dres t)) p = Some (dget (l_decs att) (tid t, p)).
Proof.
  intros E Eu Hp Hn. rewrite dres_eq. unfold dnodeD. rewrite E, Eu. cbn [tdecs].
  rewrite (lookup_map_self (fun p => if existsb (String.eqb p) (nd_points stmts) then dget (l_decs att) (tid t, p) else []) ps p Hp).
  assert (Hex : existsb (String.eqb p) (nd_points stmts) = true) by (apply existsb_exists; exists p; split; [exact Hn|apply String.eqb_refl]).
  rewrite Hex. reflexivity.
Qed.

(* reachability carries over to the dst tree *)
Theorem reach_stored :
  tbl_wf = true ->
  forall t t', reach dec_in_paths t t' -> reach dec_out_paths (dres t) (dres t').
Proof.
  intros Hwf t t' H. induction H as [t|t p b c t' Hin Hc Hr IH]; [apply r_refl|].
  unfold dec_in_paths in Hin. destruct (lookup tbl (tkind t)) as [stmts|] eqn:E; [|destruct Hin].
  apply in_flat_map in Hin. destruct Hin as [s [Hs Hi]]. apply filter_In in Hs. destruct Hs as [Hs Hkeep].
  assert (Hcase : case_wf stmts = true).
  { unfold tbl_wf in Hwf. rewrite forallb_forall in Hwf.
    assert (Hl : In (tkind t, stmts) tbl).
    { clear -E. induction tbl as [|[k v] r IHr]; cbn in E; [discriminate|]. destruct (String.eqb (tkind t) k) eqn:Ek.
      - apply String.eqb_eq in Ek. inversion E; subst. left. reflexivity.
      - right. apply IHr. exact E. }
    apply (Hwf _ Hl). }
  (* the out path of the same statement *)
  assert (Ho : exists o, In (o, b) (nstmt_out s)).
  { destruct s; cbn [nstmt_in] in Hi; try (destruct Hi; fail); destruct Hi as [Hi|[]]; inversion Hi; subst; cbn [nstmt_out]; eexists; left; reflexivity. }
  destruct Ho as [o Ho].
  destruct (dres_id_kind t stmts E) as [_ [Hk _]].
  eapply r_step; [|apply (child_stored t stmts s p o b c E Hcase Hs Hi Ho Hc)|exact IH].
  unfold dec_out_paths. rewrite Hk, E. apply in_flat_map. exists s. split; [apply filter_In; split; [exact Hs|exact Hkeep]|exact Ho].
Qed.

End Dec.

(* the spacing link computed for a node is the spacing of its dst node *)
Lemma spacing_stored du tbl att t stmts :
  lookup tbl (tkind t) = Some stmts -> stores_spacing stmts = true ->
  tbefore (dres du tbl att t) = space_of (l_before att) (tid t) /\ tafter (dres du tbl att t) = space_of (l_after att) (tid t).
Proof.
  intros E Hs. rewrite dres_eq. unfold dnodeD. rewrite E. unfold stores_spacing in Hs.
  apply andb_true_iff in Hs. destruct Hs as [H1 H2]. cbn [tbefore tafter]. rewrite H1, H2. split; reflexivity.
Qed.

(* no case assigns the identifier path: without a resolver the dst identifiers carry none *)
Definition sets_no_path (stmts : list nstmt) : bool :=
  forallb (fun s => match s with NSet ("Path" :: _) _ => false | NSet [_; "Path"] _ => false | _ => true end) stmts.

Definition top_val (t : tree) (dk : list (string * kid dtree)) (s : nstmt) : list (string * val) :=
  match s with
  | NSet [f] v => match set_value t dk v with Some x => [(f, x)] | None => [] end
  | _ => []
  end.

Lemma vals_under_top t dk stmts : vals_under t dk [] stmts = flat_map (top_val t dk) stmts.
Proof.
  unfold vals_under. apply flat_map_ext. intros s. destruct s; try reflexivity.
  destruct o as [|f [|g [|? ?]]]; reflexivity.
Qed.

Lemma no_path_in_vals t dk : forall stmts, sets_no_path stmts = true -> lookup (flat_map (top_val t dk) stmts) "Path" = None.
Proof.
  assert (Hl : forall (l1 l2 : list (string * val)), (forall x, In x l1 -> fst x <> "Path"%string) -> lookup (l1 ++ l2) "Path" = lookup l2 "Path").
  { induction l1 as [|[k v] l1 IHl]; intros l2 Hn; [reflexivity|]. cbn [app lookup].
    destruct (String.eqb_spec "Path" k) as [<-|Hne]; [exfalso; apply (Hn ("Path"%string, v)); [left; reflexivity|reflexivity]|].
    apply IHl. intros x Hx. apply Hn. right. exact Hx. }
  unfold sets_no_path. induction stmts as [|s r IH]; intros Hs; [reflexivity|].
  cbn [forallb] in Hs. apply andb_true_iff in Hs. destruct Hs as [H1 H2]. cbn [flat_map].
  rewrite Hl; [apply IH; exact H2|].
  intros x Hx. unfold top_val in Hx. destruct s; try (destruct Hx; fail). destruct o as [|f [|g rest]]; try (destruct Hx; fail).
  destruct (set_value _ _ _); [|destruct Hx]. destruct Hx as [<-|[]]. cbn [fst]. intros ->. discriminate.
Qed.

Lemma no_path_val du tbl att t stmts :
  lookup tbl (tkind t) = Some stmts -> sets_no_path stmts = true -> lookup (tvals (dres du tbl att t)) "Path" = None.
Proof.
  intros E Hs. rewrite dres_eq. unfold dnodeD. rewrite E. cbn [tvals]. rewrite vals_under_top. apply no_path_in_vals. exact Hs.
Qed.
