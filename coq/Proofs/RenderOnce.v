(* C04: in the action list of a whole file, the applyDecorations calls made for a node are exactly
   the calls of that node's own case -- each of its points once, in the order of the case, with the
   node's decorations -- whatever else is in the file: nothing of another node is attributed to it
   and no point is applied twice.  Hypothesis: the nodes entered are pairwise distinct (what the
   restorer itself checks: a node entered twice panics, C06). *)
From Coq Require Import List String ZArith NArith Bool Lia.
Import ListNotations.
From DV Require Import Model.Tree Model.Tables Model.Restore Model.RestoreChecks
     Proofs.TreeInd Proofs.FragReach Proofs.RestReach Proofs.CloneRender.
Local Open Scope string_scope.
Local Open Scope list_scope.

Definition is_dec_of (i : N) (a : action) : bool := match a with ADecs i' _ _ _ _ => N.eqb i' i | _ => false end.
Definition decs_of (i : N) (acts : list action) : list action := filter (is_dec_of i) acts.
Definition enters (a : action) : list N := match a with AEnter id => [id] | _ => [] end.
Definition E (acts : list action) : list N := flat_map enters acts.

Lemma filter_flat_map {A B} (f : B -> bool) (g : A -> list B) l :
  filter f (flat_map g l) = flat_map (fun x => filter f (g x)) l.
Proof. induction l as [|x r IH]; [reflexivity|]. cbn [flat_map]. rewrite filter_app, IH. reflexivity. Qed.

Lemma E_app a b : E (a ++ b) = E a ++ E b.
Proof. apply flat_map_app. Qed.

Lemma E_flat_map {A} (g : A -> list action) l : E (flat_map g l) = flat_map (fun x => E (g x)) l.
Proof. induction l as [|x r IH]; [reflexivity|]. cbn [flat_map]. rewrite E_app, IH. reflexivity. Qed.

Lemma In_E i acts : In i (E acts) <-> In (AEnter i) acts.
Proof.
  unfold E. rewrite in_flat_map. split.
  - intros [a [Ha Hi]]. destruct a; cbn in Hi; try contradiction. destruct Hi as [<-|[]]. exact Ha.
  - intros H. exists (AEnter i). split; [exact H|left; reflexivity].
Qed.

Lemma flat_map_nil {A B} (g : A -> list B) l : (forall x, In x l -> g x = []) -> flat_map g l = [].
Proof. induction l as [|x r IH]; intros H; [reflexivity|]. cbn [flat_map]. rewrite (H x (or_introl eq_refl)), IH; [reflexivity|]. intros y Hy. apply H. right. exact Hy. Qed.

Lemma NoDup_app_l {A} (a b : list A) : NoDup (a ++ b) -> NoDup a.
Proof. induction a as [|x r IH]; cbn; intros H; [constructor|]. inversion H as [|? ? Hn Hd]; subst. constructor; [intros X; apply Hn; apply in_or_app; left; exact X|apply IH; exact Hd]. Qed.

Lemma NoDup_app_r {A} (a b : list A) : NoDup (a ++ b) -> NoDup b.
Proof. induction a as [|x r IH]; cbn; intros H; [exact H|]. inversion H; subst. auto. Qed.

Lemma NoDup_app_disj {A} (a b : list A) x : NoDup (a ++ b) -> In x a -> ~ In x b.
Proof.
  induction a as [|y r IH]; cbn; intros H Hx; [destruct Hx|]. inversion H as [|? ? Hn Hd]; subst.
  destruct Hx as [->|Hx]; [intros X; apply Hn; apply in_or_app; right; exact X|apply IH; assumption].
Qed.

Lemma NoDup_flat_map_part {X} (Fi : X -> list N) (L : list X) a : NoDup (flat_map Fi L) -> In a L -> NoDup (Fi a).
Proof.
  induction L as [|b r IH]; intros H Ha; [destruct Ha|]. cbn [flat_map] in H. destruct Ha as [->|Ha].
  - exact (NoDup_app_l _ _ H).
  - apply IH; [exact (NoDup_app_r _ _ H)|exact Ha].
Qed.

(* among disjoint parts only the one that contains i contributes *)
Lemma collapse {X} (Fi : X -> list N) (G : X -> list action) (L : list X) (i : N) :
  NoDup (flat_map Fi L) -> (forall a, In a L -> ~ In i (Fi a) -> G a = []) ->
  forall a, In a L -> In i (Fi a) -> flat_map G L = G a.
Proof.
  induction L as [|b r IH]; intros Hnd Hz a Ha Hi; [destruct Ha|]. cbn [flat_map] in *.
  destruct Ha as [->|Ha].
  - rewrite flat_map_nil; [apply app_nil_r|]. intros x Hx. apply Hz; [right; exact Hx|].
    intros X. apply (NoDup_app_disj _ _ i Hnd Hi). apply in_flat_map. exists x. split; assumption.
  - assert (Hb : ~ In i (Fi b)).
    { intros X. apply (NoDup_app_disj _ _ i Hnd X). apply in_flat_map. exists a. split; assumption. }
    rewrite (Hz b (or_introl eq_refl) Hb). cbn [app].
    apply IH; [exact (NoDup_app_r _ _ Hnd)|intros x Hx; apply Hz; right; exact Hx|exact Ha|exact Hi].
Qed.

Lemma existsb_false_in {A} (f : A -> bool) l x : existsb f l = false -> In x l -> f x = false.
Proof. intros H Hx. destruct (f x) eqn:E; [|reflexivity]. rewrite <- H. symmetry. apply existsb_exists. exists x. split; assumption. Qed.

(* ---- what one statement emits ------------------------------------------------------------------------ *)
Definition quiet_act (a : action) : Prop := match a with ADecs _ _ _ _ _ | AEnter _ => False | _ => True end.
Definition own_act (t : tree) (a : action) : Prop :=
  match a with ADecs i _ _ _ _ => i = tid t | AEnter _ => False | _ => True end.

Definition is_child_stmt (s : rstmt) : bool :=
  match s with RNode _ _ _ _ _ | RList _ _ _ _ _ | RMapNodes _ _ _ _ _ => true | _ => false end.

Definition nested_quiet (s : rstmt) : bool :=
  match s with RIf _ th el => negb (existsb emits th || existsb emits el) | _ => true end.

Ltac crush_in H :=
  repeat match type of H with
         | In _ (match ?x with _ => _ end) => destruct x
         end;
  cbn in H; repeat (destruct H as [H|H]; [subst; exact I|]); try contradiction.

Lemma quiet_stmt t rk : forall n s, (ssize s <= n)%nat -> emits s = false ->
  forall a, In a (stmt_acts t rk s) -> quiet_act a.
Proof.
  induction n as [|n IH]; intros s Hn He a Ha; [destruct s; cbn in Hn; lia|].
  destruct s; cbn [emits] in He; try discriminate; try (cbn [stmt_acts] in Ha; crush_in Ha; fail).
  rewrite stmt_acts_if in Ha. apply orb_false_iff in He. destruct He as [E1 E2]. cbn [ssize] in Hn.
  destruct (eval_cond t rk c) as [[|]|]; [| |destruct Ha as [<-|[]]; exact I].
  - apply in_flat_map in Ha. destruct Ha as [x [Hx Hax]]. apply (IH x); [assert (X := ssize_in th x Hx); lia|exact (existsb_false_in _ _ _ E1 Hx)|exact Hax].
  - apply in_flat_map in Ha. destruct Ha as [x [Hx Hax]]. apply (IH x); [assert (X := ssize_in el x Hx); lia|exact (existsb_false_in _ _ _ E2 Hx)|exact Hax].
Qed.

Lemma quiet_own t a : quiet_act a -> own_act t a.
Proof. destruct a; cbn; auto. Qed.

Lemma own_stmt t rk s : is_child_stmt s = false -> nested_quiet s = true ->
  forall a, In a (stmt_acts t rk s) -> own_act t a.
Proof.
  intros Hc Hq a Ha. destruct s; try discriminate; try (cbn [stmt_acts] in Ha; crush_in Ha; fail).
  - (* RDec *) cbn [stmt_acts] in Ha. destruct (Restore.owner t rk owner) as [o|]; [destruct (lookup (tdecs o) point)|]; destruct Ha as [<-|[]]; cbn; auto.
  - (* RIf *) apply quiet_own. cbn [nested_quiet] in Hq. apply negb_true_iff in Hq.
    apply (quiet_stmt t rk (ssize (RIf c th el)) (RIf c th el) (le_n _)); [exact Hq|exact Ha].
Qed.

Lemma own_no_decs t i l : i <> tid t -> (forall a, In a l -> own_act t a) -> decs_of i l = [].
Proof.
  intros Hi H. unfold decs_of. induction l as [|a r IH]; [reflexivity|]. cbn [filter].
  assert (Ha := H a (or_introl eq_refl)). rewrite IH; [|intros x Hx; apply H; right; exact Hx].
  destruct a; cbn in *; try reflexivity. subst id. destruct (N.eqb_spec (tid t) i) as [X|_]; [congruence|reflexivity].
Qed.

Lemma own_no_enters t l : (forall a, In a l -> own_act t a) -> E l = [].
Proof.
  intros H. unfold E. apply flat_map_nil. intros a Ha. specialize (H a Ha). destruct a; cbn in *; try reflexivity. contradiction.
Qed.

Lemma kid_acts_list (k : kid rtree) : kid_acts k = flat_map rt_acts (kid_list k).
Proof. destruct k as [[r|]|l]; cbn; [rewrite app_nil_r|..]; reflexivity. Qed.

Section Once.
Variables (tbl : list (string * list rstmt)) (managed : bool) (pkg : N -> option Z).

Let F := flatten tbl managed pkg.
Let B := build tbl managed pkg.
Let RK := rkids tbl managed pkg.

(* the table: no statement nested in a condition emits or traverses *)
Definition tbl_quiet : bool := forallb (fun e => forallb nested_quiet (snd e)) tbl.
Hypothesis Hquiet : tbl_quiet = true.

Lemma case_quiet k stmts s : lookup tbl k = Some stmts -> In s stmts -> nested_quiet s = true.
Proof.
  intros Hl Hs. unfold tbl_quiet in Hquiet. rewrite forallb_forall in Hquiet.
  specialize (Hquiet _ (lookup_In_tbl _ _ _ Hl)). cbn [snd] in Hquiet. rewrite forallb_forall in Hquiet. exact (Hquiet s Hs).
Qed.

(* the restored children a statement traverses are the restored trees of the node's children *)
Lemma sub_kids : forall p t k, sub (RK t) p = Some k -> forall r, In r (kid_list k) -> exists b c, child_at b t p c /\ r = B c.
Proof.
  induction p as [|f p IH]; intros t k Hs r Hr; [discriminate|].
  destruct p as [|g rest].
  - cbn [sub] in Hs. unfold RK, rkids in Hs. rewrite lookup_map_kids in Hs.
    destruct (lookup (tkids t) f) as [[[c|]|l]|] eqn:El; cbn in Hs; inversion Hs; subst; cbn [kid_list] in Hr.
    + destruct Hr as [<-|[]]. exists false, c. split; [apply ca_one; exact El|reflexivity].
    + destruct Hr.
    + apply in_map_iff in Hr. destruct Hr as [c [<- Hc]]. exists true, c. split; [apply (ca_many _ _ l); assumption|reflexivity].
  - change (sub (RK t) (f :: g :: rest)) with (match lookup (RK t) f with Some (One (Some r)) => sub (rt_kids r) (g :: rest) | _ => None end) in Hs.
    unfold RK, rkids in Hs. rewrite lookup_map_kids in Hs.
    destruct (lookup (tkids t) f) as [[[m|]|l]|] eqn:El; cbn in Hs; try discriminate.
    rewrite rt_kids_build in Hs. destruct (IH m k Hs r Hr) as [b [c [Hc Hrc]]].
    exists b, c. split; [apply (ca_nest b t f m g rest c El Hc)|exact Hrc].
Qed.

Lemma child_stmt_acts t s : is_child_stmt s = true ->
  exists kids, stmt_acts t (RK t) s = flat_map rt_acts kids /\
               forall r, In r kids -> exists b c p, child_at b t p c /\ r = B c.
Proof.
  intros Hc. destruct s; try discriminate; cbn [stmt_acts];
    (destruct (sub (RK t) p) as [k|] eqn:Es;
     [exists (kid_list k); split; [apply kid_acts_list|intros r Hr; destruct (sub_kids p t k Es r Hr) as [b [c [H1 H2]]]; exists b, c, p; split; assumption]
     |exists []; split; [reflexivity|intros r []]]).
Qed.

(* ---- an id that is not entered gets no decoration call ------------------------------------------------ *)
Definition absent_ok (t : tree) : Prop := forall i, i <> 0%N -> ~ In i (E (F t)) -> decs_of i (F t) = [].

Lemma stmt_absent t s i :
  (forall b c p, child_at b t p c -> absent_ok c) -> nested_quiet s = true ->
  i <> 0%N -> i <> tid t -> ~ In i (E (stmt_acts t (RK t) s)) -> decs_of i (stmt_acts t (RK t) s) = [].
Proof.
  intros IH Hq Hi0 Hit Hne. destruct (is_child_stmt s) eqn:Ec.
  - destruct (child_stmt_acts t s Ec) as [kids [Eq Hk]]. rewrite Eq in *. unfold decs_of. rewrite filter_flat_map.
    apply flat_map_nil. intros r Hr. destruct (Hk r Hr) as [b [c [p [Hc ->]]]].
    apply (IH b c p Hc i Hi0). intros X. apply Hne. rewrite E_flat_map. apply in_flat_map. exists (B c). split; [exact Hr|exact X].
  - apply (own_no_decs t); [exact Hit|apply own_stmt; assumption].
Qed.

Lemma selector_own t nl a : In a (selector_acts t nl) -> match a with ADecs i _ _ _ _ => i = tid t \/ i = 0%N | AEnter _ => False | _ => True end.
Proof. unfold selector_acts. cbn [In]. intros H. repeat (destruct H as [<-|H]; [cbn; auto|]). destruct H. Qed.

Lemma absent_all : forall n t, (size t <= n)%nat -> absent_ok t.
Proof.
  induction n as [|n IH]; intros t Hn; [destruct t; cbn in Hn; lia|].
  intros i Hi0 Hne. unfold F, flatten in *. rewrite (rt_acts_build tbl managed pkg t) in *. fold (RK t) in *.
  unfold node_acts in *. cbn [E flat_map enters app] in Hne.
  assert (Hit : i <> tid t) by (intros ->; apply Hne; left; reflexivity).
  assert (Hrest : ~ In i (E (match tbl_parts tbl (RUnknown "no case") (tkind t) with
                             | RIdentHook :: rest => let pu := ident_path_uid t in
                                 if N.eqb pu 0 then stmts_acts t (RK t) rest
                                 else if managed then match pkg pu with Some nl => selector_acts t nl | None => stmts_acts t (RK t) rest end
                                 else [APanic "path without resolver"]
                             | stmts => stmts_acts t (RK t) stmts end))) by (intros X; apply Hne; right; exact X).
  unfold decs_of. cbn [filter is_dec_of]. fold (decs_of i).
  assert (IHc : forall b c p, child_at b t p c -> absent_ok c).
  { intros b c p Hc. apply IH. assert (X := child_at_size b t p c Hc). lia. }
  assert (Hstmts : forall S, (forall s, In s S -> nested_quiet s = true) -> ~ In i (E (stmts_acts t (RK t) S)) -> decs_of i (stmts_acts t (RK t) S) = []).
  { intros S HS Hn'. unfold stmts_acts in *. unfold decs_of. rewrite filter_flat_map. apply flat_map_nil. intros s Hs.
    apply (stmt_absent t s i IHc (HS s Hs) Hi0 Hit). intros X. apply Hn'. rewrite E_flat_map. apply in_flat_map. exists s. split; assumption. }
  unfold tbl_parts in *. destruct (lookup tbl (tkind t)) as [stmts|] eqn:El.
  2:{ reflexivity. }
  assert (HQ : forall s, In s stmts -> nested_quiet s = true) by (intros s Hs; apply (case_quiet _ _ _ El Hs)).
  destruct stmts as [|s0 rest]; [reflexivity|].
  destruct s0; try (apply Hstmts; [exact HQ|exact Hrest]).
  (* the identifier hook *)
  assert (HQr : forall s, In s rest -> nested_quiet s = true) by (intros s Hs; apply HQ; right; exact Hs).
  cbv zeta in *. destruct (N.eqb (ident_path_uid t) 0); [apply Hstmts; assumption|].
  destruct managed; [|reflexivity]. destruct (pkg (ident_path_uid t)); [|apply Hstmts; assumption].
  unfold decs_of. clear Hrest. generalize (selector_own t z). generalize (selector_acts t z). intros l Hl.
  induction l as [|a r IHl]; [reflexivity|]. cbn [filter]. rewrite IHl; [|intros x Hx; apply Hl; right; exact Hx].
  specialize (Hl a (or_introl eq_refl)). destruct a; cbn in *; try reflexivity.
  destruct Hl as [->| ->]; [destruct (N.eqb_spec (tid t) i); [congruence|reflexivity]|destruct (N.eqb_spec 0 i); [congruence|reflexivity]].
Qed.

Lemma absent t : absent_ok t.
Proof. apply (absent_all (size t) t (le_n _)). Qed.

(* ---- one step down: the calls for an id entered below a child are the child's ------------------------ *)
Lemma step_down t p b c :
  plain_case tbl (tkind t) = true -> In (p, b) (rest_in_paths tbl (tkind t)) -> child_at b t p c ->
  forall i, i <> 0%N -> NoDup (E (F t)) -> In i (E (F c)) ->
  decs_of i (F t) = decs_of i (F c) /\ NoDup (E (F c)).
Proof.
  intros Hplain Hin Hc i Hi0 Hnd Hic.
  unfold F, flatten in Hnd |- *. rewrite (rt_acts_build tbl managed pkg t) in *. fold (RK t) in *.
  unfold node_acts, tbl_parts in *. unfold rest_in_paths in Hin. unfold plain_case in Hplain.
  destruct (lookup tbl (tkind t)) as [stmts|] eqn:El; [|destruct Hin].
  assert (HQ : forall s, In s stmts -> nested_quiet s = true) by (intros s Hs; apply (case_quiet _ _ _ El Hs)).
  (* the case is executed as it stands *)
  assert (Hform : (match stmts with
                   | RIdentHook :: rest => let pu := ident_path_uid t in
                       if N.eqb pu 0 then stmts_acts t (RK t) rest
                       else if managed then match pkg pu with Some nl => selector_acts t nl | None => stmts_acts t (RK t) rest end
                       else [APanic "path without resolver"]
                   | _ => stmts_acts t (RK t) stmts end) = stmts_acts t (RK t) stmts).
  { destruct stmts as [|s0 r]; [reflexivity|]. destruct s0; try reflexivity.
    exfalso. cbn [flat_map rstmt_in app] in Hin. destruct (flat_map rstmt_in r); [destruct Hin|discriminate]. }
  rewrite Hform in *. clear Hform.
  cbn [E flat_map enters app] in Hnd. inversion Hnd as [|? ? Hhead Hnd']; subst. fold (E (stmts_acts t (RK t) stmts)) in *.
  apply in_flat_map in Hin. destruct Hin as [s0 [Hs0 Hps]].
  assert (Ec : is_child_stmt s0 = true) by (destruct s0; cbn in Hps; try contradiction; reflexivity).
  (* the restored child is among the children the statement traverses *)
  assert (Hkid : exists kids, stmt_acts t (RK t) s0 = flat_map rt_acts kids /\ In (B c) kids /\
                 forall r, In r kids -> exists b' c' p', child_at b' t p' c' /\ r = B c').
  { destruct s0; cbn in Hps; try contradiction; destruct Hps as [Hps|[]]; inversion Hps; subst; cbn [stmt_acts].
    - rewrite (sub_one tbl managed pkg _ _ _ Hc). exists [B c]. split; [cbn; rewrite app_nil_r; reflexivity|]. split; [left; reflexivity|].
      intros r [<-|[]]. exists false, c, p. split; [exact Hc|reflexivity].
    - destruct (sub_many tbl managed pkg _ _ _ Hc) as [l [A1 A2]]. fold (RK t) in A1. rewrite A1. exists (map B l). split; [reflexivity|]. split; [apply in_map; exact A2|].
      intros r Hr. apply (sub_kids _ _ _ A1 r Hr).
    - destruct (sub_many tbl managed pkg _ _ _ Hc) as [l [A1 A2]]. fold (RK t) in A1. rewrite A1. exists (map B l). split; [reflexivity|]. split; [apply in_map; exact A2|].
      intros r Hr. destruct (sub_kids _ _ _ A1 r Hr) as [b' [c' [H1 H2]]]. exists b', c', p. split; assumption. }
  destruct Hkid as [kids [Eq [Hck Hall]]].
  assert (Hi_s0 : In i (E (stmt_acts t (RK t) s0))).
  { rewrite Eq, E_flat_map. apply in_flat_map. exists (B c). split; [exact Hck|exact Hic]. }
  assert (Hit : i <> tid t).
  { intros ->. apply Hhead. unfold stmts_acts. rewrite E_flat_map. apply in_flat_map. exists s0. split; assumption. }
  unfold stmts_acts in Hnd'. rewrite E_flat_map in Hnd'.
  assert (IHc : forall b' c' p', child_at b' t p' c' -> absent_ok c') by (intros; apply absent).
  unfold decs_of at 1. cbn [filter is_dec_of]. fold (decs_of i). unfold stmts_acts, decs_of at 1. rewrite filter_flat_map.
  rewrite (collapse (fun s => E (stmt_acts t (RK t) s)) (fun s => filter (is_dec_of i) (stmt_acts t (RK t) s)) stmts i Hnd'
                    (fun s Hs Hn => stmt_absent t s i IHc (HQ s Hs) Hi0 Hit Hn) s0 Hs0 Hi_s0).
  assert (Hnd0 : NoDup (E (stmt_acts t (RK t) s0))) by (apply (NoDup_flat_map_part (fun s => E (stmt_acts t (RK t) s)) stmts s0 Hnd' Hs0)).
  rewrite Eq in Hnd0 |- *. rewrite E_flat_map in Hnd0. rewrite filter_flat_map.
  rewrite (collapse (fun r => E (rt_acts r)) (fun r => filter (is_dec_of i) (rt_acts r)) kids i Hnd0
                    (fun r Hr Hn => match Hall r Hr with ex_intro _ b' (ex_intro _ c' (ex_intro _ p' (conj Hch Hre))) =>
                                      eq_ind_r (fun r0 => ~ In i (E (rt_acts r0)) -> filter (is_dec_of i) (rt_acts r0) = []) (fun Hn' => absent c' i Hi0 Hn') Hre Hn end)
                    (B c) Hck Hic).
  split; [reflexivity|]. apply (NoDup_flat_map_part (fun r => E (rt_acts r)) kids (B c) Hnd0 Hck).
Qed.

Lemma enters_self t : In (tid t) (E (F t)).
Proof. unfold F, flatten. rewrite (rt_acts_build tbl managed pkg t). unfold node_acts. left. reflexivity. Qed.

Hypothesis Hplain : forall k, plain_case tbl k = true.

(* ---- the theorem ---------------------------------------------------------------------------------------- *)
Theorem decs_of_node_are_its_own :
  forall t n, reach (rest_in_paths tbl) t n -> tid n <> 0%N -> NoDup (E (F t)) ->
  decs_of (tid n) (F t) = decs_of (tid n) (F n) /\ NoDup (E (F n)).
Proof.
  intros t n H. induction H as [t|t p b c n Hin Hc Hr IH]; intros Hn0 Hnd; [split; [reflexivity|exact Hnd]|].
  assert (Hic : In (tid n) (E (F c))).
  { apply In_E. apply (reach_acts_included tbl managed pkg Hplain c n Hr). apply In_E. apply enters_self. }
  destruct (step_down t p b c (Hplain _) Hin Hc (tid n) Hn0 Hnd Hic) as [E1 Hndc].
  destruct (IH Hn0 Hndc) as [E2 Hndn]. split; [rewrite E1; exact E2|exact Hndn].
Qed.

(* the calls for a node inside its own action list come from the statements of its case, not from
   its children *)
Definition stmts_own (t : tree) (S : list rstmt) : list action :=
  flat_map (fun s => if is_child_stmt s then [] else stmt_acts t (RK t) s) S.

Definition own_acts (t : tree) : list action :=
  match tbl_parts tbl (RUnknown "no case") (tkind t) with
  | RIdentHook :: rest =>
    let pu := ident_path_uid t in
    if N.eqb pu 0 then stmts_own t rest
    else if managed then match pkg pu with Some nl => selector_acts t nl | None => stmts_own t rest end
    else [APanic "path without resolver"]
  | stmts => stmts_own t stmts
  end.

Lemma stmts_own_decs t S :
  ~ In (tid t) (E (stmts_acts t (RK t) S)) -> tid t <> 0%N ->
  decs_of (tid t) (stmts_acts t (RK t) S) = decs_of (tid t) (stmts_own t S).
Proof.
  intros Hne H0. unfold stmts_acts, stmts_own, decs_of. rewrite !filter_flat_map.
  induction S as [|s r IH]; [reflexivity|]. cbn [flat_map] in *. rewrite E_app in Hne.
  rewrite IH; [|intros X; apply Hne; apply in_or_app; right; exact X]. f_equal.
  destruct (is_child_stmt s) eqn:Ec; [|reflexivity]. cbn [filter].
  destruct (child_stmt_acts t s Ec) as [kids [Eq Hk]]. rewrite Eq in *. rewrite filter_flat_map. apply flat_map_nil.
  intros x Hx. destruct (Hk x Hx) as [b [c [p [Hc ->]]]]. apply (absent c (tid t) H0).
  intros X. apply Hne. apply in_or_app. left. rewrite E_flat_map. apply in_flat_map. exists (B c). split; assumption.
Qed.

Theorem own_decs_only t :
  tid t <> 0%N -> NoDup (E (F t)) -> decs_of (tid t) (F t) = decs_of (tid t) (own_acts t).
Proof.
  intros H0 Hnd. unfold F, flatten in *. rewrite (rt_acts_build tbl managed pkg t) in *. fold (RK t) in *.
  unfold node_acts, own_acts in *. cbn [E flat_map enters app] in Hnd. inversion Hnd as [|? ? Hhead _]; subst.
  unfold decs_of at 1. cbn [filter is_dec_of]. fold (decs_of (tid t)).
  destruct (tbl_parts tbl (RUnknown "no case") (tkind t)) as [|s0 rest]; [reflexivity|].
  destruct s0; try (apply stmts_own_decs; assumption).
  cbv zeta in *. destruct (N.eqb (ident_path_uid t) 0); [apply stmts_own_decs; assumption|].
  destruct managed; [|reflexivity]. destruct (pkg (ident_path_uid t)); [reflexivity|apply stmts_own_decs; assumption].
Qed.

Theorem decorations_rendered_exactly_once :
  forall t n, reach (rest_in_paths tbl) t n -> tid n <> 0%N -> NoDup (E (F t)) ->
  decs_of (tid n) (F t) = decs_of (tid n) (own_acts n).
Proof.
  intros t n Hr H0 Hnd. destruct (decs_of_node_are_its_own t n Hr H0 Hnd) as [E1 Hndn].
  rewrite E1. apply own_decs_only; assumption.
Qed.

End Once.
