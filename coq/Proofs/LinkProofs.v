(* C03: link attaches every comment (or panics); attached comments are in the decorations. *)
From Coq Require Import List String ZArith NArith Bool Lia.
Import ListNotations.
From DV Require Import Model.Tree Model.Link.
Local Open Scope list_scope.

(* ---- list updates -------------------------------------------------------------------------- *)
Lemma set_nth_length {A} (l : list A) i x : List.length (set_nth l i x) = List.length l.
Proof. revert i. induction l as [|y r IH]; intros [|i]; cbn; auto. Qed.

Lemma nth_set_nth_same {A} (l : list A) i x : i < List.length l -> nth_error (set_nth l i x) i = Some x.
Proof.
  revert i. induction l as [|y r IH]; intros i H; [cbn in H; lia|].
  destruct i as [|i]; [reflexivity|]. cbn. apply IH. cbn in H. lia.
Qed.

Lemma nth_set_nth_other {A} (l : list A) i k x : i <> k -> nth_error (set_nth l i x) k = nth_error l k.
Proof.
  revert i k. induction l as [|y r IH]; intros i k H; [destruct i; reflexivity|].
  destruct i as [|i], k as [|k]; cbn; try reflexivity; [contradiction|]. apply IH. lia.
Qed.

(* fragments up to the attachment field *)
Definition same_kind (a b : frag) : Prop :=
  match a, b with
  | FDec n c m s e, FDec n' c' m' s' e' => n = n' /\ c = c' /\ m = m' /\ s = s' /\ e = e'
  | FTok, FTok | FBad, FBad => True
  | FCom d i _, FCom d' i' _ => d = d' /\ i = i'
  | FNl e _, FNl e' _ => e = e'
  | _, _ => False
  end.

Lemma same_kind_refl a : same_kind a a.
Proof. destruct a; cbn; auto. Qed.

Lemma same_kind_trans a b c : same_kind a b -> same_kind b c -> same_kind a c.
Proof. destruct a, b, c; cbn; intuition congruence. Qed.

Definition attached (fr : frag) : bool := match fr with FCom _ _ None | FNl _ None => false | _ => true end.
Definition unattached_comment (fr : frag) : bool := match fr with FCom _ _ None => true | _ => false end.

(* s' is s with more attachments: same length, same kinds, attached stays attached *)
Definition extends (fs fs' : list frag) : Prop :=
  List.length fs' = List.length fs /\
  forall k fr, nth_error fs k = Some fr ->
    exists fr', nth_error fs' k = Some fr' /\ same_kind fr fr' /\ (attached fr = true -> attached fr' = true).

Lemma extends_refl fs : extends fs fs.
Proof. split; [reflexivity|]. intros k fr H. exists fr. split; [exact H|split; [apply same_kind_refl|auto]]. Qed.

Lemma extends_trans a b c : extends a b -> extends b c -> extends a c.
Proof.
  intros [L1 H1] [L2 H2]. split; [congruence|]. intros k fr H.
  destruct (H1 k fr H) as [fr1 [A [B C]]]. destruct (H2 k fr1 A) as [fr2 [D [E F]]].
  exists fr2. split; [exact D|split; [eapply same_kind_trans; eauto|auto]].
Qed.

Lemma dec_key_extends fs fs' j k : extends fs fs' -> dec_key fs j = Some k -> dec_key fs' j = Some k.
Proof.
  intros [_ H] Hk. unfold dec_key in *. destruct (nth_error fs j) as [fr|] eqn:E; [|discriminate].
  destruct (H j fr E) as [fr' [A [B _]]]. rewrite A. destruct fr; try discriminate. destruct fr'; cbn in B; try contradiction.
  destruct B as [-> [_ [-> _]]]. exact Hk.
Qed.

Lemma attach_one_extends j s i : extends (l_frags s) (l_frags (attach_one j s i)).
Proof.
  unfold attach_one. destruct (dec_key (l_frags s) j) as [k|]; [|apply extends_refl].
  destruct (nth_error (l_frags s) i) as [fr|] eqn:E; [|apply extends_refl].
  assert (Hi : i < List.length (l_frags s)) by (apply nth_error_Some; congruence).
  destruct fr; try apply extends_refl; cbn [l_frags].
  - split; [apply set_nth_length|]. intros k0 fr0 H0. destruct (Nat.eq_dec i k0) as [->|Hne].
    + rewrite nth_set_nth_same by exact Hi. eexists. split; [reflexivity|]. rewrite E in H0. inversion H0; subst. cbn. auto.
    + rewrite nth_set_nth_other by exact Hne. exists fr0. split; [exact H0|split; [apply same_kind_refl|auto]].
  - split; [apply set_nth_length|]. intros k0 fr0 H0. destruct (Nat.eq_dec i k0) as [->|Hne].
    + rewrite nth_set_nth_same by exact Hi. eexists. split; [reflexivity|]. rewrite E in H0. inversion H0; subst. cbn. auto.
    + rewrite nth_set_nth_other by exact Hne. exists fr0. split; [exact H0|split; [apply same_kind_refl|auto]].
Qed.

Lemma attach_cons s i r j : attach s (i :: r) j = attach (attach_one j s i) r j.
Proof. reflexivity. Qed.

Lemma attach_extends sw : forall s j, extends (l_frags s) (l_frags (attach s sw j)).
Proof.
  induction sw as [|i r IH]; intros s j; [apply extends_refl|]. rewrite attach_cons.
  eapply extends_trans; [apply attach_one_extends|apply IH].
Qed.

Lemma attach_one_panic j s i : l_panic (attach_one j s i) = l_panic s.
Proof. unfold attach_one. destruct (dec_key _ _); [|reflexivity]. destruct (nth_error _ _) as [[]|]; reflexivity. Qed.

Lemma attach_panic sw : forall s j, l_panic (attach s sw j) = l_panic s.
Proof. induction sw as [|i r IH]; intros s j; [reflexivity|]. rewrite attach_cons, IH. apply attach_one_panic. Qed.

(* attaching index i (an unattached comment) to a decoration fragment j attaches it *)
Lemma attach_one_attaches j s i d ind k :
  dec_key (l_frags s) j = Some k -> nth_error (l_frags s) i = Some (FCom d ind None) ->
  exists fr, nth_error (l_frags (attach_one j s i)) i = Some fr /\ attached fr = true.
Proof.
  intros Hk Hi. unfold attach_one. rewrite Hk, Hi. cbn [l_frags].
  assert (Hlt : i < List.length (l_frags s)) by (apply nth_error_Some; congruence).
  rewrite nth_set_nth_same by exact Hlt. eexists. split; [reflexivity|reflexivity].
Qed.

Lemma attach_attaches sw : forall s j i k d ind,
  In i sw -> dec_key (l_frags s) j = Some k ->
  nth_error (l_frags s) i = Some (FCom d ind None) ->
  exists fr, nth_error (l_frags (attach s sw j)) i = Some fr /\ attached fr = true.
Proof.
  induction sw as [|x r IH]; intros s j i k d ind Hin Hk Hi; [destruct Hin|]. rewrite attach_cons.
  destruct Hin as [->|Hin].
  - destruct (attach_one_attaches j s i d ind k Hk Hi) as [fr [A B]].
    destruct (attach_extends r (attach_one j s i) j) as [_ H]. destruct (H i fr A) as [fr' [C [_ D]]].
    exists fr'. split; [exact C|apply D; exact B].
  - pose proof (attach_one_extends j s x) as Hext.
    pose proof (dec_key_extends _ _ j k Hext Hk) as Hk'.
    destruct Hext as [_ Hx]. destruct (Hx i _ Hi) as [fr' [A [B _]]].
    destruct fr'; cbn in B; try contradiction. destruct B as [<- <-].
    destruct att as [a|].
    + destruct (attach_extends r (attach_one j s x) j) as [_ H]. destruct (H i _ A) as [fr2 [C [_ D]]].
      exists fr2. split; [exact C|apply D; reflexivity].
    + apply (IH (attach_one j s x) j i k d ind Hin Hk' A).
Qed.

(* ---- the searches sweep the starting comment and end at a decoration ------------------------ *)
Lemma find_dec_fwd_spec sn se fs : forall fuel i acc sw j,
  find_dec_fwd sn se fs i fuel acc = Some (sw, j) ->
  (exists k, dec_key fs j = Some k) /\ incl acc sw /\
  (forall d ind, nth_error fs i = Some (FCom d ind None) -> In i sw).
Proof.
  induction fuel as [|f IH]; intros i acc sw j H; cbn [find_dec_fwd] in H; [discriminate|].
  destruct (nth_error fs i) as [fr|] eqn:E; cbn in H; [|discriminate].
  destruct fr as [n c m st en| | |d0 ind0 a|e a]; cbn in H.
  - inversion H; subst. split; [unfold dec_key; rewrite E; eauto|]. split; [apply incl_refl|intros; discriminate].
  - discriminate.
  - destruct (IH _ _ _ _ H) as [A [B _]]. split; [exact A|]. split; [exact B|intros; discriminate].
  - destruct a as [a|]; destruct (IH _ _ _ _ H) as [A [B _]]; (split; [exact A|]).
    + split; [exact B|intros; discriminate].
    + split; [intros x Hx; apply B; apply in_or_app; left; exact Hx|].
      intros _ _ _. apply B. apply in_or_app. right. left. reflexivity.
  - destruct sn; [discriminate|]. destruct (se && e); [discriminate|].
    destruct a as [a|]; destruct (IH _ _ _ _ H) as [A [B _]]; (split; [exact A|]).
    + split; [exact B|intros; discriminate].
    + split; [intros x Hx; apply B; apply in_or_app; left; exact Hx|intros; discriminate].
Qed.

Lemma find_dec_bwd_spec sn se fs : forall i acc sw j,
  find_dec_bwd sn se fs i acc = Some (sw, j) ->
  (exists k, dec_key fs j = Some k) /\ incl acc sw /\
  (forall d ind, nth_error fs i = Some (FCom d ind None) -> In i sw).
Proof.
  induction i as [|i IH]; intros acc sw j H; cbn [find_dec_bwd] in H.
  - destruct (nth_error fs 0) as [fr|] eqn:E; cbn in H; [|discriminate].
    destruct fr as [n c m st en| | |d0 ind0 a|e a]; cbn in H; try discriminate.
    + inversion H; subst. split; [unfold dec_key; rewrite E; eauto|]. split; [apply incl_refl|intros; discriminate].
    + destruct sn; [discriminate|]. destruct (se && e); discriminate.
  - destruct (nth_error fs (S i)) as [fr|] eqn:E; cbn in H; [|discriminate].
    destruct fr as [n c m st en| | |d0 ind0 a|e a]; cbn in H.
    + inversion H; subst. split; [unfold dec_key; rewrite E; eauto|]. split; [apply incl_refl|intros; discriminate].
    + discriminate.
    + destruct (IH _ _ _ H) as [A [B _]]. split; [exact A|]. split; [exact B|intros; discriminate].
    + destruct a as [a|]; destruct (IH _ _ _ H) as [A [B _]]; (split; [exact A|]).
      * split; [exact B|intros; discriminate].
      * split; [intros x Hx; apply B; right; exact Hx|]. intros _ _ _. apply B. left. reflexivity.
    + destruct sn; [discriminate|]. destruct (se && e); [discriminate|].
      destruct a as [a|]; destruct (IH _ _ _ H) as [A [B _]]; (split; [exact A|]).
      * split; [exact B|intros; discriminate].
      * split; [intros x Hx; apply B; right; exact Hx|intros; discriminate].
Qed.

Lemma find_decoration_spec sn se fs i fwd sw j :
  find_decoration sn se fs i fwd = Some (sw, j) ->
  (exists k, dec_key fs j = Some k) /\ (forall d ind, nth_error fs i = Some (FCom d ind None) -> In i sw).
Proof.
  unfold find_decoration. destruct fwd; intros H.
  - destruct (find_dec_fwd_spec _ _ _ _ _ _ _ _ H) as [A [_ B]]. auto.
  - destruct (find_dec_bwd_spec _ _ _ _ _ _ _ H) as [A [_ B]]. auto.
Qed.

(* ---- pass 1 attaches every comment or panics ------------------------------------------------ *)
Lemma not_unattached_extends fs fs' k fr :
  extends fs fs' -> nth_error fs k = Some fr -> unattached_comment fr = false ->
  exists fr', nth_error fs' k = Some fr' /\ unattached_comment fr' = false.
Proof.
  intros [_ H] Hk Hu. destruct (H k fr Hk) as [fr' [A [B C]]]. exists fr'. split; [exact A|].
  destruct fr as [| | |d i [a|]|]; destruct fr'; cbn in B; try contradiction; try reflexivity; try discriminate.
  specialize (C eq_refl). destruct att; [reflexivity|discriminate].
Qed.

Lemma pass1_step_extends s i : extends (l_frags s) (l_frags (pass1_step s i)).
Proof.
  unfold pass1_step. destruct (l_panic s); [apply extends_refl|].
  destruct (nth_error (l_frags s) i) as [fr|]; [|apply extends_refl].
  destruct fr as [nid cls name st en| | |d ind [a|]|e a]; try apply extends_refl.
  - destruct (negb (String.eqb name "End")); [apply extends_refl|].
    destruct (negb (nc_stmt cls || nc_decl cls)); [apply extends_refl|].
    destruct (nc_labeled cls); [apply extends_refl|].
    destruct (negb _); [apply extends_refl|].
    destruct (find_indented _ _ _ _ _ _ _ _ _) as [[f0 f1] next].
    set (s1 := match rev f0 with [] => s | l :: _ => if is_nl_frag (l_frags s) l then attach s (removelast f0) i else attach s f0 i end).
    assert (H1 : extends (l_frags s) (l_frags s1)).
    { subst s1. destruct (rev f0); [apply extends_refl|]. destruct (is_nl_frag _ _); apply attach_extends. }
    destruct f1 as [|x f1]; [exact H1|]. destruct next as [j|]; [|exact H1].
    destruct (nth_error (l_frags s) j) as [[? cls' ? st' ?| | | |]|]; try exact H1.
    destruct (_ && _); [|exact H1]. eapply extends_trans; [exact H1|apply attach_extends].
  - repeat (match goal with |- context [find_decoration ?a ?b ?c ?d ?e] => destruct (find_decoration a b c d e) as [[sw j]|] end;
            [apply attach_extends|]).
    apply extends_refl.
Qed.

Lemma pass1_step_panic_sticky s i : l_panic s = true -> pass1_step s i = s.
Proof. intros H. unfold pass1_step. rewrite H. reflexivity. Qed.

Lemma pass1_step_attaches s i :
  l_panic (pass1_step s i) = false ->
  forall fr, nth_error (l_frags (pass1_step s i)) i = Some fr -> unattached_comment fr = false.
Proof.
  intros Hp fr Hfr.
  pose proof (pass1_step_extends s i) as Hext.
  destruct (nth_error (l_frags s) i) as [fr0|] eqn:E0.
  2:{ destruct Hext as [L _]. assert (nth_error (l_frags (pass1_step s i)) i = None) by (apply nth_error_None; rewrite L; apply nth_error_None; exact E0). congruence. }
  destruct (unattached_comment fr0) eqn:Hu.
  2:{ destruct (not_unattached_extends _ _ i fr0 Hext E0 Hu) as [fr' [A B]]. congruence. }
  destruct fr0 as [| | |d ind [a|]|]; try discriminate.
  (* an unattached comment: one of the five searches succeeds, or pass 1 panics *)
  unfold pass1_step in Hp, Hfr. destruct (l_panic s) eqn:Hps.
  - congruence.
  - rewrite E0 in Hp, Hfr.
    repeat (match type of Hfr with context [find_decoration ?a ?b ?c ?d ?e] =>
              destruct (find_decoration a b c d e) as [[? ?]|] eqn:?F end;
            [ match goal with F : find_decoration _ _ _ _ _ = Some (?sw, ?j) |- _ =>
                destruct (find_decoration_spec _ _ _ _ _ _ _ F) as [[k Hk] Hin];
                destruct (attach_attaches sw s j i k d ind (Hin d ind E0) Hk E0) as [fr1 [A B]];
                rewrite A in Hfr; inversion Hfr; subst;
                destruct fr as [| | |? ? [?|]|]; try reflexivity; discriminate
              end | ]).
    cbn in Hp. discriminate.
Qed.

Definition all_comments_attached (fs : list frag) : Prop :=
  forall k fr, nth_error fs k = Some fr -> unattached_comment fr = false.

Lemma pass1_fold idxs : forall s,
  l_panic (fold_left pass1_step idxs s) = false ->
  extends (l_frags s) (l_frags (fold_left pass1_step idxs s)) /\
  forall i, In i idxs -> forall fr, nth_error (l_frags (fold_left pass1_step idxs s)) i = Some fr -> unattached_comment fr = false.
Proof.
  induction idxs as [|i r IH]; intros s Hp; cbn [fold_left] in *.
  - split; [apply extends_refl|intros i []].
  - destruct (IH (pass1_step s i) Hp) as [He Hall].
    split; [eapply extends_trans; [apply pass1_step_extends|exact He]|].
    intros i0 [<-|Hin] fr Hfr; [|apply (Hall i0 Hin fr Hfr)].
    (* index i was handled by this step and stays handled *)
    assert (Hp1 : l_panic (pass1_step s i) = false).
    { destruct (l_panic (pass1_step s i)) eqn:E; [|reflexivity].
      assert (Hs : forall l st, l_panic st = true -> fold_left pass1_step l st = st).
      { induction l as [|x l IHl]; intros st Hst; cbn; [reflexivity|]. rewrite pass1_step_panic_sticky by exact Hst. apply IHl. exact Hst. }
      rewrite (Hs r _ E) in Hp. congruence. }
    destruct (nth_error (l_frags (pass1_step s i)) i) as [fr1|] eqn:E1.
    + pose proof (pass1_step_attaches s i Hp1 fr1 E1) as Hu.
      destruct (not_unattached_extends _ _ i fr1 He E1 Hu) as [fr' [A B]]. congruence.
    + destruct He as [L _]. assert (nth_error (l_frags (fold_left pass1_step r (pass1_step s i))) i = None)
        by (apply nth_error_None; rewrite L; apply nth_error_None; exact E1). congruence.
Qed.

Lemma pass2_step_frags s i : l_frags (pass2_step s i) = l_frags s.
Proof.
  unfold pass2_step. destruct (l_panic s); [reflexivity|].
  destruct (nth_error (l_frags s) i) as [[| | | |e [a|]]|]; try reflexivity.
  destruct (find_node_fwd _ _ _), (find_node_bwd _ _); try reflexivity.
  destruct (find_decoration _ _ _ _ false) as [[sw j]|]; [destruct (dec_key _ _); reflexivity|].
  destruct (find_decoration _ _ _ _ true) as [[sw j]|]; [destruct (dec_key _ _); reflexivity|reflexivity].
Qed.

Lemma pass2_step_panic_mono s i : l_panic s = true -> l_panic (pass2_step s i) = true.
Proof. intros H. unfold pass2_step. rewrite H. exact H. Qed.

Lemma pass2_fold idxs : forall s,
  l_frags (fold_left pass2_step idxs s) = l_frags s /\
  (l_panic s = true -> l_panic (fold_left pass2_step idxs s) = true).
Proof.
  induction idxs as [|i r IH]; intros s; cbn [fold_left]; [auto|].
  destruct (IH (pass2_step s i)) as [A B]. split; [rewrite A; apply pass2_step_frags|].
  intros H. apply B. apply pass2_step_panic_mono. exact H.
Qed.

(* If link does not panic, no comment fragment is left unattached -- for every fragment list. *)
Theorem link_attaches_every_comment fs :
  l_panic (link fs) = false -> all_comments_attached (l_frags (link fs)).
Proof.
  unfold link, pass2, pass1. intros Hp.
  set (s0 := mkL fs [] [] [] false) in *.
  set (s1 := fold_left pass1_step (seq 0 (List.length (l_frags s0))) s0) in *.
  destruct (pass2_fold (seq 0 (List.length (l_frags s1))) s1) as [Hf Hpm].
  assert (Hp1 : l_panic s1 = false) by (destruct (l_panic s1) eqn:E; [rewrite (Hpm eq_refl) in Hp; discriminate|reflexivity]).
  rewrite Hf. destruct (pass1_fold (seq 0 (List.length (l_frags s0))) s0 Hp1) as [[L _] Hall].
  fold s1 in L, Hall.
  intros k fr Hk. apply (Hall k); [|exact Hk].
  apply in_seq. split; [lia|]. rewrite Nat.add_0_l, <- L. apply nth_error_Some. congruence.
Qed.

(* ---- attached comments are in the decorations ------------------------------------------------ *)
Lemma dkey_eqb_refl k : dkey_eqb k k = true.
Proof. unfold dkey_eqb. rewrite N.eqb_refl, String.eqb_refl. reflexivity. Qed.

Lemma dkey_eqb_eq a b : dkey_eqb a b = true -> a = b.
Proof.
  unfold dkey_eqb. intros H. apply andb_true_iff in H. destruct H as [H1 H2].
  apply N.eqb_eq in H1. apply String.eqb_eq in H2. destruct a, b; cbn in *; congruence.
Qed.

Lemma dget_dset_same m k v : dget (dset m k v) k = v.
Proof.
  induction m as [|[k' v'] r IH]; cbn; [rewrite dkey_eqb_refl; reflexivity|].
  destruct (dkey_eqb k k') eqn:E; cbn; [rewrite dkey_eqb_refl; reflexivity|rewrite E; exact IH].
Qed.

Lemma dget_dset_other m k v k' : dkey_eqb k' k = false -> dget (dset m k v) k' = dget m k'.
Proof.
  intros Hne. induction m as [|[k0 v0] r IH]; cbn.
  - rewrite Hne. reflexivity.
  - destruct (dkey_eqb k k0) eqn:E; cbn.
    + apply dkey_eqb_eq in E. subst k0. rewrite Hne. reflexivity.
    + destruct (dkey_eqb k' k0); [reflexivity|exact IH].
Qed.

Definition in_decs (m : list (dkey * list dec)) (d : dec) : Prop := exists key, In d (dget m key).

Lemma in_decs_dset_grow m k v d : (forall x, In x (dget m k) -> In x v) -> in_decs m d -> in_decs (dset m k v) d.
Proof.
  intros Hg [key Hin]. destruct (dkey_eqb key k) eqn:E.
  - apply dkey_eqb_eq in E. subst key. exists k. rewrite dget_dset_same. apply Hg. exact Hin.
  - exists key. rewrite dget_dset_other by exact E. exact Hin.
Qed.

Lemma append_newline_grows ds e x : In x ds -> In x (append_newline ds e).
Proof. intros H. unfold append_newline. apply in_or_app. left. exact H. Qed.

Definition decs_cover (s : lstate) : Prop :=
  forall k d ind j, nth_error (l_frags s) k = Some (FCom d ind (Some j)) -> in_decs (l_decs s) d.

Lemma attach_one_cover j s i : decs_cover s -> decs_cover (attach_one j s i).
Proof.
  intros Hc. unfold attach_one. destruct (dec_key (l_frags s) j) as [key|] eqn:Hk; [|exact Hc].
  destruct (nth_error (l_frags s) i) as [fr|] eqn:E; [|exact Hc].
  assert (Hlt : i < List.length (l_frags s)) by (apply nth_error_Some; congruence).
  destruct fr as [| | |d0 ind0 a0|e0 a0]; try exact Hc; intros k d ind j' Hn; cbn [l_frags l_decs] in *.
  - destruct (Nat.eq_dec i k) as [->|Hne].
    + rewrite nth_set_nth_same in Hn by exact Hlt. inversion Hn; subst.
      exists key. rewrite dget_dset_same. apply in_or_app. right. left. reflexivity.
    + rewrite nth_set_nth_other in Hn by exact Hne.
      apply in_decs_dset_grow; [intros x Hx; apply in_or_app; left; exact Hx|]. apply (Hc k d ind j' Hn).
  - destruct (Nat.eq_dec i k) as [->|Hne].
    + rewrite nth_set_nth_same in Hn by exact Hlt. discriminate.
    + rewrite nth_set_nth_other in Hn by exact Hne.
      apply in_decs_dset_grow; [intros x Hx; apply append_newline_grows; exact Hx|]. apply (Hc k d ind j' Hn).
Qed.

Lemma attach_cover sw : forall s j, decs_cover s -> decs_cover (attach s sw j).
Proof. induction sw as [|i r IH]; intros s j H; [exact H|]. rewrite attach_cons. apply IH. apply attach_one_cover. exact H. Qed.

Lemma pass1_step_cover s i : decs_cover s -> decs_cover (pass1_step s i).
Proof.
  intros Hc. unfold pass1_step. destruct (l_panic s); [exact Hc|].
  destruct (nth_error (l_frags s) i) as [fr|]; [|exact Hc].
  destruct fr as [nid cls name st en| | |d ind [a|]|e a]; try exact Hc.
  - destruct (negb (String.eqb name "End")); [exact Hc|].
    destruct (negb (nc_stmt cls || nc_decl cls)); [exact Hc|].
    destruct (nc_labeled cls); [exact Hc|].
    destruct (negb _); [exact Hc|].
    destruct (find_indented _ _ _ _ _ _ _ _ _) as [[f0 f1] next].
    set (s1 := match rev f0 with [] => s | l :: _ => if is_nl_frag (l_frags s) l then attach s (removelast f0) i else attach s f0 i end).
    assert (H1 : decs_cover s1).
    { subst s1. destruct (rev f0); [exact Hc|]. destruct (is_nl_frag _ _); apply attach_cover; exact Hc. }
    destruct f1 as [|x f1]; [exact H1|]. destruct next as [j|]; [|exact H1].
    destruct (nth_error (l_frags s) j) as [[? cls' ? st' ?| | | |]|]; try exact H1.
    destruct (_ && _); [|exact H1]. apply attach_cover. exact H1.
  - repeat (match goal with |- context [find_decoration ?a ?b ?c ?d ?e] => destruct (find_decoration a b c d e) as [[? ?]|] end;
            [apply attach_cover; exact Hc|]).
    exact Hc.
Qed.

Lemma pass2_step_cover s i : decs_cover s -> decs_cover (pass2_step s i).
Proof.
  intros Hc. unfold pass2_step. cbv zeta. destruct (l_panic s); [exact Hc|].
  destruct (nth_error (l_frags s) i) as [[| | | |e [a|]]|]; try exact Hc.
  assert (Hput : forall j p, decs_cover match dec_key (l_frags s) j with
                                      | Some k => mkL (l_frags s) (dset (l_decs s) k (append_newline (dget (l_decs s) k) e)) (l_before s) (l_after s) p
                                      | None => s end).
  { intros j p. destruct (dec_key (l_frags s) j) as [k|]; [|exact Hc].
    intros k0 d ind j' Hn. cbn [l_frags l_decs] in *.
    apply in_decs_dset_grow; [intros x Hx; apply append_newline_grows; exact Hx|]. apply (Hc k0 d ind j' Hn). }
  destruct (find_node_fwd _ _ _), (find_node_bwd _ _); try (intros k0 d ind j' Hn; apply (Hc k0 d ind j' Hn)).
  destruct (find_decoration _ _ _ _ false) as [[sw j]|]; [exact (Hput j false)|].
  destruct (find_decoration _ _ _ _ true) as [[sw j]|]; [exact (Hput j false)|].
  intros k0 d ind j' Hn. apply (Hc k0 d ind j' Hn).
Qed.

Lemma fold_cover (step : lstate -> nat -> lstate) (Hs : forall s i, decs_cover s -> decs_cover (step s i)) idxs :
  forall s, decs_cover s -> decs_cover (fold_left step idxs s).
Proof. induction idxs as [|i r IH]; intros s H; cbn; [exact H|]. apply IH. apply Hs. exact H. Qed.

(* For every fragment list in which nothing is attached yet: if link does not panic, every
   comment of the list is in the decoration list of some (node, point). *)
Theorem link_keeps_every_comment fs :
  (forall k fr, nth_error fs k = Some fr -> attached fr = false \/ (match fr with FCom _ _ _ | FNl _ _ => False | _ => True end)) ->
  l_panic (link fs) = false ->
  forall k d ind a, nth_error fs k = Some (FCom d ind a) -> in_decs (l_decs (link fs)) d.
Proof.
  intros Hinit Hp k d ind a Hk.
  pose proof (link_attaches_every_comment fs Hp) as Hall.
  assert (Hcov : decs_cover (link fs)).
  { unfold link, pass2, pass1. apply fold_cover; [apply pass2_step_cover|]. apply fold_cover; [apply pass1_step_cover|].
    intros k0 d0 ind0 j0 Hn. cbn [l_frags] in Hn. destruct (Hinit k0 _ Hn) as [H|H]; [discriminate|contradiction]. }
  (* the k-th fragment of the result is the same comment, attached *)
  assert (Hext : extends fs (l_frags (link fs))).
  { unfold link, pass2, pass1.
    set (s0 := mkL fs [] [] [] false). set (s1 := fold_left pass1_step (seq 0 (List.length (l_frags s0))) s0).
    destruct (pass2_fold (seq 0 (List.length (l_frags s1))) s1) as [Hf Hpm]. rewrite Hf.
    assert (Hp1 : l_panic s1 = false).
    { destruct (l_panic s1) eqn:E; [|reflexivity]. unfold link, pass2, pass1 in Hp. fold s0 in Hp. fold s1 in Hp. rewrite (Hpm eq_refl) in Hp. discriminate. }
    apply (pass1_fold _ s0 Hp1). }
  destruct Hext as [_ He]. destruct (He k _ Hk) as [fr' [A [B _]]].
  destruct fr' as [| | |d' ind' a'|]; cbn in B; try contradiction. destruct B as [<- <-].
  pose proof (Hall k _ A) as Hu. destruct a' as [j|]; [|discriminate].
  apply (Hcov k d ind j A).
Qed.
