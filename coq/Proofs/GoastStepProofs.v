(* C09: the case of goast.DecoratorResolver.imports for one import spec, translated on every run
   (Gen/GoastImportsSrc.v: goast_spec_step_src), is one step of the hand model
   Model/Resolvers.goast_scan -- for every spec, every package-name resolver and every table built so far. *)
From Coq Require Import List String Bool.
Import ListNotations.
From DV Require Import Model.Resolvers Model.Decision Gen.GoastImportsSrc.
Local Open Scope string_scope.
Local Open Scope list_scope.

Definition has_name (n : string) (acc : list (string * string)) : bool :=
  existsb (fun e => String.eqb (fst e) n) acc.

(* one step of goast_scan, on its own *)
Definition scan_step (name_of : string -> option string) (s : ispec) (acc : list (string * string)) : goast_imports :=
  if String.eqb (is_path s) "C" then GIOk acc
  else if String.eqb (is_name s) "." then GIError "dot-import"
  else if String.eqb (is_name s) "_" then GIOk acc
  else
    match (if String.eqb (is_name s) "" then name_of (is_path s) else Some (is_name s)) with
    | None => GIError "cannot resolve package name"
    | Some n => if has_name n acc then GIError "multiple packages using one name" else GIOk (acc ++ [(n, is_path s)])
    end.

Lemma goast_scan_by_steps name_of s r acc :
  goast_scan name_of (s :: r) acc
  = match scan_step name_of s acc with GIError w => GIError w | GIOk acc' => goast_scan name_of r acc' end.
Proof.
  cbn [goast_scan]. unfold scan_step, has_name.
  destruct (String.eqb (is_path s) "C"); [reflexivity|].
  destruct (String.eqb (is_name s) "."); [reflexivity|].
  destruct (String.eqb (is_name s) "_"); [reflexivity|].
  destruct (if String.eqb (is_name s) "" then name_of (is_path s) else Some (is_name s)); [|reflexivity].
  destruct (existsb _ acc); reflexivity.
Qed.

(* what the predicates of the translated case mean for a spec whose path literal is valid *)
Definition step_val (name_of : string -> option string) (s : ispec) (acc : list (string * string)) (p : string) : bool :=
  if String.eqb p "invalid(path)" then false
  else if String.eqb p "eq(path,C)" then String.eqb (is_path s) "C"
  else if String.eqb p "eq(name,.)" then String.eqb (is_name s) "."
  else if String.eqb p "eq(name,_)" then String.eqb (is_name s) "_"
  else if String.eqb p "eq(name,)" then String.eqb (is_name s) ""
  else if String.eqb p "fails(resolve(path))" then match name_of (is_path s) with None => true | Some _ => false end
  else if String.eqb p "has(imports,resolved(path))" then match name_of (is_path s) with Some n => has_name n acc | None => false end
  else if String.eqb p "has(imports,name)" then has_name (is_name s) acc
  else false.

(* ... and what its outcomes mean *)
Definition step_sym (name_of : string -> option string) (s : ispec) (acc : list (string * string)) (r : string) : option goast_imports :=
  if String.eqb r "skip" then Some (GIOk acc)
  else if String.eqb r "err:dot" then Some (GIError "dot-import")
  else if String.eqb r "err:resolve" then Some (GIError "cannot resolve package name")
  else if String.eqb r "err:multiple" then Some (GIError "multiple packages using one name")
  else if String.eqb r "add:name" then Some (GIOk (acc ++ [(is_name s, is_path s)]))
  else if String.eqb r "add:resolved(path)" then
    match name_of (is_path s) with Some n => Some (GIOk (acc ++ [(n, is_path s)])) | None => None end
  else None.

Definition step_vocabulary_ok : bool :=
  vocabulary_ok ["invalid(path)"; "eq(path,C)"; "eq(name,.)"; "eq(name,_)"; "eq(name,)"; "fails(resolve(path))";
                 "has(imports,resolved(path))"; "has(imports,name)"]
                ["err:invalid"; "skip"; "err:dot"; "err:resolve"; "err:multiple"; "add:name"; "add:resolved(path)"]
                goast_spec_step_src.

Theorem goast_step_source_is_model :
  forall name_of s acc,
    match run (step_val name_of s acc) goast_spec_step_src with
    | OReturn (DVal r) => step_sym name_of s acc r = Some (scan_step name_of s acc)
    | _ => False
    end.
Proof.
  intros name_of [path name] acc. unfold scan_step. cbn [is_path is_name].
  set (v := step_val name_of (mkISpec path name) acc).
  assert (H1 : v "invalid(path)" = false) by reflexivity.
  assert (H2 : v "eq(path,C)" = String.eqb path "C") by reflexivity.
  assert (H3 : v "eq(name,.)" = String.eqb name ".") by reflexivity.
  assert (H4 : v "eq(name,_)" = String.eqb name "_") by reflexivity.
  assert (H5 : v "eq(name,)" = String.eqb name "") by reflexivity.
  assert (H6 : v "fails(resolve(path))" = match name_of path with None => true | Some _ => false end) by reflexivity.
  assert (H7 : v "has(imports,resolved(path))" = match name_of path with Some n => has_name n acc | None => false end) by reflexivity.
  assert (H8 : v "has(imports,name)" = has_name name acc) by reflexivity.
  unfold goast_spec_step_src. cbn [run run_stmt]. rewrite H1, H2, H3, H4, H5, H6, H7, H8. clear H1 H2 H3 H4 H5 H6 H7 H8.
  unfold step_sym. cbn [is_path is_name xorb].
  destruct (String.eqb path "C"); [reflexivity|].
  destruct (String.eqb name "."); [reflexivity|].
  destruct (String.eqb name "_"); [reflexivity|].
  destruct (String.eqb name "").
  - destruct (name_of path) as [n|]; [|reflexivity].
    destruct (has_name n acc); reflexivity.
  - destruct (has_name name acc); reflexivity.
Qed.
