(* C09: the syntax-only resolver agrees with the types-based one (general statements). *)
From Coq Require Import List String ZArith NArith Bool Ascii Lia.
Import ListNotations.
From DV Require Import Model.Resolvers Proofs.ResolverProofs.
Local Open Scope string_scope.
Local Open Scope list_scope.

(* the name an import spec binds in its file: its alias, or the package name the name resolver gives *)
Definition spec_name (name_of : string -> option string) (s : ispec) : option string :=
  if String.eqb (is_name s) "" then name_of (is_path s) else Some (is_name s).

Definition ordinary_spec (s : ispec) : bool :=
  negb (String.eqb (is_path s) "C") && negb (String.eqb (is_name s) "_") && negb (String.eqb (is_name s) ".").

Definition lookup (m : list (string * string)) (n : string) : option string :=
  match find (fun e => String.eqb (fst e) n) m with Some e => Some (snd e) | None => None end.

Lemma lookup_app_fresh m n p k : lookup m k = None -> lookup (m ++ [(n, p)]) k = if String.eqb n k then Some p else None.
Proof.
  unfold lookup. induction m as [|[a b] r IH]; cbn [app find fst snd].
  - intros _. destruct (String.eqb n k); reflexivity.
  - destruct (String.eqb a k) eqn:E; [discriminate|]. exact IH.
Qed.

Lemma lookup_app_keep m n p k v : lookup m k = Some v -> lookup (m ++ [(n, p)]) k = Some v.
Proof.
  unfold lookup. induction m as [|[a b] r IH]; cbn [app find fst snd]; [discriminate|].
  destruct (String.eqb a k); [auto|exact IH].
Qed.

Lemma existsb_lookup m n : existsb (fun e : string * string => String.eqb (fst e) n) m = false -> lookup m n = None.
Proof.
  unfold lookup. induction m as [|[a b] r IH]; cbn [existsb find fst]; [reflexivity|].
  destruct (String.eqb a n); [discriminate|]. exact IH.
Qed.

(* a successful scan builds exactly the table "bound name -> path" of the ordinary import specs:
   entries of the accumulator are kept, every ordinary spec is entered under the name it binds,
   and nothing else is entered *)
Lemma goast_scan_table name_of : forall specs acc m,
  goast_scan name_of specs acc = GIOk m ->
  (forall k v, lookup acc k = Some v -> lookup m k = Some v) /\
  (forall s, In s specs -> ordinary_spec s = true -> exists n, spec_name name_of s = Some n /\ lookup m n = Some (is_path s)) /\
  (forall k v, lookup m k = Some v -> lookup acc k = Some v \/ exists s, In s specs /\ ordinary_spec s = true /\ spec_name name_of s = Some k /\ is_path s = v).
Proof.
  induction specs as [|s r IH]; intros acc m H; cbn [goast_scan] in H.
  - inversion H; subst. split; [auto|]. split; [intros s []|auto].
  - destruct (String.eqb (is_path s) "C") eqn:EC.
    { destruct (IH _ _ H) as [A [B C]]. split; [exact A|]. split.
      - intros s0 [<-|Hin] Ho; [unfold ordinary_spec in Ho; rewrite EC in Ho; discriminate|apply B; assumption].
      - intros k v Hk. destruct (C k v Hk) as [L|[s0 [Hin R]]]; [left; exact L|right; exists s0; split; [right; exact Hin|exact R]]. }
    destruct (String.eqb (is_name s) ".") eqn:ED; [discriminate|].
    destruct (String.eqb (is_name s) "_") eqn:EU.
    { destruct (IH _ _ H) as [A [B C]]. split; [exact A|]. split.
      - intros s0 [<-|Hin] Ho; [unfold ordinary_spec in Ho; rewrite EU in Ho; rewrite andb_false_r in Ho; discriminate|apply B; assumption].
      - intros k v Hk. destruct (C k v Hk) as [L|[s0 [Hin R]]]; [left; exact L|right; exists s0; split; [right; exact Hin|exact R]]. }
    fold (spec_name name_of s) in H.
    destruct (spec_name name_of s) as [n|] eqn:En; [|discriminate].
    destruct (existsb (fun e => String.eqb (fst e) n) acc) eqn:Ex; [discriminate|].
    apply existsb_lookup in Ex.
    destruct (IH _ _ H) as [A [B C]]. split; [|split].
    + intros k v Hk. apply A. apply lookup_app_keep. exact Hk.
    + intros s0 [<-|Hin] Ho; [|apply B; assumption].
      exists n. split; [exact En|]. apply A. rewrite (lookup_app_fresh _ _ _ _ Ex). rewrite String.eqb_refl. reflexivity.
    + intros k v Hk. destruct (C k v Hk) as [L|[s0 [Hin R]]]; [|right; exists s0; split; [right; exact Hin|exact R]].
      destruct (lookup acc k) as [v0|] eqn:Ea.
      * left. rewrite (lookup_app_keep _ _ _ _ _ Ea) in L. exact L.
      * rewrite (lookup_app_fresh _ _ _ _ Ea) in L. destruct (String.eqb_spec n k) as [->|Hne]; [|discriminate].
        inversion L; subst. right. exists s. split; [left; reflexivity|]. split; [|split; [exact En|reflexivity]].
        unfold ordinary_spec. rewrite EC, ED, EU. reflexivity.
Qed.

(* goast's ResolveIdent reads the table through the same lookup *)
Lemma goast_resolve_lookup m n : goast_resolve m true (Some n) false = match lookup m n with Some p => p | None => "" end.
Proof. unfold goast_resolve, lookup. cbn. destruct (find _ m); reflexivity. Qed.

(* Agreement on qualified identifiers: in a file the syntax-only resolver accepts (no dot-import,
   no two imports under one name, every unnamed import resolvable by the name resolver), for the
   Sel of a selector whose X is an identifier the parser did not bind to a local object (the
   package name is not shadowed) and that the type checker resolves to the package imported by
   spec s -- the spec's path and the checker's path being equal up to a vendor prefix --, both
   resolvers lead resolvePath to the same path. *)
Theorem goast_agrees_on_qualified name_of specs m s n ptypes importing local uses :
  goast_scan name_of specs [] = GIOk m ->
  In s specs -> ordinary_spec s = true -> spec_name name_of s = Some n ->
  strip_vendor (is_path s) = strip_vendor ptypes ->
  resolve_path true local false "SelectorExpr.Sel" (goast_resolve m true (Some n) false) =
  resolve_path true local false "SelectorExpr.Sel" (gotypes_resolve (mkOcc (Some (XIdent (Some (TPkgName ptypes importing)))) uses)).
Proof.
  intros Hs Hin Ho Hn Hv.
  destruct (goast_scan_table name_of specs [] m Hs) as [_ [B _]].
  destruct (B s Hin Ho) as [n' [Hn' Hl]]. rewrite Hn in Hn'. inversion Hn'; subst n'.
  rewrite goast_resolve_lookup, Hl. cbn [gotypes_resolve oc_sel_of]. unfold resolve_path. cbn [negb andb]. rewrite Hv. reflexivity.
Qed.

(* ... and on everything else: the syntax-only resolver gives no path to an identifier that is not the
   Sel of a selector on an unshadowed imported name; the types-based one gives none either unless
   the identifier denotes a dot-imported object -- and files with dot-imports are refused. *)
Theorem goast_agrees_elsewhere local r pdf :
  in_avoid pdf = false ->
  (forall p, r <> DotImported p) -> (forall p, r <> Qualified p) ->
  resolve_path false local false pdf (gotypes_resolve (occurrence_of local r)) = "" /\
  forall m, goast_resolve m false None false = "".
Proof.
  intros Hav Hd Hq. split; [|reflexivity].
  rewrite gotypes_exact by exact Hav. destruct r; cbn [expected_path]; try reflexivity.
  - exfalso. eapply Hq. reflexivity.
  - exfalso. eapply Hd. reflexivity.
Qed.

(* a name that the scan did not enter resolves to nothing: an identifier X that is not an import
   name of this file (a variable of package type cannot exist; a shadowing local has an object) *)
Theorem goast_unknown_qualifier name_of specs m n :
  goast_scan name_of specs [] = GIOk m ->
  (forall s, In s specs -> ordinary_spec s = true -> spec_name name_of s <> Some n) ->
  goast_resolve m true (Some n) false = "".
Proof.
  intros Hs Hno. rewrite goast_resolve_lookup.
  destruct (goast_scan_table name_of specs [] m Hs) as [_ [_ C]].
  destruct (lookup m n) as [v|] eqn:E; [|reflexivity].
  destruct (C n v E) as [L|[s [Hin [Ho [Hn _]]]]]; [discriminate L|]. exfalso. exact (Hno s Hin Ho Hn).
Qed.
