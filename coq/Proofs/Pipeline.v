(* fragment ; link ; decorate, for every positioned go/ast tree, comment list and line table: every
   comment of the file is stored at a decoration point of a node of the dst tree, and that node is
   reachable from the root through the children the decorator assigns. *)
From Coq Require Import List String ZArith NArith Bool Lia Permutation.
Import ListNotations.
From DV Require Import Model.Tree Model.Tables Model.Skeleton Model.FragSkel Model.Link Model.Fragment Model.Decorate
     Proofs.TreeInd Proofs.LinkProofs Proofs.LinkKey Proofs.FragProofs Proofs.FragReach Proofs.DecReach.
Local Open Scope string_scope.
Local Open Scope list_scope.

(* ---- table conditions (evaluated on the regenerated tables) ------------------------------------- *)
Definition pb_eqb (a b : path * bool) : bool := path_eqb (fst a) (fst b) && Bool.eqb (snd a) (snd b).

Lemma path_eqb_eq a : forall b, path_eqb a b = true -> a = b.
Proof.
  induction a as [|x a IH]; intros [|y b] H; cbn in H; try discriminate; [reflexivity|].
  apply andb_true_iff in H. destruct H as [H1 H2]. apply String.eqb_eq in H1. subst. f_equal. apply IH. exact H2.
Qed.

Lemma pb_eqb_eq a b : pb_eqb a b = true -> a = b.
Proof.
  destruct a as [p x], b as [q y]. unfold pb_eqb. cbn. intros H. apply andb_true_iff in H. destruct H as [H1 H2].
  apply path_eqb_eq in H1. apply Bool.eqb_prop in H2. subst. reflexivity.
Qed.

(* File.Imports is an alias list: its elements are the ImportSpecs of the import declarations.  The
   decorator walks it (emitting fragments and decorating the specs a second time, under the same
   keys), the restorer does not.  Reachability that matters goes through the other children. *)
Definition alias_path (k : string) (p : path) : bool := String.eqb k "File" && path_eqb p ["Imports"].
Definition keep_n (k : string) (s : nstmt) : bool :=
  match s with NList p _ _ _ _ _ => negb (alias_path k p) | _ => true end.
Definition frag_paths_na (ftbl : list (string * list gstmt)) (k : string) : list (path * bool) :=
  filter (fun pb => negb (alias_path k (fst pb) && snd pb)) (frag_paths ftbl k).

(* every child the fragment emitter descends into (alias list aside), the decorator descends into
   with the same shape; every point the emitter offers is a point of the kind that the decorator
   stores; a file's declarations and a declaration's specs are among those children *)
Definition frag_dec_coherent (ftbl : list (string * list gstmt)) (dtbl : list (string * list nstmt))
           (du : list (string * list string)) : bool :=
  existsb (pb_eqb (["Decls"], true)) (frag_paths_na ftbl "File") &&
  existsb (pb_eqb (["Specs"], true)) (frag_paths_na ftbl "GenDecl") &&
  forallb (fun e =>
    let k := fst e in
    forallb (fun pb => existsb (pb_eqb pb) (dec_in_paths dtbl keep_n k)) (frag_paths_na ftbl k) &&
    match frag_points ftbl k with
    | [] => true
    | pts => match lookup dtbl k, lookup du k with
             | Some stmts, Some ps => forallb (fun n => existsb (String.eqb n) ps && existsb (String.eqb n) (nd_points stmts)) pts
             | _, _ => false
             end
    end) ftbl.

Lemma lookup_In {A} (l : list (string * A)) k v : lookup l k = Some v -> In (k, v) l.
Proof.
  induction l as [|[k' v'] r IH]; cbn; [discriminate|]. destruct (String.eqb_spec k k') as [->|Hne].
  - intros H. inversion H. left. reflexivity.
  - intros H. right. apply IH. exact H.
Qed.

Lemma coherent_paths ftbl dtbl du : frag_dec_coherent ftbl dtbl du = true ->
  forall k pb, In pb (frag_paths_na ftbl k) -> In pb (dec_in_paths dtbl keep_n k).
Proof.
  intros H k pb Hin. apply andb_true_iff in H. destruct H as [_ H].
  assert (Hl : exists l, lookup ftbl k = Some l).
  { unfold frag_paths_na, frag_paths in Hin. destruct (lookup ftbl k) as [l|]; [eauto|destruct Hin]. }
  destruct Hl as [l E].
  rewrite forallb_forall in H. specialize (H (k, l) (lookup_In _ _ _ E)). cbn [fst] in H.
  apply andb_true_iff in H. destruct H as [H _]. rewrite forallb_forall in H.
  specialize (H pb Hin). apply existsb_exists in H. destruct H as [pb' [A B]]. apply pb_eqb_eq in B. subst. exact A.
Qed.

Lemma coherent_decls_specs ftbl dtbl du : frag_dec_coherent ftbl dtbl du = true ->
  In (["Decls"], true) (frag_paths_na ftbl "File") /\ In (["Specs"], true) (frag_paths_na ftbl "GenDecl").
Proof.
  intros H. apply andb_true_iff in H. destruct H as [H _]. apply andb_true_iff in H. destruct H as [H1 H2].
  apply existsb_exists in H1. destruct H1 as [x [A B]]. apply pb_eqb_eq in B. subst x.
  apply existsb_exists in H2. destruct H2 as [y [C D]]. apply pb_eqb_eq in D. subst y. auto.
Qed.

Lemma coherent_points ftbl dtbl du : frag_dec_coherent ftbl dtbl du = true ->
  forall k n, In n (frag_points ftbl k) ->
  exists stmts ps, lookup dtbl k = Some stmts /\ lookup du k = Some ps /\ In n ps /\ In n (nd_points stmts).
Proof.
  intros H k n Hin. unfold frag_points in Hin. destruct (lookup ftbl k) as [l|] eqn:E; [|destruct Hin].
  apply andb_true_iff in H. destruct H as [_ H]. rewrite forallb_forall in H. specialize (H (k, l) (lookup_In _ _ _ E)). cbn [fst] in H.
  apply andb_true_iff in H. destruct H as [_ H].
  assert (Hfp : frag_points ftbl k = flat_map gstmt_points l) by (unfold frag_points; rewrite E; reflexivity).
  rewrite Hfp in H. destruct (flat_map gstmt_points l) as [|n0 r] eqn:Ep; [destruct Hin|].
  destruct (lookup dtbl k) as [stmts|]; [|discriminate]. destruct (lookup du k) as [ps|]; [|discriminate].
  rewrite forallb_forall in H. specialize (H n Hin). apply andb_true_iff in H. destruct H as [H1 H2].
  exists stmts, ps. repeat split.
  - apply existsb_exists in H1. destruct H1 as [x [A B]]. apply String.eqb_eq in B. subst. exact A.
  - apply existsb_exists in H2. destruct H2 as [x [A B]]. apply String.eqb_eq in B. subst. exact A.
Qed.

(* ---- a decoration fragment of the sorted list is a decoration fragment of the node fragments ---- *)
Lemma fragment_dec_from_nodes tbl stmts decls fi t comments frs err pos nid cls name st en :
  fragment tbl stmts decls fi t comments = (frs, err) ->
  In (pos, FDec nid cls name st en) frs ->
  exists kind, In (pos, PDec nid kind name) (f_out (node_frags tbl t)).
Proof.
  unfold fragment, all_frags. intros H Hin.
  set (nodes := f_out (node_frags tbl t)) in *.
  set (sorted := stable_sort (nodes ++ map (fun c => (fst c, PCom (snd c))) comments ++
                              newlines fi (avoid_of fi comments nodes) (tl (fi_lines fi)) 2)) in *.
  pose proof (indent_pass_keeps fi sorted true false 0%Z [] [] []) as Hk.
  destruct (indent_pass fi sorted true false 0%Z [] [] []) as [[ist ien] withind] eqn:E.
  inversion H; subst frs err. clear H. cbn [rev map app] in Hk.
  apply in_map_iff in Hin. destruct Hin as [[[p f] ind] [Heq Hx]].
  destruct f as [nid0 kind0 name0|l|l m|l|d|e]; cbn in Heq; try discriminate.
  inversion Heq; subst.
  assert (Hs : In (pos, PDec nid kind0 name) sorted).
  { rewrite <- Hk. apply in_map_iff. exists (pos, PDec nid kind0 name, ind). split; [reflexivity|exact Hx]. }
  unfold sorted in Hs. apply (Permutation_in _ (stable_sort_perm _)) in Hs.
  apply in_app_or in Hs. destruct Hs as [Hs|Hs]; [exists kind0; exact Hs|].
  exfalso. apply in_app_or in Hs. destruct Hs as [Hs|Hs].
  - apply in_map_iff in Hs. destruct Hs as [c [Hc _]]. discriminate.
  - (* newline fragments are not decoration fragments *)
    clear -Hs. remember (tl (fi_lines fi)) as rest. remember (avoid_of fi comments nodes) as av. clear Heqrest Heqav.
    remember 2%Z as k. clear Heqk.
    assert (Hnl : forall n rest k, (List.length rest <= n)%nat -> forall x, In x (newlines fi av rest k) -> exists e, snd x = PNl e).
    { induction n as [|n IH]; intros rest0 k0 Hn x Hx.
      - destruct rest0; [destruct Hx|cbn in Hn; lia].
      - destruct rest0 as [|o r]; [destruct Hx|]. cbn [newlines] in Hx.
        destruct (negb (Z.ltb o (fi_size fi))); [destruct Hx|].
        destruct (existsb (Z.eqb k0) av); [apply (IH r (k0 + 1)%Z); [cbn in Hn; lia|exact Hx]|].
        destruct r as [|o2 r2]; [destruct Hx as [<-|[]]; eexists; reflexivity|].
        destruct (Z.eqb o2 (o + 1) && Z.ltb o (fi_size fi - 1)).
        + destruct Hx as [<-|Hx]; [eexists; reflexivity|apply (IH r2 (k0 + 2)%Z); [cbn in Hn; lia|exact Hx]].
        + destruct Hx as [<-|Hx]; [eexists; reflexivity|apply (IH (o2 :: r2) (k0 + 1)%Z); [cbn in Hn |- *; lia|exact Hx]]. }
    destruct (Hnl (List.length rest) rest k (le_n _) _ Hs) as [e He]. discriminate.
Qed.

(* ---- the alias list ------------------------------------------------------------------------------- *)
(* every element of a File's Imports list is a spec of one of the file's declarations *)
Definition imports_aliased (f : tree) : Prop :=
  forall c, child_at true f ["Imports"] c ->
  exists g, child_at true f ["Decls"] g /\ tkind g = "GenDecl" /\ child_at true g ["Specs"] c.

Lemma reach_trans paths a b c : reach paths a b -> reach paths b c -> reach paths a c.
Proof. induction 1; intros H'; [exact H'|eapply r_step; eauto]. Qed.

(* reachability does not need the alias list *)
Lemma reach_without_alias ftbl :
  In (["Decls"], true) (frag_paths_na ftbl "File") -> In (["Specs"], true) (frag_paths_na ftbl "GenDecl") ->
  forall t t', reach (frag_paths ftbl) t t' ->
  (forall f, desc t f -> tkind f = "File" -> imports_aliased f) ->
  reach (frag_paths_na ftbl) t t'.
Proof.
  intros HD HS t t' H. induction H as [t|t p b c t' Hin Hc Hr IH]; intros Hal; [apply r_refl|].
  assert (Hrest : reach (frag_paths_na ftbl) c t').
  { apply IH. intros f Hf Hk. apply Hal; [|exact Hk]. eapply desc_trans; [eapply child_at_desc; exact Hc|exact Hf]. }
  destruct (alias_path (tkind t) p && b) eqn:Ea.
  - (* a step through the alias list: go through the declaration that holds the spec instead *)
    apply andb_true_iff in Ea. destruct Ea as [Ea Hb]. subst b.
    unfold alias_path in Ea. apply andb_true_iff in Ea. destruct Ea as [Ek Ep].
    apply String.eqb_eq in Ek. apply path_eqb_eq in Ep. subst p.
    destruct (Hal t (d_refl t) Ek c Hc) as [g [Hg [Hkg Hs]]].
    eapply r_step; [rewrite Ek; exact HD|exact Hg|].
    eapply r_step; [rewrite Hkg; exact HS|exact Hs|exact Hrest].
  - eapply r_step; [|exact Hc|exact Hrest]. unfold frag_paths_na. apply filter_In. split; [exact Hin|]. cbn [fst snd]. rewrite Ea. reflexivity.
Qed.

(* ---- composition ----------------------------------------------------------------------------------- *)
Theorem decorated_tree_has_every_comment ftbl dtbl du stmtk declk fi t comments frs err :
  frag_dec_coherent ftbl dtbl du = true -> tbl_wf dtbl = true ->
  (forall f, desc t f -> tkind f = "File" -> imports_aliased f) ->
  fragment ftbl stmtk declk fi t comments = (frs, err) ->
  let att := link (map snd frs) in
  l_panic att = false ->
  forall pos d, In (pos, d) comments ->
  exists t' point ds stmts,
    reach (dec_in_paths dtbl keep_n) t t' /\
    reach (dec_out_paths dtbl keep_n) (decorateD du dtbl att t) (dres du dtbl att t') /\
    lookup dtbl (tkind t') = Some stmts /\ In point (nd_points stmts) /\
    lookup (tdecs (dres du dtbl att t')) point = Some ds /\ In d ds.
Proof.
  intros Hcoh Hwf Hal Hfrag att Hp pos d Hin.
  destruct (fragment_has_every_comment _ _ _ _ _ _ _ _ Hfrag pos d Hin) as [ind Hf].
  assert (Hm : In (FCom d ind None) (map snd frs)) by (apply in_map_iff; exists (pos, FCom d ind None); split; [reflexivity|exact Hf]).
  destruct (In_nth_error _ _ Hm) as [k Hk].
  destruct (link_stores_every_comment (map snd frs) (fragment_all_unattached _ _ _ _ _ _ _ _ Hfrag) Hp k d ind None Hk)
    as [j [nid [cls [name [st [en [Hj Hd]]]]]]].
  (* the decoration fragment comes from a node of the tree *)
  apply nth_error_In in Hj. apply in_map_iff in Hj. destruct Hj as [[pos' fr] [Hfr Hj]]. cbn in Hfr. subst fr.
  destruct (fragment_dec_from_nodes _ _ _ _ _ _ _ _ _ _ _ _ _ _ Hfrag Hj) as [kind Hn].
  destruct (node_frags_dec_origin ftbl t pos' nid kind name Hn) as [t' [Hr [Hid [Hkd Hpt]]]].
  destruct (coherent_decls_specs _ _ _ Hcoh) as [HD HS].
  assert (Hr2 : reach (dec_in_paths dtbl keep_n) t t').
  { eapply reach_mono; [apply (coherent_paths _ _ _ Hcoh)|]. apply (reach_without_alias ftbl HD HS t t' Hr Hal). }
  subst kind. destruct (coherent_points _ _ _ Hcoh (tkind t') name Hpt) as [stmts [ps [E1 [E2 [I1 I2]]]]].
  exists t', name, (dget (l_decs att) (tid t', name)), stmts. split; [exact Hr2|]. split.
  - apply (reach_stored du dtbl att keep_n Hwf t t' Hr2).
  - split; [exact E1|]. split; [exact I2|].
    split; [apply (decs_stored du dtbl att t' stmts ps name E1 E2 I1 I2)|]. rewrite Hid. exact Hd.
Qed.
