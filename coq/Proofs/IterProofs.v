(* C14: the Cursor edit methods refine list operations; the applyList loop visits every
   original element exactly once when a Delete is the last operation of its visit. *)
From Coq Require Import List String ZArith NArith Bool Lia.
Import ListNotations.
From DV Require Import Model.Tree Model.Tables Model.Iter.
Local Open Scope list_scope.

Lemma firstn_len_app {A} (a b : list A) : firstn (List.length a) (a ++ b) = a.
Proof. induction a; cbn; [destruct b; reflexivity|]. f_equal. auto. Qed.

Lemma skipn_len_app {A} (a b : list A) : skipn (List.length a) (a ++ b) = b.
Proof. induction a; cbn; auto. Qed.

Lemma firstn_len_plus {A} (a b : list A) k : firstn (List.length a + k) (a ++ b) = a ++ firstn k b.
Proof. induction a; cbn; [reflexivity|]. f_equal. auto. Qed.

Lemma skipn_len_plus {A} (a b : list A) k : skipn (List.length a + k) (a ++ b) = skipn k b.
Proof. induction a; cbn; auto. Qed.

Lemma skipn_S_cons {A} n (a : A) w : skipn (S n) (a :: w) = skipn n w.
Proof. reflexivity. Qed.

Lemma firstn_all' {A} (l : list A) : firstn (List.length l) l = l.
Proof. induction l; cbn; [reflexivity|]. f_equal. auto. Qed.

Lemma skipn_all' {A} (l : list A) : skipn (List.length l) l = [].
Proof. induction l; cbn; auto. Qed.

Lemma zoff_plus i (k : nat) : zoff i (Z.of_nat k) = i + k.
Proof. unfold zoff. lia. Qed.

(* ---- the four methods ---------------------------------------------------------------- *)
Section Methods.
  Variables (A R : list N) (x y : N) (s : Z).
  Let l := A ++ x :: R.
  Let i := List.length A.

  Lemma abs_replace : cop_abs (mkI l i s) (CReplace y) = mkI (A ++ y :: R) i s.
  Proof.
    unfold cop_abs, set_at, l, i. cbn [lst idx stp]. f_equal.
    rewrite firstn_len_app. replace (S (List.length A)) with (List.length A + 1) by lia.
    rewrite skipn_len_plus. reflexivity.
  Qed.

  Lemma abs_delete : cop_abs (mkI l i s) CDelete = mkI (A ++ R) i (s - 1).
  Proof.
    unfold cop_abs, delete_at, l, i. cbn [lst idx stp]. f_equal.
    rewrite firstn_len_app. replace (S (List.length A)) with (List.length A + 1) by lia.
    rewrite skipn_len_plus. reflexivity.
  Qed.

  Lemma abs_insert_after : cop_abs (mkI l i s) (CInsertAfter y) = mkI (A ++ x :: y :: R) i (s + 1).
  Proof.
    unfold cop_abs, insert_at, l, i. cbn [lst idx stp]. f_equal.
    replace (S (List.length A)) with (List.length A + 1) by lia.
    rewrite firstn_len_plus, skipn_len_plus. cbn. rewrite <- app_assoc. reflexivity.
  Qed.

  Lemma abs_insert_before : cop_abs (mkI l i s) (CInsertBefore y) = mkI (A ++ y :: x :: R) (S i) s.
  Proof.
    unfold cop_abs, insert_at, l, i. cbn [lst idx stp]. f_equal.
    rewrite firstn_len_app, skipn_len_app. reflexivity.
  Qed.

  Lemma ir_replace : run_method expected_Replace y (mkI l i s) = Some (cop_abs (mkI l i s) (CReplace y)).
  Proof. reflexivity. Qed.

  Lemma ir_delete : run_method expected_Delete y (mkI l i s) = Some (cop_abs (mkI l i s) CDelete).
  Proof.
    rewrite abs_delete. unfold run_method, expected_Delete. cbn [run_ir iop_step option_map fst lst idx stp].
    f_equal. f_equal.
    unfold l, i.
    set (v := A ++ x :: R).
    assert (Hlen : List.length v = List.length A + S (List.length R)).
    { subst v. rewrite app_length. reflexivity. }
    rewrite Hlen.
    replace (zoff (List.length A) 0) with (List.length A + 0) by (unfold zoff; lia).
    replace (zoff (List.length A) 1) with (List.length A + 1) by (unfold zoff; lia).
    unfold copy_range.
    replace (Nat.min (List.length A + S (List.length R) - (List.length A + 0)) (List.length A + S (List.length R) - (List.length A + 1)))
      with (List.length R) by lia.
    assert (E1 : firstn (List.length A + 0) v = A).
    { subst v. rewrite firstn_len_plus. cbn. apply app_nil_r. }
    assert (E2 : firstn (List.length R) (skipn (List.length A + 1) v) = R).
    { subst v. rewrite skipn_len_plus. cbn [skipn]. apply firstn_all'. }
    rewrite E1, E2.
    set (tl := skipn (List.length A + 0 + List.length R) v).
    replace (List.length A + S (List.length R) - 1) with (List.length (A ++ R)) by (rewrite app_length; lia).
    rewrite (app_assoc A R tl). unfold set_at. rewrite firstn_len_app.
    apply firstn_len_app.
  Qed.

  Lemma len1 {T} (z : list T) : List.length z = 1 -> exists e, z = [e].
  Proof. destruct z as [|e [|]]; cbn; try discriminate. eauto. Qed.

  Lemma ir_insert_after : run_method expected_InsertAfter y (mkI l i s) = Some (cop_abs (mkI l i s) (CInsertAfter y)).
  Proof.
    rewrite abs_insert_after. unfold run_method, expected_InsertAfter. cbn [run_ir iop_step option_map fst lst idx stp].
    f_equal. f_equal.
    unfold l, i.
    replace ((A ++ x :: R) ++ [0%N]) with (A ++ (x :: R ++ [0%N])) by (rewrite <- app_assoc; reflexivity).
    set (v := A ++ x :: R ++ [0%N]).
    assert (Hlen : List.length v = List.length A + (2 + List.length R)).
    { subst v. rewrite app_length. cbn [List.length]. rewrite app_length. cbn [List.length]. lia. }
    rewrite Hlen.
    replace (zoff (List.length A) 2) with (List.length A + 2) by (unfold zoff; lia).
    replace (zoff (List.length A) 1) with (List.length A + 1) by (unfold zoff; lia).
    unfold copy_range.
    replace (Nat.min (List.length A + (2 + List.length R) - (List.length A + 2)) (List.length A + (2 + List.length R) - (List.length A + 1)))
      with (List.length R) by lia.
    assert (E1 : firstn (List.length A + 2) v = A ++ x :: firstn 1 (R ++ [0%N])).
    { subst v. rewrite firstn_len_plus. reflexivity. }
    assert (E2 : firstn (List.length R) (skipn (List.length A + 1) v) = R).
    { subst v. rewrite skipn_len_plus. cbn [skipn]. apply firstn_len_app. }
    assert (E3 : skipn (List.length A + 2 + List.length R) v = []).
    { subst v. replace (List.length A + 2 + List.length R) with (List.length A + S (S (List.length R))) by lia.
      rewrite skipn_len_plus.
      replace (S (S (List.length R))) with (S (List.length (R ++ [0%N]))) by (rewrite app_length; cbn; lia).
      rewrite skipn_S_cons. apply skipn_all'. }
    rewrite E1, E2, E3. rewrite app_nil_r.
    destruct (len1 (firstn 1 (R ++ [0%N]))) as [e He].
    { rewrite firstn_length, app_length. cbn [List.length]. lia. }
    rewrite He. unfold set_at.
    replace ((A ++ [x; e]) ++ R) with (A ++ (x :: e :: R)) by (rewrite <- app_assoc; reflexivity).
    replace (List.length A + 1) with (List.length A + 1) by lia.
    rewrite firstn_len_plus. replace (S (List.length A + 1)) with (List.length A + 2) by lia.
    rewrite skipn_len_plus. cbn [firstn skipn]. rewrite <- app_assoc. reflexivity.
  Qed.

  Lemma ir_insert_before : run_method expected_InsertBefore y (mkI l i s) = Some (cop_abs (mkI l i s) (CInsertBefore y)).
  Proof.
    rewrite abs_insert_before. unfold run_method, expected_InsertBefore. cbn [run_ir iop_step option_map fst lst idx stp].
    f_equal.
    unfold l, i.
    replace ((A ++ x :: R) ++ [0%N]) with (A ++ (x :: R ++ [0%N])) by (rewrite <- app_assoc; reflexivity).
    set (v := A ++ x :: R ++ [0%N]).
    assert (Hlen : List.length v = List.length A + (2 + List.length R)).
    { subst v. rewrite app_length. cbn [List.length]. rewrite app_length. cbn [List.length]. lia. }
    rewrite Hlen.
    replace (zoff (List.length A) 1) with (List.length A + 1) by (unfold zoff; lia).
    replace (zoff (List.length A) 0) with (List.length A + 0) by (unfold zoff; lia).
    unfold copy_range.
    replace (Nat.min (List.length A + (2 + List.length R) - (List.length A + 1)) (List.length A + (2 + List.length R) - (List.length A + 0)))
      with (S (List.length R)) by lia.
    assert (E1 : firstn (List.length A + 1) v = A ++ [x]).
    { subst v. rewrite firstn_len_plus. reflexivity. }
    assert (E2 : firstn (S (List.length R)) (skipn (List.length A + 0) v) = x :: R).
    { subst v. rewrite skipn_len_plus. cbn [skipn firstn]. f_equal. apply firstn_len_app. }
    assert (E3 : skipn (List.length A + 1 + S (List.length R)) v = []).
    { subst v. replace (List.length A + 1 + S (List.length R)) with (List.length A + S (S (List.length R))) by lia.
      rewrite skipn_len_plus.
      replace (S (S (List.length R))) with (S (List.length (R ++ [0%N]))) by (rewrite app_length; cbn; lia).
      rewrite skipn_S_cons. apply skipn_all'. }
    rewrite E1, E2, E3. rewrite app_nil_r.
    unfold set_at.
    replace ((A ++ [x]) ++ x :: R) with (A ++ (x :: x :: R)) by (rewrite <- app_assoc; reflexivity).
    rewrite firstn_len_plus. replace (S (List.length A + 0)) with (List.length A + 1) by lia.
    rewrite skipn_len_plus. cbn [firstn skipn]. rewrite app_nil_r.
    f_equal. unfold zoff. lia.
  Qed.
End Methods.

(* every method of the translated IR is its abstract list operation *)
Theorem methods_refine_list_ops (A R : list N) (x : N) (s : Z) (c : cop) :
  let st := mkI (A ++ x :: R) (List.length A) s in
  run_method (match c with
              | CReplace _ => expected_Replace | CDelete => expected_Delete
              | CInsertAfter _ => expected_InsertAfter | CInsertBefore _ => expected_InsertBefore end)
             (match c with CReplace y | CInsertAfter y | CInsertBefore y => y | CDelete => 0%N end) st
  = Some (cop_abs st c).
Proof.
  destruct c; cbn zeta; [apply ir_replace|apply ir_delete|apply ir_insert_after|apply ir_insert_before].
Qed.

(* ---- the loop -------------------------------------------------------------------------- *)
(* what one visit leaves in place of the visited element c: elements inserted before, the
   (possibly replaced) element unless deleted, elements inserted after (latest first) *)
Fixpoint visit (cs : list cop) (B : list N) (c : N) (Af : list N) : list N :=
  match cs with
  | [] => B ++ c :: Af
  | CReplace y :: r => visit r B y Af
  | CInsertAfter y :: r => visit r B c (y :: Af)
  | CInsertBefore y :: r => visit r (B ++ [y]) c Af
  | CDelete :: _ => B ++ Af
  end.

Fixpoint splice (script : N -> nat -> list cop) (R : list N) (k : nat) : list N :=
  match R with
  | [] => []
  | x :: R' => visit (script x k) [] x [] ++ splice script R' (S k)
  end.

Lemma visit_fold cs : forall A B c Af R, delete_last cs = true ->
  let s := fold_left cop_abs cs (mkI (A ++ B ++ c :: Af ++ R) (List.length A + List.length B) (1 + Z.of_nat (List.length Af))) in
  lst s = A ++ visit cs B c Af ++ R /\
  (Z.of_nat (idx s) + stp s)%Z = Z.of_nat (List.length A + List.length (visit cs B c Af)).
Proof.
  induction cs as [|o r IH]; intros A B c Af R Hd; cbn zeta.
  - cbn [fold_left visit lst idx stp]. split.
    + rewrite <- !app_assoc. reflexivity.
    + rewrite app_length. cbn [List.length]. lia.
  - cbn [fold_left].
    assert (Hshape : A ++ B ++ c :: Af ++ R = (A ++ B) ++ c :: (Af ++ R)) by (rewrite <- app_assoc; reflexivity).
    assert (Hlen : List.length A + List.length B = List.length (A ++ B)) by (rewrite app_length; reflexivity).
    destruct o as [y| |y|y]; cbn [visit].
    + (* Replace *)
      rewrite Hshape, Hlen, abs_replace. rewrite <- Hlen, <- app_assoc.
      apply (IH A B y Af R). destruct r; [reflexivity|exact Hd].
    + (* Delete: last operation *)
      assert (r = []) by (destruct r; [reflexivity|discriminate]). subst r.
      rewrite Hshape, Hlen, abs_delete. cbn [fold_left lst idx stp]. split.
      * rewrite <- !app_assoc. reflexivity.
      * rewrite !app_length. lia.
    + (* InsertAfter *)
      rewrite Hshape, Hlen, abs_insert_after. rewrite <- Hlen, <- app_assoc.
      replace (1 + Z.of_nat (List.length Af) + 1)%Z with (1 + Z.of_nat (List.length (y :: Af)))%Z by (cbn [List.length]; lia).
      apply (IH A B c (y :: Af) R). destruct r; [reflexivity|exact Hd].
    + (* InsertBefore *)
      rewrite Hshape, Hlen, abs_insert_before. 
      replace (S (List.length (A ++ B))) with (List.length A + List.length (B ++ [y])) by (rewrite !app_length; cbn; lia).
      replace ((A ++ B) ++ y :: c :: Af ++ R) with (A ++ (B ++ [y]) ++ c :: Af ++ R) by (rewrite <- !app_assoc; reflexivity).
      apply (IH A (B ++ [y]) c Af R). destruct r; [reflexivity|exact Hd].
Qed.

Lemma nth_len_app (A : list N) x R : nth (List.length A) (A ++ x :: R) 0%N = x.
Proof. induction A; cbn; auto. Qed.

(* For every script whose visits issue any sequence of Replace / InsertBefore / InsertAfter
   followed by at most one Delete, and every list: the loop visits exactly the original elements,
   each once and in order (inserted and replacement nodes are never visited), and leaves the
   list spliced accordingly. *)
Theorem apply_list_visits_once script :
  (forall x k, delete_last (script x k) = true) ->
  forall R A k fuel, List.length R < fuel ->
  apply_list fuel script (A ++ R) (List.length A) k = Some (R, A ++ splice script R k).
Proof.
  intros Hs. induction R as [|x R IH]; intros A k fuel Hf; destruct fuel as [|fuel]; try lia; cbn [apply_list].
  - rewrite app_nil_r. rewrite Nat.leb_refl. cbn [splice]. rewrite app_nil_r. reflexivity.
  - assert (Hlt : Nat.leb (List.length (A ++ x :: R)) (List.length A) = false).
    { apply Nat.leb_gt. rewrite app_length. cbn. lia. }
    rewrite Hlt. rewrite nth_len_app.
    pose proof (visit_fold (script x k) A [] x [] R (Hs x k)) as Hv. cbn zeta in Hv.
    cbn [app List.length] in Hv. rewrite Nat.add_0_r in Hv. change (1 + Z.of_nat 0)%Z with 1%Z in Hv.
    destruct Hv as [Hl Hn]. rewrite Hn.
    set (seg := visit (script x k) [] x []) in *.
    assert (Hneg : Z.ltb (Z.of_nat (List.length A + List.length seg)) 0 = false) by (apply Z.ltb_ge; lia).
    rewrite Hneg. rewrite Nat2Z.id. rewrite Hl.
    replace (List.length A + List.length seg) with (List.length (A ++ seg)) by (rewrite app_length; reflexivity).
    rewrite (app_assoc A seg R).
    rewrite (IH (A ++ seg) (S k) fuel); [|cbn in Hf; lia].
    cbn [splice]. fold seg. rewrite <- app_assoc. reflexivity.
Qed.

(* The restriction is needed: Delete followed by InsertAfter in one visit makes the loop visit
   the inserted node and skip the next original element. *)
Example delete_then_insert_after_refuted :
  let script := fun (x : N) (k : nat) => if N.eqb x 2 then [CDelete; CInsertAfter 9%N] else [] in
  apply_list 10 script [1; 2; 3; 4]%N 0 0 = Some ([1; 2; 9; 4]%N, [1; 3; 9; 4]%N).
Proof. vm_compute. reflexivity. Qed.
