From Coq Require Import List String ZArith NArith Bool Ascii Lia.
Import ListNotations.
From DV Require Import Model.Resolvers.
Local Open Scope string_scope.
Local Open Scope list_scope.

(* gotypes + resolvePath assign a path exactly to remote package-level references *)
Theorem gotypes_exact local r parent_dot_field :
  in_avoid parent_dot_field = false ->
  resolve_path false local false parent_dot_field (gotypes_resolve (occurrence_of local r)) = expected_path local r.
Proof.
  intros Hav. unfold resolve_path. rewrite Hav. cbn [negb andb].
  destruct r as [p|p| | | |[p|]| | |]; cbn [occurrence_of gotypes_resolve oc_sel_of oc_uses expected_path]; try reflexivity;
    try (change (strip_vendor "") with ""; destruct (String.eqb "" (strip_vendor local)); reflexivity).
  rewrite String.eqb_refl. reflexivity.
Qed.

(* for the Sel of a qualified identifier decorateSelectorExpr forces the resolution *)
Theorem gotypes_exact_forced local r :
  resolve_path true local false "SelectorExpr.Sel" (gotypes_resolve (occurrence_of local r)) = expected_path local r.
Proof.
  unfold resolve_path. cbn [negb andb].
  destruct r as [p|p| | | |[p|]| | |]; cbn [occurrence_of gotypes_resolve oc_sel_of oc_uses expected_path]; try reflexivity;
    try (change (strip_vendor "") with ""; destruct (String.eqb "" (strip_vendor local)); reflexivity).
  rewrite String.eqb_refl. reflexivity.
Qed.

(* avoid-listed positions (declaring names, labels, import names, selector Sel) never resolve *)
Theorem avoided_fields_get_no_path local rl raw pdf :
  in_avoid pdf = true -> resolve_path false local rl pdf raw = "".
Proof. intros H. unfold resolve_path. rewrite H. reflexivity. Qed.

(* goast refuses exactly when it meets a dot-import, an unresolvable package name or a second
   import under a name already taken; otherwise it returns the table it built *)
Lemma goast_scan_error name_of : forall specs acc why,
  goast_scan name_of specs acc = GIError why ->
  exists pre s post, specs = pre ++ s :: post /\ is_path s <> "C" /\
    (is_name s = "." \/
     (is_name s <> "_" /\
      ((is_name s = "" /\ name_of (is_path s) = None) \/
       exists n, (if String.eqb (is_name s) "" then name_of (is_path s) else Some (is_name s)) = Some n))).
Proof.
  induction specs as [|s r IH]; intros acc why H; cbn in H; [discriminate|].
  destruct (String.eqb_spec (is_path s) "C") as [HC|HC].
  - destruct (IH _ _ H) as [pre [s0 [post [E R]]]]. exists (s :: pre), s0, post. rewrite E. split; [reflexivity|exact R].
  - destruct (String.eqb_spec (is_name s) ".") as [Hd|Hd].
    + exists [], s, r. split; [reflexivity|]. split; [exact HC|left; exact Hd].
    + destruct (String.eqb_spec (is_name s) "_") as [Hu|Hu].
      * destruct (IH _ _ H) as [pre [s0 [post [E R]]]]. exists (s :: pre), s0, post. rewrite E. split; [reflexivity|exact R].
      * destruct (if String.eqb (is_name s) "" then name_of (is_path s) else Some (is_name s)) as [n|] eqn:En.
        -- destruct (existsb (fun e => String.eqb (fst e) n) acc) eqn:Ex.
           ++ exists [], s, r. split; [reflexivity|]. split; [exact HC|right]. split; [exact Hu|right]. exists n. exact En.
           ++ destruct (IH _ _ H) as [pre [s0 [post [E R]]]]. exists (s :: pre), s0, post. rewrite E. split; [reflexivity|exact R].
        -- exists [], s, r. split; [reflexivity|]. split; [exact HC|right]. split; [exact Hu|left].
           destruct (String.eqb_spec (is_name s) "") as [He|He]; [split; assumption|discriminate].
Qed.

Theorem goast_refuses_dot_imports name_of pre s post acc :
  is_name s = "." -> is_path s <> "C" ->
  (forall q, In q pre -> is_name q <> "." ) ->
  exists why, goast_scan name_of (pre ++ s :: post) acc = GIError why.
Proof.
  revert acc. induction pre as [|q pre IH]; intros acc Hd HC Hpre; cbn.
  - destruct (String.eqb_spec (is_path s) "C"); [contradiction|]. rewrite Hd. cbn. eauto.
  - destruct (String.eqb (is_path q) "C"); [apply IH; auto; intros; apply Hpre; right; assumption|].
    destruct (String.eqb_spec (is_name q) "."); [exfalso; apply (Hpre q); [left; reflexivity|assumption]|].
    destruct (String.eqb (is_name q) "_"); [apply IH; auto; intros; apply Hpre; right; assumption|].
    destruct (if String.eqb (is_name q) "" then name_of (is_path q) else Some (is_name q)); [|eauto].
    destruct (existsb _ acc); [eauto|]. apply IH; auto. intros; apply Hpre; right; assumption.
Qed.

(* stripVendor examples incl. nested vendor directories: the LAST one counts *)
Example strip_vendor_examples :
  strip_vendor "a/vendor/b/vendor/c/d" = "c/d" /\ strip_vendor "vendor/x/y" = "x/y" /\
  strip_vendor "root/a" = "root/a" /\ strip_vendor "root/vendorx/a" = "root/vendorx/a".
Proof. vm_compute. repeat split. Qed.
