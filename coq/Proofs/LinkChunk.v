(* Where link() puts the comments and line breaks of a "chunk" (C02, C01): a comment directly
   after a node's End point on the same line goes to that End point; comment lines directly
   before a node's Start point (no blank line in between) go to that Start point, in order;
   a line break between an End point and a Start point becomes After of the one node and Before
   of the other.  All statements are about one step of pass 1 / pass 2 in an arbitrary state. *)
From Coq Require Import List String ZArith NArith Bool Lia.
Import ListNotations.
From DV Require Import Model.Tree Model.Link Proofs.LinkProofs.
Local Open Scope list_scope.

(* ---- trailing comment ------------------------------------------------------------------------ *)
Lemma bwd_adjacent_dec sn se fs i d ind nid cls name st en :
  nth_error fs (S i) = Some (FCom d ind None) ->
  nth_error fs i = Some (FDec nid cls name st en) ->
  find_decoration sn se fs (S i) false = Some ([S i], i).
Proof.
  intros Hc Hd. unfold find_decoration. cbn [find_dec_bwd]. rewrite Hc. cbn [scan_step].
  destruct i; cbn [find_dec_bwd]; rewrite Hd; reflexivity.
Qed.

Theorem trailing_comment_goes_to_end s i d ind nid cls name st en :
  l_panic s = false ->
  nth_error (l_frags s) (S i) = Some (FCom d ind None) ->
  nth_error (l_frags s) i = Some (FDec nid cls name st en) ->
  let s' := pass1_step s (S i) in
  dget (l_decs s') (nid, name) = dget (l_decs s) (nid, name) ++ [d] /\
  nth_error (l_frags s') (S i) = Some (FCom d ind (Some i)) /\
  (forall k, dkey_eqb k (nid, name) = false -> dget (l_decs s') k = dget (l_decs s) k).
Proof.
  intros Hp Hc Hd. unfold pass1_step. rewrite Hp, Hc.
  rewrite (bwd_adjacent_dec true true _ _ _ _ _ _ _ _ _ Hc Hd).
  unfold attach. cbn [fold_left]. unfold attach_one, dec_key. rewrite Hd, Hc. cbn [l_decs l_frags].
  split; [apply dget_dset_same|]. split.
  - apply nth_set_nth_same. apply nth_error_Some. congruence.
  - intros k Hk. apply dget_dset_other. exact Hk.
Qed.

(* ---- leading comment lines ------------------------------------------------------------------- *)
(* a run of unattached comments and non-empty line breaks [i, i+n) followed by a decoration *)
Definition leading_run (fs : list frag) (i n : nat) : Prop :=
  forall k, k < n -> match nth_error fs (i + k) with
                     | Some (FCom _ _ None) | Some (FNl false None) => True
                     | _ => False
                     end.

Lemma fwd_sweeps_run fs : forall n i fuel acc nid cls name st en,
  leading_run fs i n -> nth_error fs (i + n) = Some (FDec nid cls name st en) -> n < fuel ->
  find_dec_fwd false true fs i fuel acc = Some (acc ++ seq i n, i + n).
Proof.
  induction n as [|n IH]; intros i fuel acc nid cls name st en Hrun Hd Hf.
  - rewrite Nat.add_0_r in *. destruct fuel; [lia|]. cbn [find_dec_fwd]. rewrite Hd. cbn. rewrite app_nil_r. reflexivity.
  - destruct fuel as [|fuel]; [lia|]. cbn [find_dec_fwd].
    pose proof (Hrun 0 ltac:(lia)) as H0. rewrite Nat.add_0_r in H0.
    assert (Hstep : scan_step false true (nth_error fs i) = RCont true).
    { destruct (nth_error fs i) as [[| | |? ? [?|]|[|] [?|]]|]; try contradiction; reflexivity. }
    rewrite Hstep.
    rewrite (IH (S i) fuel (acc ++ [i]) nid cls name st en).
    + rewrite <- app_assoc. cbn [seq app]. replace (S i + n) with (i + S n) by lia. reflexivity.
    + intros k Hk. specialize (Hrun (S k) ltac:(lia)). replace (S i + k) with (i + S k) by lia. exact Hrun.
    + replace (S i + n) with (i + S n) by lia. exact Hd.
    + lia.
Qed.

(* the first try (backwards on the same line) fails for a comment on a line of its own *)
Lemma bwd_same_line_none fs i d ind e a :
  nth_error fs (S i) = Some (FCom d ind None) -> nth_error fs i = Some (FNl e a) ->
  find_decoration true true fs (S i) false = None.
Proof.
  intros Hc Hn. unfold find_decoration. cbn [find_dec_bwd]. rewrite Hc. cbn [scan_step].
  destruct i; cbn [find_dec_bwd]; rewrite Hn; reflexivity.
Qed.

(* attach over a list of indices: the comments among them are appended in index order *)
Fixpoint swept_decs (fs : list frag) (ds : list dec) (sw : list nat) : list dec :=
  match sw with
  | [] => ds
  | i :: r => match nth_error fs i with
              | Some (FCom d _ _) => swept_decs fs (ds ++ [d]) r
              | Some (FNl e _) => swept_decs fs (append_newline ds e) r
              | _ => swept_decs fs ds r
              end
  end.

Lemma swept_after_attach_one j s i key :
  dec_key (l_frags s) j = Some key ->
  forall r ds, ~ In i r -> swept_decs (l_frags (attach_one j s i)) ds r = swept_decs (l_frags s) ds r.
Proof.
  intros Hk. induction r as [|x r IHr]; intros ds Hi; [reflexivity|]. cbn [swept_decs].
  assert (Hx : x <> i) by (intros ->; apply Hi; left; reflexivity).
  assert (Hi' : ~ In i r) by (intros H; apply Hi; right; exact H).
  assert (E : nth_error (l_frags (attach_one j s i)) x = nth_error (l_frags s) x).
  { unfold attach_one. rewrite Hk. destruct (nth_error (l_frags s) i) as [[| | |? ? ?|? ?]|]; cbn [l_frags]; try reflexivity;
    rewrite nth_set_nth_other by (intros E; apply Hx; symmetry; exact E); reflexivity. }
  rewrite E. destruct (nth_error (l_frags s) x) as [[| | |? ? ?|? ?]|]; apply IHr; exact Hi'.
Qed.

Lemma attach_swept sw : forall s j key,
  dec_key (l_frags s) j = Some key -> NoDup sw -> ~ In j sw ->
  dget (l_decs (attach s sw j)) key = swept_decs (l_frags s) (dget (l_decs s) key) sw /\
  (forall k, dkey_eqb k key = false -> dget (l_decs (attach s sw j)) k = dget (l_decs s) k).
Proof.
  induction sw as [|i r IH]; intros s j key Hk Hnd Hj; [split; [reflexivity|auto]|].
  rewrite attach_cons. inversion Hnd as [|? ? Hi Hr]; subst.
  assert (Hj' : ~ In j r) by (intros H; apply Hj; right; exact H).
  assert (Hij : i <> j) by (intros ->; apply Hj; left; reflexivity).
  pose proof (attach_one_extends j s i) as Hext.
  pose proof (dec_key_extends _ _ j key Hext Hk) as Hk'.
  destruct (IH (attach_one j s i) j key Hk' Hr Hj') as [A B].
  pose proof (fun ds => swept_after_attach_one j s i key Hk r ds Hi) as Hsame.
  split.
  - rewrite A, Hsame. cbn [swept_decs]. unfold attach_one. rewrite Hk.
    destruct (nth_error (l_frags s) i) as [[| | |d ind a|e a]|]; cbn [l_decs]; try reflexivity; rewrite dget_dset_same; reflexivity.
  - intros k Hne. rewrite (B k Hne). unfold attach_one. rewrite Hk.
    destruct (nth_error (l_frags s) i) as [[| | |d ind a|e a]|]; cbn [l_decs]; try reflexivity; apply dget_dset_other; exact Hne.
Qed.

Lemma seq_NoDup n : forall i, NoDup (seq i n).
Proof. induction n as [|n IH]; intros i; cbn; constructor; [rewrite in_seq; lia|apply IH]. Qed.

(* Comment lines directly before a node: the comment at S i stands on a line of its own (the
   fragment before it is a line break), and between it and the Start point of node nid there are
   only comments and non-empty line breaks.  Then this step of pass 1 appends all of them, in
   source order, to nid's Start decorations, and to no other decoration list. *)
Theorem leading_comments_go_to_start s i n d ind e a nid cls st en :
  l_panic s = false ->
  nth_error (l_frags s) (S i) = Some (FCom d ind None) ->
  nth_error (l_frags s) i = Some (FNl e a) ->
  leading_run (l_frags s) (S i) n ->
  nth_error (l_frags s) (S i + n) = Some (FDec nid cls "Start" st en) ->
  let s' := pass1_step s (S i) in
  dget (l_decs s') (nid, "Start"%string) = swept_decs (l_frags s) (dget (l_decs s) (nid, "Start"%string)) (seq (S i) n) /\
  (forall k, dkey_eqb k (nid, "Start"%string) = false -> dget (l_decs s') k = dget (l_decs s) k).
Proof.
  intros Hp Hc Hn Hrun Hd. unfold pass1_step. rewrite Hp, Hc.
  rewrite (bwd_same_line_none _ _ _ _ _ _ Hc Hn).
  assert (Hlen : S i + n < List.length (l_frags s)) by (apply nth_error_Some; congruence).
  assert (Hfuel : n < S (List.length (l_frags s))) by lia.
  assert (E : find_decoration false true (l_frags s) (S i) true = Some (seq (S i) n, S i + n)).
  { unfold find_decoration.
    rewrite (fwd_sweeps_run (l_frags s) n (S i) (S (List.length (l_frags s))) [] nid cls "Start"%string st en Hrun Hd Hfuel). reflexivity. }
  rewrite E. apply attach_swept.
  - unfold dec_key. rewrite Hd. reflexivity.
  - apply seq_NoDup.
  - rewrite in_seq. lia.
Qed.

(* ---- a line break between two nodes ----------------------------------------------------------- *)
Lemma sget_sset_same m k v : sget (sset m k v) k = Some v.
Proof. induction m as [|[k' v'] r IH]; cbn; [rewrite N.eqb_refl; reflexivity|]. destruct (N.eqb k k') eqn:E; cbn; rewrite ?N.eqb_refl, ?E; auto. Qed.

(* the line break at S i directly follows the End point of node na and directly precedes the
   Start point of node nb: pass 2 records it as After of na and Before of nb (an EmptyLine
   already recorded is kept), and changes no decoration list. *)
Theorem separator_becomes_spacing s i e na ca sa ea nb cb sb eb :
  l_panic s = false ->
  nth_error (l_frags s) (S i) = Some (FNl e None) ->
  nth_error (l_frags s) i = Some (FDec na ca "End" sa ea) ->
  nth_error (l_frags s) (S (S i)) = Some (FDec nb cb "Start" sb eb) ->
  let s' := pass2_step s (S i) in
  let sp := if e then SEmptyLine else SNewLine in
  (sget (l_after s') na = Some sp \/ sget (l_after s') na = Some SEmptyLine) /\
  (sget (l_before s') nb = Some sp \/ sget (l_before s') nb = Some SEmptyLine) /\
  l_decs s' = l_decs s /\ l_panic s' = false.
Proof.
  intros Hp Hn Ha Hb. unfold pass2_step. rewrite Hp, Hn. cbv zeta.
  assert (Hlen : S (S i) < List.length (l_frags s)) by (apply nth_error_Some; congruence).
  assert (Hf : find_node_fwd (l_frags s) (S i) (S (List.length (l_frags s))) = Some nb).
  { destruct (List.length (l_frags s)) as [|[|len]] eqn:El; try lia.
    cbn [find_node_fwd]. rewrite Hn. cbn [node_step]. rewrite Hb. cbn [node_step]. reflexivity. }
  assert (Hw : find_node_bwd (l_frags s) (S i) = Some na).
  { cbn [find_node_bwd]. rewrite Hn. cbn [node_step]. destruct i; cbn [find_node_bwd]; rewrite Ha; reflexivity. }
  rewrite Hf, Hw. cbn [l_after l_before l_decs l_panic]. repeat split.
  - destruct (sget (l_after s) na) as [[| |]|] eqn:E; try (left; apply sget_sset_same). right. exact E.
  - destruct (sget (l_before s) nb) as [[| |]|] eqn:E; try (left; apply sget_sset_same). right. exact E.
Qed.
