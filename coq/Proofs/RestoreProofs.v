(* Invariants of the restorer state machine (Model/Restore.v), for arbitrary action lists. *)
From Coq Require Import List String ZArith NArith Bool Lia Arith.
Import ListNotations.
From DV Require Import Model.Tree Model.Tables Model.Restore.
Local Open Scope Z_scope.
Local Open Scope list_scope.

(* ---- well-formed data ---------------------------------------------------------------- *)

(* offsets strictly increasing, all in [lo, hi) *)
Fixpoint offs_ok (lo hi : Z) (l : list Z) : Prop :=
  match l with
  | [] => True
  | o :: r => lo <= o < hi /\ offs_ok (o + 1) hi r
  end.

Definition dec_ok (d : dec) : Prop :=
  match d with
  | DNl => True
  | DLine l _ => 2 <= l
  | DBlock l nls _ => 4 <= l /\ offs_ok 2 l nls
  | DOther l _ => 0 <= l
  end.

Definition act_ok (a : action) : Prop :=
  match a with
  | AAdv l => 0 <= l
  | ADecs _ _ _ _ ds => Forall dec_ok ds
  | ALit l nls => 0 <= l /\ offs_ok 1 l nls      (* a raw string starts with its back quote *)
  | _ => True
  end.

(* [safe k acts]: a raw-string literal's line offsets (slack k = its length) are followed,
   after position-neutral actions only, by the cursor advance over the literal. *)
Fixpoint safe (k : Z) (acts : list action) : Prop :=
  match acts with
  | [] => k = 0
  | a :: r =>
    match a with
    | AEnter _ | AMapAt _ | ASetPos _ _ | ASetNoPos _ _ => safe k r
    | AAdv l => k <= l /\ safe 0 r
    | ALit l nls => k = 0 /\ safe (match nls with [] => 0 | _ => l end) r
    | ASpace _ _ _ | ADecs _ _ _ _ _ => k = 0 /\ safe 0 r
    | APanic _ => True
    end
  end.

(* ---- the invariant -------------------------------------------------------------------- *)

Fixpoint desc (l : list Z) : Prop :=     (* newest first: strictly decreasing *)
  match l with
  | a :: ((b :: _) as r) => b < a /\ desc r
  | _ => True
  end.

Definition fresh (s : rstate) : Prop := lines s = [0] /\ cursor s = base s.

Definition hd_line (s : rstate) : Z := match lines s with h :: _ => h | [] => -1 end.

Record K (s : rstate) : Prop := mkK {
  K_base : 1 <= base s;
  K_cur : base s <= cursor s;
  K_atnl : atnl s <= cursor s;
  K_desc : desc (lines s);
  K_nonneg : forall o, In o (lines s) -> 0 <= o;
  K_pos : forall id f p, In (id, f, p) (poss s) -> p = 0 \/ base s <= p <= cursor s;
  K_com : forall g p l u, In g (comments s) -> In (p, l, u) (g_list g) -> base s <= p /\ p + l <= cursor s
}.

(* slack k: the newest line offset may exceed the cursor by less than k (inside a raw string) *)
Definition J (s : rstate) (k : Z) : Prop :=
  K s /\ (hd_line s < cursor s - base s + k \/ (fresh s /\ k = 0)).

Lemma J_init b : 1 <= b -> J (init_r b) 0.
Proof.
  intros Hb. split.
  - constructor; cbn; try lia; auto; try (intros; contradiction).
  - right. split; [split; reflexivity|reflexivity].
Qed.

(* a state in which a "\n" decoration may be emitted: something precedes it in the file *)
Definition not_fresh (s : rstate) : Prop := hd_line s < cursor s - base s.

Lemma desc_cons h l : desc l -> (match l with x :: _ => x < h | [] => True end) -> desc (h :: l).
Proof. destruct l; cbn; auto. Qed.

Lemma J_hd_le s : J s 0 -> hd_line s <= cursor s - base s.
Proof.
  intros [HK [H|[[Hl Hc] _]]]; [lia|]. unfold hd_line. rewrite Hl. lia.
Qed.

(* adding one line offset above the newest one *)
Lemma add_line_K s off : K s -> hd_line s < off -> K (add_line s off) /\ hd_line (add_line s off) = off.
Proof.
  intros [Hb Hc Ha Hd Hn Hp Hcm] Hlt. split; [|reflexivity].
  constructor; cbn; auto.
  - apply desc_cons; [exact Hd|]. unfold hd_line in Hlt. destruct (lines s); [exact I|exact Hlt].
  - intros o [<-|Hin]; [|auto]. unfold hd_line in Hlt. destruct (lines s) as [|h r]; [lia|].
    specialize (Hn h (or_introl eq_refl)). lia.
Qed.

(* ---- applySpace ------------------------------------------------------------------------ *)

Lemma space_nl_J s : J s 0 -> J (space_nl s) 0 /\ not_fresh (space_nl s)
                      /\ cursor (space_nl s) = cursor s + 2 /\ atnl (space_nl s) = cursor s + 2
                      /\ lines (space_nl s) = (cursor s + 1 - base s) :: lines s.
Proof.
  intros HJ. pose proof (J_hd_le s HJ) as Hle. destruct HJ as [[Hb Hc Ha Hd Hn Hp Hcm] _].
  unfold space_nl. cbn.
  split; [|split; [unfold not_fresh, hd_line; cbn; lia|split; [lia|split; [lia|reflexivity]]]].
  split.
  - constructor; cbn; [lia|lia|lia| | | |].
    + apply desc_cons; [exact Hd|]. unfold hd_line in Hle. destruct (lines s); [exact I|lia].
    + intros o [<-|Hin]; [lia|auto].
    + intros id f p Hin. destruct (Hp id f p Hin); [left; assumption|right; lia].
    + intros g p l u Hg Hin. destruct (Hcm g p l u Hg Hin). lia.
  - left. unfold hd_line. cbn. lia.
Qed.

Lemma apply_space_J s isbad after sp : J s 0 -> J (apply_space s isbad after sp) 0.
Proof.
  intros HJ. unfold apply_space.
  destruct (Z.leb _ 0); [exact HJ|].
  destruct (Z.eqb _ 1); [apply space_nl_J; exact HJ|].
  apply space_nl_J. apply space_nl_J. exact HJ.
Qed.

Lemma apply_space_cursor s isbad after sp : cursor s <= cursor (apply_space s isbad after sp).
Proof.
  unfold apply_space. destruct (Z.leb _ 0); [lia|].
  destruct (Z.eqb _ 1); unfold space_nl; cbn; lia.
Qed.

(* ---- line offsets inside multi-line comments and raw strings ---------------------------- *)

Definition add_lines (s : rstate) (nls : list Z) : rstate :=
  fold_left (fun s off => add_line s (cursor s - base s + off)) nls s.

Lemma add_lines_K (nls : list Z) : forall s lo hi,
  offs_ok lo hi nls -> K s -> hd_line s < cursor s - base s + lo ->
  K (add_lines s nls) /\
  hd_line (add_lines s nls) < cursor s - base s + (match nls with [] => lo | _ => hi end) /\
  cursor (add_lines s nls) = cursor s /\ atnl (add_lines s nls) = atnl s /\ base (add_lines s nls) = base s /\
  comments (add_lines s nls) = comments s /\ poss (add_lines s nls) = poss s /\
  seen (add_lines s nls) = seen s /\ panic (add_lines s nls) = panic s.
Proof.
  unfold add_lines. induction nls as [|o r IH]; intros s lo hi Hok HK Hhd; cbn [fold_left].
  - split; [exact HK|split; [exact Hhd|repeat split; reflexivity]].
  - cbn in Hok. destruct Hok as [Ho Hr].
    destruct (add_line_K s (cursor s - base s + o) HK ltac:(lia)) as [HK1 Hh1].
    specialize (IH (add_line s (cursor s - base s + o)) (o + 1) hi Hr HK1).
    cbn [add_line cursor base] in IH. rewrite Hh1 in IH. specialize (IH ltac:(lia)).
    destruct IH as [A [B [C1 [C2 [C3 [C4 [C5 [C6 C7]]]]]]]].
    split; [exact A|split; [destruct r; lia|repeat split; assumption]].
Qed.

(* ---- applyDecorations ------------------------------------------------------------------ *)

(* the state is still exactly the initial one as far as lines and cursor go *)
Definition fresh_b (s : rstate) : bool :=
  match lines s with
  | [0] => Z.eqb (cursor s) (base s)
  | _ => false
  end.

Lemma fresh_b_false s : fresh_b s = false -> ~ fresh s.
Proof.
  unfold fresh_b, fresh. intros H [Hl Hc]. rewrite Hl in H. rewrite Hc, Z.eqb_refl in H. discriminate.
Qed.

Lemma K_mono s s' :
  K s -> base s' = base s -> lines s' = lines s -> poss s' = poss s -> comments s' = comments s ->
  cursor s <= cursor s' -> atnl s' <= cursor s' -> K s'.
Proof.
  intros [Hb Hc Ha Hd Hn Hp Hcm] Eb El Ep Ec Hle Hat.
  constructor; rewrite ?Eb, ?El, ?Ep, ?Ec; auto; try lia.
  - intros id f p Hin. destruct (Hp id f p Hin); [left; assumption|right; lia].
  - intros g p l u Hg Hin. destruct (Hcm g p l u Hg Hin). lia.
Qed.

Lemma hd_line_eq s s' : lines s' = lines s -> hd_line s' = hd_line s.
Proof. unfold hd_line. intros ->. reflexivity. Qed.

Lemma add_to_group_In gs id c gs' :
  add_to_group gs id c = Some gs' ->
  forall g, In g gs' -> In g gs \/ (exists g0, In g0 gs /\ g_list g = g_list g0 ++ [c]).
Proof.
  revert gs'. induction gs as [|g0 r IH]; intros gs' H g Hin; cbn in H; [discriminate|].
  destruct (N.eqb (g_owner g0) id && negb (N.eqb id 0)).
  - inversion H; subst gs'. destruct Hin as [<-|Hin].
    + right. exists g0. split; [left; reflexivity|reflexivity].
    + left. right. exact Hin.
  - destruct (add_to_group r id c) as [r'|] eqn:E; [|discriminate]. inversion H; subst gs'.
    destruct Hin as [<-|Hin]; [left; left; reflexivity|].
    destruct (IH r' eq_refl g Hin) as [A|[g1 [A B]]]; [left; right; exact A|].
    right. exists g1. split; [right; exact A|exact B].
Qed.

(* adding one comment at the cursor and advancing over it *)
Lemma comment_K s (gs : list cgroup) p l :
  K s -> p = cursor s -> 0 <= l ->
  (forall g q m u, In g gs -> In (q, m, u) (g_list g) ->
      (exists g0, In g0 (comments s) /\ In (q, m, u) (g_list g0)) \/ (q = p /\ m = l)) ->
  K (set_cursor (add_comment s gs) (cursor s + l)).
Proof.
  intros [Hb Hc Ha Hd Hn Hp Hcm] -> Hl Hg. constructor; cbn; auto; try lia.
  - intros id f p Hin. destruct (Hp id f p Hin); [left; assumption|right; lia].
  - intros g q m u Hin1 Hin2. destruct (Hg g q m u Hin1 Hin2) as [[g0 [A B]]|[-> ->]].
    + destruct (Hcm g0 q m u A B). lia.
    + lia.
Qed.

Definition bump (isend : bool) (s : rstate) : rstate :=
  if isend && Z.eqb (atnl s) (cursor s) then set_cursor s (cursor s + 1) else s.

Lemma bump_J isend s : J s 0 -> J (bump isend s) 0 /\ cursor s <= cursor (bump isend s) /\
                        (fresh_b s = false -> not_fresh (bump isend s)).
Proof.
  intros HJ. pose proof (J_hd_le s HJ) as Hle. unfold bump.
  destruct (isend && Z.eqb (atnl s) (cursor s)).
  - destruct HJ as [HK _]. split; [|split; [cbn; lia|intros _; unfold not_fresh, hd_line in *; cbn; lia]].
    split.
    + apply (K_mono s); auto; cbn; try lia. destruct HK. lia.
    + left. unfold hd_line in *. cbn. lia.
  - split; [exact HJ|split; [lia|]]. intros Hf. apply fresh_b_false in Hf.
    destruct HJ as [_ [H|[H _]]]; [unfold not_fresh; lia|contradiction].
Qed.

Definition with_comment (s : rstate) (id : N) (kind : string) (fld : bool) (l : Z) (u : N) : rstate :=
  if fld then add_field_comment s id (cursor s, l, u)
  else add_comment s (mkGroup 0 [(cursor s, l, u)] :: comments s).

Lemma with_comment_K s id kind fld l u :
  K s -> 0 <= l ->
  let s2 := with_comment s id kind fld l u in
  K (set_cursor s2 (cursor s2 + l)) /\ cursor s2 = cursor s /\ base s2 = base s /\
  lines s2 = lines s /\ atnl s2 = atnl s.
Proof.
  intros HK Hl. unfold with_comment. destruct fld.
  - unfold add_field_comment. destruct (add_to_group (comments s) id (cursor s, l, u)) as [gs|] eqn:E.
    + split; [|cbn; auto]. apply (comment_K s gs (cursor s) l HK eq_refl Hl).
      intros g q m u0 Hg Hin. destruct (add_to_group_In _ _ _ _ E g Hg) as [A|[g0 [A B]]].
      * left. exists g. auto.
      * rewrite B in Hin. apply in_app_or in Hin. destruct Hin as [Hin|[Hin|[]]].
        -- left. exists g0. auto.
        -- right. inversion Hin. auto.
    + split; [|cbn; auto]. apply (comment_K s _ (cursor s) l HK eq_refl Hl).
      intros g q m u0 [<-|Hg] Hin.
      * cbn in Hin. destruct Hin as [Hin|[]]. right. inversion Hin. auto.
      * left. exists g. auto.
  - split; [|cbn; auto]. apply (comment_K s _ (cursor s) l HK eq_refl Hl).
    intros g q m u0 [<-|Hg] Hin.
    + cbn in Hin. destruct Hin as [Hin|[]]. right. inversion Hin. auto.
    + left. exists g. auto.
Qed.

Lemma dec_step_J id kind isend s first d :
  J s 0 -> dec_ok d ->
  J (fst (dec_step id kind isend (s, first) d)) 0 /\
  cursor s <= cursor (fst (dec_step id kind isend (s, first) d)).
Proof.
  intros HJ Hok. unfold dec_step. fold (bump isend s).
  destruct (bump_J isend s HJ) as [HJ1 [Hc1 Hnf]].
  set (s1 := bump isend s) in *.
  destruct d as [|l u|l nls u|l u]; cbn [fst].
  - (* "\n": the cursor steps over the line break first *)
    pose proof (J_hd_le s1 HJ1) as Hle. destruct HJ1 as [HK1 _].
    set (s1' := set_cursor s1 (cursor s1 + 1)).
    assert (HK1' : K s1') by (apply (K_mono s1); auto; cbn; try lia; destruct HK1; lia).
    assert (Hh1' : hd_line s1' < cursor s1' - base s1') by (unfold s1', hd_line in *; cbn; lia).
    destruct (add_line_K s1' (cursor s1' - base s1') HK1' Hh1') as [HK2 Hh2].
    split; [|cbn; lia]. split.
    + apply (K_mono (add_line s1' (cursor s1' - base s1'))); auto; cbn; try lia.
    + left. unfold hd_line. cbn. lia.
  - (* line comment *)
    cbn in Hok. pose proof (J_hd_le s1 HJ1) as Hle. destruct HJ1 as [HK1 _].
    fold (with_comment s1 id kind (first && isend && has_comment_field kind) l u).
    destruct (with_comment_K s1 id kind (first && isend && has_comment_field kind) l u HK1 ltac:(lia))
      as [HK3 [E1 [E2 [E3 E4]]]].
    set (s2 := with_comment s1 id kind (first && isend && has_comment_field kind) l u) in *.
    set (s3 := set_cursor s2 (cursor s2 + l)) in *.
    assert (Hh3 : hd_line s3 < cursor s3 - base s3).
    { unfold s3, hd_line in *. cbn. rewrite E1, E2, E3. lia. }
    destruct (add_line_K s3 (cursor s3 - base s3) HK3 Hh3) as [HK4 Hh4].
    split; [|cbn; unfold s3; cbn; lia]. split.
    + apply (K_mono (add_line s3 (cursor s3 - base s3))); auto; cbn; try lia.
    + left. unfold hd_line. cbn. lia.
  - (* block comment *)
    cbn in Hok. destruct Hok as [Hl Hoffs]. pose proof (J_hd_le s1 HJ1) as Hle. destruct HJ1 as [HK1 _].
    fold (add_lines s1 nls).
    destruct (add_lines_K nls s1 2 l Hoffs HK1 ltac:(lia)) as [HKa [Hha [Ca [Aa [Ba [Cma [Pa [Sa Pna]]]]]]]].
    set (sa := add_lines s1 nls) in *.
    fold (with_comment sa id kind (first && isend && has_comment_field kind) l u).
    destruct (with_comment_K sa id kind (first && isend && has_comment_field kind) l u HKa ltac:(lia))
      as [HK3 [E1 [E2 [E3 E4]]]].
    set (s2 := with_comment sa id kind (first && isend && has_comment_field kind) l u) in *.
    split; [|cbn; lia]. split; [exact HK3|].
    left. unfold hd_line in *. cbn. rewrite E1, E2, E3, Ca, Ba. destruct nls; lia.
  - (* other strings: only the End bump *)
    split; [exact HJ1|exact Hc1].
Qed.

Lemma fold_decs_J id kind isend ds : forall s first,
  J s 0 -> Forall dec_ok ds ->
  J (fst (fold_left (dec_step id kind isend) ds (s, first))) 0 /\
  cursor s <= cursor (fst (fold_left (dec_step id kind isend) ds (s, first))).
Proof.
  induction ds as [|d r IH]; intros s first HJ Hok; cbn [fold_left].
  - split; [exact HJ|cbn; lia].
  - inversion Hok as [|? ? Hd Hr]; subst.
    destruct (dec_step_J id kind isend s first d HJ Hd) as [HJ1 Hc1].
    destruct (dec_step id kind isend (s, first) d) as [s1 f1] eqn:E. cbn [fst] in *.
    destruct (IH s1 f1 HJ1 Hr) as [HJ2 Hc2]. split; [exact HJ2|lia].
Qed.

Lemma apply_decs_J s id kind name isend ds :
  J s 0 -> Forall dec_ok ds ->
  J (apply_decs s id kind name isend ds) 0 /\ cursor s <= cursor (apply_decs s id kind name isend ds).
Proof.
  intros HJ Hok. unfold apply_decs.
  destruct (fold_decs_J id kind isend ds s true HJ Hok) as [HJ1 Hc1].
  set (s1 := fst (fold_left (dec_step id kind isend) ds (s, true))) in *.
  destruct (String.eqb kind "File" && String.eqb name "Start"); [|split; assumption].
  pose proof (J_hd_le s1 HJ1) as Hle. destruct HJ1 as [HK1 _].
  split; [|cbn; lia]. split.
  - apply (K_mono s1); auto; cbn; try lia. destruct HK1; lia.
  - left. unfold hd_line in *. cbn. lia.
Qed.

(* ---- one action, whole runs ------------------------------------------------------------- *)

Definition next_slack (k : Z) (a : action) : Z :=
  match a with
  | AEnter _ | AMapAt _ | ASetPos _ _ | ASetNoPos _ _ => k
  | ALit l (_ :: _) => l
  | _ => 0
  end.

Lemma rstep_J s k a :
  J s k -> act_ok a ->
  (match a with
   | AEnter _ | AMapAt _ | ASetPos _ _ | ASetNoPos _ _ | APanic _ => True
   | AAdv l => k <= l
   | _ => k = 0
   end) ->
  panic (rstep s a) = None ->
  J (rstep s a) (next_slack k a) /\ cursor s <= cursor (rstep s a) /\ base (rstep s a) = base s.
Proof.
  intros HJ Hok Hk Hnp. unfold rstep in *. destruct (panic s) eqn:Hp; [cbn in Hnp; congruence|].
  destruct a as [id|id|isbad after sp|id kind name isend ds|l|id f|id f|l nls|w]; cbn [next_slack].
  - (* AEnter *)
    destruct (existsb (N.eqb id) (seen s)); [unfold set_panic in Hnp; cbn in Hnp; rewrite Hp in Hnp; discriminate|].
    destruct HJ as [HK Hh]. split; [|cbn; split; [lia|reflexivity]].
    split; [apply (K_mono s); auto; cbn; try lia; destruct HK; lia|exact Hh].
  - destruct HJ as [HK Hh]. split; [|cbn; split; [lia|reflexivity]].
    split; [apply (K_mono s); auto; cbn; try lia; destruct HK; lia|exact Hh].
  - subst k. split; [apply apply_space_J; exact HJ|]. split; [apply apply_space_cursor|].
    unfold apply_space. destruct (Z.leb _ 0); [reflexivity|]. destruct (Z.eqb _ 1); reflexivity.
  - subst k. cbn in Hok. destruct (apply_decs_J s id kind name isend ds HJ Hok) as [A B].
    split; [exact A|split; [exact B|]].
    unfold apply_decs. assert (G : forall ds st, base (fst (fold_left (dec_step id kind isend) ds st)) = base (fst st)).
    { clear. induction ds as [|d r IH]; intros [s f]; [reflexivity|]. cbn [fold_left]. rewrite IH.
      unfold dec_step. cbn [fst].
      assert (Gb : forall nls s0, base (fold_left (fun s off => add_line s (cursor s - base s + off)) nls s0) = base s0).
      { clear. induction nls; intros; cbn; auto. rewrite IHnls. reflexivity. }
      destruct d; cbn; repeat match goal with |- context [if ?c then _ else _] => destruct c end; cbn;
        rewrite ?Gb; unfold add_field_comment; repeat match goal with |- context [match ?c with _ => _ end] => destruct c end; cbn; rewrite ?Gb; reflexivity. }
    destruct (String.eqb kind "File" && String.eqb name "Start"); cbn; rewrite G; reflexivity.
  - (* AAdv *)
    cbn in Hok. destruct HJ as [HK Hh]. split; [|cbn; split; [lia|reflexivity]]. split.
    + apply (K_mono s); auto; cbn; try lia. destruct HK; lia.
    + destruct Hh as [Hh|[[Hl Hc] ->]].
      * left. unfold hd_line in *. cbn. lia.
      * destruct (Z.eq_dec l 0) as [->|Hne].
        -- right. split; [|reflexivity]. split; cbn; [exact Hl|lia].
        -- left. unfold hd_line. cbn. rewrite Hl. lia.
  - (* ASetPos *)
    destruct HJ as [[Hb Hc Ha Hd Hn Hpo Hcm] Hh]. split; [|cbn; split; [lia|reflexivity]]. split; [|exact Hh].
    constructor; cbn; auto. intros id0 f0 p [Hin|Hin]; [inversion Hin; right; lia|eauto].
  - destruct HJ as [[Hb Hc Ha Hd Hn Hpo Hcm] Hh]. split; [|cbn; split; [lia|reflexivity]]. split; [|exact Hh].
    constructor; cbn; auto. intros id0 f0 p [Hin|Hin]; [inversion Hin; left; reflexivity|eauto].
  - (* ALit *)
    subst k. cbn in Hok. destruct Hok as [Hl Hoffs]. destruct nls as [|o r].
    + split; [exact HJ|split; [lia|reflexivity]].
    + pose proof (J_hd_le s HJ) as Hle. destruct HJ as [HK _].
      fold (add_lines s (o :: r)).
      destruct (add_lines_K (o :: r) s 1 l Hoffs) as [HKa [Hha [Ca [Aa [Ba _]]]]].
      * exact HK.
      * lia.
      * split; [|split; [lia|exact Ba]]. split; [exact HKa|left; lia].
  - unfold set_panic in Hnp. cbn in Hnp. rewrite Hp in Hnp. discriminate.
Qed.

Lemma panic_sticky acts : forall s w, panic s = Some w -> panic (fold_left rstep acts s) = Some w.
Proof.
  induction acts as [|a r IH]; intros s w H; [exact H|]. cbn [fold_left]. apply IH.
  unfold rstep. rewrite H. exact H.
Qed.

Lemma run_J acts : forall s k,
  J s k -> Forall act_ok acts -> safe k acts ->
  panic (fold_left rstep acts s) = None ->
  J (fold_left rstep acts s) 0 /\ cursor s <= cursor (fold_left rstep acts s) /\
  base (fold_left rstep acts s) = base s.
Proof.
  induction acts as [|a r IH]; intros s k HJ Hok Hs Hnp; cbn [fold_left] in *.
  - cbn in Hs. subst k. split; [exact HJ|split; [lia|reflexivity]].
  - inversion Hok as [|? ? Ha Hr]; subst.
    assert (Hp1 : panic (rstep s a) = None).
    { destruct (panic (rstep s a)) as [w|] eqn:E; [|reflexivity].
      rewrite (panic_sticky r _ w E) in Hnp. discriminate. }
    assert (Hcond : (match a with
                     | AEnter _ | AMapAt _ | ASetPos _ _ | ASetNoPos _ _ | APanic _ => True
                     | AAdv l => k <= l
                     | _ => k = 0 end) /\ safe (next_slack k a) r).
    { destruct a as [id|id|isbad after sp|id kind name isend ds|l|id f|id f|l nls|w]; cbn [safe next_slack] in *.
      - split; [exact I|exact Hs].
      - split; [exact I|exact Hs].
      - destruct Hs; split; assumption.
      - destruct Hs; split; assumption.
      - destruct Hs; split; assumption.
      - split; [exact I|exact Hs].
      - split; [exact I|exact Hs].
      - destruct Hs as [Hk0 Hs]. split; [exact Hk0|]. destruct nls; exact Hs.
      - unfold rstep in Hp1. destruct (panic s) eqn:E; [congruence|]. unfold set_panic in Hp1. cbn in Hp1. rewrite E in Hp1. discriminate. }
    destruct Hcond as [Hk Hs'].
    destruct (rstep_J s k a HJ Ha Hk Hp1) as [HJ1 [Hc1 Hb1]].
    destruct (IH (rstep s a) (next_slack k a) HJ1 Hr Hs' Hnp) as [HJ2 [Hc2 Hb2]].
    split; [exact HJ2|split; [lia|congruence]].
Qed.

(* ---- fileSize / SetLines ---------------------------------------------------------------- *)

Lemma desc_strictly_increasing l : desc l -> strictly_increasing (rev l) = true.
Proof.
  assert (G : forall l x, strictly_increasing l = true ->
              (match last l x with y => l = [] \/ y < x end) -> strictly_increasing (l ++ [x]) = true).
  { clear. induction l as [|a [|b r] IH]; intros x H Hl; cbn in *; auto.
    - destruct Hl as [Hl|Hl]; [discriminate|]. apply andb_true_iff. split; [apply Z.ltb_lt; exact Hl|reflexivity].
    - apply andb_true_iff in H. destruct H as [H1 H2]. apply andb_true_iff. split; [exact H1|].
      apply IH; [exact H2|]. destruct Hl as [Hl|Hl]; [discriminate|]. right. exact Hl. }
  induction l as [|a l IH]; intros Hd; [reflexivity|]. cbn [rev].
  apply G.
  - apply IH. destruct l; [exact I|]. cbn in Hd. tauto.
  - destruct l as [|b l]; [left; reflexivity|right]. cbn in Hd. destruct Hd as [Hlt _].
    cbn [rev]. rewrite last_last. exact Hlt.
Qed.

Lemma fold_bump_bounds {A} (f : A -> Z) (l : list A) (e : Z) :
  e <= fold_right (fun g e => if Z.leb e (f g) then f g + 1 else e) e l /\
  forall g, In g l -> f g < fold_right (fun g e => if Z.leb e (f g) then f g + 1 else e) e l.
Proof.
  induction l as [|a r [IH1 IH2]]; cbn [fold_right].
  - split; [lia|intros ? []].
  - set (x := fold_right (fun g e => if Z.leb e (f g) then f g + 1 else e) e r) in *.
    destruct (Z.leb_spec x (f a)).
    + split; [lia|]. intros g [<-|Hin]; [lia|]. specialize (IH2 g Hin). lia.
    + split; [lia|]. intros g [<-|Hin]; [lia|]. apply IH2. exact Hin.
Qed.

Lemma file_end_bounds s :
  cursor s <= file_end s /\ forall off, In off (lines s) -> off + base s < file_end s.
Proof.
  unfold file_end.
  destruct (fold_bump_bounds group_end (comments s) (cursor s)) as [A _].
  set (e0 := fold_right (fun g e => if Z.leb e (group_end g) then group_end g + 1 else e) (cursor s) (comments s)) in *.
  destruct (fold_bump_bounds (fun off => off + base s) (lines s) e0) as [B C].
  split; [lia|exact C].
Qed.

(* ---- the C12 statements for arbitrary action lists ---------------------------------------- *)

Theorem run_coherent b acts :
  1 <= b -> Forall act_ok acts -> safe 0 acts ->
  panic (run_acts b acts) = None ->
  exists r, finish (run_acts b acts) = Ok r /\
    (* the line table is strictly increasing and inside the file: SetLines succeeds *)
    strictly_increasing (r_lines r) = true /\ Forall (fun o => 0 <= o < r_size r) (r_lines r) /\
    0 <= r_size r /\
    (* every assigned position is NoPos or inside [base, base+size] *)
    (forall id f p, In (id, f, p) (r_poss r) -> p = 0 \/ b <= p <= b + r_size r) /\
    (* every comment lies inside the file *)
    (forall g p l u, In g (r_comments r) -> In (p, l, u) (g_list g) -> b <= p /\ p + l <= b + r_size r).
Proof.
  intros Hb Hok Hs Hnp. unfold run_acts in *.
  destruct (run_J acts (init_r b) 0 (J_init b Hb) Hok Hs Hnp) as [[HK Hh] [Hc Hbase]].
  set (s := fold_left rstep acts (init_r b)) in *. cbn [base init_r] in Hbase.
  destruct (file_end_bounds s) as [Hfe Hfl].
  assert (Hinc : strictly_increasing (rev (lines s)) = true) by (apply desc_strictly_increasing; destruct HK; assumption).
  assert (Hlt : forallb (fun o => Z.ltb o (file_end s - base s)) (rev (lines s)) = true).
  { apply forallb_forall. intros o Hin. apply in_rev in Hin. apply Z.ltb_lt. specialize (Hfl o Hin). lia. }
  unfold finish. rewrite Hnp, Hinc, Hlt. cbn [andb].
  eexists. split; [reflexivity|]. cbn [r_lines r_size r_poss r_comments].
  split; [exact Hinc|]. split; [|split; [|split]].
  - apply Forall_forall. intros o Hin. apply in_rev in Hin. specialize (Hfl o Hin).
    destruct HK as [_ _ _ _ Hn _ _]. specialize (Hn o Hin). lia.
  - destruct HK as [_ Hcb _ _ _ _ _]. lia.
  - intros id f p Hin. apply in_rev in Hin. destruct HK as [_ Hcb _ _ _ Hp _]. destruct (Hp id f p Hin); [left; assumption|right; lia].
  - intros g p l u Hg Hin. apply in_rev in Hg. destruct HK as [_ Hcb _ _ _ _ Hcm]. destruct (Hcm g p l u Hg Hin). lia.
Qed.

(* ======================================================================================
   C05: the non-additive spacing rule, on applySpace / applyDecorations *)

Definition nlines (s : rstate) : Z := Z.of_nat (List.length (lines s)).

Lemma space_nl_facts s :
  nlines (space_nl s) = nlines s + 1 /\ cursor (space_nl s) = atnl (space_nl s).
Proof. unfold nlines, space_nl. cbn [lines add_line set_cursor set_atnl cursor atnl List.length]. split; [lia|reflexivity]. Qed.

(* number of line breaks applySpace emits: the requested number, minus one when the cursor
   sits directly after a line break *)
Lemma apply_space_count s isbad after sp :
  let want := newlines_of (if isbad && after then SEmptyLine else sp) in
  let n := Z.max 0 (want - (if Z.eqb (cursor s) (atnl s) then 1 else 0)) in
  nlines (apply_space s isbad after sp) = nlines s + n /\
  (0 < n -> cursor (apply_space s isbad after sp) = atnl (apply_space s isbad after sp)) /\
  (n = 0 -> apply_space s isbad after sp = s).
Proof.
  unfold apply_space. cbn zeta.
  set (want := newlines_of (if isbad && after then SEmptyLine else sp)).
  assert (Hw : 0 <= want <= 2) by (unfold want; destruct (isbad && after), sp; cbn; lia).
  set (c := if Z.eqb (cursor s) (atnl s) then 1 else 0).
  assert (Hc : 0 <= c <= 1) by (unfold c; destruct (Z.eqb (cursor s) (atnl s)); lia).
  destruct (Z.leb_spec (want - c) 0) as [Hn|Hn].
  - split; [lia|split; [lia|reflexivity]].
  - destruct (Z.eqb_spec (want - c) 1) as [H1|H1].
    + destruct (space_nl_facts s) as [A B]. split; [lia|split; [intros _; exact B|lia]].
    + destruct (space_nl_facts s) as [A B]. destruct (space_nl_facts (space_nl s)) as [A' B'].
      split; [lia|split; [intros _; exact B'|lia]].
Qed.

(* two adjacent siblings: After = a of the first, Before = b of the second, the first ending
   in a token (cursor not directly after a line break): a + max 0 (b - [a > 0]) line breaks,
   i.e. at least two (one blank line) iff either is EmptyLine, none iff both are None *)
Theorem sibling_spacing s a b :
  cursor s <> atnl s ->
  let s2 := apply_space (apply_space s false true a) false false b in
  nlines s2 - nlines s = newlines_of a + Z.max 0 (newlines_of b - (if Z.eqb (newlines_of a) 0 then 0 else 1)) /\
  Z.min 2 (nlines s2 - nlines s) = Z.max (newlines_of a) (newlines_of b).
Proof.
  intros Hne. cbn zeta.
  destruct (apply_space_count s false true a) as [A1 [A2 A3]]. cbn [andb] in A1, A2, A3.
  apply Z.eqb_neq in Hne. rewrite Hne in A1, A2, A3.
  set (s1 := apply_space s false true a) in *.
  destruct (apply_space_count s1 false false b) as [B1 [B2 B3]]. cbn [andb] in B1, B2, B3.
  assert (Hs1 : Z.eqb (cursor s1) (atnl s1) = negb (Z.eqb (newlines_of a) 0)).
  { destruct a; cbn in *.
    - rewrite (A3 eq_refl). exact Hne.
    - rewrite (A2 ltac:(lia)). apply Z.eqb_refl.
    - rewrite (A2 ltac:(lia)). apply Z.eqb_refl. }
  rewrite Hs1 in B1. rewrite B1, A1.
  destruct a, b; cbn; split; lia.
Qed.

(* a decoration list ending in a line comment or "\n" leaves the cursor directly after a line
   break, so the following spacing loses exactly one break: the comment's own line break is
   not added to the spacing *)
Lemma dec_step_atnl id kind isend st d :
  (match d with DLine _ _ | DNl => True | _ => False end) ->
  cursor (fst (dec_step id kind isend st d)) = atnl (fst (dec_step id kind isend st d)).
Proof.
  destruct st as [s f]. destruct d; intros H; try contradiction; unfold dec_step; cbn; reflexivity.
Qed.

Theorem trailing_line_comment_neutral s id kind name isend ds d sp :
  (match d with DLine _ _ | DNl => True | _ => False end) ->
  (String.eqb kind "File" && String.eqb name "Start" = false) ->
  let s1 := apply_decs s id kind name isend (ds ++ [d]) in
  cursor s1 = atnl s1 /\
  nlines (apply_space s1 false false sp) = nlines s1 + Z.max 0 (newlines_of sp - 1).
Proof.
  intros Hd Hf. cbn zeta. unfold apply_decs. rewrite Hf. rewrite fold_left_app. cbn [fold_left].
  pose proof (dec_step_atnl id kind isend (fold_left (dec_step id kind isend) ds (s, true)) d Hd) as E.
  split; [exact E|].
  destruct (apply_space_count (fst (dec_step id kind isend (fold_left (dec_step id kind isend) ds (s, true)) d)) false false sp) as [A _].
  cbn [andb] in A. rewrite E, Z.eqb_refl in A. exact A.
Qed.

(* ======================================================================================
   C04: every comment decoration is rendered exactly once *)

Definition comment_uids (ds : list dec) : list N :=
  flat_map (fun d => match d with DLine _ u | DBlock _ _ u => [u] | _ => [] end) ds.

Definition all_uids (gs : list cgroup) : list N :=
  flat_map (fun g => map (fun c => snd c) (g_list g)) gs.

Definition cnt (u : N) (l : list N) : nat := count_occ N.eq_dec l u.

Lemma cnt_app u a b : cnt u (a ++ b) = (cnt u a + cnt u b)%nat.
Proof. apply count_occ_app. Qed.

Lemma add_to_group_cnt gs id c gs' u :
  add_to_group gs id c = Some gs' -> cnt u (all_uids gs') = (cnt u (all_uids gs) + cnt u [snd c])%nat.
Proof.
  revert gs'. induction gs as [|g r IH]; intros gs' H; cbn in H; [discriminate|].
  destruct (N.eqb (g_owner g) id && negb (N.eqb id 0)).
  - inversion H; subst gs'. unfold all_uids. cbn [flat_map g_list]. rewrite map_app. cbn [map].
    rewrite !cnt_app. lia.
  - destruct (add_to_group r id c) as [r'|] eqn:E; [|discriminate]. inversion H; subst gs'.
    unfold all_uids in *. cbn [flat_map]. rewrite !cnt_app. rewrite (IH r' eq_refl). lia.
Qed.

Lemma add_lines_comments s nls : comments (add_lines s nls) = comments s.
Proof. unfold add_lines. revert s. induction nls; intros; cbn; auto. rewrite IHnls. reflexivity. Qed.

Lemma cnt_nil u : cnt u [] = 0%nat.
Proof. reflexivity. Qed.

Lemma all_uids_cons g gs : all_uids (g :: gs) = map (fun c => snd c) (g_list g) ++ all_uids gs.
Proof. reflexivity. Qed.

Lemma with_comment_cnt s id kind fld l v u :
  cnt u (all_uids (comments (with_comment s id kind fld l v))) =
  (cnt u (all_uids (comments s)) + cnt u [v])%nat.
Proof.
  unfold with_comment. destruct fld.
  - unfold add_field_comment. destruct (add_to_group (comments s) id (cursor s, l, v)) eqn:E; cbn [comments add_comment].
    + rewrite (add_to_group_cnt _ _ _ _ u E). reflexivity.
    + rewrite all_uids_cons, cnt_app. cbn [g_list map snd]. lia.
  - cbn [comments add_comment]. rewrite all_uids_cons, cnt_app. cbn [g_list map snd]. lia.
Qed.

Lemma dec_step_cnt id kind isend st d u :
  cnt u (all_uids (comments (fst (dec_step id kind isend st d)))) =
  (cnt u (all_uids (comments (fst st))) + cnt u (comment_uids [d]))%nat.
Proof.
  destruct st as [s f]. unfold dec_step. fold (bump isend s).
  assert (Hb : comments (bump isend s) = comments s) by (unfold bump; destruct (isend && _); reflexivity).
  set (s1 := bump isend s) in *. cbn [fst]. rewrite <- Hb.
  destruct d as [|l v|l nls v|l v]; unfold comment_uids; cbn [flat_map app]; rewrite ?cnt_nil.
  - cbn [fst comments set_atnl set_cursor add_line]. lia.
  - fold (with_comment s1 id kind (f && isend && has_comment_field kind) l v).
    cbn [fst comments set_atnl set_cursor add_line]. apply with_comment_cnt.
  - fold (add_lines s1 nls).
    fold (with_comment (add_lines s1 nls) id kind (f && isend && has_comment_field kind) l v).
    cbn [fst comments set_cursor]. rewrite with_comment_cnt, add_lines_comments. reflexivity.
  - cbn [fst]. lia.
Qed.

Lemma apply_decs_cnt s id kind name isend ds u :
  cnt u (all_uids (comments (apply_decs s id kind name isend ds))) =
  (cnt u (all_uids (comments s)) + cnt u (comment_uids ds))%nat.
Proof.
  unfold apply_decs.
  assert (G : forall ds st, cnt u (all_uids (comments (fst (fold_left (dec_step id kind isend) ds st)))) =
              (cnt u (all_uids (comments (fst st))) + cnt u (comment_uids ds))%nat).
  { clear. induction ds as [|d r IH]; intros st; cbn [fold_left].
    - cbn. lia.
    - rewrite IH, dec_step_cnt. unfold comment_uids. cbn [flat_map]. rewrite !cnt_app, cnt_nil. lia. }
  destruct (String.eqb kind "File" && String.eqb name "Start"); cbn [comments set_cursor]; rewrite G; reflexivity.
Qed.

(* the comment decorations carried by an action list *)
Definition acts_comment_uids (acts : list action) : list N :=
  flat_map (fun a => match a with ADecs _ _ _ _ ds => comment_uids ds | _ => [] end) acts.

Lemma apply_space_comments s isbad after sp : comments (apply_space s isbad after sp) = comments s.
Proof.
  unfold apply_space. destruct (Z.leb _ 0); [reflexivity|]. destruct (Z.eqb _ 1); reflexivity.
Qed.

Theorem run_comments_once acts : forall s u,
  panic (fold_left rstep acts s) = None ->
  cnt u (all_uids (comments (fold_left rstep acts s))) =
  (cnt u (all_uids (comments s)) + cnt u (acts_comment_uids acts))%nat.
Proof.
  induction acts as [|a r IH]; intros s u Hnp; cbn [fold_left] in *.
  - cbn. lia.
  - assert (Hp1 : panic (rstep s a) = None).
    { destruct (panic (rstep s a)) as [w|] eqn:E; [|reflexivity].
      rewrite (panic_sticky r _ w E) in Hnp. discriminate. }
    rewrite (IH (rstep s a) u Hnp). unfold acts_comment_uids. cbn [flat_map]. rewrite cnt_app.
    assert (E : cnt u (all_uids (comments (rstep s a))) =
                (cnt u (all_uids (comments s)) +
                 cnt u (match a with ADecs _ _ _ _ ds => comment_uids ds | _ => [] end))%nat).
    { unfold rstep in *. destruct (panic s) eqn:Hp; [cbn in Hp1; congruence|].
      destruct a as [id|id|isbad after sp|id kind name isend ds|l|id f|id f|l nls|w]; rewrite ?cnt_nil, ?Nat.add_0_r.
      - destruct (existsb (N.eqb id) (seen s)); reflexivity.
      - reflexivity.
      - rewrite apply_space_comments. reflexivity.
      - apply apply_decs_cnt.
      - reflexivity.
      - reflexivity.
      - reflexivity.
      - destruct nls as [|z nls]; [reflexivity|]. fold (add_lines s (z :: nls)). rewrite add_lines_comments. reflexivity.
      - reflexivity. }
    rewrite E. lia.
Qed.

(* ---- boolean versions of the hypotheses (evaluated on every tree of the correspondence) -- *)


Lemma offs_okb_sound l : forall lo hi, offs_okb lo hi l = true -> offs_ok lo hi l.
Proof.
  induction l as [|o r IH]; intros lo hi H; cbn in *; [exact I|].
  apply andb_true_iff in H. destruct H as [H H3]. apply andb_true_iff in H. destruct H as [H1 H2].
  apply Z.leb_le in H1. apply Z.ltb_lt in H2. split; [lia|apply IH; exact H3].
Qed.



Lemma act_okb_sound a : act_okb a = true -> act_ok a.
Proof.
  destruct a; cbn; intros H; auto.
  - apply Forall_forall. intros d Hd. rewrite forallb_forall in H. specialize (H d Hd).
    destruct d; cbn in *; auto.
    + apply Z.leb_le. exact H.
    + apply andb_true_iff in H. destruct H as [H1 H2]. split; [apply Z.leb_le; exact H1|apply offs_okb_sound; exact H2].
    + apply Z.leb_le. exact H.
  - apply Z.leb_le. exact H.
  - apply andb_true_iff in H. destruct H as [H1 H2]. split; [apply Z.leb_le; exact H1|apply offs_okb_sound; exact H2].
Qed.


Lemma safeb_sound acts : forall k, safeb k acts = true -> safe k acts.
Proof.
  induction acts as [|a r IH]; intros k H; cbn in *.
  - apply Z.eqb_eq. exact H.
  - destruct a; auto;
      try (apply andb_true_iff in H; destruct H as [H1 H2]; split; [first [apply Z.eqb_eq; exact H1|apply Z.leb_le; exact H1]|apply IH; exact H2]).
Qed.
