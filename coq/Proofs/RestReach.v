(* What the restorer renders: the actions of every node reachable through the restorer table's
   child statements are part of the actions of the root, and every decoration point a kind's case
   renders contributes an applyDecorations action with the node's decorations at that point. *)
From Coq Require Import List String ZArith NArith Bool Lia.
Import ListNotations.
From DV Require Import Model.Tree Model.Tables Model.Restore Proofs.TreeInd Proofs.FragReach Proofs.RestoreProofs.
Local Open Scope string_scope.
Local Open Scope list_scope.

Section Rest.
Variables (tbl : list (string * list rstmt)) (managed : bool) (pkg : N -> option Z).

Definition rmap_kid (k : kid tree) : kid rtree :=
  match k with
  | One (Some c) => One (Some (build tbl managed pkg c))
  | One None => One None
  | Many l => Many (map (build tbl managed pkg) l)
  end.

Definition rkids (t : tree) : list (string * kid rtree) := map (fun p => (fst p, rmap_kid (snd p))) (tkids t).

Lemma build_unfold t : build tbl managed pkg t = RT t (node_acts tbl managed pkg t (rkids t)) (rkids t).
Proof. destruct t. reflexivity. Qed.

Lemma rt_kids_build t : rt_kids (build tbl managed pkg t) = rkids t.
Proof. rewrite build_unfold. reflexivity. Qed.

Lemma rt_acts_build t : rt_acts (build tbl managed pkg t) = node_acts tbl managed pkg t (rkids t).
Proof. rewrite build_unfold. reflexivity. Qed.

Lemma sub_one : forall p t c, child_at false t p c -> sub (rkids t) p = Some (One (Some (build tbl managed pkg c))).
Proof.
  intros p t c H. remember false as b eqn:Hb. induction H; try discriminate.
  - unfold rkids. cbn [sub]. rewrite lookup_map_kids, H. reflexivity.
  - specialize (IHchild_at Hb). unfold rkids. cbn [sub]. rewrite lookup_map_kids, H. cbn [option_map rmap_kid].
    rewrite rt_kids_build. exact IHchild_at.
Qed.

Lemma sub_many : forall p t c, child_at true t p c ->
  exists l, sub (rkids t) p = Some (Many (map (build tbl managed pkg) l)) /\ In c l.
Proof.
  intros p t c H. remember true as b eqn:Hb. induction H; try discriminate.
  - exists l. unfold rkids. cbn [sub]. rewrite lookup_map_kids, H. split; [reflexivity|exact H0].
  - destruct (IHchild_at Hb) as [l [A B]]. exists l. unfold rkids. cbn [sub]. rewrite lookup_map_kids, H. cbn [option_map rmap_kid].
    rewrite rt_kids_build. split; [exact A|exact B].
Qed.

(* the top-level child statements of a case *)
Definition rstmt_in (s : rstmt) : list (path * bool) :=
  match s with
  | RNode p _ _ _ _ => [(p, false)]
  | RList p _ _ _ _ | RMapNodes p _ _ _ _ => [(p, true)]
  | _ => []
  end.

Definition rest_in_paths (k : string) : list (path * bool) :=
  match lookup tbl k with Some l => flat_map rstmt_in l | None => [] end.

(* the kinds whose case starts with the identifier hook have no child statements: the statements
   of every other kind are executed as they stand *)
Definition plain_case (k : string) : bool :=
  match lookup tbl k with
  | Some (RIdentHook :: rest) => match flat_map rstmt_in rest with [] => true | _ => false end
  | _ => true
  end.

Lemma child_acts_included t p b c :
  plain_case (tkind t) = true -> In (p, b) (rest_in_paths (tkind t)) -> child_at b t p c ->
  incl (flatten tbl managed pkg c) (flatten tbl managed pkg t).
Proof.
  intros Hplain Hin Hc. unfold flatten. rewrite (rt_acts_build t). unfold node_acts, tbl_parts.
  unfold rest_in_paths in Hin. unfold plain_case in Hplain.
  destruct (lookup tbl (tkind t)) as [stmts|] eqn:E; [|destruct Hin].
  assert (Hstmts : incl (rt_acts (build tbl managed pkg c)) (stmts_acts t (rkids t) stmts)).
  { apply in_flat_map in Hin. destruct Hin as [s [Hs Hi]]. intros a Ha. unfold stmts_acts. apply in_flat_map. exists s. split; [exact Hs|].
    destruct s; cbn [rstmt_in] in Hi; try (destruct Hi; fail); destruct Hi as [Hi|[]]; inversion Hi; subst; cbn [stmt_acts].
    - rewrite (sub_one _ _ _ Hc). cbn [kid_acts]. exact Ha.
    - destruct (sub_many _ _ _ Hc) as [l [A B]]. rewrite A. cbn [kid_acts]. apply in_flat_map. exists (build tbl managed pkg c). split; [apply in_map; exact B|exact Ha].
    - destruct (sub_many _ _ _ Hc) as [l [A B]]. rewrite A. cbn [kid_acts]. apply in_flat_map. exists (build tbl managed pkg c). split; [apply in_map; exact B|exact Ha]. }
  destruct stmts as [|s0 r]; [destruct Hin|].
  destruct s0; try (intros a Ha; right; apply Hstmts; exact Ha).
  (* the identifier hook: no child statements *)
  exfalso. cbn [flat_map rstmt_in app] in Hin. destruct (flat_map rstmt_in r); [destruct Hin|discriminate].
Qed.

Theorem reach_acts_included :
  (forall k, plain_case k = true) ->
  forall t t', reach rest_in_paths t t' -> incl (flatten tbl managed pkg t') (flatten tbl managed pkg t).
Proof.
  intros Hplain t t' H. induction H as [t|t p b c t' Hin Hc Hr IH]; [apply incl_refl|].
  eapply incl_tran; [exact IH|]. apply (child_acts_included t p b c (Hplain _) Hin Hc).
Qed.

(* the decoration points a case renders: top-level statements applyDecorations(out, name, n.Decs.point, isend) *)
Definition rest_points (k : string) : list string :=
  match lookup tbl k with
  | Some l => flat_map (fun s => match s with RDec _ [] point _ => [point] | _ => [] end) l
  | None => []
  end.

Lemma point_action t point ds :
  managed = false ->
  In point (rest_points (tkind t)) -> lookup (tdecs t) point = Some ds ->
  (exists name isend, In (ADecs (tid t) (tkind t) name isend ds) (flatten tbl managed pkg t)) \/
  (exists w, In (APanic w) (flatten tbl managed pkg t)).
Proof.
  intros Hm Hin Hl. unfold flatten. rewrite (rt_acts_build t). unfold node_acts, tbl_parts.
  unfold rest_points in Hin. destruct (lookup tbl (tkind t)) as [stmts|] eqn:E; [|destruct Hin].
  apply in_flat_map in Hin. destruct Hin as [s [Hs Hi]].
  destruct s; try (destruct Hi; fail).
  match goal with H : In point (match ?o with [] => _ | _ :: _ => _ end) |- _ => destruct o; [|destruct H] end.
  destruct Hi as [->|[]].
  match goal with Hs0 : In (RDec ?n [] point ?e) _ |- _ => rename n into name; rename e into isend end.
  assert (Hact : In (ADecs (tid t) (tkind t) name isend ds) (stmt_acts t (rkids t) (RDec name [] point isend))).
  { cbn [stmt_acts owner]. rewrite Hl. left. reflexivity. }
  destruct stmts as [|s0 r]; [destruct Hs|].
  assert (Hplain : forall l, In (RDec name [] point isend) l -> In (ADecs (tid t) (tkind t) name isend ds) (stmts_acts t (rkids t) l)).
  { intros l Hl0. unfold stmts_acts. apply in_flat_map. exists (RDec name [] point isend). split; [exact Hl0|exact Hact]. }
  destruct s0; try (left; exists name, isend; right; apply Hplain; exact Hs).
  (* the identifier hook *)
  destruct Hs as [Hs|Hs]; [discriminate|].
  destruct (N.eqb (ident_path_uid t) 0).
  - left. exists name, isend. right. apply Hplain. exact Hs.
  - rewrite Hm. right. exists "path without resolver". right. left. reflexivity.
Qed.

End Rest.

(* the node's Before / After spacing is applied at the node (for an identifier: when it carries no
   path) *)
Definition case_body (l : list rstmt) : list rstmt := match l with RIdentHook :: r => r | _ => l end.
Definition has_hook (l : list rstmt) : bool := match l with RIdentHook :: _ => true | _ => false end.

Lemma space_action tbl t after l :
  lookup tbl (tkind t) = Some l ->
  existsb (fun s => match s with RSpace a => Bool.eqb a after | _ => false end) (case_body l) = true ->
  (has_hook l = true -> ident_path_uid t = 0%N) ->
  In (ASpace (is_bad_kind (tkind t)) after (if after then tafter t else tbefore t)) (flatten tbl false (fun _ => None) t).
Proof.
  intros E H Hh. unfold flatten. rewrite (rt_acts_build tbl false (fun _ => None) t). unfold node_acts, tbl_parts. rewrite E.
  assert (Hin : forall l0, existsb (fun s => match s with RSpace a => Bool.eqb a after | _ => false end) l0 = true ->
                  In (ASpace (is_bad_kind (tkind t)) after (if after then tafter t else tbefore t)) (stmts_acts t (rkids tbl false (fun _ => None) t) l0)).
  { intros l0 Hl. apply existsb_exists in Hl. destruct Hl as [s [Hs Hm]]. destruct s; try discriminate.
    apply Bool.eqb_prop in Hm. subst. unfold stmts_acts. apply in_flat_map. eexists. split; [exact Hs|]. cbn [stmt_acts]. left. reflexivity. }
  destruct l as [|s0 r]; [discriminate|]. destruct s0; try (right; apply Hin; exact H).
  cbn [case_body has_hook] in H, Hh. rewrite (Hh eq_refl). cbn [N.eqb]. right. apply Hin. exact H.
Qed.
