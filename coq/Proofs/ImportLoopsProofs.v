(* C07 / C17: four loops of FileRestorer.updateImports -- the effective alias of every path (from the import
   blocks, then from the Alias map), anonymous imports become required, the names of the packages in use
   are resolved -- have their bodies translated on every run (Gen/DecisionSrc.v: one decision program per
   iteration) and are proved to compute the corresponding folds of Model/Imports.v, for every input. *)
From Coq Require Import List String Bool.
Import ListNotations.
From DV Require Import Model.Imports Model.Decision Gen.DecisionSrc.
Local Open Scope string_scope.
Local Open Scope list_scope.

Definition P_ALIAS_EMPTY := "eq(alias,"""")".
Definition P_MANUAL_HAS := "has(r.Alias,path)".
Definition P_MANUAL_EMPTY := "eq(r.Alias[path],"""")".
Definition P_ALIAS_BLANK := "eq(alias,""_"")".
Definition P_IN_USE := "true(packagesInUse[path])".
Definition S_CONTINUE := "continue".
Definition S_SET_EFF := "set(effectiveAlias,path,alias)".
Definition S_SET_REQ := "set(importsRequired,path,true)".
Definition P_EFF_HAS := "has(effectiveAlias,path)".
Definition P_RESOLVE_FAILS := "fails(r.Resolver.ResolvePackage(path))".
Definition S_SET_RESOLVED := "set(resolved,path,r.Resolver.ResolvePackage(path))".

(* the predicates of one iteration over (path, alias) *)
Definition eff_val (p a : string) (manual : amap) (inuse : list string) (q : string) : bool :=
  if String.eqb q P_ALIAS_EMPTY then String.eqb a ""
  else if String.eqb q P_MANUAL_HAS then match aget manual p with Some _ => true | None => false end
  else if String.eqb q P_MANUAL_EMPTY then match aget manual p with Some x => String.eqb x "" | None => true end
  else if String.eqb q P_ALIAS_BLANK then String.eqb a "_"
  else if String.eqb q P_IN_USE then mem p inuse
  else false.

(* what an iteration does to the map being built *)
Definition eff_outcome (p a : string) (m : amap) (o : dout) : option amap :=
  match o with
  | OReturn (DVal s) => if String.eqb s S_CONTINUE then Some m
                        else if String.eqb s S_SET_EFF then Some (aset m p a) else None
  | OFall => Some m
  | _ => None
  end.

Definition found_step (manual : amap) (inuse : list string) (m : amap) (pa : string * string) : amap :=
  let '(p, a) := pa in
  if String.eqb a "" then m
  else if (match aget manual p with Some "" => true | _ => false end) then m
  else if String.eqb a "_" && mem p inuse then m
  else aset m p a.

Definition manual_step (inuse : list string) (m : amap) (pa : string * string) : amap :=
  let '(p, a) := pa in
  if String.eqb a "" then m
  else if String.eqb a "_" && mem p inuse then m
  else aset m p a.

Lemma empty_string_match (x : string) : (match x with "" => true | _ => false end) = String.eqb x "".
Proof. destruct x; reflexivity. Qed.

Ltac pred_values v :=
  repeat match goal with
         | |- context[v ?q] =>
           let r := eval cbv beta iota delta [v eff_val P_ALIAS_EMPTY P_MANUAL_HAS P_MANUAL_EMPTY P_ALIAS_BLANK P_IN_USE] in (v q) in
           let r' := eval lazy beta iota delta [String.eqb Ascii.eqb Bool.eqb] in r in
           change (v q) with r'
         end.

Theorem effalias_found_source_is_model :
  forall p a manual inuse m,
    eff_outcome p a m (run (eff_val p a manual inuse) effalias_found_src) = Some (found_step manual inuse m (p, a)).
Proof.
  intros p a manual inuse m. unfold found_step.
  assert (H1 : eff_val p a manual inuse P_ALIAS_EMPTY = String.eqb a "") by reflexivity.
  assert (H2 : eff_val p a manual inuse P_MANUAL_HAS = match aget manual p with Some _ => true | None => false end) by reflexivity.
  assert (H3 : eff_val p a manual inuse P_MANUAL_EMPTY = match aget manual p with Some x => String.eqb x "" | None => true end) by reflexivity.
  assert (H4 : eff_val p a manual inuse P_ALIAS_BLANK = String.eqb a "_") by reflexivity.
  assert (H5 : eff_val p a manual inuse P_IN_USE = mem p inuse) by reflexivity.
  unfold effalias_found_src. cbn [run run_stmt].
  change "eq(alias,"""")" with P_ALIAS_EMPTY. change "has(r.Alias,path)" with P_MANUAL_HAS.
  change "eq(r.Alias[path],"""")" with P_MANUAL_EMPTY. change "eq(alias,""_"")" with P_ALIAS_BLANK.
  change "true(packagesInUse[path])" with P_IN_USE.
  rewrite H1, H2, H3, H4, H5. cbn [xorb].
  destruct (String.eqb a ""); [reflexivity|].
  destruct (aget manual p) as [x|]; cbn [xorb].
  - rewrite empty_string_match. destruct (String.eqb x ""); cbn [xorb]; [reflexivity|].
    destruct (String.eqb a "_"); cbn [xorb andb]; [destruct (mem p inuse)|]; reflexivity.
  - destruct (String.eqb a "_"); cbn [xorb andb]; [destruct (mem p inuse)|]; reflexivity.
Qed.

Theorem effalias_manual_source_is_model :
  forall p a inuse m,
    eff_outcome p a m (run (eff_val p a [] inuse) effalias_manual_src) = Some (manual_step inuse m (p, a)).
Proof.
  intros p a inuse m. unfold manual_step.
  assert (H1 : eff_val p a [] inuse P_ALIAS_EMPTY = String.eqb a "") by reflexivity.
  assert (H4 : eff_val p a [] inuse P_ALIAS_BLANK = String.eqb a "_") by reflexivity.
  assert (H5 : eff_val p a [] inuse P_IN_USE = mem p inuse) by reflexivity.
  unfold effalias_manual_src. cbn [run run_stmt].
  change "eq(alias,"""")" with P_ALIAS_EMPTY. change "eq(alias,""_"")" with P_ALIAS_BLANK.
  change "true(packagesInUse[path])" with P_IN_USE.
  rewrite H1, H4, H5. cbn [xorb].
  destruct (String.eqb a ""); [reflexivity|].
  destruct (String.eqb a "_"); cbn [xorb andb]; [destruct (mem p inuse)|]; reflexivity.
Qed.

Lemma fold_left_ext_in {A B} (f g : A -> B -> A) (l : list B) :
  (forall a b, f a b = g a b) -> forall a, fold_left f l a = fold_left g l a.
Proof. intros H. induction l as [|b l IH]; intros a; cbn [fold_left]; [reflexivity|]. rewrite H. apply IH. Qed.

(* the model's effective alias is the two loops, each iteration being the translated body *)
Theorem effective_alias_is_the_two_loops :
  forall found manual inuse,
    effective_alias found manual inuse
    = fold_left (manual_step inuse) manual (fold_left (found_step manual inuse) found []).
Proof.
  intros. reflexivity.
Qed.

(* anonymous imports become required *)
Definition anon_step (acc : list string) (pa : string * string) : list string :=
  if String.eqb (snd pa) "_" then acc ++ [fst pa] else acc.

Theorem anonymous_required_source_is_model :
  forall p a acc,
    match run (eff_val p a [] []) anonymous_required_src with
    | OReturn (DVal s) => String.eqb s S_SET_REQ = true /\ anon_step acc (p, a) = acc ++ [p]
    | OFall => anon_step acc (p, a) = acc
    | _ => False
    end.
Proof.
  intros p a acc. unfold anon_step. cbn [fst snd].
  assert (H4 : eff_val p a [] [] P_ALIAS_BLANK = String.eqb a "_") by reflexivity.
  unfold anonymous_required_src. cbn [run run_stmt].
  change "eq(alias,""_"")" with P_ALIAS_BLANK. rewrite H4. cbn [xorb].
  destruct (String.eqb a "_"); cbn [run run_stmt]; [split; reflexivity | reflexivity].
Qed.

Lemma anon_fold eff : forall acc,
  fold_left anon_step eff acc = acc ++ map fst (filter (fun pa => String.eqb (snd pa) "_") eff).
Proof.
  induction eff as [|[p a] eff IH]; intros acc; cbn [fold_left filter map].
  - rewrite app_nil_r. reflexivity.
  - rewrite IH. unfold anon_step. cbn [fst snd]. destruct (String.eqb a "_"); cbn [map].
    + rewrite <- app_assoc. reflexivity.
    + reflexivity.
Qed.

(* resolution of the names of the packages in use, in order, stopping at the first failure *)
Definition res_val (resolve : string -> option string) (eff : amap) (p : string) (q : string) : bool :=
  if String.eqb q P_EFF_HAS then ahas eff p
  else if String.eqb q P_RESOLVE_FAILS then match resolve p with None => true | Some _ => false end
  else false.

Definition res_step (resolve : string -> option string) (eff : amap) (p : string) (acc : amap) : string + amap :=
  if ahas eff p then inr acc
  else match resolve p with Some n => inr (aset acc p n) | None => inl p end.

Theorem resolve_names_source_is_model :
  forall resolve eff p acc,
    match run (res_val resolve eff p) resolve_names_src with
    | OReturn (DVal s) =>
      if String.eqb s S_CONTINUE then res_step resolve eff p acc = inr acc
      else if String.eqb s S_SET_RESOLVED
           then exists n, resolve p = Some n /\ res_step resolve eff p acc = inr (aset acc p n)
           else False
    | OReturn DErr => res_step resolve eff p acc = inl p
    | _ => False
    end.
Proof.
  intros resolve eff p acc. unfold res_step.
  assert (H1 : res_val resolve eff p P_EFF_HAS = ahas eff p) by reflexivity.
  assert (H2 : res_val resolve eff p P_RESOLVE_FAILS = match resolve p with None => true | Some _ => false end) by reflexivity.
  unfold resolve_names_src. cbn [run run_stmt].
  change "has(effectiveAlias,path)" with P_EFF_HAS.
  change "fails(r.Resolver.ResolvePackage(path))" with P_RESOLVE_FAILS.
  rewrite H1, H2. cbn [xorb].
  destruct (ahas eff p); [reflexivity|].
  destruct (resolve p) as [n|]; cbn [xorb]; [|reflexivity].
  cbn. exists n. split; reflexivity.
Qed.

Lemma resolve_all_by_steps resolve eff p r acc :
  resolve_all resolve eff (p :: r) acc
  = match res_step resolve eff p acc with inl e => inl e | inr acc' => resolve_all resolve eff r acc' end.
Proof.
  cbn [resolve_all]. unfold res_step. destruct (ahas eff p); [reflexivity|].
  destruct (resolve p); reflexivity.
Qed.

Definition import_loops_vocabulary_ok : bool :=
  vocabulary_ok [P_ALIAS_EMPTY; P_MANUAL_HAS; P_MANUAL_EMPTY; P_ALIAS_BLANK; P_IN_USE] [S_CONTINUE; S_SET_EFF] effalias_found_src
  && vocabulary_ok [P_ALIAS_EMPTY; P_ALIAS_BLANK; P_IN_USE] [S_CONTINUE; S_SET_EFF] effalias_manual_src
  && vocabulary_ok [P_ALIAS_BLANK] [S_SET_REQ] anonymous_required_src
  && vocabulary_ok [P_EFF_HAS; P_RESOLVE_FAILS] [S_CONTINUE; S_SET_RESOLVED] resolve_names_src.
