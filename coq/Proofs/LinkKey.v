(* Where an attached comment is stored: in the decoration list of the (node, point) of the very
   decoration fragment it is attached to. *)
From Coq Require Import List String ZArith NArith Bool Lia.
Import ListNotations.
From DV Require Import Model.Tree Model.Link Proofs.LinkProofs.
Local Open Scope list_scope.

Definition cover_key (s : lstate) : Prop :=
  forall k d ind j, nth_error (l_frags s) k = Some (FCom d ind (Some j)) ->
  exists key, dec_key (l_frags s) j = Some key /\ In d (dget (l_decs s) key).

Lemma dget_dset_grow m k v key' d :
  (forall x, In x (dget m k) -> In x v) -> In d (dget m key') -> In d (dget (dset m k v) key').
Proof.
  intros Hg Hin. destruct (dkey_eqb key' k) eqn:E.
  - apply dkey_eqb_eq in E. subst key'. rewrite dget_dset_same. apply Hg. exact Hin.
  - rewrite dget_dset_other by exact E. exact Hin.
Qed.

Lemma attach_one_cover_key j s i : cover_key s -> cover_key (attach_one j s i).
Proof.
  intros Hc. pose proof (attach_one_extends j s i) as Hext.
  unfold attach_one in *. destruct (dec_key (l_frags s) j) as [key|] eqn:Hk; [|exact Hc].
  destruct (nth_error (l_frags s) i) as [fr|] eqn:E; [|exact Hc].
  assert (Hlt : i < List.length (l_frags s)) by (apply nth_error_Some; congruence).
  destruct fr as [| | |d0 ind0 a0|e0 a0]; try exact Hc; intros k d ind j' Hn; cbn [l_frags l_decs] in *.
  - destruct (Nat.eq_dec i k) as [->|Hne].
    + rewrite nth_set_nth_same in Hn by exact Hlt. inversion Hn; subst.
      exists key. split; [apply (dec_key_extends _ _ j' key Hext Hk)|]. rewrite dget_dset_same. apply in_or_app. right. left. reflexivity.
    + rewrite nth_set_nth_other in Hn by exact Hne. destruct (Hc k d ind j' Hn) as [key' [A B]].
      exists key'. split; [apply (dec_key_extends _ _ j' key' Hext A)|].
      apply dget_dset_grow; [intros x Hx; apply in_or_app; left; exact Hx|exact B].
  - destruct (Nat.eq_dec i k) as [->|Hne].
    + rewrite nth_set_nth_same in Hn by exact Hlt. discriminate.
    + rewrite nth_set_nth_other in Hn by exact Hne. destruct (Hc k d ind j' Hn) as [key' [A B]].
      exists key'. split; [apply (dec_key_extends _ _ j' key' Hext A)|].
      apply dget_dset_grow; [intros x Hx; apply append_newline_grows; exact Hx|exact B].
Qed.

Lemma attach_cover_key sw : forall s j, cover_key s -> cover_key (attach s sw j).
Proof. induction sw as [|i r IH]; intros s j H; [exact H|]. rewrite attach_cons. apply IH. apply attach_one_cover_key. exact H. Qed.

Lemma pass1_step_cover_key s i : cover_key s -> cover_key (pass1_step s i).
Proof.
  intros Hc. unfold pass1_step. destruct (l_panic s); [exact Hc|].
  destruct (nth_error (l_frags s) i) as [fr|]; [|exact Hc].
  destruct fr as [nid cls name st en| | |d ind [a|]|e a]; try exact Hc.
  - destruct (negb (String.eqb name "End")); [exact Hc|].
    destruct (negb (nc_stmt cls || nc_decl cls)); [exact Hc|].
    destruct (nc_labeled cls); [exact Hc|].
    destruct (negb _); [exact Hc|].
    destruct (find_indented _ _ _ _ _ _ _ _ _) as [[f0 f1] next].
    set (s1 := match rev f0 with [] => s | l :: _ => if is_nl_frag (l_frags s) l then attach s (removelast f0) i else attach s f0 i end).
    assert (H1 : cover_key s1).
    { subst s1. destruct (rev f0); [exact Hc|]. destruct (is_nl_frag _ _); apply attach_cover_key; exact Hc. }
    destruct f1 as [|x f1]; [exact H1|]. destruct next as [j|]; [|exact H1].
    destruct (nth_error (l_frags s) j) as [[? cls' ? st' ?| | | |]|]; try exact H1.
    destruct ((nc_stmt cls' || nc_decl cls') && Z.eqb st' st); [|exact H1]. apply attach_cover_key. exact H1.
  - repeat (match goal with |- context [find_decoration ?a ?b ?c ?d ?e] => destruct (find_decoration a b c d e) as [[? ?]|] end;
            [apply attach_cover_key; exact Hc|]).
    exact Hc.
Qed.

Lemma pass2_step_cover_key s i : cover_key s -> cover_key (pass2_step s i).
Proof.
  intros Hc. unfold pass2_step. cbv zeta. destruct (l_panic s); [exact Hc|].
  destruct (nth_error (l_frags s) i) as [[| | | |e [a|]]|]; try exact Hc.
  assert (Hput : forall j p, cover_key match dec_key (l_frags s) j with
                                     | Some k => mkL (l_frags s) (dset (l_decs s) k (append_newline (dget (l_decs s) k) e)) (l_before s) (l_after s) p
                                     | None => s end).
  { intros j p. destruct (dec_key (l_frags s) j) as [k|]; [|exact Hc].
    intros k0 d ind j' Hn. cbn [l_frags l_decs] in *. destruct (Hc k0 d ind j' Hn) as [key' [A B]].
    exists key'. split; [exact A|]. apply dget_dset_grow; [intros x Hx; apply append_newline_grows; exact Hx|exact B]. }
  destruct (find_node_fwd _ _ _), (find_node_bwd _ _); try (intros k0 d ind j' Hn; apply (Hc k0 d ind j' Hn)).
  destruct (find_decoration _ _ _ _ false) as [[sw j]|]; [exact (Hput j false)|].
  destruct (find_decoration _ _ _ _ true) as [[sw j]|]; [exact (Hput j false)|].
  intros k0 d ind j' Hn. apply (Hc k0 d ind j' Hn).
Qed.

Lemma fold_cover_key (step : lstate -> nat -> lstate) (Hs : forall s i, cover_key s -> cover_key (step s i)) idxs :
  forall s, cover_key s -> cover_key (fold_left step idxs s).
Proof. induction idxs as [|i r IH]; intros s H; cbn; [exact H|]. apply IH. apply Hs. exact H. Qed.

(* For every fragment list in which nothing is attached yet: if link does not panic, every comment
   of the list is stored in the decoration list of the (node, point) of a decoration fragment of
   the list. *)
Theorem link_stores_every_comment fs :
  (forall k fr, nth_error fs k = Some fr -> attached fr = false \/ (match fr with FCom _ _ _ | FNl _ _ => False | _ => True end)) ->
  l_panic (link fs) = false ->
  forall k d ind a, nth_error fs k = Some (FCom d ind a) ->
  exists j nid cls name st en, nth_error fs j = Some (FDec nid cls name st en) /\ In d (dget (l_decs (link fs)) (nid, name)).
Proof.
  intros Hinit Hp k d ind a Hk.
  pose proof (link_attaches_every_comment fs Hp) as Hall.
  assert (Hcov : cover_key (link fs)).
  { unfold link, pass2, pass1. apply fold_cover_key; [apply pass2_step_cover_key|]. apply fold_cover_key; [apply pass1_step_cover_key|].
    intros k0 d0 ind0 j0 Hn. cbn [l_frags] in Hn. destruct (Hinit k0 _ Hn) as [H|H]; [discriminate|contradiction]. }
  assert (Hext : extends fs (l_frags (link fs))).
  { unfold link, pass2, pass1.
    set (s0 := mkL fs [] [] [] false). set (s1 := fold_left pass1_step (seq 0 (List.length (l_frags s0))) s0).
    destruct (pass2_fold (seq 0 (List.length (l_frags s1))) s1) as [Hf Hpm]. rewrite Hf.
    assert (Hp1 : l_panic s1 = false).
    { destruct (l_panic s1) eqn:E; [|reflexivity]. unfold link, pass2, pass1 in Hp. fold s0 in Hp. fold s1 in Hp. rewrite (Hpm eq_refl) in Hp. discriminate. }
    apply (pass1_fold _ s0 Hp1). }
  destruct Hext as [L He]. destruct (He k _ Hk) as [fr' [A [B _]]].
  destruct fr' as [| | |d' ind' a'|]; cbn in B; try contradiction. destruct B as [<- <-].
  pose proof (Hall k _ A) as Hu. destruct a' as [j|]; [|discriminate].
  destruct (Hcov k d ind j A) as [key [Kj Hin]].
  (* the decoration fragment j of the result is the decoration fragment j of the input *)
  unfold dec_key in Kj. destruct (nth_error (l_frags (link fs)) j) as [frj|] eqn:Ej; [|discriminate].
  destruct frj as [nid cls name st en| | | |]; try discriminate. inversion Kj; subst key.
  destruct (nth_error fs j) as [fr0|] eqn:E0.
  - destruct (He j fr0 E0) as [fr2 [C [D _]]]. rewrite Ej in C. inversion C; subst fr2.
    destruct fr0; cbn in D; try contradiction. destruct D as [-> [-> [-> [-> ->]]]].
    exists j, nid, cls, name, st, en. split; [exact E0|exact Hin].
  - assert (nth_error (l_frags (link fs)) j = None) by (apply nth_error_None; rewrite L; apply nth_error_None; exact E0). congruence.
Qed.
