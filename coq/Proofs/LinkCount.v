(* link() stores every comment exactly once: for every text uid, the number of its occurrences in
   all decoration lists equals the number of comment fragments that carry it -- nothing is
   duplicated, nothing is lost (for every fragment list in which no comment is attached yet, if
   link does not panic). *)
From Coq Require Import List String ZArith NArith Bool Lia Sorting.Sorted.
Import ListNotations.
From DV Require Import Model.Tree Model.Link Proofs.LinkProofs Proofs.LinkLocal Proofs.LinkOrder Proofs.RestoreProofs.
Local Open Scope list_scope.

(* ---- the sweeps list each index once ------------------------------------------------------------ *)
Definition asc (l : list nat) : Prop := StronglySorted lt l.

Lemma asc_app_single l x : asc l -> (forall y, In y l -> y < x) -> asc (l ++ [x]).
Proof.
  induction l as [|y r IH]; intros Hs Hlt; cbn [app]; [repeat constructor|].
  inversion Hs; subst. constructor.
  - apply IH; [assumption|intros z Hz; apply Hlt; right; exact Hz].
  - apply Forall_app. split; [assumption|constructor; [apply Hlt; left; reflexivity|constructor]].
Qed.

Lemma asc_NoDup l : asc l -> NoDup l.
Proof.
  induction 1 as [|x r Hs IH Hall]; constructor; [|exact IH].
  intros Hin. rewrite Forall_forall in Hall. specialize (Hall x Hin). lia.
Qed.

Lemma find_dec_fwd_asc sn se fs : forall fuel i acc sw j,
  find_dec_fwd sn se fs i fuel acc = Some (sw, j) -> asc acc -> (forall y, In y acc -> y < i) -> asc sw.
Proof.
  induction fuel as [|f IH]; intros i acc sw j H Ha Hlt; cbn [find_dec_fwd] in H; [discriminate|].
  destruct (scan_step sn se (nth_error fs i)) as [| |sweep].
  - inversion H; subst. exact Ha.
  - discriminate.
  - apply (IH _ _ _ _ H).
    + destruct sweep; [apply asc_app_single; assumption|exact Ha].
    + intros y Hy. destruct sweep; [apply in_app_or in Hy; destruct Hy as [Hy|[<-|[]]]; [specialize (Hlt y Hy); lia|lia]|specialize (Hlt y Hy); lia].
Qed.

Lemma find_dec_bwd_asc sn se fs : forall i acc sw j,
  find_dec_bwd sn se fs i acc = Some (sw, j) -> asc acc -> (forall y, In y acc -> i < y) -> asc sw.
Proof.
  induction i as [|i IH]; intros acc sw j H Ha Hgt; cbn [find_dec_bwd] in H.
  - destruct (scan_step sn se (nth_error fs 0)) as [| |sweep]; try discriminate. inversion H; subst. exact Ha.
  - destruct (scan_step sn se (nth_error fs (S i))) as [| |sweep].
    + inversion H; subst. exact Ha.
    + discriminate.
    + apply (IH _ _ _ H).
      * destruct sweep; [|exact Ha]. constructor; [exact Ha|]. apply Forall_forall. intros y Hy. apply Hgt. exact Hy.
      * intros y Hy. destruct sweep; [destruct Hy as [<-|Hy]; [lia|specialize (Hgt y Hy); lia]|specialize (Hgt y Hy); lia].
Qed.

Lemma fi0_asc fs : forall fuel i i0 i1 st ps a0 a1 next,
  find_indented fs i fuel i0 i1 st ps [] [] = (a0, a1, next) ->
  asc a0 /\ asc a1 /\ (forall x, In x a0 \/ In x a1 -> i <= x).
Proof.
  induction fuel as [|f IH]; intros i i0 i1 st ps a0 a1 next H; cbn [find_indented] in H.
  { inversion H; subst. repeat split; try constructor. intros x [[]|[]]. }
  assert (Hstop : forall nx, ([] : list nat, [] : list nat, nx) = (a0, a1, next) -> asc a0 /\ asc a1 /\ (forall x, In x a0 \/ In x a1 -> i <= x)).
  { intros nx Heq. inversion Heq; subst. repeat split; try constructor. intros x [[]|[]]. }
  destruct (nth_error fs i) as [fr|]; [|apply (Hstop None H)].
  assert (Hskip : forall st' ps', find_indented fs (S i) f i0 i1 st' ps' [] [] = (a0, a1, next) ->
                    asc a0 /\ asc a1 /\ (forall x, In x a0 \/ In x a1 -> i <= x)).
  { intros st' ps' Hr. destruct (IH _ _ _ _ _ _ _ _ Hr) as [A [B C]]. repeat split; try assumption. intros x Hx. specialize (C x Hx). lia. }
  assert (Hg0 : forall st' ps', find_indented fs (S i) f i0 i1 st' ps' ([] ++ [i]) [] = (a0, a1, next) ->
                    asc a0 /\ asc a1 /\ (forall x, In x a0 \/ In x a1 -> i <= x)).
  { intros st' ps' Hr. rewrite fi_acc in Hr. destruct (find_indented fs (S i) f i0 i1 st' ps' [] []) as [[b0 b1] n] eqn:Er.
    inversion Hr; subst. destruct (IH _ _ _ _ _ _ _ _ Er) as [A [B C]]. cbn [app]. repeat split.
    - constructor; [exact A|]. apply Forall_forall. intros y Hy. specialize (C y (or_introl Hy)). lia.
    - exact B.
    - intros x [[<-|Hx]|Hx]; [lia| |]; [specialize (C x (or_introl Hx))|specialize (C x (or_intror Hx))]; lia. }
  assert (Hg1 : forall st' ps', find_indented fs (S i) f i0 i1 st' ps' [] ([] ++ [i]) = (a0, a1, next) ->
                    asc a0 /\ asc a1 /\ (forall x, In x a0 \/ In x a1 -> i <= x)).
  { intros st' ps' Hr. rewrite fi_acc in Hr. destruct (find_indented fs (S i) f i0 i1 st' ps' [] []) as [[b0 b1] n] eqn:Er.
    inversion Hr; subst. destruct (IH _ _ _ _ _ _ _ _ Er) as [A [B C]]. cbn [app]. repeat split.
    - exact A.
    - constructor; [exact B|]. apply Forall_forall. intros y Hy. specialize (C y (or_intror Hy)). lia.
    - intros x [Hx|[<-|Hx]]; [|lia|]; [specialize (C x (or_introl Hx))|specialize (C x (or_intror Hx))]; lia. }
  destruct fr as [| | |d ind a|e a].
  - apply (Hstop (Some i) H).
  - apply (Hstop None H).
  - apply (Hskip _ _ H).
  - destruct (negb ps).
    + destruct st; [apply (Hg1 _ _ H)|apply (Hg0 _ _ H)].
    + destruct (negb st).
      * destruct (Z.eqb ind i0); [apply (Hg0 _ _ H)|]. destruct (Z.eqb ind i1); [apply (Hg1 _ _ H)|apply (Hstop None H)].
      * destruct (Z.eqb ind i1); [apply (Hg1 _ _ H)|apply (Hstop None H)].
  - destruct st; [apply (Hg1 _ _ H)|apply (Hg0 _ _ H)].
Qed.

Lemma removelast_asc l : asc l -> asc (removelast l).
Proof.
  induction 1 as [|x r Hs IH Hall]; [constructor|]. destruct r as [|y r']; [constructor|].
  cbn [removelast]. constructor; [exact IH|]. apply Forall_forall. intros z Hz. rewrite Forall_forall in Hall. apply Hall.
  change (In z (y :: r')). apply In_removelast. exact Hz.
Qed.

(* ---- counting ------------------------------------------------------------------------------------ *)
Definition decs_uids (m : list (dkey * list dec)) : list N := flat_map (fun e => comment_uids (snd e)) m.
Definition frag_att_uids (f : frag) : list N := match f with FCom d _ (Some _) => comment_uids [d] | _ => [] end.
Definition attached_uids (fs : list frag) : list N := flat_map frag_att_uids fs.
Definition comment_frag_uids (fs : list frag) : list N :=
  flat_map (fun f => match f with FCom d _ _ => comment_uids [d] | _ => [] end) fs.

Definition keys_nodup (m : list (dkey * list dec)) : Prop := NoDup (map fst m).

Lemma cnt_flat_map_app {A} (f : A -> list N) u l1 l2 :
  cnt u (flat_map f (l1 ++ l2)) = (cnt u (flat_map f l1) + cnt u (flat_map f l2))%nat.
Proof. rewrite flat_map_app. apply cnt_app. Qed.

Lemma dget_notin m k : ~ In k (map fst m) -> dget m k = [].
Proof.
  induction m as [|[k' v] r IH]; intros Hn; cbn; [reflexivity|].
  destruct (dkey_eqb k k') eqn:E; [apply dkey_eqb_eq in E; subst; exfalso; apply Hn; left; reflexivity|].
  apply IH. intros H. apply Hn. right. exact H.
Qed.

Lemma dkey_eqb_sym a b : dkey_eqb a b = dkey_eqb b a.
Proof. unfold dkey_eqb. rewrite N.eqb_sym, String.eqb_sym. reflexivity. Qed.

Lemma dset_count m k v u : keys_nodup m ->
  (cnt u (decs_uids (dset m k v)) + cnt u (comment_uids (dget m k)) = cnt u (decs_uids m) + cnt u (comment_uids v))%nat /\
  keys_nodup (dset m k v) /\ (forall x, In x (map fst (dset m k v)) -> x = k \/ In x (map fst m)).
Proof.
  induction m as [|[k' v'] r IH]; intros Hnd; cbn [dset dget decs_uids flat_map map fst snd].
  - rewrite app_nil_r. cbn. repeat split; [lia|repeat constructor; intros []|intros x [<-|[]]; left; reflexivity].
  - inversion Hnd as [|? ? Hnin Hr]; subst. destruct (dkey_eqb k k') eqn:E.
    + apply dkey_eqb_eq in E. subst k'. cbn [decs_uids flat_map map fst snd]. fold (decs_uids r).
      rewrite !cnt_app. repeat split; [lia|constructor; assumption|intros x Hx; right; exact Hx].
    + destruct (IH Hr) as [A [B C]]. cbn [decs_uids flat_map map fst snd]. fold (decs_uids r). fold (decs_uids (dset r k v)).
      rewrite !cnt_app. repeat split; [lia| |].
      * constructor; [|exact B]. intros Hin. destruct (C k' Hin) as [->|H]; [|contradiction].
        unfold dkey_eqb in E. rewrite N.eqb_refl, String.eqb_refl in E. discriminate.
      * intros x [<-|Hx]; [right; left; reflexivity|destruct (C x Hx) as [->|H]; [left; reflexivity|right; right; exact H]].
Qed.

Lemma comment_uids_app a b : comment_uids (a ++ b) = comment_uids a ++ comment_uids b.
Proof. unfold comment_uids. apply flat_map_app. Qed.

Lemma comment_uids_repeat_nl n : comment_uids (repeat DNl n) = [].
Proof. induction n; cbn; [reflexivity|exact IHn]. Qed.

Lemma comment_uids_append_newline ds e : comment_uids (append_newline ds e) = comment_uids ds.
Proof. unfold append_newline. rewrite comment_uids_app, comment_uids_repeat_nl, app_nil_r. reflexivity. Qed.

Lemma attached_uids_set_nth fs i fr fr' u :
  nth_error fs i = Some fr ->
  (cnt u (attached_uids (set_nth fs i fr')) + cnt u (frag_att_uids fr) = cnt u (attached_uids fs) + cnt u (frag_att_uids fr'))%nat.
Proof.
  revert i. induction fs as [|x r IH]; intros i H; [destruct i; discriminate|].
  destruct i as [|i]; cbn [nth_error set_nth] in *.
  - inversion H; subst. unfold attached_uids. cbn [flat_map]. rewrite !cnt_app. lia.
  - specialize (IH i H). unfold attached_uids in *. cbn [flat_map]. rewrite !cnt_app. lia.
Qed.

(* the counting invariant *)
Definition counted (s : lstate) : Prop :=
  keys_nodup (l_decs s) /\ forall u, cnt u (decs_uids (l_decs s)) = cnt u (attached_uids (l_frags s)).

Lemma attach_one_counted j s i :
  counted s -> (forall d ind a, nth_error (l_frags s) i = Some (FCom d ind a) -> a = None) -> counted (attach_one j s i).
Proof.
  intros [Hnd Hc] Hun. unfold attach_one. destruct (dec_key (l_frags s) j) as [key|]; [|split; assumption].
  destruct (nth_error (l_frags s) i) as [fr|] eqn:E; [|split; assumption].
  destruct fr as [| | |d ind a|e a]; try (split; assumption); cbn [l_frags l_decs].
  - specialize (Hun d ind a eq_refl). subst a. split.
    + apply (dset_count (l_decs s) key _ 0%N Hnd).
    + intros u. cbn [l_decs l_frags]. destruct (dset_count (l_decs s) key (dget (l_decs s) key ++ [d]) u Hnd) as [A _].
      pose proof (attached_uids_set_nth (l_frags s) i (FCom d ind None) (FCom d ind (Some j)) u E) as B.
      rewrite comment_uids_app, cnt_app in A. specialize (Hc u). cbn [frag_att_uids] in B. change (cnt u []) with 0%nat in B. lia.
  - split.
    + apply (dset_count (l_decs s) key _ 0%N Hnd).
    + intros u. cbn [l_decs l_frags]. destruct (dset_count (l_decs s) key (append_newline (dget (l_decs s) key) e) u Hnd) as [A _].
      pose proof (attached_uids_set_nth (l_frags s) i (FNl e a) (FNl e (Some j)) u E) as B.
      rewrite comment_uids_append_newline in A. specialize (Hc u). cbn [frag_att_uids] in B. change (cnt u []) with 0%nat in B. lia.
Qed.

Lemma attach_counted sw : forall s j,
  counted s -> NoDup sw -> (forall x d ind a, In x sw -> nth_error (l_frags s) x = Some (FCom d ind a) -> a = None) ->
  counted (attach s sw j).
Proof.
  induction sw as [|i r IH]; intros s j Hc Hnd Hun; [exact Hc|].
  rewrite attach_cons. inversion Hnd as [|? ? Hi Hr]; subst. apply IH; [|exact Hr|].
  - apply attach_one_counted; [exact Hc|]. intros d ind a Hn. apply (Hun i d ind a (or_introl eq_refl) Hn).
  - intros x d ind a Hx Hn.
    assert (Hne : x <> i) by (intros ->; contradiction).
    (* the fragment at x is untouched by the step at i *)
    unfold attach_one in Hn. destruct (dec_key (l_frags s) j) as [key|]; [|apply (Hun x d ind a (or_intror Hx) Hn)].
    destruct (nth_error (l_frags s) i) as [[| | |d0 i0 a0|e0 a0]|]; cbn [l_frags] in Hn;
      try (apply (Hun x d ind a (or_intror Hx) Hn));
      rewrite nth_set_nth_other in Hn by (intros E; apply Hne; symmetry; exact E); apply (Hun x d ind a (or_intror Hx) Hn).
Qed.

(* ---- pass 1 keeps the count ---------------------------------------------------------------------- *)
Lemma com_at_unatt fs x d ind a : (forall a', com_at fs x a' -> a' = None) -> nth_error fs x = Some (FCom d ind a) -> a = None.
Proof. intros H Hn. apply H. exists d, ind. exact Hn. Qed.

Lemma pass1_step_counted s i : pinv s i -> counted s -> counted (pass1_step s i).
Proof.
  intros Hp Hc. unfold pass1_step. destruct (l_panic s); [exact Hc|].
  destruct (nth_error (l_frags s) i) as [fr|] eqn:E; [|exact Hc].
  destruct fr as [nid cls name st en| | |d ind [a|]|e a]; try exact Hc.
  - (* hanging indent at an End decoration *)
    destruct (negb (String.eqb name "End")); [exact Hc|].
    destruct (negb (nc_stmt cls || nc_decl cls)); [exact Hc|].
    destruct (nc_labeled cls); [exact Hc|].
    destruct (negb _); [exact Hc|].
    destruct (find_indented _ _ _ _ _ _ _ _ _) as [[f0 f1] next] eqn:Ef.
    destruct (fi0_spec _ _ _ _ _ _ _ _ _ _ Ef) as [p [Hle Hsoft Hrange Hcompl Horder _ Hnext]].
    destruct (fi0_asc _ _ _ _ _ _ _ _ _ _ Ef) as [A0 [A1 _]].
    destruct Hp as [Hloc HS HL HU].
    assert (Hde : is_dec (l_frags s) i) by (repeat eexists; exact E).
    assert (Hfree : forall x t, att s x t -> x < i).
    { intros x t Ha. destruct (HU x t Ha) as [H|H]; [exact H|].
      destruct (Nat.lt_ge_cases x i) as [Hl|Hg]; [exact Hl|]. exfalso. apply (dec_not_soft _ i Hde i (S x)); [lia|exact H]. }
    assert (Hun0 : forall x d0 i0 a0, In x f0 \/ In x f1 -> nth_error (l_frags s) x = Some (FCom d0 i0 a0) -> a0 = None).
    { intros x d0 i0 a0 Hx Hn. destruct a0 as [t|]; [|reflexivity].
      assert (Ha : att s x t) by (exists d0, i0; exact Hn). specialize (Hfree x t Ha). specialize (Hrange x Hx). lia. }
    set (s1 := match rev f0 with [] => s | l :: _ => if is_nl_frag (l_frags s) l then attach s (removelast f0) i else attach s f0 i end).
    assert (H1 : counted s1 /\ forall x d0 i0 a0, In x f1 -> nth_error (l_frags s1) x = Some (FCom d0 i0 a0) -> a0 = None).
    { assert (Hgen : forall sw1, (forall x, In x sw1 -> In x f0) -> NoDup sw1 ->
                       counted (attach s sw1 i) /\ forall x d0 i0 a0, In x f1 -> nth_error (l_frags (attach s sw1 i)) x = Some (FCom d0 i0 a0) -> a0 = None).
      { intros sw1 Hsub Hnd1. split.
        - apply attach_counted; [exact Hc|exact Hnd1|]. intros x d0 i0 a0 Hx Hn. apply (Hun0 x d0 i0 a0 (or_introl (Hsub x Hx)) Hn).
        - intros x d0 i0 a0 Hx Hn.
          assert (Hca : com_at (l_frags (attach s sw1 i)) x a0) by (exists d0, i0; exact Hn).
          apply (attach_com sw1 s i x a0 Hde) in Hca. destruct Hca as [a1 [[d1 [i1 Hn1]] Heq]].
          destruct (existsb (Nat.eqb x) sw1) eqn:Ex.
          + apply existsb_eqb_In in Ex. specialize (Horder x x (Hsub x Ex) Hx). lia.
          + subst a0. apply (Hun0 x d1 i1 a1 (or_intror Hx) Hn1). }
      subst s1. destruct (rev f0) as [|l r] eqn:Er.
      - split; [exact Hc|]. intros x d0 i0 a0 Hx Hn. apply (Hun0 x d0 i0 a0 (or_intror Hx) Hn).
      - destruct (is_nl_frag (l_frags s) l).
        + apply Hgen; [intros x Hx; apply In_removelast; exact Hx|apply asc_NoDup, removelast_asc; exact A0].
        + apply Hgen; [auto|apply asc_NoDup; exact A0]. }
    destruct H1 as [Hc1 Hun1]. fold s1.
    destruct f1 as [|y f1']; [exact Hc1|]. destruct next as [j|]; [|exact Hc1].
    destruct (nth_error (l_frags s) j) as [[? cls' ? st' ?| | | |]|]; try exact Hc1.
    destruct ((nc_stmt cls' || nc_decl cls') && Z.eqb st' st); [|exact Hc1].
    apply attach_counted; [exact Hc1|apply asc_NoDup; exact A1|]. intros x d0 i0 a0 Hx Hn. apply (Hun1 x d0 i0 a0 Hx Hn).
  - (* an unattached comment *)
    assert (Hb : forall sn se sw j, find_decoration sn se (l_frags s) i false = Some (sw, j) -> counted (attach s sw j)).
    { intros sn se sw j F. unfold find_decoration in F. apply attach_counted; [exact Hc| |].
      - apply asc_NoDup. apply (find_dec_bwd_asc _ _ _ _ _ _ _ F); [constructor|intros y []].
      - intros x d0 i0 a0 Hx Hn. destruct (find_dec_bwd_unatt _ _ _ _ _ _ _ F x a0 Hx) as [[]|H]; [exists d0, i0; exact Hn|exact H]. }
    assert (Hf : forall sn se sw j, find_decoration sn se (l_frags s) i true = Some (sw, j) -> counted (attach s sw j)).
    { intros sn se sw j F. unfold find_decoration in F. apply attach_counted; [exact Hc| |].
      - apply asc_NoDup. apply (find_dec_fwd_asc _ _ _ _ _ _ _ _ F); [constructor|intros y []].
      - intros x d0 i0 a0 Hx Hn. destruct (find_dec_fwd_unatt _ _ _ _ _ _ _ _ F x a0 Hx) as [[]|H]; [exists d0, i0; exact Hn|exact H]. }
    destruct (find_decoration true true (l_frags s) i false) as [[sw j]|] eqn:F1; [eapply Hb; exact F1|].
    destruct (find_decoration false true (l_frags s) i true) as [[sw j]|] eqn:F2; [eapply Hf; exact F2|].
    destruct (find_decoration false true (l_frags s) i false) as [[sw j]|] eqn:F3; [eapply Hb; exact F3|].
    destruct (find_decoration false false (l_frags s) i true) as [[sw j]|] eqn:F4; [eapply Hf; exact F4|].
    destruct (find_decoration false false (l_frags s) i false) as [[sw j]|] eqn:F5; [eapply Hb; exact F5|].
    destruct Hc as [A B]. split; assumption.
Qed.

Lemma pass1_fold_counted : forall n s i, pinv s i -> counted s -> counted (fold_left pass1_step (seq i n) s).
Proof.
  induction n as [|n IH]; intros s i Hp Hc; cbn [seq fold_left]; [exact Hc|].
  apply (IH _ (S i)); [apply pass1_step_pinv; exact Hp|apply pass1_step_counted; assumption].
Qed.

(* pass 2 adds line breaks only *)
Lemma pass2_step_counted s i : counted s -> counted (pass2_step s i).
Proof.
  intros [Hnd Hc]. unfold pass2_step. cbv zeta. destruct (l_panic s); [split; assumption|].
  destruct (nth_error (l_frags s) i) as [[| | | |e [a|]]|]; try (split; assumption).
  assert (Hput : forall j p, counted match dec_key (l_frags s) j with
                                     | Some k => mkL (l_frags s) (dset (l_decs s) k (append_newline (dget (l_decs s) k) e)) (l_before s) (l_after s) p
                                     | None => s end).
  { intros j p. destruct (dec_key (l_frags s) j) as [k|]; [|split; assumption]. split; cbn [l_decs l_frags].
    - apply (dset_count (l_decs s) k _ 0%N Hnd).
    - intros u. destruct (dset_count (l_decs s) k (append_newline (dget (l_decs s) k) e) u Hnd) as [A _].
      rewrite comment_uids_append_newline in A. specialize (Hc u). lia. }
  destruct (find_node_fwd _ _ _), (find_node_bwd _ _); try (split; assumption).
  destruct (find_decoration _ _ _ _ false) as [[sw j]|]; [exact (Hput j false)|].
  destruct (find_decoration _ _ _ _ true) as [[sw j]|]; [exact (Hput j false)|].
  split; assumption.
Qed.

Lemma fold_counted (idxs : list nat) : forall s, counted s -> counted (fold_left pass2_step idxs s).
Proof. induction idxs as [|i r IH]; intros s H; cbn; [exact H|]. apply IH. apply pass2_step_counted. exact H. Qed.

(* For every fragment list in which no comment is attached yet: if link does not panic, every
   comment text occurs in the decoration lists exactly as often as among the comment fragments:
   no comment is duplicated, none is lost. *)
Theorem link_stores_each_comment_once fs :
  (forall c d ind a, nth_error fs c = Some (FCom d ind a) -> a = None) ->
  l_panic (link fs) = false ->
  forall u, cnt u (decs_uids (l_decs (link fs))) = cnt u (comment_frag_uids fs).
Proof.
  intros Hinit Hp u.
  assert (H0 : pinv (mkL fs [] [] [] false) 0).
  { constructor.
    - intros c d ind j Hc. cbn [l_frags] in Hc. specialize (Hinit _ _ _ _ Hc). discriminate.
    - intros c1 j1 c2 [d [ind Ha]]. cbn [l_frags] in Ha. specialize (Hinit _ _ _ _ Ha). discriminate.
    - intros c2 j2 c1 [d [ind Ha]]. cbn [l_frags] in Ha. specialize (Hinit _ _ _ _ Ha). discriminate.
    - intros x j [d [ind Ha]]. cbn [l_frags] in Ha. specialize (Hinit _ _ _ _ Ha). discriminate. }
  assert (C0 : counted (mkL fs [] [] [] false)).
  { split; [constructor|]. intros v. cbn [l_decs l_frags decs_uids flat_map].
    assert (Hz : attached_uids fs = []).
    { unfold attached_uids. clear -Hinit. assert (H : forall k fr, nth_error fs k = Some fr -> frag_att_uids fr = []).
      { intros k fr Hk. destruct fr as [| | |d ind [a|]|]; try reflexivity. specialize (Hinit _ _ _ _ Hk). discriminate. }
      clear Hinit. induction fs as [|x r IH]; [reflexivity|]. cbn [flat_map]. rewrite (H 0 x eq_refl). cbn [app].
      apply IH. intros k fr Hk. apply (H (S k) fr Hk). }
    rewrite Hz. reflexivity. }
  unfold link, pass2, pass1 in *.
  set (s0 := mkL fs [] [] [] false) in *.
  set (s1 := fold_left pass1_step (seq 0 (List.length (l_frags s0))) s0) in *.
  pose proof (pass1_fold_counted (List.length (l_frags s0)) s0 0 H0 C0) as C1. fold s1 in C1.
  pose proof (fold_counted (seq 0 (List.length (l_frags s1))) s1 C1) as [_ C2]. rewrite (C2 u).
  destruct (pass2_fold (seq 0 (List.length (l_frags s1))) s1) as [Hf Hpm]. rewrite Hf.
  (* after pass 1 every comment is attached, so the attached comments are all the comments *)
  assert (Hp1 : l_panic s1 = false) by (destruct (l_panic s1) eqn:E; [rewrite (Hpm eq_refl) in Hp; discriminate|reflexivity]).
  destruct (pass1_fold (seq 0 (List.length (l_frags s0))) s0 Hp1) as [[L He] Hall]. fold s1 in L, He, Hall.
  assert (Hsame : forall l1 l2 : list frag, List.length l2 = List.length l1 ->
            (forall k fr, nth_error l1 k = Some fr -> exists fr', nth_error l2 k = Some fr' /\ same_kind fr fr') ->
            (forall k fr, nth_error l2 k = Some fr -> unattached_comment fr = false) ->
            attached_uids l2 = comment_frag_uids l1).
  { induction l1 as [|x r IH]; intros l2 Hl Hk Ha.
    - destruct l2; [reflexivity|discriminate].
    - destruct l2 as [|y r2]; [discriminate|]. unfold attached_uids, comment_frag_uids. cbn [flat_map].
      destruct (Hk 0 x eq_refl) as [y' [Hy Hs]]. cbn in Hy. inversion Hy; subst y'.
      specialize (Ha 0 y eq_refl) as Hay.
      assert (Hhead : frag_att_uids y = match x with FCom d _ _ => comment_uids [d] | _ => [] end).
      { destruct x, y; cbn in Hs; try contradiction; try reflexivity. destruct Hs as [-> _]. destruct att0; [reflexivity|discriminate]. }
      rewrite Hhead. f_equal. apply IH.
      + cbn in Hl. lia.
      + intros k fr Hn. apply (Hk (S k) fr Hn).
      + intros k fr Hn. apply (Ha (S k) fr Hn). }
  f_equal. apply Hsame.
  - exact L.
  - intros k fr Hn. destruct (He k fr Hn) as [fr' [A [B _]]]. exists fr'. split; assumption.
  - intros k fr Hn. apply (Hall k); [|exact Hn]. apply in_seq. split; [lia|].
    assert (k < List.length (l_frags s1)) by (apply nth_error_Some; congruence). cbn [plus]. lia.
Qed.
