(* C08: the translated source of mergeDecorations (Gen/MergeSrc.v, regenerated from
   decorator/decorator.go on every run) computes the hand model Model/Merge.merge -- for every
   argument list, and from every intermediate state of its two variables. *)
From Coq Require Import List String Bool.
Import ListNotations.
From DV Require Import Model.Tree Model.Merge Model.MergeProg Gen.MergeSrc.
Local Open Scope string_scope.
Local Open Scope list_scope.

Lemma merge_from_state items : forall ends out,
  let st := fold_left (mitem_step mergeDecorations_src) items (mkMS ends out false false) in
  ms_out st = out ++ merge ends items /\ ms_stuck st = false /\ ms_cont st = false.
Proof.
  induction items as [|it items IH]; intros ends out; cbn [fold_left].
  - cbn. rewrite app_nil_r. repeat split; reflexivity.
  - destruct it as [ds|s].
    + destruct ds as [|d ds].
      * cbn [merge]. apply IH.
      * change (mitem_step mergeDecorations_src (mkMS ends out false false) (MDecs (d :: ds)))
          with (mkMS (last_is_nl (d :: ds)) (out ++ d :: ds) false false).
        specialize (IH (last_is_nl (d :: ds)) (out ++ d :: ds)). cbv zeta in IH.
        destruct IH as (Ho & Hs & Hc). cbn [merge]. rewrite Ho, <- app_assoc. repeat split; assumption.
    + destruct s, ends; cbn [merge];
        match goal with
        | |- context[mitem_step ?p ?st ?it] =>
          let v := eval vm_compute in (mitem_step p st it) in change (mitem_step p st it) with v
        end.
      all: match goal with
           | |- context[fold_left _ _ (mkMS ?e ?o false false)] =>
             specialize (IH e o); cbv zeta in IH; destruct IH as (Ho & Hs & Hc); rewrite Ho
           end.
      all: rewrite <- ?app_assoc; cbn [app]; repeat split; assumption.
Qed.

Theorem merge_source_is_model :
  forall items, ms_out (mrun mergeDecorations_src items) = merge false items
                /\ ms_stuck (mrun mergeDecorations_src items) = false.
Proof.
  intros items. unfold mrun. change (negb (m_shape mergeDecorations_src)) with false.
  destruct (merge_from_state items false []) as (Ho & Hs & _). split; [exact Ho | exact Hs].
Qed.
