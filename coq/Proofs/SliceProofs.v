(* Lemmas about Model/SliceHeap.v: go_append, chains, method calls, histories. *)
From Coq Require Import List Arith Bool Lia.
Import ListNotations.
From DV Require Import Model.SliceHeap.

Definition wf (h : heap) (s : slice) : Prop :=
  arr s < length h /\ off s + cap s <= length (read_arr h (arr s)) /\ len s <= cap s.
Definition owf (h : heap) (o : option slice) : Prop :=
  match o with None => True | Some s => wf h s end.

Lemma slice_wf_iff h s : slice_wf h s = true <-> wf h s.
Proof.
  unfold slice_wf, wf. rewrite !andb_true_iff, Nat.ltb_lt, !Nat.leb_le. tauto.
Qed.

(* --- arrays ------------------------------------------------------------------- *)

Lemma length_upd h a l : length (upd h a l) = length h.
Proof. revert a. induction h as [|x t IH]; intros [|a]; cbn; auto. Qed.

Lemma read_arr_upd_eq h a l : a < length h -> read_arr (upd h a l) a = l.
Proof.
  unfold read_arr. revert a. induction h as [|x t IH]; intros [|a] Ha; cbn in *; try lia; auto.
  apply IH. lia.
Qed.

Lemma read_arr_upd_neq h a b l : a <> b -> read_arr (upd h a l) b = read_arr h b.
Proof.
  unfold read_arr. revert a b. induction h as [|x t IH]; intros [|a] [|b] Hab; cbn; try reflexivity; try lia.
  apply IH. lia.
Qed.

Lemma read_arr_app_old h x a : a < length h -> read_arr (h ++ x) a = read_arr h a.
Proof. intros Ha. unfold read_arr. apply app_nth1. exact Ha. Qed.

Lemma read_arr_app_new h x : read_arr (h ++ [x]) (length h) = x.
Proof. unfold read_arr. rewrite app_nth2 by lia. rewrite Nat.sub_diag. reflexivity. Qed.

Lemma length_write_at l i xs : i + length xs <= length l -> length (write_at l i xs) = length l.
Proof.
  intros H. unfold write_at. rewrite !app_length, firstn_length, skipn_length. lia.
Qed.

Lemma firstn_write_at l i xs k : k <= i -> i <= length l ->
  firstn k (write_at l i xs) = firstn k l.
Proof.
  intros Hk Hi. unfold write_at.
  rewrite firstn_app. rewrite firstn_length.
  replace (k - Nat.min i (length l)) with 0 by lia. cbn [firstn]. rewrite app_nil_r.
  rewrite firstn_firstn. f_equal. lia.
Qed.

Lemma firstn_skipn_prefix (l1 l2 : list cell) k o n :
  firstn k l1 = firstn k l2 -> o + n <= k ->
  firstn n (skipn o l1) = firstn n (skipn o l2).
Proof.
  intros H Hk.
  assert (E : forall l : list cell, firstn n (skipn o l) = firstn n (skipn o (firstn k l))).
  { intros l. rewrite <- (firstn_skipn k l) at 1.
    destruct (Nat.le_gt_cases (length l) k) as [Hl|Hl].
    - rewrite (skipn_all2 l) by lia. rewrite app_nil_r. reflexivity.
    - rewrite skipn_app. rewrite firstn_app.
      rewrite skipn_length, firstn_length.
      replace (n - (Nat.min k (length l) - o)) with 0 by lia. cbn [firstn]. rewrite app_nil_r. reflexivity. }
  rewrite (E l1), (E l2), H. reflexivity.
Qed.

Lemma contents_write_ext l o n xs :
  o + n + length xs <= length l ->
  firstn (n + length xs) (skipn o (write_at l (o + n) xs)) = firstn n (skipn o l) ++ xs.
Proof.
  intros H. unfold write_at.
  rewrite skipn_app. rewrite firstn_length.
  replace (o - Nat.min (o + n) (length l)) with 0 by lia. cbn [skipn].
  rewrite skipn_firstn_comm. replace (o + n - o) with n by lia.
  rewrite firstn_app. rewrite firstn_length, skipn_length.
  replace (Nat.min n (length l - o)) with n by lia.
  replace (n + length xs - n) with (length xs) by lia.
  rewrite firstn_all2 by (rewrite firstn_length, skipn_length; lia).
  f_equal. rewrite firstn_app. rewrite Nat.sub_diag. cbn [firstn]. rewrite app_nil_r.
  apply firstn_all.
Qed.

(* --- one append ---------------------------------------------------------------- *)

Section Append.
Variable grow : nat -> nat -> nat.
Hypothesis grow_ok : forall l n, l + n <= grow l n.

(* relation between the heap before and after evaluating something on behalf of *d *)
Definition ext (h h' : heap) (d : option slice) : Prop :=
  length h <= length h' /\
  (forall a, a < length h -> (forall d0, d = Some d0 -> a <> arr d0) -> read_arr h' a = read_arr h a) /\
  (forall d0, d = Some d0 ->
     length (read_arr h' (arr d0)) = length (read_arr h (arr d0)) /\
     firstn (off d0 + len d0) (read_arr h' (arr d0)) = firstn (off d0 + len d0) (read_arr h (arr d0))).

Lemma ext_refl h d : ext h h d.
Proof. repeat split; auto. Qed.

Lemma ext_trans h1 h2 h3 d : owf h1 d -> ext h1 h2 d -> ext h2 h3 d -> ext h1 h3 d.
Proof.
  intros Hd [L1 [O1 D1]] [L2 [O2 D2]]. repeat split.
  - lia.
  - intros a Ha Hne. rewrite O2 by (auto; lia). apply O1; auto.
  - destruct (D1 d0 H) as [A _], (D2 d0 H) as [B _]. congruence.
  - destruct (D1 d0 H) as [_ A], (D2 d0 H) as [_ B]. congruence.
Qed.

Lemma ext_contents h h' d : ext h h' d -> contents h' d = contents h d.
Proof.
  intros [_ [_ D]]. destruct d as [d0|]; [|reflexivity]. cbn [contents].
  destruct (D d0 eq_refl) as [_ P].
  eapply firstn_skipn_prefix; [exact P|lia].
Qed.

Lemma ext_owf h h' d : owf h d -> ext h h' d -> owf h' d.
Proof.
  intros W [L [_ D]]. destruct d as [d0|]; [|exact I]. cbn [owf] in *.
  destruct W as [A [B C]]. destruct (D d0 eq_refl) as [E _].
  unfold wf. rewrite E. repeat split; lia.
Qed.

Lemma ext_other h h' d (s : option slice) :
  ext h h' d -> owf h s -> (forall s0 d0, s = Some s0 -> d = Some d0 -> arr s0 <> arr d0) ->
  contents h' s = contents h s /\ owf h' s.
Proof.
  intros [L [O _]] W Hne. destruct s as [s0|]; [|split; [reflexivity|exact I]].
  cbn [owf contents] in *. destruct W as [A [B C]].
  assert (E : read_arr h' (arr s0) = read_arr h (arr s0)).
  { apply O; [exact A|]. intros d0 Hd. eapply Hne; eauto. }
  rewrite E. split; [reflexivity|]. unfold wf. rewrite E. repeat split; lia.
Qed.

(* classification of the slice an expression evaluates to *)
Definition extends_d (d r : option slice) : Prop :=
  exists d0 r0, d = Some d0 /\ r = Some r0 /\
    arr r0 = arr d0 /\ off r0 = off d0 /\ len d0 <= len r0 /\ cap r0 = cap d0.
Definition fresh_in (h : heap) (r : option slice) : Prop :=
  exists r0, r = Some r0 /\ length h <= arr r0.

Lemma go_append_spec h0 h d s xs :
  owf h0 d -> ext h0 h d -> owf h s ->
  (s = None \/ extends_d d s \/ fresh_in h0 s) ->
  let '(h', r) := go_append grow h s xs in
  contents h' r = contents h s ++ xs /\ ext h0 h' d /\ owf h' r /\
  (r = None \/ extends_d d r \/ fresh_in h0 r).
Proof.
  intros Wd0 E Ws Cls.
  assert (Wd : owf h d) by (eapply ext_owf; eauto).
  unfold go_append. destruct xs as [|x xs'].
  { cbn. rewrite app_nil_r. split; [reflexivity|split; [exact E|split; [exact Ws|exact Cls]]]. }
  set (xs := x :: xs') in *.
  destruct E as [Lh [EO ED]].
  destruct s as [s0|].
  - cbn [slen]. destruct (Nat.leb_spec (len s0 + length xs) (cap s0)) as [Hfit|Hno].
    + (* in place *)
      cbn [owf] in Ws. destruct Ws as [A [B C]].
      set (l' := write_at (read_arr h (arr s0)) (off s0 + len s0) xs).
      assert (Ll' : length l' = length (read_arr h (arr s0))) by (apply length_write_at; lia).
      assert (R : read_arr (upd h (arr s0) l') (arr s0) = l') by (apply read_arr_upd_eq; exact A).
      split; [|split; [|split]].
      * cbn [contents arr off len]. rewrite R. unfold l'. apply contents_write_ext. lia.
      * repeat split.
        -- rewrite length_upd. lia.
        -- intros a Ha Hne. destruct (Nat.eq_dec (arr s0) a) as [Heq|Hn].
           ++ exfalso. destruct Cls as [Hc|[Hc|Hc]]; [discriminate| |].
              ** destruct Hc as [d0 [r0 [Hd [Hr [Ha' _]]]]]. inversion Hr; subst r0.
                 apply (Hne d0 Hd). congruence.
              ** destruct Hc as [r0 [Hr Hge]]. inversion Hr; subst r0. lia.
           ++ rewrite read_arr_upd_neq by exact Hn. apply EO; assumption.
        -- destruct (ED d0 H) as [E1 _].
           destruct (Nat.eq_dec (arr s0) (arr d0)) as [Heq|Hn].
           ++ rewrite <- Heq, R, Ll', Heq. exact E1.
           ++ rewrite read_arr_upd_neq by exact Hn. exact E1.
        -- destruct (ED d0 H) as [_ E2].
           destruct (Nat.eq_dec (arr s0) (arr d0)) as [Heq|Hn].
           ++ rewrite <- Heq, R. unfold l'.
              destruct Cls as [Hc|[Hc|Hc]]; [discriminate| |].
              ** destruct Hc as [d1 [r0 [Hd [Hr [Ha' [Ho [Hl Hcp]]]]]]].
                 inversion Hr; subst r0. rewrite H in Hd; inversion Hd; subst d1.
                 rewrite firstn_write_at by lia. rewrite Heq. exact E2.
              ** destruct Hc as [r0 [Hr Hge]]. inversion Hr; subst r0.
                 cbn [owf] in Wd0. rewrite H in Wd0. destruct Wd0 as [W1 _]. lia.
           ++ rewrite read_arr_upd_neq by exact Hn. exact E2.
      * cbn [owf]. unfold wf. cbn [arr off len cap]. rewrite length_upd.
        rewrite R, Ll'. repeat split; lia.
      * right. destruct Cls as [Hc|[Hc|Hc]]; [discriminate| |].
        -- left. destruct Hc as [d1 [r0 [Hd [Hr [Ha' [Ho [Hl Hcp]]]]]]]. inversion Hr; subst r0.
           exists d1. eexists. repeat split; [exact Hd| | | |]; cbn [arr off len cap]; try assumption; lia.
        -- right. destruct Hc as [r0 [Hr Hge]]. inversion Hr; subst r0.
           eexists. split; [reflexivity|]. cbn [arr]. exact Hge.
    + (* reallocate *)
      set (g := grow (len s0) (length xs)).
      assert (Hg : len s0 + length xs <= g) by apply grow_ok.
      set (na := contents h (Some s0) ++ xs ++ repeat 0 (g - (len s0 + length xs))).
      assert (Lc : length (contents h (Some s0)) = len s0).
      { cbn [contents]. cbn [owf] in Ws. destruct Ws as [A [B C]].
        rewrite firstn_length, skipn_length. lia. }
      split; [|split; [|split]].
      * cbn [contents arr off len]. rewrite read_arr_app_new. cbn [skipn].
        unfold na. rewrite app_assoc. rewrite firstn_app.
        rewrite app_length, Lc. replace (len s0 + length xs - (len s0 + length xs)) with 0 by lia.
        cbn [firstn]. rewrite app_nil_r. rewrite firstn_all2 by (rewrite app_length; lia). reflexivity.
      * repeat split.
        -- rewrite app_length. cbn [length]. lia.
        -- intros a Ha Hne. rewrite read_arr_app_old by lia. apply EO; assumption.
        -- destruct (ED d0 H) as [E1 _]. cbn [owf] in Wd. rewrite H in Wd. destruct Wd as [W1 _].
           rewrite read_arr_app_old by exact W1. exact E1.
        -- destruct (ED d0 H) as [_ E2]. cbn [owf] in Wd. rewrite H in Wd. destruct Wd as [W1 _].
           rewrite read_arr_app_old by exact W1. exact E2.
      * cbn [owf]. unfold wf. cbn [arr off len cap]. rewrite read_arr_app_new.
        rewrite app_length. cbn [length]. unfold na. rewrite !app_length, repeat_length, Lc.
        repeat split; lia.
      * right. right. eexists. split; [reflexivity|]. cbn [arr]. lia.
  - (* nil base *)
    cbn [slen]. set (g := grow 0 (length xs)).
    assert (Hg : 0 + length xs <= g) by apply grow_ok.
    split; [|split; [|split]].
    + cbn [contents arr off len]. rewrite read_arr_app_new. cbn [skipn app].
      rewrite firstn_app. rewrite Nat.sub_diag. cbn [firstn]. rewrite app_nil_r. apply firstn_all.
    + repeat split.
      * rewrite app_length. cbn [length]. lia.
      * intros a Ha Hne. rewrite read_arr_app_old by lia. apply EO; assumption.
      * destruct (ED d0 H) as [E1 _]. cbn [owf] in Wd. rewrite H in Wd. destruct Wd as [W1 _].
        rewrite read_arr_app_old by exact W1. exact E1.
      * destruct (ED d0 H) as [_ E2]. cbn [owf] in Wd. rewrite H in Wd. destruct Wd as [W1 _].
        rewrite read_arr_app_old by exact W1. exact E2.
    + cbn [owf]. unfold wf. cbn [arr off len cap]. rewrite read_arr_app_new.
      rewrite !app_length, repeat_length. cbn [length]. repeat split; lia.
    + right. right. eexists. split; [reflexivity|]. cbn [arr]. lia.
Qed.

Lemma owf_app h x s : owf h s -> owf (h ++ [x]) s /\ contents (h ++ [x]) s = contents h s.
Proof.
  destruct s as [s0|]; [|split; [exact I|reflexivity]]. cbn [owf contents].
  intros [A [B C]]. unfold wf. rewrite read_arr_app_old by exact A. rewrite app_length. cbn [length].
  repeat split; lia.
Qed.

Lemma ext_app h0 h d x : owf h0 d -> ext h0 h d -> ext h0 (h ++ [x]) d.
Proof.
  intros W [L [O D]]. repeat split.
  - rewrite app_length. cbn [length]. lia.
  - intros a Ha Hne. rewrite read_arr_app_old by lia. apply O; assumption.
  - destruct (D d0 H) as [E1 _]. cbn [owf] in W. rewrite H in W. destruct W as [W1 _].
    rewrite read_arr_app_old by lia. exact E1.
  - destruct (D d0 H) as [_ E2]. cbn [owf] in W. rewrite H in W. destruct W as [W1 _].
    rewrite read_arr_app_old by lia. exact E2.
Qed.

Lemma denote_app a b dv av : denote (Append a b) dv av = denote a dv av ++ denote b dv av.
Proof. unfold denote. cbn [atoms]. apply flat_map_app. Qed.

Lemma eval_chain e : chain e = true ->
  forall h0 d args, owf h0 d -> owf h0 args ->
  (forall s0 d0, args = Some s0 -> d = Some d0 -> arr s0 <> arr d0) ->
  forall h, ext h0 h d ->
  exists h' r, eval grow h d args e = Some (h', r) /\ ext h0 h' d /\ owf h' r /\
    contents h' r = denote e (contents h0 d) (contents h0 args) /\
    ((is_args e = true /\ r = args) \/ r = None \/ extends_d d r \/ fresh_in h0 r).
Proof.
  induction e as [| | | |a IHa b _|src]; intros Hc h0 d args Wd Wa Hne h E; cbn [chain] in Hc; try discriminate.
  - (* Deref *)
    exists h, d. cbn [eval]. split; [reflexivity|]. split; [exact E|]. split; [eapply ext_owf; eauto|].
    split.
    + unfold denote. cbn. rewrite app_nil_r. eapply ext_contents; eauto.
    + destruct d as [d0|]; [|right; left; reflexivity].
      right; right; left. exists d0, d0. repeat split; auto.
  - (* Args *)
    exists h, args. cbn [eval]. split; [reflexivity|]. split; [exact E|].
    destruct (ext_other h0 h d args E Wa Hne) as [C W]. split; [exact W|]. split.
    + unfold denote. cbn. rewrite app_nil_r. exact C.
    + left. split; reflexivity.
  - (* Nil *)
    exists h, None. cbn [eval]. split; [reflexivity|]. split; [exact E|]. split; [exact I|].
    split; [reflexivity|]. right; left; reflexivity.
  - (* EmptyLit *)
    exists (h ++ [[]]), (Some (mkSlice (length h) 0 0 0)). cbn [eval]. split; [reflexivity|].
    split; [apply ext_app; assumption|]. split.
    + cbn [owf]. unfold wf. cbn [arr off len cap]. rewrite app_length. cbn [length]. lia.
    + split; [reflexivity|]. right; right; right. eexists. split; [reflexivity|]. cbn [arr].
      destruct E as [L _]. exact L.
  - (* Append *)
    apply andb_true_iff in Hc. destruct Hc as [Hc Hna]. apply andb_true_iff in Hc. destruct Hc as [Hca Hlb].
    destruct (IHa Hca h0 d args Wd Wa Hne h E) as [h1 [sa [Ea [E1 [Wsa [Ca Cls]]]]]].
    assert (Cls' : sa = None \/ extends_d d sa \/ fresh_in h0 sa).
    { destruct Cls as [[Hx _]|Cls]; [|exact Cls]. rewrite Hx in Hna. discriminate. }
    cbn [eval]. rewrite Ea.
    assert (Hb : exists h2 sb, eval grow h1 d args b = Some (h2, sb) /\ ext h0 h2 d /\ owf h2 sa /\
               contents h2 sa = contents h1 sa /\
               contents h2 sb = denote b (contents h0 d) (contents h0 args)).
    { destruct b; cbn [is_leaf] in Hlb; try discriminate; cbn [eval].
      - exists h1, d. split; [reflexivity|]. split; [exact E1|]. split; [exact Wsa|]. split; [reflexivity|].
        unfold denote. cbn. rewrite app_nil_r. eapply ext_contents; eauto.
      - exists h1, args. split; [reflexivity|]. split; [exact E1|]. split; [exact Wsa|]. split; [reflexivity|].
        unfold denote. cbn. rewrite app_nil_r.
        apply (ext_other h0 h1 d args E1 Wa Hne).
      - exists h1, None. split; [reflexivity|]. split; [exact E1|]. split; [exact Wsa|]. split; reflexivity.
      - exists (h1 ++ [[]]), (Some (mkSlice (length h1) 0 0 0)).
        destruct (owf_app h1 [] sa Wsa) as [W2 C2].
        split; [reflexivity|]. split; [apply ext_app; assumption|]. split; [exact W2|]. split; [exact C2|].
        cbn [contents arr off len]. reflexivity. }
    destruct Hb as [h2 [sb [Eb [E2 [Wsa2 [Csa2 Cb]]]]]]. rewrite Eb.
    pose proof (go_append_spec h0 h2 d sa (contents h2 sb) Wd E2 Wsa2 Cls') as G.
    destruct (go_append grow h2 sa (contents h2 sb)) as [h' r].
    destruct G as [G1 [G2 [G3 G4]]].
    exists h', r. split; [reflexivity|]. split; [exact G2|]. split; [exact G3|]. split.
    + rewrite G1, Csa2, Ca, Cb. symmetry. apply denote_app.
    + right. exact G4.
Qed.
End Append.

(* --- method calls and histories ---------------------------------------------------- *)

Lemma atoms_eqb_eq x y : atoms_eqb x y = true -> x = y.
Proof.
  revert y. induction x as [|a x IH]; intros [|b y] H; cbn in H; try discriminate; auto.
  apply andb_true_iff in H. destruct H as [H1 H2]. f_equal; [|auto].
  destruct a, b; cbn in H1; try discriminate; reflexivity.
Qed.

Definition Inv (s : st) : Prop :=
  (forall a, In a (owned s) -> a < length (sheap s)) /\
  owf (sheap s) (sd s) /\
  (forall d0, sd s = Some d0 -> In (arr d0) (owned s)).

Definition init_st (h : heap) : st := mkSt h None [].

Lemma Inv_init h : Inv (init_st h).
Proof. repeat split; cbn; intros; try contradiction; discriminate. Qed.

Lemma existsb_eqb_false a l : existsb (Nat.eqb a) l = false -> ~ In a l.
Proof.
  intros H Hin. assert (existsb (Nat.eqb a) l = true); [|congruence].
  apply existsb_exists. exists a. split; [exact Hin|apply Nat.eqb_refl].
Qed.

Lemma in_new_arrays h h' a : length h <= a -> a < length h' -> In a (new_arrays h h').
Proof. intros. unfold new_arrays. apply in_seq. lia. Qed.

Lemma new_arrays_bound h h' a : In a (new_arrays h h') -> length h <= a < length h'.
Proof. unfold new_arrays. intros H. apply in_seq in H. lia. Qed.

Section Calls.
Variable grow : nat -> nat -> nat.
Hypothesis grow_ok : forall l n, l + n <= grow l n.
Variable ir : meth -> method_ir.
Hypothesis ir_ok : forall m, method_ok m (ir m) = true.

Lemma spec_of_atoms m e dv av :
  atoms e = expected_atoms m -> denote e dv av = spec_store m dv av.
Proof.
  unfold denote. intros ->. destruct m; cbn; rewrite ?app_nil_r; reflexivity.
Qed.

(* one call: contents, frame, ownership *)
Lemma call_spec m s arg :
  Inv s -> op_ok s (Call m arg) = true ->
  exists h' d' rv, call grow (ir m) (sheap s) (sd s) arg = Some (h', d', rv) /\
    contents h' d' = spec_store m (contents (sheap s) (sd s)) (contents (sheap s) arg) /\
    (m = MAll -> contents h' rv = contents (sheap s) (sd s)) /\
    length (sheap s) <= length h' /\
    (forall a, a < length (sheap s) -> ~ In a (owned s) -> read_arr h' a = read_arr (sheap s) a) /\
    Inv (mkSt h' d' (owned s ++ new_arrays (sheap s) h')).
Proof.
  intros [I1 [I2 I3]] Hok.
  set (h := sheap s) in *. set (d := sd s) in *.
  assert (Wa : owf h arg).
  { destruct arg as [a0|]; [|exact I]. cbn [op_ok] in Hok. apply andb_true_iff in Hok.
    destruct Hok as [Hw _]. apply slice_wf_iff. exact Hw. }
  assert (Hne : forall s0 d0, arg = Some s0 -> d = Some d0 -> arr s0 <> arr d0).
  { intros s0 d0 -> Hd. cbn [op_ok] in Hok. apply andb_true_iff in Hok. destruct Hok as [_ Hn].
    apply negb_true_iff in Hn. apply existsb_eqb_false in Hn. intros Heq. apply Hn. rewrite Heq. apply I3. exact Hd. }
  assert (Frame : forall h', ext h h' d -> forall a, a < length h -> ~ In a (owned s) -> read_arr h' a = read_arr h a).
  { intros h' [_ [O _]] a Ha Hn. apply O; [exact Ha|]. intros d0 Hd Heq. apply Hn. rewrite Heq. apply I3. exact Hd. }
  pose proof (ir_ok m) as Hm. unfold method_ok in Hm. unfold call.
  destruct m.
  1,2,3,4:
    destruct (m_assign (ir _)) as [e|]; [|discriminate];
    destruct (m_return (ir _)) as [r|]; [discriminate|];
    apply andb_true_iff in Hm; destruct Hm as [Hs Ha]; apply atoms_eqb_eq in Ha;
    unfold safe_store in Hs; apply andb_true_iff in Hs; destruct Hs as [Hc Hna];
    destruct (eval_chain grow grow_ok e Hc h d arg I2 Wa Hne h (ext_refl h d)) as [h' [d' [Ev [E [W [C Cls]]]]]];
    rewrite Ev; exists h', d', None;
    (split; [reflexivity|]);
    (split; [rewrite C; apply spec_of_atoms; exact Ha|]);
    (split; [intros Hx; discriminate|]);
    (split; [destruct E as [L _]; exact L|]);
    (split; [apply Frame; exact E|]);
    (split; [|split]); cbn [sheap sd owned].
  all: try (intros a Hin; apply in_app_or in Hin; destruct Hin as [Hin|Hin];
            [destruct E as [L _]; specialize (I1 a Hin); lia|apply new_arrays_bound in Hin; lia]).
  all: try exact W.
  all: try (intros d0 Hd; apply in_or_app;
            destruct Cls as [[Hx _]|[Hx|[Hx|Hx]]];
            [rewrite Hx in Hna; discriminate
            |congruence
            |destruct Hx as [d1 [r0 [Hd1 [Hr [Har _]]]]]; left; rewrite Hd in Hr; inversion Hr; subst r0;
             rewrite Har; apply I3; exact Hd1
            |destruct Hx as [r0 [Hr Hge]]; right; rewrite Hd in Hr; inversion Hr; subst r0;
             apply in_new_arrays; [exact Hge|]; cbn [owf] in W; rewrite Hd in W; destruct W as [W1 _]; exact W1]).
  (* MAll *)
  destruct (m_assign (ir MAll)) as [e|]; [discriminate|].
  destruct (m_return (ir MAll)) as [r|]; [|discriminate].
  apply andb_true_iff in Hm. destruct Hm as [Hc Ha]. apply atoms_eqb_eq in Ha.
  destruct (eval_chain grow grow_ok r Hc h d arg I2 Wa Hne h (ext_refl h d)) as [h' [rv [Ev [E [W [C Cls]]]]]].
  rewrite Ev. exists h', d, rv.
  split; [reflexivity|].
  split; [cbn [spec_store]; eapply ext_contents; eauto|].
  split; [intros _; rewrite C; unfold denote; rewrite Ha; cbn; apply app_nil_r|].
  split; [destruct E as [L _]; exact L|].
  split; [apply Frame; exact E|].
  split; [|split]; cbn [sheap sd owned].
  - intros a Hin. apply in_app_or in Hin. destruct Hin as [Hin|Hin].
    + destruct E as [L _]. specialize (I1 a Hin). lia.
    + apply new_arrays_bound in Hin. lia.
  - eapply ext_owf; eauto.
  - intros d0 Hd. apply in_or_app. left. apply I3. exact Hd.
Qed.

Lemma step_spec s o :
  Inv s -> op_ok s o = true ->
  exists s', step grow ir s o = Some s' /\ Inv s' /\
    contents (sheap s') (sd s') = spec_step (sheap s) (contents (sheap s) (sd s)) o /\
    length (sheap s) <= length (sheap s') /\
    (forall a, In a (owned s) -> In a (owned s')) /\
    (forall a, In a (owned s') -> In a (owned s) \/ length (sheap s) <= a) /\
    (forall a, a < length (sheap s) -> ~ In a (owned s) ->
       read_arr (sheap s') a =
       match o with
       | CallerWrite a' i v => if Nat.eqb a' a then set_nth (read_arr (sheap s) a) i v else read_arr (sheap s) a
       | _ => read_arr (sheap s) a
       end).
Proof.
  intros HI Hok. destruct o as [m arg|cells|a i v].
  - destruct (call_spec m s arg HI Hok) as [h' [d' [rv [Ec [C [_ [L [F I']]]]]]]].
    cbn [step]. rewrite Ec. eexists. split; [reflexivity|]. split; [exact I'|].
    cbn [sheap sd owned spec_step]. split; [exact C|]. split; [exact L|].
    split; [intros a Ha; apply in_or_app; left; exact Ha|].
    split; [|exact F].
    intros a Ha. apply in_app_or in Ha. destruct Ha as [Ha|Ha]; [left; exact Ha|right].
    apply new_arrays_bound in Ha. lia.
  - cbn [step]. eexists. split; [reflexivity|]. destruct HI as [I1 [I2 I3]].
    destruct (owf_app (sheap s) cells (sd s) I2) as [W C].
    split; [|split; [|split; [|split; [|split]]]]; cbn [sheap sd owned spec_step].
    + split; [|split]; cbn [sheap sd owned]; auto.
      intros a Ha. specialize (I1 a Ha). rewrite app_length. cbn [length]. lia.
    + exact C.
    + rewrite app_length. lia.
    + auto.
    + auto.
    + intros a Ha _. apply read_arr_app_old. exact Ha.
  - cbn [step]. eexists. split; [reflexivity|]. destruct HI as [I1 [I2 I3]].
    cbn [op_ok] in Hok. apply andb_true_iff in Hok. destruct Hok as [Hlt Hn].
    apply Nat.ltb_lt in Hlt. apply negb_true_iff in Hn. apply existsb_eqb_false in Hn.
    assert (Hd : forall d0, sd s = Some d0 -> arr d0 <> a).
    { intros d0 Hd Heq. apply Hn. rewrite <- Heq. apply I3. exact Hd. }
    assert (Cd : contents (upd (sheap s) a (set_nth (read_arr (sheap s) a) i v)) (sd s) = contents (sheap s) (sd s)
                 /\ owf (upd (sheap s) a (set_nth (read_arr (sheap s) a) i v)) (sd s)).
    { destruct (sd s) as [d0|] eqn:Hsd; [|split; [reflexivity|exact I]]. cbn [contents owf] in *.
      rewrite read_arr_upd_neq by (intros Heq; apply (Hd d0 eq_refl); auto).
      split; [reflexivity|]. unfold wf in *. rewrite length_upd.
      rewrite read_arr_upd_neq by (intros Heq; apply (Hd d0 eq_refl); auto). exact I2. }
    destruct Cd as [Cd Wd].
    split; [|split; [|split; [|split; [|split]]]]; cbn [sheap sd owned spec_step].
    + split; [|split]; cbn [sheap sd owned]; auto.
      intros a0 Ha0. rewrite length_upd. auto.
    + exact Cd.
    + rewrite length_upd. lia.
    + auto.
    + auto.
    + intros a0 Ha0 _. destruct (Nat.eqb_spec a a0) as [->|Hne].
      * apply read_arr_upd_eq. exact Ha0.
      * apply read_arr_upd_neq. exact Hne.
Qed.

(* the concrete machine run next to the abstract list *)
Fixpoint run_both (s : st) (dv : list cell) (ops : list op) : option (st * list cell) :=
  match ops with
  | [] => Some (s, dv)
  | o :: rest =>
    match step grow ir s o with
    | Some s' => run_both s' (spec_step (sheap s) dv o) rest
    | None => None
    end
  end.

Theorem refine_list ops : forall s,
  Inv s -> ops_ok grow ir s ops = true ->
  exists s' dv', run_both s (contents (sheap s) (sd s)) ops = Some (s', dv') /\
    Inv s' /\ contents (sheap s') (sd s') = dv'.
Proof.
  induction ops as [|o rest IH]; intros s HI Hok.
  - exists s, (contents (sheap s) (sd s)). auto.
  - cbn [ops_ok] in Hok. apply andb_true_iff in Hok. destruct Hok as [Ho Hr].
    destruct (step_spec s o HI Ho) as [s1 [Es [I1 [C _]]]].
    cbn [run_both]. rewrite Es in *. rewrite <- C. apply IH; assumption.
Qed.

(* what the caller's arrays contain after a history: only the caller's own writes *)
Fixpoint replay_writes (a : nat) (ops : list op) (l : list cell) : list cell :=
  match ops with
  | [] => l
  | CallerWrite a' i v :: rest => replay_writes a rest (if Nat.eqb a' a then set_nth l i v else l)
  | _ :: rest => replay_writes a rest l
  end.

Theorem frame_history ops : forall s a,
  Inv s -> ops_ok grow ir s ops = true -> a < length (sheap s) -> ~ In a (owned s) ->
  exists s', run grow ir s ops = Some s' /\
    read_arr (sheap s') a = replay_writes a ops (read_arr (sheap s) a).
Proof.
  induction ops as [|o rest IH]; intros s a HI Hok Ha Hn.
  - exists s. auto.
  - cbn [ops_ok] in Hok. apply andb_true_iff in Hok. destruct Hok as [Ho Hr].
    destruct (step_spec s o HI Ho) as [s1 [Es [I1 [_ [L [_ [Ow F]]]]]]].
    cbn [run]. rewrite Es in *.
    assert (Hn1 : ~ In a (owned s1)).
    { intros Hin. destruct (Ow a Hin) as [H|H]; [auto|lia]. }
    destruct (IH s1 a I1 Hr ltac:(lia) Hn1) as [s' [Er Eq]].
    exists s'. split; [exact Er|]. rewrite Eq, (F a Ha Hn).
    destruct o; reflexivity.
Qed.

(* All returns exactly the list *)
Theorem all_returns_list s arg :
  Inv s -> op_ok s (Call MAll arg) = true ->
  exists h' d' rv, call grow (ir MAll) (sheap s) (sd s) arg = Some (h', d', rv) /\
    contents h' rv = contents (sheap s) (sd s) /\ contents h' d' = contents (sheap s) (sd s).
Proof.
  intros HI Hok. destruct (call_spec MAll s arg HI Hok) as [h' [d' [rv [Ec [C [A _]]]]]].
  exists h', d', rv. split; [exact Ec|]. split; [apply A; reflexivity|exact C].
Qed.
End Calls.
