(* C13: the table-driven walk equals the table-free preorder specification. *)
From Coq Require Import List String ZArith NArith Bool Lia.
Import ListNotations.
From DV Require Import Model.Tree Model.Tables Proofs.TreeInd.
Local Open Scope string_scope.
Local Open Scope list_scope.

Lemma lookup_In {A} (l : list (string * A)) k v : lookup l k = Some v -> In (k, v) l.
Proof.
  induction l as [|[k' v'] l IH]; cbn; [discriminate|].
  destruct (String.eqb_spec k k') as [->|Hne]; intros H; [inversion H; left; reflexivity|right; auto].
Qed.

Definition kid_walk (tbl : wtable) (prune : N -> bool) (k : kid tree) : kid (list ev) :=
  match k with
  | One (Some c) => One (Some (walk tbl prune c))
  | One None => One None
  | Many l => Many (map (walk tbl prune) l)
  end.

Definition kid_spec (prune : N -> bool) (k : kid tree) : list ev :=
  match k with
  | One (Some c) => spec_walk prune c
  | One None => []
  | Many l => flat_map (spec_walk prune) l
  end.

Lemma walk_unfold tbl prune id k vals kids decs b a :
  walk tbl prune (Node id k vals kids decs b a) =
  if prune id then [EVisit id]
  else EVisit id :: flat_map (fun w => wpart_events w (lookup (map (fun p => (fst p, kid_walk tbl prune (snd p))) kids) (wfield w)))
                             (tbl_parts tbl (WUnknown "no case") k) ++ [ENil].
Proof. reflexivity. Qed.

Lemma spec_walk_unfold prune id k vals kids decs b a :
  spec_walk prune (Node id k vals kids decs b a) =
  if prune id then [EVisit id]
  else EVisit id :: flat_map (fun p => kid_spec prune (snd p)) kids ++ [ENil].
Proof. reflexivity. Qed.

Lemma concat_map_flat_map {A B} (f : A -> list B) l : List.concat (map f l) = flat_map f l.
Proof. induction l; cbn; congruence. Qed.

(* the aligned core: parts, kids and universe fields in lock-step *)
Lemma aligned_events tbl prune :
  forall (kids : list (string * kid tree)) (ps : list wpart) (cf : list (string * ftype)),
  all2 wpart_matches ps cf = true ->
  all2 (fun (p : string * kid tree) (f : string * ftype) =>
          String.eqb (fst p) (fst f) && kid_shape_ok (snd f) (snd p)) kids cf = true ->
  Forall (fun p => kid_all (fun c => walk tbl prune c = spec_walk prune c) (snd p)) kids ->
  (forall w p, In (w, p) (combine ps kids) ->
       match w, snd p with WOne _ false, One None => False | _, _ => True end) ->
  flat_map (fun wp => wpart_events (fst wp) (Some (snd (snd wp))))
           (combine ps (map (fun p => (fst p, kid_walk tbl prune (snd p))) kids))
  = flat_map (fun p => kid_spec prune (snd p)) kids.
Proof.
  induction kids as [|[kn kk] kids IH]; intros ps cf Hps Hk Hall Hmand.
  - destruct ps; reflexivity.
  - destruct cf as [|[fn ft] cf]; [destruct ps; cbn in *; discriminate|].
    destruct ps as [|w ps]; [cbn in Hps; discriminate|].
    cbn [all2] in Hps, Hk. apply andb_true_iff in Hps. destruct Hps as [Hw Hps].
    apply andb_true_iff in Hk. destruct Hk as [Hk1 Hk]. apply andb_true_iff in Hk1. destruct Hk1 as [_ Hshape].
    inversion Hall as [|? ? Hkid Hall']; subst.
    cbn [map combine flat_map fst snd]. f_equal.
    + specialize (Hmand w (kn, kk) (or_introl eq_refl)). cbn [snd] in Hmand, Hkid, Hshape.
      unfold wpart_matches in Hw. cbn [snd] in Hw.
      destruct w as [f chk|f|s]; destruct ft; try discriminate; destruct kk as [[c|]|l]; cbn in Hshape; try discriminate;
        cbn [kid_walk kid_spec wpart_events kid_all] in *.
      * exact Hkid.
      * destruct chk; [reflexivity|contradiction].
      * rewrite concat_map_flat_map. clear - Hkid. induction Hkid as [|c l Hc _ IHl]; cbn; congruence.
      * rewrite concat_map_flat_map. clear - Hkid. induction Hkid as [|c l Hc _ IHl]; cbn; congruence.
    + apply (IH ps cf Hps Hk Hall'). intros w0 p0 Hin. apply Hmand. right. exact Hin.
Qed.

Lemma all2_names_ps ps cf : all2 wpart_matches ps cf = true -> map wfield ps = map fst cf.
Proof.
  revert cf. induction ps as [|w ps IH]; intros [|[fn ft] cf] H; cbn in *; try discriminate; auto.
  apply andb_true_iff in H. destruct H as [Hw H]. f_equal; [|auto].
  unfold wpart_matches in Hw. cbn [snd fst] in Hw.
  destruct w, ft; try discriminate; cbn; apply String.eqb_eq; exact Hw.
Qed.

Lemma all2_names_kids (kids : list (string * kid tree)) cf :
  all2 (fun (p : string * kid tree) (f : string * ftype) =>
          String.eqb (fst p) (fst f) && kid_shape_ok (snd f) (snd p)) kids cf = true ->
  map fst kids = map fst cf.
Proof.
  revert cf. induction kids as [|p kids IH]; intros [|f cf] H; cbn in *; try discriminate; auto.
  apply andb_true_iff in H. destruct H as [H1 H]. apply andb_true_iff in H1. destruct H1 as [H1 _].
  f_equal; [apply String.eqb_eq; exact H1|auto].
Qed.

Lemma forallb_lookup_mandatory (ps : list wpart) (kids : list (string * kid tree)) :
  NoDup (map wfield ps) -> map wfield ps = map fst kids ->
  forallb (fun w => match w with
                    | WOne f false => match lookup kids f with Some (One None) => false | _ => true end
                    | _ => true
                    end) ps = true ->
  forall w p, In (w, p) (combine ps kids) ->
    match w, snd p with WOne _ false, One None => False | _, _ => True end.
Proof.
  intros Hnd Hmap Hf.
  assert (G : forall pre, (forall k, In k (map fst pre) -> ~ In k (map wfield ps)) ->
              forallb (fun w => match w with
                    | WOne f false => match lookup (pre ++ kids) f with Some (One None) => false | _ => true end
                    | _ => true end) ps = true ->
              forall w p, In (w, p) (combine ps kids) ->
                match w, snd p with WOne _ false, One None => False | _, _ => True end).
  { clear Hf. revert kids Hnd Hmap. induction ps as [|w0 ps IH]; intros kids Hnd Hmap pre Hpre Hf w p Hin.
    - destruct Hin.
    - destruct kids as [|[kn kk] kids]; [destruct Hin|]. cbn in Hmap.
      assert (Hk : wfield w0 = kn) by congruence. assert (Hrest : map wfield ps = map fst kids) by congruence.
      cbn [forallb] in Hf. apply andb_true_iff in Hf. destruct Hf as [Hf0 Hf].
      inversion Hnd as [|? ? Hnotin Hnd']; subst.
      cbn [combine] in Hin. destruct Hin as [Heq|Hin].
      + inversion Heq; subst w p. cbn [snd].
        destruct w0 as [f [|]|f|s]; auto. destruct kk as [[c|]|l]; auto.
        cbn [wfield] in *. rewrite lookup_app_notin in Hf0.
        * cbn in Hf0. rewrite String.eqb_refl in Hf0. discriminate.
        * intros Hin'. apply (Hpre _ Hin'). left. reflexivity.
      + replace (pre ++ (wfield w0, kk) :: kids) with ((pre ++ [(wfield w0, kk)]) ++ kids) in Hf
          by (rewrite <- app_assoc; reflexivity).
        apply (IH kids Hnd' Hrest (pre ++ [(wfield w0, kk)])); [|exact Hf|exact Hin].
        intros k0 Hin0. rewrite map_app in Hin0. apply in_app_or in Hin0. destruct Hin0 as [Hin0|Hin0].
        * intros Hin2. apply (Hpre _ Hin0). right. exact Hin2.
        * cbn in Hin0. destruct Hin0 as [<-|[]]. exact Hnotin. }
  apply (G []); [intros k []|exact Hf].
Qed.

Theorem walk_eq_spec (u : universe_t) (tbl : wtable) :
  walk_tbl_ok u tbl = true ->
  forall prune t, conformsb u t = true -> mandatory_okb tbl t = true ->
  walk tbl prune t = spec_walk prune t.
Proof.
  intros Htbl prune t. induction t as [id k vals kids decs b a IH] using tree_ind'.
  intros Hc Hm. rewrite walk_unfold, spec_walk_unfold.
  destruct (prune id); [reflexivity|]. f_equal. f_equal.
  cbn [conformsb] in Hc. apply andb_true_iff in Hc. destruct Hc as [Hc Hsub].
  apply andb_true_iff in Hc. destruct Hc as [Hknown Hkids].
  destruct (lookup u k) as [fs|] eqn:Hu; [|discriminate].
  assert (Hko : walk_kind_ok u tbl k = true).
  { unfold walk_tbl_ok in Htbl. rewrite forallb_forall in Htbl.
    apply (Htbl (k, fs)). apply lookup_In. exact Hu. }
  unfold walk_kind_ok in Hko. unfold tbl_parts in *.
  destruct (lookup tbl k) as [ps|] eqn:Ht; [|discriminate].
  apply andb_true_iff in Hko. destruct Hko as [Hps Hnd]. apply nodup_string_NoDup in Hnd.
  cbn [mandatory_okb] in Hm. unfold tbl_parts in Hm. rewrite Ht in Hm.
  apply andb_true_iff in Hm. destruct Hm as [Hm Hmsub].
  assert (Hnames : map wfield ps = map fst kids).
  { rewrite (all2_names_ps _ _ Hps), (all2_names_kids _ _ Hkids). reflexivity. }
  set (rs := map (fun p => (fst p, kid_walk tbl prune (snd p))) kids).
  assert (Hrs : map wfield ps = map fst rs).
  { unfold rs. rewrite map_map. cbn [fst]. exact Hnames. }
  pose proof (flat_map_lookup_aligned wfield wpart_events ps rs Hnd Hrs [] (fun k0 (H : In k0 []) => match H with end)) as E.
  cbn [app] in E. rewrite E. unfold rs.
  apply (aligned_events tbl prune kids ps (child_fields_t u k) Hps Hkids).
  - rewrite forallb_forall in Hsub, Hmsub.
    rewrite Forall_forall in IH. apply Forall_forall. intros p Hp.
    specialize (IH p Hp). specialize (Hsub p Hp). specialize (Hmsub p Hp).
    destruct (snd p) as [[c|]|l]; cbn [kid_all] in *; auto.
    rewrite forallb_forall in Hsub, Hmsub. rewrite Forall_forall in IH. apply Forall_forall.
    intros c Hc. apply IH; auto.
  - apply forallb_lookup_mandatory; assumption.
Qed.

(* consequences of the specification ---------------------------------------------------- *)

Fixpoint visited (l : list ev) : list N :=
  match l with
  | [] => []
  | EVisit id :: r => id :: visited r
  | _ :: r => visited r
  end.

Lemma visited_app a b : visited (a ++ b) = visited a ++ visited b.
Proof. induction a as [|[id| |] a IH]; cbn; congruence. Qed.

(* without pruning: every node exactly once, parents first, children in struct order *)
Theorem spec_walk_visits_ids t : visited (spec_walk (fun _ => false) t) = ids t.
Proof.
  induction t as [id k vals kids decs b a IH] using tree_ind'.
  rewrite spec_walk_unfold. cbn [visited ids]. f_equal. rewrite visited_app. cbn [visited]. rewrite app_nil_r.
  induction IH as [|p kids Hp _ IHk]; [reflexivity|].
  cbn [flat_map]. rewrite visited_app. f_equal; [|exact IHk].
  destruct (snd p) as [[c|]|l]; cbn [kid_all kid_spec] in *; auto.
  induction Hp as [|c l Hc _ IHl]; [reflexivity|]. cbn [flat_map]. rewrite visited_app. congruence.
Qed.

(* no EBad (a Walk(v, nil) that calls Visit(nil) out of turn / panics) in the spec *)
Theorem spec_walk_no_bad prune t : ~ In EBad (spec_walk prune t).
Proof.
  induction t as [id k vals kids decs b a IH] using tree_ind'.
  rewrite spec_walk_unfold. destruct (prune id); [intros [H|[]]; discriminate|].
  intros [H|H]; [discriminate|]. apply in_app_or in H. destruct H as [H|[H|[]]]; [|discriminate].
  apply in_flat_map in H. destruct H as [p [Hp Hin]]. rewrite Forall_forall in IH. specialize (IH p Hp).
  destruct (snd p) as [[c|]|l]; cbn [kid_all kid_spec] in *; auto.
  apply in_flat_map in Hin. destruct Hin as [c [Hc Hin]]. rewrite Forall_forall in IH. exact (IH c Hc Hin).
Qed.

(* a declined node contributes its own visit only: the subtree is skipped, no nil call *)
Theorem spec_walk_pruned prune t : prune (tid t) = true -> spec_walk prune t = [EVisit (tid t)].
Proof. destruct t as [id k vals kids decs b a]. cbn [tid]. intros H. rewrite spec_walk_unfold, H. reflexivity. Qed.

(* brackets are balanced: every entered (not declined) node gets exactly one nil call after its children *)
Fixpoint count_nil (l : list ev) : nat :=
  match l with [] => 0 | ENil :: r => S (count_nil r) | _ :: r => count_nil r end.
Fixpoint count_entered (prune : N -> bool) (l : list ev) : nat :=
  match l with
  | [] => 0
  | EVisit id :: r => (if prune id then 0 else 1) + count_entered prune r
  | _ :: r => count_entered prune r
  end.
Lemma count_nil_app a b : count_nil (a ++ b) = count_nil a + count_nil b.
Proof. induction a as [|[id| |] a IH]; cbn; lia. Qed.
Lemma count_entered_app p a b : count_entered p (a ++ b) = count_entered p a + count_entered p b.
Proof. induction a as [|[id| |] a IH]; cbn; try destruct (p id); lia. Qed.

Theorem spec_walk_nil_balanced prune t :
  count_nil (spec_walk prune t) = count_entered prune (spec_walk prune t).
Proof.
  induction t as [id k vals kids decs b a IH] using tree_ind'.
  rewrite spec_walk_unfold. destruct (prune id) eqn:Hp; cbn [count_nil count_entered]; rewrite ?Hp; [reflexivity|].
  rewrite count_nil_app, count_entered_app. cbn [count_nil count_entered].
  assert (E : count_nil (flat_map (fun p => kid_spec prune (snd p)) kids) =
              count_entered prune (flat_map (fun p => kid_spec prune (snd p)) kids)).
  { induction IH as [|p kids Hpk _ IHk]; [reflexivity|].
    cbn [flat_map]. rewrite count_nil_app, count_entered_app. f_equal; [|exact IHk].
    destruct (snd p) as [[c|]|l]; cbn [kid_all kid_spec] in *; auto.
    induction Hpk as [|c l Hc _ IHl]; [reflexivity|]. cbn [flat_map]. rewrite count_nil_app, count_entered_app. lia. }
  lia.
Qed.
