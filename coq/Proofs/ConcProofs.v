From Coq Require Import List Arith Bool Lia.
Import ListNotations.
From DV Require Import Model.Conc.
Local Open Scope list_scope.

(* whoever holds the mutex at the end acquired it in the trace, or held it from the start *)
Lemma holder_acquired t : forall h t2,
  run_lock h t = Some (Some t2) -> h = Some t2 \/ exists b c, t = b ++ (t2, ELock) :: c.
Proof.
  induction t as [|[tid e] r IH]; intros h t2 H; cbn in H.
  - inversion H. left. reflexivity.
  - destruct e.
    + destruct h; [discriminate|]. destruct (IH _ _ H) as [E|[b [c E]]].
      * inversion E; subst. right. exists [], r. reflexivity.
      * right. exists ((tid, ELock) :: b), c. rewrite E. reflexivity.
    + destruct h as [t'|]; [|discriminate]. destruct (Nat.eqb t' tid); [|discriminate].
      destruct (IH _ _ H) as [E|[b [c E]]]; [discriminate|].
      right. exists ((tid, EUnlock) :: b), c. rewrite E. reflexivity.
    + destruct (IH _ _ H) as [E|[b [c E]]]; [left; exact E|].
      right. exists ((tid, ERead f) :: b), c. rewrite E. reflexivity.
    + destruct (IH _ _ H) as [E|[b [c E]]]; [left; exact E|].
      right. exists ((tid, EWrite f) :: b), c. rewrite E. reflexivity.
Qed.

(* from holder t1 to holder t2 <> t1: t1 released, and later t2 acquired *)
Lemma handover seg : forall t1 t2,
  run_lock (Some t1) seg = Some (Some t2) -> t1 <> t2 ->
  exists a b c, seg = a ++ (t1, EUnlock) :: b ++ (t2, ELock) :: c.
Proof.
  induction seg as [|[tid e] r IH]; intros t1 t2 H Hne; cbn in H.
  - inversion H. contradiction.
  - destruct e.
    + discriminate.
    + destruct (Nat.eqb_spec t1 tid) as [->|Hd]; [|discriminate].
      destruct (holder_acquired r None t2 H) as [E|[b [c E]]]; [discriminate|].
      exists [], b, c. rewrite E. reflexivity.
    + destruct (IH _ _ H Hne) as [a [b [c E]]]. exists ((tid, ERead f) :: a), b, c. rewrite E. reflexivity.
    + destruct (IH _ _ H Hne) as [a [b [c E]]]. exists ((tid, EWrite f) :: a), b, c. rewrite E. reflexivity.
Qed.

Lemma run_lock_app t1 : forall h t2, run_lock h (t1 ++ t2) = match run_lock h t1 with Some h' => run_lock h' t2 | None => None end.
Proof.
  induction t1 as [|[tid e] r IH]; intros h t2; cbn; [reflexivity|].
  destruct e; try apply IH.
  - destruct h; [reflexivity|apply IH].
  - destruct h as [t'|]; [|reflexivity]. destruct (Nat.eqb t' tid); [apply IH|reflexivity].
Qed.

(* Lock discipline => happens-before.  In any possible execution, if an access by thread t1 and
   a later access by another thread t2 are both made while holding the mutex, then between
   them t1 unlocks and, after that, t2 locks: the two accesses are ordered by
   program order ; unlock -> lock ; program order.  (So a field all of whose accesses are made
   under the mutex has no two conflicting accesses unordered by happens-before: no data race.) *)
Theorem locked_accesses_are_ordered pre e1 seg e2 post t1 t2 :
  run_lock None (pre ++ (t1, e1) :: seg ++ (t2, e2) :: post) <> None ->
  is_access e1 = true -> is_access e2 = true -> t1 <> t2 ->
  run_lock None pre = Some (Some t1) ->                           (* t1 holds the mutex at its access *)
  run_lock None (pre ++ (t1, e1) :: seg) = Some (Some t2) ->      (* t2 holds it at its access *)
  exists a b c, seg = a ++ (t1, EUnlock) :: b ++ (t2, ELock) :: c.
Proof.
  intros _ A1 A2 Hne H1 H2.
  rewrite run_lock_app, H1 in H2.
  assert (E : run_lock (Some t1) ((t1, e1) :: seg) = run_lock (Some t1) seg) by (destruct e1; try discriminate; reflexivity).
  rewrite E in H2. apply (handover seg t1 t2 H2 Hne).
Qed.

(* the cache is transparent: whatever the order in which the (atomic) calls of all threads
   are executed, each returns what computing afresh returns *)
Section CacheProofs.
  Variables (key val : Type) (key_eqb : key -> key -> bool) (compute : key -> val).
  Hypothesis key_eqb_eq : forall a b, key_eqb a b = true -> a = b.

  Definition cache_ok (c : list (key * val)) : Prop := forall k v, In (k, v) c -> v = compute k.

  Lemma cget_ok c k v : cache_ok c -> cget key val key_eqb c k = Some v -> v = compute k.
  Proof.
    induction c as [|[k' v'] r IH]; cbn; intros Hc H; [discriminate|].
    destruct (key_eqb k k') eqn:E.
    - inversion H; subst. apply key_eqb_eq in E. subst. apply (Hc k' v). left. reflexivity.
    - apply IH; [intros k0 v0 Hin; apply Hc; right; exact Hin|exact H].
  Qed.

  Theorem cache_transparent ks : forall c, cache_ok c ->
    calls key val key_eqb compute c ks = map compute ks.
  Proof.
    induction ks as [|k r IH]; intros c Hc; cbn [calls map]; [reflexivity|].
    unfold call. destruct (cget key val key_eqb c k) as [v|] eqn:E.
    - rewrite (cget_ok c k v Hc E). f_equal. apply IH. exact Hc.
    - f_equal. apply IH. intros k0 v0 [Heq|Hin]; [inversion Heq; reflexivity|apply Hc; exact Hin].
  Qed.
End CacheProofs.
