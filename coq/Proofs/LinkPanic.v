(* link() does not panic on a fragment list in which every comment and newline fragment lies in
   a token-delimited segment that contains a decoration fragment. *)
From Coq Require Import List String ZArith NArith Bool Lia.
Import ListNotations.
From DV Require Import Model.Tree Model.Link Proofs.LinkProofs.
Local Open Scope list_scope.

Lemma kind_step_scan fr : 
  match kind_step fr, scan_step false false fr with
  | RFound, RFound | RStop, RStop | RCont _, RCont _ => True
  | _, _ => False
  end.
Proof. destruct fr as [[| | |? ? [?|]|? [?|]]|]; cbn; exact I. Qed.

Lemma dec_fwd_find fs : forall fuel i acc,
  dec_fwd fs i fuel = match find_dec_fwd false false fs i fuel acc with Some _ => true | None => false end.
Proof.
  induction fuel as [|f IH]; intros i acc; cbn [dec_fwd find_dec_fwd]; [reflexivity|].
  pose proof (kind_step_scan (nth_error fs i)) as H.
  destruct (kind_step (nth_error fs i)), (scan_step false false (nth_error fs i)); try contradiction; try reflexivity.
  apply IH.
Qed.

Lemma dec_bwd_find fs : forall i acc,
  dec_bwd fs i = match find_dec_bwd false false fs i acc with Some _ => true | None => false end.
Proof.
  induction i as [|i IH]; intros acc; cbn [dec_bwd find_dec_bwd].
  - pose proof (kind_step_scan (nth_error fs 0)) as H.
    destruct (kind_step (nth_error fs 0)), (scan_step false false (nth_error fs 0)); try contradiction; reflexivity.
  - pose proof (kind_step_scan (nth_error fs (S i))) as H.
    destruct (kind_step (nth_error fs (S i))), (scan_step false false (nth_error fs (S i))); try contradiction; try reflexivity.
    apply IH.
Qed.

Lemma kind_step_extends fs fs' i : extends fs fs' -> kind_step (nth_error fs' i) = kind_step (nth_error fs i).
Proof.
  intros [L H]. destruct (nth_error fs i) as [fr|] eqn:E.
  - destruct (H i fr E) as [fr' [A [B _]]]. rewrite A. destruct fr, fr'; cbn in B; try contradiction; reflexivity.
  - assert (nth_error fs' i = None) by (apply nth_error_None; rewrite L; apply nth_error_None; exact E).
    rewrite H0. reflexivity.
Qed.

Lemma dec_fwd_extends fs fs' : extends fs fs' -> forall fuel i, dec_fwd fs' i fuel = dec_fwd fs i fuel.
Proof.
  intros He. induction fuel as [|f IH]; intros i; cbn [dec_fwd]; [reflexivity|].
  rewrite (kind_step_extends _ _ i He). destruct (kind_step _); try reflexivity. apply IH.
Qed.

Lemma dec_bwd_extends fs fs' : extends fs fs' -> forall i, dec_bwd fs' i = dec_bwd fs i.
Proof.
  intros He. induction i as [|i IH]; cbn [dec_bwd]; rewrite (kind_step_extends _ _ _ He); destruct (kind_step _); try reflexivity.
  apply IH.
Qed.

Lemma seg_has_dec_extends fs fs' i : extends fs fs' -> seg_has_dec fs' i = seg_has_dec fs i.
Proof.
  intros He. unfold seg_has_dec. destruct He as [L H]. rewrite L.
  rewrite (dec_fwd_extends fs fs' (conj L H)), (dec_bwd_extends fs fs' (conj L H)). reflexivity.
Qed.

(* the invariant carried through both passes *)
Definition seg_inv (fs0 : list frag) (s : lstate) : Prop := extends fs0 (l_frags s) /\ l_panic s = false.

Lemma seg_ok_at fs i fr :
  seg_ok fs = true -> nth_error fs i = Some fr ->
  match fr with FCom _ _ _ | FNl _ _ => seg_has_dec fs i = true | _ => True end.
Proof.
  intros Hs Hi. unfold seg_ok in Hs. rewrite forallb_forall in Hs.
  assert (Hin : In i (seq 0 (List.length fs))).
  { apply in_seq. split; [lia|]. cbn. apply nth_error_Some. congruence. }
  specialize (Hs i Hin). rewrite Hi in Hs. destruct fr; auto.
Qed.

Lemma extends_back fs fs' i fr' :
  extends fs fs' -> nth_error fs' i = Some fr' -> exists fr, nth_error fs i = Some fr /\ same_kind fr fr'.
Proof.
  intros [L H] Hi. destruct (nth_error fs i) as [fr|] eqn:E.
  - destruct (H i fr E) as [fr2 [A [B _]]]. exists fr. split; [reflexivity|]. congruence.
  - assert (nth_error fs' i = None) by (apply nth_error_None; rewrite L; apply nth_error_None; exact E). congruence.
Qed.

Lemma some_or_none_false {A} (o : option A) : (match o with Some _ => true | None => false end) = false -> o = None.
Proof. destruct o; [discriminate|reflexivity]. Qed.

Lemma pass1_step_no_panic fs0 s i :
  seg_ok fs0 = true -> seg_inv fs0 s -> seg_inv fs0 (pass1_step s i).
Proof.
  intros Hok [He Hp]. split; [eapply extends_trans; [exact He|apply pass1_step_extends]|].
  unfold pass1_step. rewrite Hp.
  destruct (nth_error (l_frags s) i) as [fr|] eqn:E; [|exact Hp].
  destruct fr as [nid cls name st en| | |d ind [a|]|e a]; try exact Hp.
  - destruct (negb (String.eqb name "End")); [exact Hp|].
    destruct (negb (nc_stmt cls || nc_decl cls)); [exact Hp|].
    destruct (nc_labeled cls); [exact Hp|].
    destruct (negb _); [exact Hp|].
    destruct (find_indented _ _ _ _ _ _ _ _ _) as [[f0 f1] next].
    set (s1 := match rev f0 with [] => s | l :: _ => if is_nl_frag (l_frags s) l then attach s (removelast f0) i else attach s f0 i end).
    assert (H1 : l_panic s1 = false).
    { subst s1. destruct (rev f0); [exact Hp|]. destruct (is_nl_frag _ _); rewrite attach_panic; exact Hp. }
    destruct f1 as [|x f1]; [exact H1|]. destruct next as [j|]; [|exact H1].
    destruct (nth_error (l_frags s) j) as [[? cls' ? st' ?| | | |]|]; try exact H1.
    destruct (_ && _); [|exact H1]. rewrite attach_panic. exact H1.
  - (* an unattached comment: the last two searches cannot both fail *)
    destruct (extends_back _ _ _ _ He E) as [fr0 [E0 K]].
    pose proof (seg_ok_at _ _ _ Hok E0) as Hseg.
    destruct fr0; cbn in K; try contradiction. rewrite <- (seg_has_dec_extends _ _ i He) in Hseg.
    repeat (match goal with |- context [find_decoration ?a ?b ?c ?d ?e] =>
              destruct (find_decoration a b c d e) as [[? ?]|] eqn:?F end; [rewrite attach_panic; exact Hp|]).
    exfalso. unfold seg_has_dec in Hseg. unfold find_decoration in F2, F3.
    rewrite (dec_fwd_find _ _ _ []), (dec_bwd_find _ _ []) in Hseg. rewrite F2, F3 in Hseg. discriminate.
Qed.

Lemma pass2_step_no_panic fs0 s i :
  seg_ok fs0 = true -> seg_inv fs0 s -> seg_inv fs0 (pass2_step s i).
Proof.
  intros Hok [He Hp]. split; [rewrite pass2_step_frags; exact He|].
  unfold pass2_step. rewrite Hp. cbv zeta.
  destruct (nth_error (l_frags s) i) as [fr|] eqn:E; [|exact Hp].
  destruct fr as [| | | |e [a|]]; try exact Hp.
  destruct (find_node_fwd _ _ _), (find_node_bwd _ _); try reflexivity.
  destruct (extends_back _ _ _ _ He E) as [fr0 [E0 K]].
  pose proof (seg_ok_at _ _ _ Hok E0) as Hseg.
  destruct fr0; cbn in K; try contradiction. rewrite <- (seg_has_dec_extends _ _ i He) in Hseg.
  destruct (find_decoration false false (l_frags s) i false) as [[sw j]|] eqn:F1; [destruct (dec_key _ _); cbn [l_panic]; (reflexivity || exact Hp)|].
  destruct (find_decoration false false (l_frags s) i true) as [[sw j]|] eqn:F2; [destruct (dec_key _ _); cbn [l_panic]; (reflexivity || exact Hp)|].
  exfalso. unfold seg_has_dec in Hseg. unfold find_decoration in F1, F2.
  rewrite (dec_fwd_find _ _ _ []), (dec_bwd_find _ _ []) in Hseg. rewrite F1, F2 in Hseg. discriminate.
Qed.

Lemma fold_seg_inv fs0 (step : lstate -> nat -> lstate)
  (Hs : forall s i, seg_inv fs0 s -> seg_inv fs0 (step s i)) idxs :
  forall s, seg_inv fs0 s -> seg_inv fs0 (fold_left step idxs s).
Proof. induction idxs as [|i r IH]; intros s H; cbn; [exact H|]. apply IH. apply Hs. exact H. Qed.

(* For every fragment list: if every comment and newline fragment can reach a decoration
   fragment without crossing a token, link does not panic. *)
Theorem link_no_panic fs : seg_ok fs = true -> l_panic (link fs) = false.
Proof.
  intros Hok. unfold link, pass2, pass1.
  apply (fold_seg_inv fs pass2_step (fun s i => pass2_step_no_panic fs s i Hok)).
  apply (fold_seg_inv fs pass1_step (fun s i => pass1_step_no_panic fs s i Hok)).
  split; [apply extends_refl|reflexivity].
Qed.

(* the hypothesis is needed: a comment between two tokens with no decoration point *)
Example link_panics_without_decoration :
  let fs := [FDec 1 (mkNC false false false false) "Start" 0 0; FTok; FCom (DLine 3 1) 0 None; FTok; FDec 1 (mkNC false false false false) "End" 0 0] in
  seg_ok fs = false /\ l_panic (link fs) = true.
Proof. vm_compute. split; reflexivity. Qed.
