From Coq Require Import List String ZArith NArith Bool Lia.
Import ListNotations.
From DV Require Import Model.Save.
Local Open Scope list_scope.

Section SaveProofs.
  Variables (file bytes name err : Type).
  Variable print : file -> bytes + err.
  Variable filename : file -> name.
  Variable write : nat -> name -> bytes -> option err.

  (* exactly the successfully printed and written files, in order, each once, to its own name,
     with its own print; nothing after the first failure *)
  Theorem save_writes_exactly files : forall k log,
    fst (save print filename write k files log) = log ++ flat_map (entry print filename) (ok_prefix print filename write k files).
  Proof.
    induction files as [|f r IH]; intros k log; cbn [save ok_prefix]; [cbn; rewrite app_nil_r; reflexivity|].
    destruct (print f) as [b|e] eqn:P; [|cbn; rewrite app_nil_r; reflexivity].
    destruct (write k (filename f) b) as [e|] eqn:Wr; [cbn; rewrite app_nil_r; reflexivity|].
    rewrite IH. cbn [flat_map]. unfold entry at 2. rewrite P. rewrite <- app_assoc. reflexivity.
  Qed.

  (* the result is an error iff some file fails to print or to be written *)
  Theorem save_error_iff_incomplete files : forall k log,
    snd (save print filename write k files log) = None <-> ok_prefix print filename write k files = files.
  Proof.
    induction files as [|f r IH]; intros k log; cbn [save ok_prefix]; [cbn; tauto|].
    destruct (print f) as [b|e]; [|cbn; split; discriminate].
    destruct (write k (filename f) b) as [e|]; [cbn; split; discriminate|].
    rewrite IH. split; [intros ->; reflexivity|intros H; inversion H as [H1]; rewrite H1; exact H1].
  Qed.

  (* no later file is written after a failure *)
  Theorem save_stops_at_first_failure pre f post : forall k,
    ok_prefix print filename write k pre = pre ->
    (match print f with inr _ => True | inl b => write (k + List.length pre) (filename f) b <> None end) ->
    ok_prefix print filename write k (pre ++ f :: post) = pre.
  Proof.
    induction pre as [|g pre IH]; intros k Hpre Hf; cbn [app ok_prefix].
    - cbn in Hf. rewrite Nat.add_0_r in Hf. destruct (print f) as [b|e]; [|reflexivity].
      destruct (write k (filename f) b); [reflexivity|contradiction].
    - cbn [ok_prefix] in Hpre. destruct (print g) as [b|e]; [|discriminate].
      destruct (write k (filename g) b); [discriminate|].
      inversion Hpre as [H1]. rewrite H1. f_equal. apply IH; [exact H1|].
      replace (S k + List.length pre) with (k + List.length (g :: pre)) by (cbn; lia). exact Hf.
  Qed.
End SaveProofs.
