(* Editing a sibling list (C02): the actions of a list child are the concatenation of the
   actions of its elements, each a function of the element's own subtree; so selecting,
   permuting, deleting and repeating elements does the same to the action segments. *)
From Coq Require Import List String ZArith NArith Bool Lia.
Import ListNotations.
From DV Require Import Model.Tree Model.Tables Model.Restore.
Local Open Scope list_scope.

Lemma list_segments tbl managed pkg (l : list tree) :
  kid_acts (Many (map (build tbl managed pkg) l)) = flat_map (flatten tbl managed pkg) l.
Proof. cbn [kid_acts]. induction l as [|x r IH]; cbn [map flat_map]; [reflexivity|]. rewrite IH. reflexivity. Qed.

(* an edit by index list: element k of the result is element (nth k idxs) of the source;
   covers every permutation, deletion and duplication *)
Definition select {A} (idxs : list nat) (l : list A) : list A :=
  flat_map (fun i => match nth_error l i with Some x => [x] | None => [] end) idxs.

Lemma select_map {A B} (f : A -> B) idxs (l : list A) : map f (select idxs l) = select idxs (map f l).
Proof.
  unfold select. induction idxs as [|i r IH]; cbn [flat_map]; [reflexivity|].
  rewrite map_app, IH, nth_error_map. destruct (nth_error l i); reflexivity.
Qed.

Lemma flat_map_concat_map' {A B} (f : A -> list B) l : flat_map f l = List.concat (map f l).
Proof. induction l as [|x r IH]; cbn; [reflexivity|]. rewrite IH. reflexivity. Qed.

Theorem edit_commutes_with_rendering tbl managed pkg idxs (l : list tree) :
  kid_acts (Many (map (build tbl managed pkg) (select idxs l))) =
  List.concat (select idxs (map (flatten tbl managed pkg) l)).
Proof. rewrite list_segments, flat_map_concat_map', select_map. reflexivity. Qed.

(* moving an element into another list: its segment does not depend on the list it is in *)
Theorem segment_depends_on_subtree_only tbl managed pkg (before after before' after' : list tree) (x : tree) :
  exists seg,
    kid_acts (Many (map (build tbl managed pkg) (before ++ x :: after))) =
      flat_map (flatten tbl managed pkg) before ++ seg ++ flat_map (flatten tbl managed pkg) after /\
    kid_acts (Many (map (build tbl managed pkg) (before' ++ x :: after'))) =
      flat_map (flatten tbl managed pkg) before' ++ seg ++ flat_map (flatten tbl managed pkg) after'.
Proof.
  exists (flatten tbl managed pkg x). rewrite !list_segments, !flat_map_app. cbn [flat_map]. split; reflexivity.
Qed.
