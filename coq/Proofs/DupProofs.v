(* Duplicate detection in the restorer state machine (C06). *)
From Coq Require Import List String ZArith NArith Bool Lia.
Import ListNotations.
From DV Require Import Model.Tree Model.Tables Model.Restore Proofs.RestoreProofs.
Local Open Scope list_scope.

Lemma add_lines_seen (nls : list Z) : forall s, seen (fold_left (fun s off => add_line s (cursor s - base s + off)%Z) nls s) = seen s
  /\ panic (fold_left (fun s off => add_line s (cursor s - base s + off)%Z) nls s) = panic s.
Proof. induction nls as [|o r IH]; intros s; cbn; [auto|]. destruct (IH (add_line s (cursor s - base s + o)%Z)) as [A B]. rewrite A, B. auto. Qed.

Lemma add_to_group_some gs id c gs' : add_to_group gs id c = Some gs' -> True.
Proof. auto. Qed.

Lemma dec_step_seen id kind isend st d :
  seen (fst (dec_step id kind isend st d)) = seen (fst st) /\ panic (fst (dec_step id kind isend st d)) = panic (fst st).
Proof.
  destruct st as [s fl]. unfold dec_step.
  set (s1 := if isend && (atnl s =? cursor s)%Z then set_cursor s (cursor s + 1) else s).
  assert (H1 : seen s1 = seen s /\ panic s1 = panic s) by (subst s1; destruct (isend && (atnl s =? cursor s)%Z); auto).
  set (s2 := match d with DBlock _ nls _ => fold_left (fun s off => add_line s (cursor s - base s + off)%Z) nls s1 | _ => s1 end).
  assert (H2 : seen s2 = seen s /\ panic s2 = panic s).
  { subst s2. destruct d; try exact H1. destruct (add_lines_seen nls s1) as [A B]. rewrite A, B. exact H1. }
  destruct H2 as [H2a H2b].
  destruct d as [|l u|l nls u|l u]; cbn [fst].
  - cbn. auto.
  - unfold add_field_comment. destruct (fl && isend && has_comment_field kind);
      [destruct (add_to_group (comments s2) id (cursor s2, l, u))|]; cbn; auto.
  - unfold add_field_comment. destruct (fl && isend && has_comment_field kind);
      [destruct (add_to_group (comments s2) id (cursor s2, l, u))|]; cbn; auto.
  - cbn. auto.
Qed.

Lemma fold_decs_seen id kind isend ds : forall st,
  seen (fst (fold_left (dec_step id kind isend) ds st)) = seen (fst st) /\
  panic (fst (fold_left (dec_step id kind isend) ds st)) = panic (fst st).
Proof.
  induction ds as [|d r IH]; intros st; cbn; [auto|].
  destruct (IH (dec_step id kind isend st d)) as [A B]. destruct (dec_step_seen id kind isend st d) as [C D].
  rewrite A, B, C, D. auto.
Qed.

Lemma apply_decs_seen s id kind name isend ds :
  seen (apply_decs s id kind name isend ds) = seen s /\ panic (apply_decs s id kind name isend ds) = panic s.
Proof.
  unfold apply_decs. destruct (fold_decs_seen id kind isend ds (s, true)) as [A B]. cbn [fst] in A, B.
  destruct (String.eqb kind "File" && String.eqb name "Start"); cbn; auto.
Qed.

Lemma apply_space_seen s isbad after sp :
  seen (apply_space s isbad after sp) = seen s /\ panic (apply_space s isbad after sp) = panic s.
Proof.
  unfold apply_space.
  destruct (Z.leb _ 0); [auto|]. destruct (Z.eqb _ 1); cbn; auto.
Qed.

Lemma rstep_seen_mono s a x : In x (seen s) -> In x (seen (rstep s a)).
Proof.
  intros H. unfold rstep. destruct (panic s); [exact H|].
  destruct a; cbn; auto.
  - destruct (existsb (N.eqb id) (seen s)); cbn; auto.
  - destruct (apply_space_seen s isbad after s0) as [A _]. rewrite A. exact H.
  - destruct (apply_decs_seen s id kind name isend ds) as [A _]. rewrite A. exact H.
  - destruct nls; [exact H|]. destruct (add_lines_seen (z :: nls) s) as [A _]. rewrite A. exact H.
Qed.

Lemma fold_seen_mono acts : forall s x, In x (seen s) -> In x (seen (fold_left rstep acts s)).
Proof. induction acts as [|a r IH]; intros s x H; cbn; [exact H|]. apply IH. apply rstep_seen_mono. exact H. Qed.

Lemma existsb_eqb_In id l : In id l -> existsb (N.eqb id) l = true.
Proof. intros H. apply existsb_exists. exists id. split; [exact H|apply N.eqb_refl]. Qed.

(* A node that is entered twice -- one dst node at two places of the tree -- makes the
   restorer panic, whatever else happens before, between and after. *)
Theorem dup_enter_panics b a1 a2 a3 id :
  panic (run_acts b (a1 ++ AEnter id :: a2 ++ AEnter id :: a3)) <> None.
Proof.
  unfold run_acts. rewrite fold_left_app. cbn [fold_left].
  set (s1 := fold_left rstep a1 (init_r b)).
  rewrite fold_left_app. cbn [fold_left].
  set (s2 := rstep s1 (AEnter id)).
  assert (H2 : panic s2 <> None \/ In id (seen s2)).
  { subst s2. unfold rstep. destruct (panic s1) eqn:E; [left; rewrite E; discriminate|].
    destruct (existsb (N.eqb id) (seen s1)); cbn; [left; rewrite E; discriminate|right; left; reflexivity]. }
  set (s3 := fold_left rstep a2 s2).
  assert (H3 : panic s3 <> None \/ In id (seen s3)).
  { destruct H2 as [H2|H2].
    - left. subst s3. destruct (panic s2) eqn:E; [|congruence]. rewrite (panic_sticky a2 s2 s E). discriminate.
    - right. apply fold_seen_mono. exact H2. }
  assert (H4 : panic (rstep s3 (AEnter id)) <> None).
  { unfold rstep. destruct (panic s3) eqn:E; [rewrite E; discriminate|].
    destruct H3 as [H3|H3]; [congruence|]. rewrite (existsb_eqb_In id _ H3). cbn. rewrite E. discriminate. }
  destruct (panic (rstep s3 (AEnter id))) eqn:E; [|congruence].
  rewrite (panic_sticky a3 _ s E). discriminate.
Qed.

(* Conversely the duplicate panic needs a duplicate: with pairwise distinct entered nodes and
   no other panic site reached, the run does not panic. *)
Lemma NoDup_app_parts {A} (l1 l2 : list A) : NoDup (l1 ++ l2) -> NoDup l2 /\ (forall x, In x l1 -> ~ In x l2).
Proof.
  induction l1 as [|a l1 IH]; cbn; intros H; [split; [exact H|intros x []]|].
  inversion H as [|? ? Hn Hd]; subst. destruct (IH Hd) as [HA HB]. split; [exact HA|].
  intros x [<-|Hx] Hin; [apply Hn; apply in_or_app; right; exact Hin|apply (HB x Hx Hin)].
Qed.

Definition entered (a : action) : list N :=
  match a with AEnter id | AMapAt id => [id] | _ => [] end.

Definition is_panic_act (a : action) : bool := match a with APanic _ => true | _ => false end.

Theorem nodup_no_panic acts : forall s,
  panic s = None -> existsb is_panic_act acts = false ->
  NoDup (flat_map entered acts) -> (forall x, In x (seen s) -> ~ In x (flat_map entered acts)) ->
  panic (fold_left rstep acts s) = None.
Proof.
  induction acts as [|a r IH]; intros s Hp Hn Hd Hs; cbn; [exact Hp|].
  cbn in Hn. apply orb_false_iff in Hn. destruct Hn as [Hn1 Hn2].
  cbn [flat_map] in Hd, Hs.
  apply IH; try exact Hn2.
  - unfold rstep. rewrite Hp. destruct a; cbn; try reflexivity; try exact Hp; try discriminate.
    + destruct (existsb (N.eqb id) (seen s)) eqn:E; cbn; [|reflexivity].
      apply existsb_exists in E. destruct E as [y [Hy Hey]]. apply N.eqb_eq in Hey. subst y.
      exfalso. apply (Hs id Hy). left. reflexivity.
    + destruct (apply_space_seen s isbad after s0) as [_ B]. rewrite B. exact Hp.
    + destruct (apply_decs_seen s id kind name isend ds) as [_ B]. rewrite B. exact Hp.
    + destruct nls; [exact Hp|]. destruct (add_lines_seen (z :: nls) s) as [_ B]. rewrite B. exact Hp.
  - apply NoDup_app_parts in Hd. tauto.
  - intros x Hx Hin.
    unfold rstep in Hx. rewrite Hp in Hx.
    assert (Hcase : In x (seen s) \/ In x (entered a)).
    { destruct a; cbn in Hx |- *; auto.
      - destruct (existsb (N.eqb id) (seen s)); cbn in Hx; [auto|]. destruct Hx as [<-|Hx]; auto.
      - destruct Hx as [<-|Hx]; auto.
      - destruct (apply_space_seen s isbad after s0) as [A _]. rewrite A in Hx. auto.
      - destruct (apply_decs_seen s id kind name isend ds) as [A _]. rewrite A in Hx. auto.
      - destruct nls; [auto|]. destruct (add_lines_seen (z :: nls) s) as [A _]. rewrite A in Hx. auto. }
    destruct Hcase as [Hc|Hc].
    + apply (Hs x Hc). apply in_or_app. right. exact Hin.
    + clear - Hd Hc Hin. apply NoDup_app_parts in Hd. destruct Hd as [_ Hd]. apply (Hd x Hc Hin).
Qed.
