(* Induction principle for the nested tree type, and generic lookup lemmas. *)
From Coq Require Import List String ZArith NArith Bool Lia.
Import ListNotations.
From DV Require Import Model.Tree Model.Tables.
Local Open Scope string_scope.
Local Open Scope list_scope.

Definition kid_all (P : tree -> Prop) (k : kid tree) : Prop :=
  match k with One (Some c) => P c | One None => True | Many l => Forall P l end.

Section TreeInd.
  Variable P : tree -> Prop.
  Hypothesis H : forall id k vals kids decs b a,
      Forall (fun p => kid_all P (snd p)) kids -> P (Node id k vals kids decs b a).

  Fixpoint tree_ind' (t : tree) : P t :=
    match t with
    | Node id k vals kids decs b a =>
      H id k vals kids decs b a
        ((fix go (ks : list (string * kid tree)) : Forall (fun p => kid_all P (snd p)) ks :=
            match ks with
            | [] => Forall_nil _
            | p :: rest =>
              Forall_cons p
                (match snd p as kk return kid_all P kk with
                 | One (Some c) => tree_ind' c
                 | One None => I
                 | Many l =>
                   (fix gol (l : list tree) : Forall P l :=
                      match l with
                      | [] => Forall_nil _
                      | c :: r => Forall_cons c (tree_ind' c) (gol r)
                      end) l
                 end)
                (go rest)
            end) kids)
    end.
End TreeInd.

Lemma string_eqb_eq a b : String.eqb a b = true <-> a = b.
Proof. apply String.eqb_eq. Qed.

Lemma mem_string_In x l : mem_string x l = true <-> In x l.
Proof.
  induction l as [|y r IH]; cbn; [split; [discriminate|tauto]|].
  rewrite orb_true_iff, IH, String.eqb_eq. split; intros [A|A]; auto.
Qed.

Lemma nodup_string_NoDup l : nodup_string l = true -> NoDup l.
Proof.
  induction l as [|x r IH]; cbn; intros H; [constructor|].
  apply andb_true_iff in H. destruct H as [H1 H2]. constructor; [|auto].
  intros Hin. apply mem_string_In in Hin. rewrite Hin in H1. discriminate.
Qed.

Lemma lookup_app_notin {A} (pre suf : list (string * A)) k :
  ~ In k (map fst pre) -> lookup (pre ++ suf) k = lookup suf k.
Proof.
  induction pre as [|[k' v] pre IH]; cbn; intros Hn; [reflexivity|].
  destruct (String.eqb_spec k k') as [->|Hne]; [exfalso; apply Hn; left; reflexivity|].
  apply IH. intros Hin. apply Hn. right. exact Hin.
Qed.

(* parts aligned with an association list: looking each key up gives the paired entry *)
Lemma flat_map_lookup_aligned {P A B} (key : P -> string) (h : P -> option A -> list B)
      (parts : list P) (rs : list (string * A)) :
  NoDup (map key parts) -> map key parts = map fst rs ->
  forall pre, (forall k, In k (map fst pre) -> ~ In k (map key parts)) ->
  flat_map (fun w => h w (lookup (pre ++ rs) (key w))) parts =
  flat_map (fun wp => h (fst wp) (Some (snd (snd wp)))) (combine parts rs).
Proof.
  revert rs. induction parts as [|w parts IH]; intros rs Hnd Hmap pre Hpre.
  - reflexivity.
  - destruct rs as [|[k v] rs]; [discriminate|]. cbn in Hmap.
    assert (Hk : key w = k) by congruence.
    assert (Hrest : map key parts = map fst rs) by congruence.
    cbn [flat_map combine fst snd]. f_equal.
    + rewrite lookup_app_notin.
      * cbn. rewrite Hk. rewrite String.eqb_refl. reflexivity.
      * intros Hin. apply (Hpre _ Hin). left. reflexivity.
    + inversion Hnd as [|? ? Hnotin Hnd']; subst.
      replace (pre ++ (key w, v) :: rs) with ((pre ++ [(key w, v)]) ++ rs) by (rewrite <- app_assoc; reflexivity).
      apply IH; [exact Hnd'|exact Hrest|].
      intros k0 Hin. rewrite map_app in Hin. apply in_app_or in Hin. destruct Hin as [Hin|Hin].
      * intros Hin2. apply (Hpre _ Hin). right. exact Hin2.
      * cbn in Hin. destruct Hin as [<-|[]]. exact Hnotin.
Qed.

Lemma all2_length {A B} (p : A -> B -> bool) a b : all2 p a b = true -> List.length a = List.length b.
Proof.
  revert b. induction a as [|x a IH]; intros [|y b] H; cbn in *; try discriminate; auto.
  apply andb_true_iff in H. destruct H. f_equal. auto.
Qed.

Lemma all2_Forall2 {A B} (p : A -> B -> bool) a b : all2 p a b = true -> Forall2 (fun x y => p x y = true) a b.
Proof.
  revert b. induction a as [|x a IH]; intros [|y b] H; cbn in *; try discriminate; [constructor|].
  apply andb_true_iff in H. destruct H. constructor; auto.
Qed.
